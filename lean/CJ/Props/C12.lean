import CJ.Lemmas.Registrar
import CJ.Gen.C12Wrapper
/-!
# C12 — what the registrar tells the client is what it tells the stations, unforgeably

Property theorems only, about `registerBidirectional` (`CJ/Model/Registrar.lean`), for every request,
every registrar configuration, every answer of the selector / transports / override, and every random draw.

The way `processC2SWrapper` assembles the forwarded wrapper is not written down here: it is the value
`CJ.Gen.c12Wrapper`, regenerated from the source text on every run (go/ast).  Every theorem below is about
the model instantiated with that value and goes through `wrapper_rebuilt_field_by_field`, the obligation
that the regenerated facts describe a wrapper rebuilt field by field from an empty message.
-/
namespace CJ.Props.C12
open CJ.Registrar

/-- the facts about `processC2SWrapper` extracted from the code on this run -/
abbrev W : WrapperFacts := CJ.Gen.c12Wrapper

/-- **Obligation on the regenerated facts**: the forwarded wrapper does not start from the client's
RegRespBytes / RegRespSignature, no assignment computes a value from them, the wrapper is not handed to
anything else, the response, secret and payload are always set, and the signed copy has its two assignments. -/
theorem wrapper_rebuilt_field_by_field : W.discardsClientFields = true := by decide

/-- **The client's view is the forwarded view.** The response returned to the client (phantom addresses,
destination port, transport parameters) is the response carried by the wrapper published to the stations;
on an authenticated registrar RegRespBytes / RegRespSignature are the registrar's own over that same
response, on an unauthenticated registrar both are absent; the secret and the payload are the client's. -/
theorem client_view_eq_forwarded (cfg : Cfg) (req : Req) (ext : Ext) (m : Nat) (a : Option String) (c : Resp) (f : Fwd)
    (h : registerBidirectional W cfg req ext m a = .ok c f) :
    f.resp = some c ∧
    (cfg.authenticated = true → f.respBytes = .registrar c ∧ f.respSig = .registrar c ∧ f.signed = some c) ∧
    (cfg.authenticated = false → f.respBytes = .absent ∧ f.respSig = .absent ∧ f.signed = none) ∧
    f.secretKept = true ∧ f.payloadKept = true := by
  obtain ⟨hf, hbd, rfl, hr, hb, hs, hsec, hpay⟩ := register_ok wrapper_rebuilt_field_by_field h
  have hal := final_aliased hbd
  rw [hal] at hr hb hs
  simp only [Option.map_some] at hr hb hs
  refine ⟨hr, ?_, ?_, hsec, hpay⟩
  · intro ha; simp [Fwd.signed, hb, hs, signedBy, ha]
  · intro ha; simp [Fwd.signed, hb, hs, signedBy, ha]

/-- the port is always decided by the registrar -/
theorem port_always_set (cfg : Cfg) (req : Req) (ext : Ext) (m : Nat) (a : Option String) (c : Resp) (f : Fwd)
    (h : registerBidirectional W cfg req ext m a = .ok c f) : c.port.isSome = true := by
  obtain ⟨hf, hbd, rfl, _⟩ := register_ok wrapper_rebuilt_field_by_field h
  obtain ⟨h0, _, hpre, hsr⟩ := processBdReq_cases hbd
  cases hsr with
  | same => exact hpre.port
  | minSub s ip hs hw hr ht hx =>
    have := hpre.port
    rcases h0 with ⟨o0, o1, rp, wp⟩
    cases rp <;> simpa [Heap.updR, Heap.upd, Heap.get] using this
  | pfxSub s ip id pre fl hs hw hr ht hd hp hx => simp [Heap.get]

/-- **A station ingesting the forwarded message ends up with the same phantom, port and parameters** as
the client.  `stationApply` is `NewRegistrationC2SWrapper` for one address family (`v6`); `dC` / `dR` are
what the station derives on its own with the client's / the response's parameters and `src` is the kind of
the registrant's address — all arbitrary.  Whenever the station builds a registration, its phantom of that
family is the one the client was told (IPv4: if non-zero, the station reads 0 as absent), the port is the
client's (as a 16-bit number) and the parameters are the ones the client ends up using. -/
theorem station_ends_with_same (cfg : Cfg) (req : Req) (ext : Ext) (m : Nat) (a : Option String) (c : Resp) (f : Fwd)
    (h : registerBidirectional W cfg req ext m a = .ok c f)
    (v6 : Bool) (dC dR : Derived) (src : IPKind) (ph : Addr) (port : Nat) (ps : Option Params)
    (hst : stationApply v6 req.disable req.params dC dR src f.resp = .ok ph port ps) :
    (v6 = false → ∀ x, c.v4 = some x → x ≠ 0 → ph = .v4 x) ∧
    (v6 = true → ∀ x, c.v6 = some x → ph = .raw x) ∧
    (∀ p, c.port = some p → port = p % 65536) ∧
    ps = clientParams req c := by
  obtain ⟨hfwd, _⟩ := client_view_eq_forwarded cfg req ext m a c f h
  rw [hfwd] at hst
  exact stationApply_ok hst

/-- … and the port is never left to the station's own derivation -/
theorem station_port_is_registrars (cfg : Cfg) (req : Req) (ext : Ext) (m : Nat) (a : Option String) (c : Resp) (f : Fwd)
    (h : registerBidirectional W cfg req ext m a = .ok c f)
    (v6 : Bool) (dC dR : Derived) (src : IPKind) (ph : Addr) (port : Nat) (ps : Option Params)
    (hst : stationApply v6 req.disable req.params dC dR src f.resp = .ok ph port ps) :
    ∃ p, c.port = some p ∧ port = p % 65536 := by
  have hp := port_always_set cfg req ext m a c f h
  cases hc : c.port with
  | none => simp [hc] at hp
  | some p => exact ⟨p, rfl, (station_ends_with_same cfg req ext m a c f h v6 dC dR src ph port ps hst).2.2.1 p hc⟩

/-- **The station does not refuse what the registrar forwards**: if the station can build the registration
on its own (selector, parameters, port: `stationDerived … ≠ fail`), the registrant's address is an IP
address, the IPv4 registration is only built for an IPv4 registrant (`parseRegMessage`) and the IPv6 phantom
the client was told is an IPv6 address, then applying the forwarded response never makes it fail. -/
theorem station_accepts_forwarded (cfg : Cfg) (req : Req) (ext : Ext) (m : Nat) (a : Option String) (c : Resp) (f : Fwd)
    (h : registerBidirectional W cfg req ext m a = .ok c f)
    (v6 : Bool) (dC dR : Derived) (src : IPKind)
    (hder : stationDerived req.disable dC dR f.resp ≠ .fail)
    (hsrc : src ≠ .invalid) (h4 : v6 = false → src = .v4)
    (h6 : v6 = true → ∃ x, c.v6 = some x ∧ ipKind x = .v6) :
    ∃ ph port ps, stationApply v6 req.disable req.params dC dR src f.resp = .ok ph port ps := by
  obtain ⟨hfwd, _⟩ := client_view_eq_forwarded cfg req ext m a c f h
  rw [hfwd] at hder ⊢
  exact stationApply_accepts hder hsrc h4 h6

/-- The statement one would like instead — *"whatever the station accepts without the registrar's response
it accepts with it"*, with the station's derivation from the **client's** parameters (`dC`) as the only
premise — is false: the parameters the registrar attaches replace the client's before the station parses
them, and the station's transport can refuse them although it accepted the client's (`dR = fail`).  On the
code this happens for a Prefix registration of a client library version below 3 without parameters
(recorded finding `C12:station-rejects-forwarded:client-version-cannot-support-transport`, replayed against
the Go code on every run by the harness); `station_accepts_forwarded` is the part that holds. -/
def station_accepts_forwarded_full : Prop :=
  ∀ (cfg : Cfg) (req : Req) (ext : Ext) (m : Nat) (a : Option String) (c : Resp) (f : Fwd),
    registerBidirectional W cfg req ext m a = .ok c f →
    ∀ (v6 : Bool) (dC dR : Derived) (src : IPKind), dC ≠ .fail → src ≠ .invalid → (v6 = false → src = .v4) →
      (v6 = true → ∃ x, c.v6 = some x ∧ ipKind x = .v6) →
      ∃ ph port ps, stationApply v6 req.disable req.params dC dR src f.resp = .ok ph port ps

/-- the witness: an unauthenticated registrar with a fixed prefix override, a Prefix registration without
parameters on a phantom without random-port support -/
def cfgR : Cfg :=
  { authenticated := false, hasOverrides := true, enforce := false, pctMin := 0, pctPrefix := 0,
    minSubnets := [], prefixSubnets := [], exclusions := [] }
def reqR : Req :=
  { hasPayload := true, secretLen := 32, v4 := true, v6 := false, transport := 4, disable := false, params := none,
    source := 0, regAddr := none, forgedResp := none, forgedBytes := "", forgedSig := "" }
def extR : Ext :=
  { sel4 := .ok 3405803783 false, sel6 := .err, transportKnown := true, parseOk := true, ovSel := .fields 9 "5353482d" 1,
    unmarshal := some {}, port := none, pctDraw := 0, uNum := 0, uDen := 1, hostDraw := 0, sendOk := true }
def respR : Resp :=
  { v4 := some 3405803783, port := some 443,
    params := some (.pfx { prefixId := some 9, pbytes := some "5353482d", flush := some 1 }) }

theorem station_accepts_forwarded_full_refuted : ¬ station_accepts_forwarded_full := by
  intro h
  have hreg : registerBidirectional W cfgR reqR extR 4 none =
      .ok respR { source := 4, resp := some respR, secretKept := true, payloadKept := true } := by decide
  obtain ⟨ph, port, ps, hst⟩ := h cfgR reqR extR 4 none _ _ hreg false (.ok (.v4 3323068417) 443) .fail .v4
    (by decide) (by decide) (fun _ => rfl) (fun hv => by cases hv)
  have hrej : stationApply false reqR.disable reqR.params (.ok (.v4 3323068417) 443) .fail .v4
      ({ source := 4, resp := some respR, secretKept := true, payloadKept := true } : Fwd).resp = .reject "build" := by
    decide
  rw [hrej] at hst
  cases hst

/-- the full statement under exactly the excluded condition: the station's transport also accepts the
parameters the registrar attached, whenever the station applies them -/
theorem station_accepts_forwarded_partial (cfg : Cfg) (req : Req) (ext : Ext) (m : Nat) (a : Option String) (c : Resp) (f : Fwd)
    (h : registerBidirectional W cfg req ext m a = .ok c f)
    (v6 : Bool) (dC dR : Derived) (src : IPKind) (hC : dC ≠ .fail)
    (hR : stationUsesRespParams req.disable f.resp = true → dR ≠ .fail)
    (hsrc : src ≠ .invalid) (h4 : v6 = false → src = .v4)
    (h6 : v6 = true → ∃ x, c.v6 = some x ∧ ipKind x = .v6) :
    ∃ ph port ps, stationApply v6 req.disable req.params dC dR src f.resp = .ok ph port ps := by
  refine station_accepts_forwarded cfg req ext m a c f h v6 dC dR src ?_ hsrc h4 h6
  unfold stationDerived
  split
  · rename_i hu; exact hR hu
  · exact hC

/-- what the wrapper stage makes of a request does not depend on the client's response / signature fields -/
theorem wrapper_ignores_forged (cfg : Cfg) (req : Req) (cresp : Option Resp) (m : Nat) (a : Option String)
    (fr : Option Resp) (fb fs : String) :
    processC2SWrapper W cfg { req with forgedResp := fr, forgedBytes := fb, forgedSig := fs } cresp m a =
      processC2SWrapper W cfg { req with forgedResp := none, forgedBytes := "", forgedSig := "" } cresp m a := by
  obtain ⟨_, hb, hs, _⟩ := discards_iff wrapper_rebuilt_field_by_field
  unfold processC2SWrapper wrapperStart
  simp only [hb, hs]
  rfl

/-- **Forged fields are discarded**: a registration response, serialized response or signature supplied
by the client has no influence on what is returned or forwarded.  (The bytes and the signature are not
discarded by every way of assembling the wrapper: see the counterexample for a wrapper that starts as a
copy of the client's, at the end of this file.) -/
theorem forged_fields_discarded (cfg : Cfg) (req : Req) (ext : Ext) (m : Nat) (a : Option String)
    (fr : Option Resp) (fb fs : String) :
    registerBidirectional W cfg { req with forgedResp := fr, forgedBytes := fb, forgedSig := fs } ext m a =
      registerBidirectional W cfg { req with forgedResp := none, forgedBytes := "", forgedSig := "" } ext m a := by
  unfold registerBidirectional
  simp only
  have hb : processBdReq cfg { req with forgedResp := none, forgedBytes := fb, forgedSig := fs } ext =
      processBdReq cfg { req with forgedResp := none, forgedBytes := "", forgedSig := "" } ext := rfl
  rw [hb]
  split
  · rfl
  · rfl
  · rename_i hh _
    have := wrapper_ignores_forged cfg req (Option.map hh.get hh.wp) m a none fb fs
    rw [this]

/-- … in particular nothing of a forged signed response reaches the stations from an unauthenticated registrar -/
theorem unauthenticated_never_signs (cfg : Cfg) (req : Req) (ext : Ext) (m : Nat) (a : Option String) (c : Resp) (f : Fwd)
    (hauth : cfg.authenticated = false) (h : registerBidirectional W cfg req ext m a = .ok c f) :
    f.respBytes = .absent ∧ f.respSig = .absent :=
  let ⟨hb, hs, _⟩ := (client_view_eq_forwarded cfg req ext m a c f h).2.2.1 hauth
  ⟨hb, hs⟩

/-- a unidirectional registration forwards no response and no signed copy, whatever the client supplied -/
theorem unidirectional_forwards_no_response (cfg : Cfg) (req : Req) (m : Nat) (a : Option String) (ok : Bool) (f : Fwd)
    (h : registerUnidirectional W cfg req m a ok = some f) :
    f.resp = none ∧ f.respBytes = .absent ∧ f.respSig = .absent := by
  unfold registerUnidirectional at h
  split at h
  · cases h
  · rename_i fw hfw
    split at h
    · cases h
      obtain ⟨h1, h2, h3, _⟩ := wrapper_ok wrapper_rebuilt_field_by_field hfw
      refine ⟨h1, ?_, ?_⟩
      · rw [h2]; cases cfg.authenticated <;> simp [signedBy]
      · rw [h3]; cases cfg.authenticated <;> simp [signedBy]
    · cases h

/-- **Overrides of transport parameters only if allowed**: when the client has disabled registrar
overrides the response carries no transport parameters, so client and station keep the client's own. -/
theorem overrides_only_if_allowed (cfg : Cfg) (req : Req) (ext : Ext) (m : Nat) (a : Option String) (c : Resp) (f : Fwd)
    (hdis : req.disable = true) (h : registerBidirectional W cfg req ext m a = .ok c f) :
    c.params = none ∧ clientParams req c = req.params ∧
      ∀ v6 dC dR src ph port ps, stationApply v6 req.disable req.params dC dR src f.resp = .ok ph port ps →
        ps = req.params := by
  obtain ⟨hf, hbd, rfl, _⟩ := register_ok wrapper_rebuilt_field_by_field h
  have hnone : (hf.get hf.rp).params = none := by
    obtain ⟨h0, _, hpre, hsr⟩ := processBdReq_cases hbd
    have hp := hpre.noParams hdis
    cases hsr with
    | same => exact hp
    | minSub s ip hs hw hr ht hx =>
      rcases h0 with ⟨o0, o1, rp, wp⟩
      cases rp <;> simpa [Heap.updR, Heap.upd, Heap.get] using hp
    | pfxSub s ip id pre fl hs hw hr ht hd hp' hx => simp [hdis] at hd
  refine ⟨hnone, by simp [clientParams, hnone], ?_⟩
  intro v6 dC dR src ph port ps hst
  have := (station_ends_with_same cfg req ext m a _ f h v6 dC dR src ph port ps hst).2.2.2
  rw [this]; simp [clientParams, hnone]

/-- the override subnets configured for the transport of the request -/
def subnetsFor (cfg : Cfg) (req : Req) : List Subnet :=
  if req.transport = 1 then cfg.minSubnets else if req.transport = 4 then cfg.prefixSubnets else []

/-- **A substituted phantom comes from a configured override subnet of that transport** (one with a
non-zero weight): whenever the IPv4 phantom in the response is not the one the selector gave, it lies
inside such a subnet. -/
theorem substitute_in_configured_subnet (cfg : Cfg) (req : Req) (ext : Ext) (m : Nat) (a : Option String) (c : Resp) (f : Fwd)
    (hwf : ∀ s ∈ cfg.minSubnets ++ cfg.prefixSubnets, s.wf)
    (h : registerBidirectional W cfg req ext m a = .ok c f) (hne : c.v4 ≠ selected4 req ext) :
    ∃ x s, c.v4 = some x ∧ s ∈ subnetsFor cfg req ∧ 0 < s.weight ∧ s.contains x = true := by
  obtain ⟨hf, hbd, rfl, _⟩ := register_ok wrapper_rebuilt_field_by_field h
  obtain ⟨h0, _, hpre, hsr⟩ := processBdReq_cases hbd
  have hsel : selected4 { req with forgedResp := none } ext = selected4 req ext := rfl
  rw [hsel] at hpre
  cases hsr with
  | same => exact absurd hpre.v4 hne
  | minSub s ip hs hw hr ht hx =>
    refine ⟨ip, s, ?_, ?_, hw, randAddr_contains (hwf s (List.mem_append_left _ hs)) hr⟩
    · rcases h0 with ⟨o0, o1, rp, wp⟩
      cases rp <;> simp [Heap.updR, Heap.upd, Heap.get]
    · simp only at ht; simp [subnetsFor, ht, hs]
  | pfxSub s ip id pre fl hs hw hr ht hd hp hx =>
    refine ⟨ip, s, by simp [Heap.get], ?_, hw, randAddr_contains (hwf s (List.mem_append_right _ hs)) hr⟩
    simp only at ht; simp [subnetsFor, ht, hs]

/-- **An exclusion entry protects whatever else it says**: the turn of the exclusion loop for an entry is the
containment test of the entry's network — for every transport label, weight, port and prefix id the entry
carries and for every transport of the registration.  (An exclusion that looked at its own label, e.g.
skipped a `Min_Transport` entry for a Prefix registration, is a different function: this theorem and
`excluded_never_replaced` below are not provable for it.) -/
theorem exclusion_applies_whatever_the_entry_says (e : Subnet) (t a : Nat) :
    e.excludes t a = e.contains a ∧
    ∀ (l : TLabel) (w p : Nat) (px : Option (Int × String × Int)) (t' : Nat),
      ({ e with label := l, weight := w, port := p, pfx := px } : Subnet).excludes t' a = e.excludes t a := by
  refine ⟨rfl, ?_⟩
  intro l w p px t'
  rfl

/-- **A phantom in an excluded subnet is never replaced** — by an entry `e` of the exclusion list with any
transport label (unset, the registration's own transport, another transport, no transport at all), any weight,
port and prefix id, for a registration of any transport: only `e`'s network is a hypothesis. -/
theorem excluded_never_replaced (cfg : Cfg) (req : Req) (ext : Ext) (m : Nat) (a : Option String) (c : Resp) (f : Fwd)
    (h : registerBidirectional W cfg req ext m a = .ok c f) (x : Nat) (hsel : selected4 req ext = some x)
    (e : Subnet) (he : e ∈ cfg.exclusions) (hin : e.contains x = true) : c.v4 = some x := by
  obtain ⟨hf, hbd, rfl, _⟩ := register_ok wrapper_rebuilt_field_by_field h
  obtain ⟨h0, _, hpre, hsr⟩ := processBdReq_cases hbd
  have hsel' : selected4 { req with forgedResp := none } ext = selected4 req ext := rfl
  rw [hsel', hsel] at hpre
  have hexc : excluded cfg ({ req with forgedResp := none } : Req).transport (h0.get h0.rp).v4 = true := by
    rw [hpre.v4]
    unfold excluded
    rw [List.any_eq_true]
    exact ⟨e, he, hin⟩
  cases hsr with
  | same => exact hpre.v4
  | minSub s ip hs hw hr ht hx => rw [hexc] at hx; cases hx
  | pfxSub s ip id pre fl hs hw hr ht hd hp hx => rw [hexc] at hx; cases hx

/-- **Every weighted subnet is reachable**: for each subnet with a non-zero weight there is a draw
`u = a / b ∈ [0, 1)` for which the weighted choice returns it … -/
theorem every_weighted_subnet_reachable (ws : List Nat) (i : Nat) (hi : i < ws.length) (hpos : 0 < ws[i]) :
    ∃ a b, a < b ∧ choose ws a b = some i :=
  choose_reachable ws i hi hpos

/-- … and only subnets with a non-zero weight are ever chosen. -/
theorem only_weighted_subnets_chosen (ws : List Nat) (a b i : Nat) (h : choose ws a b = some i) :
    ∃ hi : i < ws.length, 0 < ws[i] :=
  choose_some h

/-- Reachability through the whole registration: a Min registration on a registrar that overrides all
Min registrations, with a non-excluded phantom — for every IPv4 override subnet with a non-zero weight there
are draws for which the client (and, by `client_view_eq_forwarded`, the stations) get a phantom inside it. -/
theorem every_weighted_subnet_used (cfg : Cfg) (req : Req) (ext : Ext) (m : Nat) (a : Option String)
    (henf : cfg.enforce = true) (hpct : ext.pctDraw < cfg.pctMin) (ht : req.transport = 1)
    (c0 : Resp) (f0 : Fwd) (h0 : registerBidirectional W cfg req ext m a = .ok c0 f0)
    (hnx : excluded cfg req.transport (selected4 req ext) = false)
    (i : Nat) (s : Subnet) (hs : cfg.minSubnets[i]? = some s) (hw : 0 < s.weight) (hv4 : s.isV4 = true) (hwf : s.wf) :
    ∃ uNum uDen c f, uNum < uDen ∧
      registerBidirectional W cfg req { ext with uNum := uNum, uDen := uDen } m a = .ok c f ∧
      ∃ x, c.v4 = some x ∧ s.contains x = true := by
  have hi : i < (cfg.minSubnets.map (·.weight)).length := by
    have := (List.getElem?_eq_some_iff.mp hs).1; simpa using this
  have hwi : 0 < (cfg.minSubnets.map (·.weight))[i] := by
    have := (List.getElem?_eq_some_iff.mp hs).2
    simp only [List.getElem_map]; rw [this]; exact hw
  obtain ⟨uN, uD, hlt, hch⟩ := choose_reachable _ i hi hwi
  obtain ⟨hf, hbd, _⟩ := register_ok wrapper_rebuilt_field_by_field h0
  obtain ⟨hh, hps, hpre, rfl⟩ := processBdReq_ok hbd
  have hsel : selected4 { req with forgedResp := none } ext = selected4 req ext := rfl
  rw [hsel] at hpre
  obtain ⟨ip, hip⟩ : ∃ ip, randAddr s ext.hostDraw = some ip := by simp [randAddr, hv4]
  -- the draw `u` is read only by the subnet override: everything before it is unchanged
  have hps' : preStage cfg { req with forgedResp := none } { ext with uNum := uN, uDen := uD } = .ok hh := hps
  have hexc : excluded cfg req.transport (hh.get hh.rp).v4 = false := by rw [hpre.v4]; exact hnx
  rw [ht] at hexc
  have hsub : subnetOverride cfg { req with forgedResp := none } { ext with uNum := uN, uDen := uD } hh =
      hh.updR fun r => { r with v4 := some ip } := by
    unfold subnetOverride
    simp [henf, hexc, ht, hpct, hch, hs, hip]
  have hbd' : processBdReq cfg { req with forgedResp := none } { ext with uNum := uN, uDen := uD } =
      .ok (hh.updR fun r => { r with v4 := some ip }) := by
    unfold processBdReq; rw [hps']; simp only; rw [hsub]
  -- the wrapper stage does not read the draws either
  obtain ⟨f, hreg⟩ := register_with_heap (ext' := { ext with uNum := uN, uDen := uD }) h0 rfl hbd'
  refine ⟨uN, uD, _, f, hlt, hreg, ip, ?_, randAddr_contains hwf hip⟩
  rcases hh with ⟨o0, o1, rp, wp⟩
  cases rp <;> simp [Heap.updR, Heap.upd, Heap.get]

/-- The same for the Prefix transport (its selection loop is separate code): a Prefix registration that
allows overrides, on a registrar that overrides all Prefix registrations, with a non-excluded phantom — for
every IPv4 override subnet with a non-zero weight and a known prefix there are draws for which the client
(and the stations) get a phantom inside it, together with that subnet's port and prefix. -/
theorem every_weighted_prefix_subnet_used (cfg : Cfg) (req : Req) (ext : Ext) (m : Nat) (a : Option String)
    (henf : cfg.enforce = true) (hpct : ext.pctDraw < cfg.pctPrefix) (ht : req.transport = 4)
    (hdis : req.disable = false)
    (c0 : Resp) (f0 : Fwd) (h0 : registerBidirectional W cfg req ext m a = .ok c0 f0)
    (hnx : excluded cfg req.transport (selected4 req ext) = false)
    (i : Nat) (s : Subnet) (hs : cfg.prefixSubnets[i]? = some s) (hw : 0 < s.weight) (hv4 : s.isV4 = true) (hwf : s.wf)
    (id : Int) (pre : String) (fl : Int) (hpfx : s.pfx = some (id, pre, fl)) :
    ∃ uNum uDen c f, uNum < uDen ∧
      registerBidirectional W cfg req { ext with uNum := uNum, uDen := uDen } m a = .ok c f ∧
      (∃ x, c.v4 = some x ∧ s.contains x = true) ∧ c.port = some s.port ∧
      c.params = some (.pfx { prefixId := some id, flush := some fl, pbytes := some pre }) := by
  have hi : i < (cfg.prefixSubnets.map (·.weight)).length := by
    have := (List.getElem?_eq_some_iff.mp hs).1; simpa using this
  have hwi : 0 < (cfg.prefixSubnets.map (·.weight))[i] := by
    have := (List.getElem?_eq_some_iff.mp hs).2
    simp only [List.getElem_map]; rw [this]; exact hw
  obtain ⟨uN, uD, hlt, hch⟩ := choose_reachable _ i hi hwi
  obtain ⟨hf, hbd, _⟩ := register_ok wrapper_rebuilt_field_by_field h0
  obtain ⟨hh, hps, hpre, rfl⟩ := processBdReq_ok hbd
  have hsel : selected4 { req with forgedResp := none } ext = selected4 req ext := rfl
  rw [hsel] at hpre
  obtain ⟨ip, hip⟩ : ∃ ip, randAddr s ext.hostDraw = some ip := by simp [randAddr, hv4]
  have hps' : preStage cfg { req with forgedResp := none } { ext with uNum := uN, uDen := uD } = .ok hh := hps
  have hexc : excluded cfg req.transport (hh.get hh.rp).v4 = false := by rw [hpre.v4]; exact hnx
  rw [ht] at hexc
  have hsub : subnetOverride cfg { req with forgedResp := none } { ext with uNum := uN, uDen := uD } hh =
      { hh with
        o1 := { (hh.get hh.rp) with port := some s.port,
                                    params := some (.pfx { prefixId := some id, flush := some fl, pbytes := some pre }),
                                    v4 := some ip },
        rp := true, wp := some true } := by
    unfold subnetOverride
    simp [henf, hexc, ht, hdis, hpct, hch, hs, hip, hpfx]
  have hbd' : processBdReq cfg { req with forgedResp := none } { ext with uNum := uN, uDen := uD } =
      .ok { hh with
        o1 := { (hh.get hh.rp) with port := some s.port,
                                    params := some (.pfx { prefixId := some id, flush := some fl, pbytes := some pre }),
                                    v4 := some ip },
        rp := true, wp := some true } := by
    unfold processBdReq; rw [hps']; simp only; rw [hsub]
  obtain ⟨f, hreg⟩ := register_with_heap (ext' := { ext with uNum := uN, uDen := uD }) h0 rfl hbd'
  refine ⟨uN, uD, _, f, hlt, hreg, ⟨ip, ?_, randAddr_contains hwf hip⟩, ?_, ?_⟩ <;> simp [Heap.get]

/-! ### non-vacuity: concrete registrations that satisfy the hypotheses -/

def cfg0 : Cfg :=
  { authenticated := true, hasOverrides := false, enforce := true, pctMin := 10000, pctPrefix := 10000,
    minSubnets := [⟨true, 167837952, 24, 1, 443, none, .named 1⟩, ⟨true, 167903488, 24, 0, 80, none, .named 1⟩, ⟨true, 167969024, 24, 2, 22, none, .named 1⟩],
    prefixSubnets := [], exclusions := [⟨true, 3325256704, 24, 0, 0, none, .unset⟩] }
def req0 : Req :=
  { hasPayload := true, secretLen := 32, v4 := true, v6 := true, transport := 1, disable := false, params := none,
    source := 0, regAddr := none, forgedResp := some { v4 := some 101058054, port := some 70000 },
    forgedBytes := "forged", forgedSig := "sig" }
def ext0 : Ext :=
  { sel4 := .ok 3405803783 true, sel6 := .ok "20010db8007700000000000000000001" true, transportKnown := true, parseOk := true,
    ovSel := .nothing, unmarshal := some {}, port := some 443, pctDraw := 17, uNum := 1, uDen := 2, hostDraw := 77, sendOk := true }

-- a successful, substituted, signed registration: u = 1/2 falls into the third subnet (weights 1, 0, 2)
def resp0 : Resp := { v4 := some (167969024 + 77), v6 := some "20010db8007700000000000000000001", port := some 443 }
example : registerBidirectional W cfg0 req0 ext0 4 (some "c6336407") =
    .ok resp0 { source := 4, addr := some "c6336407", resp := some resp0, respBytes := .registrar resp0,
                respSig := .registrar resp0, secretKept := true, payloadKept := true } := by
  decide
-- `forged_fields_discarded` is a fact about the code, not about every way of assembling the wrapper: a
-- wrapper that starts as a copy of the client's forwards the forged bytes and signature from an
-- unauthenticated registrar (RegRespBytes / RegRespSignature are only overwritten when the registrar signs)
def wCopy : WrapperFacts := { W with base := .derived "proto.Clone(c2sPayload).(*pb.C2SWrapper)" }
example : wCopy.discardsClientFields = false := by decide
example : (match registerBidirectional wCopy { cfg0 with authenticated := false } req0 ext0 4 none with
    | .ok _ f => (f.respBytes, f.respSig) | _ => (.absent, .absent)) = (.client "forged", .client "sig") := by decide
example : registerBidirectional wCopy { cfg0 with authenticated := false } req0 ext0 4 none ≠
    registerBidirectional wCopy { cfg0 with authenticated := false }
      { req0 with forgedResp := none, forgedBytes := "", forgedSig := "" } ext0 4 none := by decide
-- the station's rule on the forwarded response: IPv4 registration of an IPv4 registrant; the station's own
-- derivation (198.18.0.1:1234) is overridden in address and port
example : stationApply false req0.disable req0.params (.ok (.v4 3323068417) 1234) .fail .v4 (some resp0) =
    .ok (.v4 (167969024 + 77)) 443 none := by decide
-- … and what makes it refuse: an IPv6 phantom that is an IPv4-mapped address, a registrant that is no address
example : stationApply true false none (.ok (.raw "20010db8010000000000000000000009") 443) .fail .v4
    (some { resp0 with v6 := some "00000000000000000000ffff0a000001" }) = .reject "override" := by decide +kernel
example : stationApply true false none (.ok (.raw "20010db8010000000000000000000009") 443) .fail .invalid (some resp0) =
    .reject "regaddr" := by decide +kernel
example : ipKind "20010db8007700000000000000000001" = .v6 ∧ stationDerived req0.disable (.ok (.v4 1) 443) .fail (some resp0) ≠ .fail := by
  decide +kernel
example : selected4 req0 ext0 = some 3405803783 ∧ excluded cfg0 req0.transport (selected4 req0 ext0) = false := by decide
example : ∀ s ∈ cfg0.minSubnets ++ cfg0.prefixSubnets, s.wf := by
  intro s hs
  simp [cfg0] at hs
  rcases hs with rfl | rfl | rfl <;> intro _ <;> decide
-- an excluded phantom (198.51.100.7 in 198.51.100.0/24) keeps its address
example : (match registerBidirectional W cfg0 req0 { ext0 with sel4 := .ok 3325256711 true } 4 none with
    | .ok c _ => c.v4 | _ => none) = some 3325256711 := by decide
-- … also when the entry is written as in the shipped reg_config.toml (weight 28.7 ≈ 230 eighths, port 80,
-- `transport = "Min_Transport"`) and the registration is a Prefix one, or the entry is labelled
-- `Prefix_Transport` / with a string that names no transport and the registration is a Min one
def cfgX (l : TLabel) : Cfg :=
  { cfg0 with exclusions := [⟨true, 3325256704, 24, 230, 80, none, l⟩],
              prefixSubnets := [⟨true, 167837952, 24, 1, 443, some (1, "", 0), .named 4⟩] }
def reqP : Req := { req0 with transport := 4, params := some (.pfx { prefixId := some 0 }) }
example : (match registerBidirectional W (cfgX (.named 1)) reqP { ext0 with sel4 := .ok 3325256711 true } 4 none with
    | .ok c _ => c.v4 | _ => none) = some 3325256711 := by decide
example : ∀ l ∈ [TLabel.unset, .named 1, .named 4, .named 2, .unknown],
    (match registerBidirectional W (cfgX l) req0 { ext0 with sel4 := .ok 3325256711 true } 4 none with
      | .ok c _ => c.v4 | _ => none) = some 3325256711 ∧
    (match registerBidirectional W (cfgX l) reqP { ext0 with sel4 := .ok 3325256711 true } 4 none with
      | .ok c _ => c.v4 | _ => none) = some 3325256711 := by decide
-- the same Prefix registration with a phantom outside the exclusion is moved into the Prefix override subnet
example : (match registerBidirectional W (cfgX (.named 1)) reqP ext0 4 none with
    | .ok c _ => c.v4 | _ => none) = some (167837952 + 77) := by decide
-- the weighted choice over (1, 0, 2): thirds of [0, 1)
example : choose [1, 0, 2] 0 3 = some 0 ∧ choose [1, 0, 2] 1 3 = some 2 ∧ choose [1, 0, 2] 2 3 = some 2 := by decide

end CJ.Props.C12
