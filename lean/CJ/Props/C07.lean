import CJ.Lemmas.Ingest
import CJ.Lemmas.Detector
/-!
# C07 — a registration becomes usable only when every admission condition holds

Property theorems only.  `ingestWire c s (.msg m o)` is one wire message through `parseRegMessage`
and `ingestRegistration` on a station with configuration `c` and registry `s`; `run c s ws` is any
sequence of messages.  `regOf c m o f` is the registration of address family `f` that the message
yields (if any).  Library verdicts (`Oracles`) are universally quantified; the only assumption about
them is the selector's contract `SelectorFam` (it returns an address of the requested family).
-/
namespace CJ.Props.C07
open CJ.Ingest
open CJ.Detector (Bytes)

def supportOf (m : Msg) : Fam → Bool
  | .v4 => m.v4Support
  | .v6 => m.v6Support

def enableOf (c : Cfg) : Fam → Bool
  | .v4 => c.enableV4
  | .v6 => c.enableV6

/-- **The admission conditions of the property**, for the registration of family `f` of a message:
an explicit conjunction over the message, the station configuration and the library verdicts. -/
def admitB (c : Cfg) (m : Msg) (o : Oracles) (f : Fam) : Bool :=
  m.payload                                        -- complete: the registration payload is there
  && supportOf m f                                 -- the client asked for this address family
  && enableOf c f                                  -- the family is enabled on the station
  && (f == .v6 || isV4 (registrantOf m))           -- an IPv4 registration needs an IPv4 registrant
  && c.transports.contains m.transport             -- names an enabled transport
  && o.paramsOk                                    -- complete: the transport parameters parse
  && overrideOkB m f                               -- a registrar override is an address of this family
  && validIP (registrantOf m)                      -- the registrant address is an address
  && o.geoOk
  && o.covertOk                                    -- the covert address passes the covert policy
  && (match selOf o f with                         -- known generation with subnets of this family
      | none => false
      | some (ph, rnd) =>
        (basePort m o rnd).isSome                  -- complete: the destination port is determined
        && (!isV4 ((overrideOf m f).getD ph) || isV4 (registrantOf m))      -- family consistent with the registrant
        && !blocklisted c ((overrideOf m f).getD ph)                         -- phantom not blocklisted
        && !(isV4 ((overrideOf m f).getD ph) && !m.prescanned && o.live))   -- IPv4, not pre-scanned: probe unanswered

/-- none of the registrations the message yields is tracked yet -/
def Fresh (c : Cfg) (m : Msg) (o : Oracles) (s : RSt) : Prop :=
  ∀ f r, regOf c m o f = some r → get s (keyOf r) = none

/-- the registration of family `f` became usable: it is returned for incoming connections
(`GetRegistrations`) and it was announced to the detector while this message was ingested -/
def admitted (c : Cfg) (s : RSt) (m : Msg) (o : Oracles) (f : Fam) : Prop :=
  ∃ r, regOf c m o f = some r ∧ connectable (ingestWire c s (.msg m o)).1 r = true ∧
    Ev.announce r ∈ (ingestWire c s (.msg m o)).2

/-! ### the two registrations of a message do not interfere -/

theorem ingestRegs_nil (c : Cfg) (o : Oracles) (s : RSt) : ingestRegs c o s [] = (s, []) := rfl

theorem ingestRegs_one (c : Cfg) (o : Oracles) (s : RSt) (r : Reg) :
    ingestRegs c o s [r] = ((ingestReg c o s r).1, (ingestReg c o s r).2) := by
  simp [ingestRegs]

theorem ingestRegs_two (c : Cfg) (o : Oracles) (s : RSt) (r4 r6 : Reg) :
    ingestRegs c o s [r4, r6] =
      ((ingestReg c o (ingestReg c o s r4).1 r6).1,
       (ingestReg c o s r4).2 ++ (ingestReg c o (ingestReg c o s r4).1 r6).2) := by
  simp [ingestRegs]

/-- what one message does to the entry of one of its registrations, and whether it announces it -/
theorem wire_effect (c : Cfg) (s : RSt) (m : Msg) (o : Oracles) (hsel : SelectorFam o) (f : Fam) (r : Reg)
    (hr : regOf c m o f = some r) :
    (validAt (ingestWire c s (.msg m o)).1 (keyOf r) ↔
      validAt s (keyOf r) ∨ (validate c r = .ok () ∧ get s (keyOf r) = none ∧ passes c o r = true)) ∧
    (Ev.announce r ∈ (ingestWire c s (.msg m o)).2 ↔
      validate c r = .ok () ∧ get s (keyOf r) = none ∧ passes c o r = true) := by
  rw [ingestWire_eq]
  cases f with
  | v4 =>
    rw [hr]
    cases h6 : regOf c m o .v6 with
    | none =>
      simp only [Option.toList_some, Option.toList_none, List.append_nil, ingestRegs_one]
      rw [validAt_ingestReg, announce_mem_ingestReg]
      simp
    | some r6 =>
      have hne := keys_ne hsel hr h6
      simp only [Option.toList_some, List.singleton_append, ingestRegs_two]
      rw [validAt_ingestReg, validAt_ingestReg, List.mem_append, announce_mem_ingestReg, announce_mem_ingestReg]
      constructor
      · constructor
        · rintro ((h | ⟨_, h⟩) | ⟨h, _⟩)
          · exact Or.inl h
          · exact Or.inr h
          · exact absurd h hne
        · rintro (h | h)
          · exact Or.inl (Or.inl h)
          · exact Or.inl (Or.inr ⟨rfl, h⟩)
      · constructor
        · rintro (⟨_, h⟩ | ⟨h, _⟩)
          · exact h
          · exact absurd h (announce_ne hne)
        · intro h; exact Or.inl ⟨rfl, h⟩
  | v6 =>
    rw [hr]
    cases h4 : regOf c m o .v4 with
    | none =>
      simp only [Option.toList_some, Option.toList_none, List.nil_append, ingestRegs_one]
      rw [validAt_ingestReg, announce_mem_ingestReg]
      simp
    | some r4 =>
      have hne := keys_ne hsel h4 hr
      simp only [Option.toList_some, List.singleton_append, ingestRegs_two]
      rw [validAt_ingestReg, validAt_ingestReg, List.mem_append, announce_mem_ingestReg, announce_mem_ingestReg,
        get_ingestReg_other c o s r4 (keyOf r) hne]
      constructor
      · constructor
        · rintro ((h | ⟨h, _⟩) | ⟨_, h⟩)
          · exact Or.inl h
          · exact absurd h.symm hne
          · exact Or.inr h
        · rintro (h | h)
          · exact Or.inl (Or.inl h)
          · exact Or.inr ⟨rfl, h⟩
      · constructor
        · rintro (⟨h, _⟩ | ⟨_, h⟩)
          · exact absurd h.symm (announce_ne hne)
          · exact h
        · intro h; exact Or.inr ⟨rfl, h⟩

/-! ### admitted ⇔ every condition holds -/

theorem admitted_iff_core (c : Cfg) (s : RSt) (m : Msg) (o : Oracles) (f : Fam)
    (hsel : SelectorFam o) (hfresh : Fresh c m o s) :
    admitted c s m o f ↔ ∃ r, regOf c m o f = some r ∧ validate c r = .ok () ∧ passes c o r = true := by
  unfold admitted
  constructor
  · rintro ⟨r, hr, _, ha⟩
    obtain ⟨hv, _, hp⟩ := (wire_effect c s m o hsel f r hr).2.mp ha
    exact ⟨r, hr, hv, hp⟩
  · rintro ⟨r, hr, hv, hp⟩
    have hn := hfresh f r hr
    refine ⟨r, hr, ?_, (wire_effect c s m o hsel f r hr).2.mpr ⟨hv, hn, hp⟩⟩
    rw [connectable_iff]
    exact (wire_effect c s m o hsel f r hr).1.mpr (Or.inr ⟨hv, hn, hp⟩)

theorem attempted_eq (c : Cfg) (m : Msg) (f : Fam) :
    attempted c m f = (m.payload && supportOf m f && enableOf c f && (f == .v6 || isV4 (registrantOf m))) := by
  cases f <;> simp [attempted, supportOf, enableOf] <;> rfl

theorem isEmpty_of_isV4 {ip : Bytes} (h : isV4 ip = true) : ip.isEmpty = false := by
  rcases isV4_len h with hl | hl <;> cases ip <;> simp_all

theorem isEmpty_of_len16 {ip : Bytes} (h : ip.length = 16) : ip.isEmpty = false := by
  cases ip <;> simp_all

theorem core_iff_admitB (c : Cfg) (m : Msg) (o : Oracles) (f : Fam) (hsel : SelectorFam o) :
    (∃ r, regOf c m o f = some r ∧ validate c r = .ok () ∧ passes c o r = true) ↔ admitB c m o f = true := by
  constructor
  · rintro ⟨r, hr, hv, hp⟩
    obtain ⟨hatt, hb⟩ := regOf_some hr
    obtain ⟨ph, rnd, p, hs, htr, hpar, hport, hov, hvr, hfam, hg, rfl⟩ := (buildFam_ok_iff c m o f r).mp hb
    obtain ⟨_, _, hbl⟩ := (validate_ok_iff c _).mp hv
    rw [attempted_eq] at hatt
    unfold passes needProbe at hp
    unfold mkReg at hp hbl
    simp only [Bool.and_eq_true, Bool.not_eq_true', Bool.and_eq_false_imp, decide_eq_true_eq] at hp
    obtain ⟨⟨hcov, hlive⟩, hdet⟩ := hp
    have hnb : blocklisted c ((overrideOf m f).getD ph) = false := by
      rcases hbl with hd | hb'
      · exact hdet hd
      · exact hb'
    unfold admitB
    rw [hs]
    simp only [hatt, htr, hpar, hov, hvr, hg, hcov, hport, hnb, Bool.true_and, Option.isSome_some, Bool.not_false,
      Bool.and_true]
    cases h4 : isV4 ((overrideOf m f).getD ph)
    · simp
    · simp only [hfam h4, Bool.not_true, Bool.true_and]
      cases hps : m.prescanned
      · simp only [Bool.not_false, Bool.true_and]
        have := hlive ⟨hps, h4⟩
        simp [this]
      · simp
  · intro h
    unfold admitB at h
    cases hs : selOf o f with
    | none => rw [hs] at h; simp at h
    | some pr =>
      obtain ⟨ph, rnd⟩ := pr
      rw [hs] at h
      simp only [Bool.and_eq_true, Bool.or_eq_true, Bool.not_eq_true', Bool.and_eq_false_imp, Option.isSome_iff_exists] at h
      obtain ⟨⟨⟨⟨⟨⟨⟨⟨⟨⟨hpay, hsup⟩, hen⟩, hreg4⟩, htr⟩, hpar⟩, hov⟩, hvr⟩, hg⟩, hcov⟩, ⟨⟨⟨p, hport⟩, hfam⟩, hnb⟩, hlive⟩ := h
      have hatt : attempted c m f = true := by
        rw [attempted_eq]; simp only [hpay, hsup, hen, Bool.true_and]
        rcases hreg4 with h | h
        · rw [h]; rfl
        · rw [h]; simp
      have hfam' : isV4 ((overrideOf m f).getD ph) = true → isV4 (registrantOf m) = true := by
        intro h4; rcases hfam with h | h
        · rw [h4] at h; cases h
        · exact h
      have hb : buildFam c m o f = .ok (mkReg m o ((overrideOf m f).getD ph) (finalPort m p)) :=
        (buildFam_ok_iff c m o f _).mpr ⟨ph, rnd, p, hs, htr, hpar, hport, hov, hvr, hfam', hg, rfl⟩
      refine ⟨_, by unfold regOf; rw [hatt, hb]; rfl, ?_, ?_⟩
      · rw [validate_ok_iff]
        refine ⟨?_, htr, Or.inr hnb⟩
        have hp := buildFam_phantom hsel hb
        cases f with
        | v4 => exact isEmpty_of_isV4 (hp.1 rfl)
        | v6 => exact isEmpty_of_len16 (hp.2 rfl).1
      · unfold passes needProbe mkReg
        simp only [hcov, hnb, Bool.and_false, Bool.not_false, Bool.and_true, Bool.true_and]
        cases hps : m.prescanned
        · cases h4 : isV4 ((overrideOf m f).getD ph)
          · simp
          · simp [hlive ⟨h4, hps⟩]
        · simp

/-- **C07, the iff.**  On a station with configuration `c`, for a message none of whose registrations
is tracked yet, and whatever the libraries answer: the registration of family `f` is returned for
incoming connections and announced to the detector **iff** every admission condition holds. -/
theorem admitted_iff (c : Cfg) (s : RSt) (m : Msg) (o : Oracles) (f : Fam)
    (hsel : SelectorFam o) (hfresh : Fresh c m o s) :
    admitted c s m o f ↔ admitB c m o f = true := by
  rw [admitted_iff_core c s m o f hsel hfresh, core_iff_admitB c m o f hsel]

/-! ### each condition is necessary -/

/-- the conjunction `admitB`, condition by condition -/
structure Conditions (c : Cfg) (m : Msg) (o : Oracles) (f : Fam) : Prop where
  payload : m.payload = true
  supported : supportOf m f = true
  familyEnabled : enableOf c f = true
  v4NeedsV4Registrant : f = .v4 → isV4 (registrantOf m) = true
  transportEnabled : c.transports.contains m.transport = true
  paramsParse : o.paramsOk = true
  overrideOfFamily : overrideOkB m f = true
  registrantWellFormed : validIP (registrantOf m) = true
  geo : o.geoOk = true
  covertAllowed : o.covertOk = true
  /-- known generation with subnets of the family; port determined; and for the phantom it yields … -/
  selected : ∃ ph rnd, selOf o f = some (ph, rnd) ∧ (basePort m o rnd).isSome = true ∧
    (isV4 ((overrideOf m f).getD ph) = true → isV4 (registrantOf m) = true) ∧
    blocklisted c ((overrideOf m f).getD ph) = false ∧
    (isV4 ((overrideOf m f).getD ph) = true → m.prescanned = false → o.live = false)

theorem admitB_iff_conditions (c : Cfg) (m : Msg) (o : Oracles) (f : Fam) :
    admitB c m o f = true ↔ Conditions c m o f := by
  unfold admitB
  constructor
  · intro h
    cases hs : selOf o f with
    | none => rw [hs] at h; simp at h
    | some pr =>
      obtain ⟨ph, rnd⟩ := pr
      rw [hs] at h
      simp only [Bool.and_eq_true, Bool.or_eq_true, Bool.not_eq_true', Bool.and_eq_false_imp, beq_iff_eq] at h
      obtain ⟨⟨⟨⟨⟨⟨⟨⟨⟨⟨hpay, hsup⟩, hen⟩, hreg4⟩, htr⟩, hpar⟩, hov⟩, hvr⟩, hg⟩, hcov⟩, ⟨⟨hport, hfam⟩, hnb⟩, hlive⟩ := h
      refine ⟨hpay, hsup, hen, ?_, htr, hpar, hov, hvr, hg, hcov, ph, rnd, hs, hport, ?_, hnb, ?_⟩
      · intro hf; rcases hreg4 with h | h
        · rw [hf] at h; cases h
        · exact h
      · intro h4; rcases hfam with h | h
        · rw [h4] at h; cases h
        · exact h
      · intro h4 hps; exact hlive ⟨h4, hps⟩
  · rintro ⟨hpay, hsup, hen, hreg4, htr, hpar, hov, hvr, hg, hcov, ph, rnd, hs, hport, hfam, hnb, hlive⟩
    rw [hs]
    simp only [hpay, hsup, hen, htr, hpar, hov, hvr, hg, hcov, hport, hnb, Bool.true_and, Bool.not_false, Bool.and_true]
    have h1 : (f == Fam.v6 || isV4 (registrantOf m)) = true := by
      cases f with
      | v4 => rw [hreg4 rfl]; rfl
      | v6 => rfl
    rw [h1]
    cases h4 : isV4 ((overrideOf m f).getD ph)
    · simp
    · cases hps : m.prescanned
      · simp [hfam h4, hlive h4 hps]
      · simp [hfam h4]

/-- **admitted ⇒ every condition** (no assumption on the registry: an announcement is only ever made
for a registration that passes all of them) -/
theorem necessary (c : Cfg) (s : RSt) (m : Msg) (o : Oracles) (f : Fam) (hsel : SelectorFam o)
    (h : admitted c s m o f) : Conditions c m o f := by
  obtain ⟨r, hr, _, ha⟩ := h
  obtain ⟨hv, _, hp⟩ := (wire_effect c s m o hsel f r hr).2.mp ha
  exact (admitB_iff_conditions c m o f).mp ((core_iff_admitB c m o f hsel).mp ⟨r, hr, hv, hp⟩)

/-- the iff, with the conditions spelled out -/
theorem admitted_iff_conditions (c : Cfg) (s : RSt) (m : Msg) (o : Oracles) (f : Fam)
    (hsel : SelectorFam o) (hfresh : Fresh c m o s) : admitted c s m o f ↔ Conditions c m o f := by
  rw [admitted_iff c s m o f hsel hfresh, admitB_iff_conditions]

section flips
variable (c : Cfg) (s : RSt) (m : Msg) (o : Oracles) (f : Fam) (hsel : SelectorFam o)
include hsel

/-! Flipping a single condition to false prevents admission, whatever the other conditions are. -/

theorem flip_payload (h : m.payload = false) : ¬ admitted c s m o f :=
  fun ha => by have := (necessary c s m o f hsel ha).payload; rw [h] at this; cases this
theorem flip_supported (h : supportOf m f = false) : ¬ admitted c s m o f :=
  fun ha => by have := (necessary c s m o f hsel ha).supported; rw [h] at this; cases this
theorem flip_familyEnabled (h : enableOf c f = false) : ¬ admitted c s m o f :=
  fun ha => by have := (necessary c s m o f hsel ha).familyEnabled; rw [h] at this; cases this
theorem flip_v4Registrant (hf : f = .v4) (h : isV4 (registrantOf m) = false) : ¬ admitted c s m o f :=
  fun ha => by have := (necessary c s m o f hsel ha).v4NeedsV4Registrant hf; rw [h] at this; cases this
theorem flip_transport (h : c.transports.contains m.transport = false) : ¬ admitted c s m o f :=
  fun ha => by have := (necessary c s m o f hsel ha).transportEnabled; rw [h] at this; cases this
theorem flip_params (h : o.paramsOk = false) : ¬ admitted c s m o f :=
  fun ha => by have := (necessary c s m o f hsel ha).paramsParse; rw [h] at this; cases this
theorem flip_override (h : overrideOkB m f = false) : ¬ admitted c s m o f :=
  fun ha => by have := (necessary c s m o f hsel ha).overrideOfFamily; rw [h] at this; cases this
theorem flip_registrant (h : validIP (registrantOf m) = false) : ¬ admitted c s m o f :=
  fun ha => by have := (necessary c s m o f hsel ha).registrantWellFormed; rw [h] at this; cases this
theorem flip_geo (h : o.geoOk = false) : ¬ admitted c s m o f :=
  fun ha => by have := (necessary c s m o f hsel ha).geo; rw [h] at this; cases this
theorem flip_covert (h : o.covertOk = false) : ¬ admitted c s m o f :=
  fun ha => by have := (necessary c s m o f hsel ha).covertAllowed; rw [h] at this; cases this
/-- unknown generation, or no subnets of this family in it -/
theorem flip_generation (h : selOf o f = none) : ¬ admitted c s m o f :=
  fun ha => by obtain ⟨_, _, hs, _⟩ := (necessary c s m o f hsel ha).selected; rw [h] at hs; cases hs
theorem flip_blocklist (ph : Bytes) (rnd : Bool) (hs : selOf o f = some (ph, rnd))
    (h : blocklisted c ((overrideOf m f).getD ph) = true) : ¬ admitted c s m o f :=
  fun ha => by
    obtain ⟨ph', rnd', hs', _, _, hb, _⟩ := (necessary c s m o f hsel ha).selected
    rw [hs] at hs'; cases hs'; rw [h] at hb; cases hb
/-- (under `SelectorFam` this condition is subsumed by `flip_v4Registrant` / `flip_override`; the
selector-independent statement is `family_consistency_any_selector` below) -/
theorem flip_family_consistency (ph : Bytes) (rnd : Bool) (hs : selOf o f = some (ph, rnd))
    (h4 : isV4 ((overrideOf m f).getD ph) = true) (h : isV4 (registrantOf m) = false) : ¬ admitted c s m o f :=
  fun ha => by
    obtain ⟨ph', rnd', hs', _, hf, _, _⟩ := (necessary c s m o f hsel ha).selected
    rw [hs] at hs'; cases hs'; rw [hf h4] at h; cases h
theorem flip_liveness (ph : Bytes) (rnd : Bool) (hs : selOf o f = some (ph, rnd))
    (h4 : isV4 ((overrideOf m f).getD ph) = true) (hps : m.prescanned = false) (h : o.live = true) :
    ¬ admitted c s m o f :=
  fun ha => by
    obtain ⟨ph', rnd', hs', _, _, _, hl⟩ := (necessary c s m o f hsel ha).selected
    rw [hs] at hs'; cases hs'; rw [hl h4 hps] at h; cases h

end flips

/-- **Family consistency does not rest on the selector.**  `flip_family_consistency` above is stated under
`SelectorFam`, where its hypotheses already contradict `flip_v4Registrant` / `flip_override` (the selector
and a valid override hand out an address of the requested family).  The check exists in the code for
selectors that do *not* keep that contract ("IPv6 client chose IPv4 phantom": a legacy selection that
answers an IPv6 request from a set without IPv6 subnets).  For **any** selector answer: no registration
is built — hence none is tracked, probed, shared or announced — with an IPv4 phantom for a registrant
that is not an IPv4 address. -/
theorem family_consistency_any_selector (c : Cfg) (m : Msg) (o : Oracles) (f : Fam) (r : Reg)
    (h : buildFam c m o f = .ok r) (h4 : isV4 r.phantom = true) : isV4 r.registrant = true := by
  obtain ⟨ph, rnd, p, _, _, _, _, _, _, hfam, _, rfl⟩ := (buildFam_ok_iff c m o f r).mp h
  exact hfam h4

/-- … and it can be the only failing condition: a selector that answers the IPv6 request with an IPv4
address, everything else as in the admitted base case -/
theorem family_consistency_only_failing (c : Cfg) (m : Msg) (o : Oracles) (ph : Bytes) (rnd : Bool)
    (hs : o.sel6 = some (ph, rnd)) (hov : overrideOf m .v6 = none) (h4 : isV4 ph = true)
    (hreg : isV4 (registrantOf m) = false) : ∀ r, buildFam c m o .v6 ≠ .ok r := by
  intro r h
  obtain ⟨ph', rnd', p, hs', _, _, _, _, _, hfam, _, _⟩ := (buildFam_ok_iff c m o .v6 r).mp h
  simp only [selOf] at hs'
  rw [hs] at hs'; cases hs'
  rw [hov] at hfam
  simp only [Option.getD_none] at hfam
  rw [hfam h4] at hreg; cases hreg

/-! ### the registrar's transport-parameter override -/

/-- which parameters are in force: the registrar's iff the response carries some **and** the client did
not disable registrar overrides; everything else the libraries said is untouched -/
theorem registrar_params_in_force (m : Msg) (o : Oracles) (ro : RROracles) :
    (resolveOracles m o ro).paramsOk = (if paramsOverridden m then ro.paramsOk else o.paramsOk) ∧
    (resolveOracles m o ro).tpPort = (if paramsOverridden m then ro.tpPort else o.tpPort) ∧
    (resolveOracles m o ro).sel4 = o.sel4 ∧ (resolveOracles m o ro).sel6 = o.sel6 ∧
    (resolveOracles m o ro).geoOk = o.geoOk ∧ (resolveOracles m o ro).covertOk = o.covertOk ∧
    (resolveOracles m o ro).live = o.live ∧ (resolveOracles m o ro).proto = o.proto ∧
    (resolveOracles m o ro).ident = o.ident := by
  unfold resolveOracles
  cases paramsOverridden m <;> simp

/-- a client that disables registrar overrides keeps its own parameters, whatever the response carries -/
theorem disabled_overrides_keep_client_params (m : Msg) (o : Oracles) (ro : RROracles)
    (h : m.disableOverrides = true) : resolveOracles m o ro = o := by
  unfold resolveOracles paramsOverridden
  cases m.rr with
  | none => simp
  | some rr => simp [h]

theorem selectorFam_resolve (m : Msg) (o : Oracles) (ro : RROracles) (hsel : SelectorFam o) :
    SelectorFam (resolveOracles m o ro) := by
  obtain ⟨_, _, h4, h6, _⟩ := registrar_params_in_force m o ro
  exact ⟨fun ph rnd h => hsel.v4 ph rnd (by rw [← h4]; exact h), fun ph rnd h => hsel.v6 ph rnd (by rw [← h6]; exact h)⟩

/-- the iff with a registrar response that carries transport parameters: the conditions are evaluated on
the parameters in force -/
theorem admitted_iff_registrar_params (c : Cfg) (s : RSt) (m : Msg) (o : Oracles) (ro : RROracles) (f : Fam)
    (hsel : SelectorFam o) (hfresh : Fresh c m (resolveOracles m o ro) s) :
    admitted c s m (resolveOracles m o ro) f ↔ Conditions c m (resolveOracles m o ro) f :=
  admitted_iff_conditions c s m _ f (selectorFam_resolve m o ro hsel) hfresh

/-- registrar parameters that the transport cannot parse prevent admission of **both** families (the
override is applied to the payload both are built from), unless the client disabled overrides -/
theorem flip_registrar_params (c : Cfg) (s : RSt) (m : Msg) (o : Oracles) (ro : RROracles) (f : Fam)
    (hsel : SelectorFam o) (hov : paramsOverridden m = true) (h : ro.paramsOk = false) :
    ¬ admitted c s m (resolveOracles m o ro) f := by
  apply flip_params c s m _ f (selectorFam_resolve m o ro hsel)
  rw [(registrar_params_in_force m o ro).1, if_pos hov, h]

/-! ### in every other case: never connectable, never announced -/

/-- **Never visible otherwise** (any registry): when the conditions do not all hold, the registration
of family `f` is not announced, and it is not returned for connections unless it already was. -/
theorem never_visible_otherwise (c : Cfg) (s : RSt) (m : Msg) (o : Oracles) (f : Fam) (hsel : SelectorFam o)
    (hnot : admitB c m o f = false) (r : Reg) (hr : regOf c m o f = some r) (hnv : ¬ validAt s (keyOf r)) :
    connectable (ingestWire c s (.msg m o)).1 r = false ∧ Ev.announce r ∉ (ingestWire c s (.msg m o)).2 := by
  have hcore : ¬ (validate c r = .ok () ∧ get s (keyOf r) = none ∧ passes c o r = true) := by
    rintro ⟨hv, _, hp⟩
    have := (core_iff_admitB c m o f hsel).mp ⟨r, hr, hv, hp⟩
    rw [hnot] at this; cases this
  constructor
  · cases hc : connectable (ingestWire c s (.msg m o)).1 r
    · rfl
    · rcases (wire_effect c s m o hsel f r hr).1.mp ((connectable_iff _ r).mp hc) with h | h
      · exact absurd h hnv
      · exact absurd h hcore
  · intro ha
    exact hcore ((wire_effect c s m o hsel f r hr).2.mp ha)

/-- a tracked but not validated registration stays that way when its message is sent again (the
duplicate path neither probes nor validates), whatever the conditions say now -/
theorem duplicate_stays_invalid (c : Cfg) (s : RSt) (m : Msg) (o : Oracles) (f : Fam) (hsel : SelectorFam o)
    (r : Reg) (hr : regOf c m o f = some r) (e : CJ.Registry.Reg) (he : get s (keyOf r) = some e)
    (hinv : e.valid = false) :
    connectable (ingestWire c s (.msg m o)).1 r = false ∧ Ev.announce r ∉ (ingestWire c s (.msg m o)).2 := by
  have hnv : ¬ validAt s (keyOf r) := by
    rintro ⟨e', he', hv'⟩; rw [he] at he'; cases he'; rw [hinv] at hv'; cases hv'
  have hcore : ¬ (validate c r = .ok () ∧ get s (keyOf r) = none ∧ passes c o r = true) := by
    rintro ⟨_, hn, _⟩; rw [he] at hn; cases hn
  constructor
  · cases hc : connectable (ingestWire c s (.msg m o)).1 r
    · rfl
    · rcases (wire_effect c s m o hsel f r hr).1.mp ((connectable_iff _ r).mp hc) with h | h
      · exact absurd h hnv
      · exact absurd h hcore
  · intro ha
    exact hcore ((wire_effect c s m o hsel f r hr).2.mp ha)

/-- every event of a message is an event of one of its (at most two) registrations -/
theorem wire_events (c : Cfg) (s : RSt) (m : Msg) (o : Oracles) (e : Ev)
    (he : e ∈ (ingestWire c s (.msg m o)).2) :
    ∃ f r s', regOf c m o f = some r ∧ e ∈ (ingestReg c o s' r).2 ∧
      (∀ k, (∀ g r', regOf c m o g = some r' → keyOf r' ≠ k) → get s' k = get s k) ∧
      (f = .v4 → s' = s) := by
  rw [ingestWire_eq] at he
  cases h4 : regOf c m o .v4 with
  | none =>
    cases h6 : regOf c m o .v6 with
    | none => rw [h4, h6] at he; simp [ingestRegs] at he
    | some r6 =>
      rw [h4, h6] at he
      simp only [Option.toList_none, Option.toList_some, List.nil_append, ingestRegs_one] at he
      exact ⟨.v6, r6, s, h6, he, fun _ _ => rfl, fun h => by cases h⟩
  | some r4 =>
    cases h6 : regOf c m o .v6 with
    | none =>
      rw [h4, h6] at he
      simp only [Option.toList_none, Option.toList_some, List.append_nil, ingestRegs_one] at he
      exact ⟨.v4, r4, s, h4, he, fun _ _ => rfl, fun _ => rfl⟩
    | some r6 =>
      rw [h4, h6] at he
      simp only [Option.toList_some, List.singleton_append, ingestRegs_two, List.mem_append] at he
      rcases he with he | he
      · exact ⟨.v4, r4, s, h4, he, fun _ _ => rfl, fun _ => rfl⟩
      · refine ⟨.v6, r6, (ingestReg c o s r4).1, h6, he, ?_, fun h => by cases h⟩
        intro k hk
        exact get_ingestReg_other c o s r4 k (hk .v4 r4 h4)

/-- **Never announced otherwise** (any registry): whatever a message makes the station announce is a
registration of that message which satisfies every admission condition. -/
theorem announced_only_admitted (c : Cfg) (s : RSt) (m : Msg) (o : Oracles) (hsel : SelectorFam o) (r : Reg)
    (h : Ev.announce r ∈ (ingestWire c s (.msg m o)).2) :
    ∃ f, regOf c m o f = some r ∧ Conditions c m o f := by
  obtain ⟨f, r', s', hr, he, _, _⟩ := wire_events c s m o _ h
  obtain ⟨rfl, hv, _, hp⟩ := (announce_mem_ingestReg c o s' r r').mp he
  exact ⟨f, hr, (admitB_iff_conditions c m o f).mp ((core_iff_admitB c m o f hsel).mp ⟨r, hr, hv, hp⟩)⟩

/-- undecodable bytes and messages that yield no registration leave no trace -/
theorem no_registration_no_effect (c : Cfg) (s : RSt) :
    ingestWire c s .garbage = (s, []) ∧
    ∀ m o, regOf c m o .v4 = none → regOf c m o .v6 = none → ingestWire c s (.msg m o) = (s, []) := by
  refine ⟨rfl, ?_⟩
  intro m o h4 h6
  rw [ingestWire_eq, h4, h6]; rfl

/-! ### liveness probes -/

theorem probe_mem_evsOf (c : Cfg) (o : Oracles) (r : Reg) (ph : Bytes) (port : Nat) :
    Ev.probe ph port ∈ evsOf c o r ↔ o.covertOk = true ∧ needProbe r = true ∧ ph = r.phantom ∧ port = r.port := by
  unfold evsOf
  cases hcov : o.covertOk <;> cases hl : (needProbe r && o.live) <;>
    cases hb : (decide (r.source = srcDetector) && blocklisted c r.phantom) <;>
    simp [mem_probeEvs, mem_shareEvs]

/-- a probe is required for a message when its IPv4 registration passes validation, is not tracked
yet, has an acceptable covert address and was not pre-scanned by another station -/
def probeRequired (c : Cfg) (s : RSt) (m : Msg) (o : Oracles) (r : Reg) : Prop :=
  regOf c m o .v4 = some r ∧ validate c r = .ok () ∧ get s (keyOf r) = none ∧ o.covertOk = true ∧
    r.prescanned = false

/-- **A liveness probe is sent iff one is required**, and then for that registration's phantom and
port. (The IPv6 registration of a message is never probed.) -/
theorem probe_iff_required (c : Cfg) (s : RSt) (m : Msg) (o : Oracles) (hsel : SelectorFam o)
    (ph : Bytes) (port : Nat) :
    Ev.probe ph port ∈ (ingestWire c s (.msg m o)).2 ↔
      ∃ r, probeRequired c s m o r ∧ ph = r.phantom ∧ port = r.port := by
  constructor
  · intro h
    obtain ⟨f, r, s', hr, he, hs', hs4⟩ := wire_events c s m o _ h
    rw [evs_ingestReg] at he
    by_cases hcond : validate c r = .ok () ∧ get s' (keyOf r) = none
    · rw [if_pos hcond] at he
      obtain ⟨hcov, hnp, rfl, rfl⟩ := (probe_mem_evsOf c o r ph port).mp he
      unfold needProbe at hnp
      simp only [Bool.and_eq_true, Bool.not_eq_true'] at hnp
      have hp := buildFam_phantom hsel (regOf_some hr).2
      cases f with
      | v4 =>
        rw [hs4 rfl] at hcond
        exact ⟨r, ⟨hr, hcond.1, hcond.2, hcov, hnp.1⟩, rfl, rfl⟩
      | v6 => rw [(hp.2 rfl).2] at hnp; cases hnp.2
    · rw [if_neg hcond] at he; cases he
  · rintro ⟨r, ⟨hr, hv, hn, hcov, hps⟩, rfl, rfl⟩
    have h4 := (buildFam_phantom hsel (regOf_some hr).2).1 rfl
    have hmem : Ev.probe r.phantom r.port ∈ (ingestReg c o s r).2 := by
      rw [evs_ingestReg, if_pos ⟨hv, hn⟩, probe_mem_evsOf]
      exact ⟨hcov, by unfold needProbe; simp [hps, h4], rfl, rfl⟩
    rw [ingestWire_eq, hr]
    cases h6 : regOf c m o .v6 with
    | none => simpa [ingestRegs_one] using hmem
    | some r6 =>
      simp only [Option.toList_some, List.singleton_append, ingestRegs_two, List.mem_append]
      exact Or.inl hmem

/-! ### sharing with peer stations -/

theorem genShare_some {r : Reg} {sh : Shared} (h : genShare r = some sh) :
    sh = { reg := r, source := srcDetectorPrescan, prescanned := true } ∧
      (isV4 r.phantom = false → r.v4Support = false) := by
  unfold genShare at h
  cases h4 : isV4 r.phantom <;> cases hs : r.v4Support <;> simp [h4, hs] at h <;> simp [h]

theorem share_mem_evsOf (c : Cfg) (o : Oracles) (r : Reg) (sh : Shared) :
    Ev.share sh ∈ evsOf c o r ↔
      o.covertOk = true ∧ (needProbe r && o.live) = false ∧ r.source = srcDetector ∧ c.shareOverAPI = true ∧
        genShare r = some sh := by
  unfold evsOf
  cases hcov : o.covertOk <;> cases hl : (needProbe r && o.live) <;>
    cases hb : (decide (r.source = srcDetector) && blocklisted c r.phantom) <;>
    simp [mem_probeEvs, mem_shareEvs]

/-- the share request of one `ingestReg`: what it carries, and what came before it -/
theorem share_of_ingestReg (c : Cfg) (o : Oracles) (s : RSt) (r : Reg) (sh : Shared)
    (h : Ev.share sh ∈ (ingestReg c o s r).2) :
    sh = { reg := r, source := srcDetectorPrescan, prescanned := true } ∧
      r.source = srcDetector ∧ c.shareOverAPI = true ∧
      (isV4 r.phantom = false → r.v4Support = false) ∧
      (needProbe r = true → o.live = false ∧
        ∃ post, (ingestReg c o s r).2 = Ev.probe r.phantom r.port :: Ev.share sh :: post) := by
  rw [evs_ingestReg] at h ⊢
  by_cases hcond : validate c r = .ok () ∧ get s (keyOf r) = none
  · rw [if_pos hcond] at h ⊢
    obtain ⟨hcov, hl, hsrc, hshare, hg⟩ := (share_mem_evsOf c o r sh).mp h
    obtain ⟨hsh, hv6⟩ := genShare_some hg
    refine ⟨hsh, hsrc, hshare, hv6, ?_⟩
    intro hnp
    have hlive : o.live = false := by rw [hnp] at hl; simpa using hl
    refine ⟨hlive, ?_⟩
    unfold evsOf probeEvs shareEvs
    simp only [hcov, hnp, hlive, hsrc, hshare, hg, Bool.not_true, Bool.false_eq_true, if_false, Bool.and_false,
      if_true, decide_true, Bool.true_and, Bool.and_true]
    cases hb : blocklisted c r.phantom
    · exact ⟨[Ev.announce r], by simp⟩
    · exact ⟨[], by simp⟩
  · rw [if_neg hcond] at h; cases h

theorem run_cons (c : Cfg) (s : RSt) (w : Wire) (ws : List Wire) :
    run c s (w :: ws) =
      ((run c (ingestWire c s w).1 ws).1, (ingestWire c s w).2 ++ (run c (ingestWire c s w).1 ws).2) := rfl

theorem ingestRegs_cons (c : Cfg) (o : Oracles) (s : RSt) (r : Reg) (rs : List Reg) :
    ingestRegs c o s (r :: rs) =
      ((ingestRegs c o (ingestReg c o s r).1 rs).1,
       (ingestReg c o s r).2 ++ (ingestRegs c o (ingestReg c o s r).1 rs).2) := rfl

/-- every event of a list of registrations sits in the block of events of one `ingestReg` call -/
theorem regs_events_split (c : Cfg) (o : Oracles) (rs : List Reg) (s : RSt) (e : Ev)
    (he : e ∈ (ingestRegs c o s rs).2) :
    ∃ r s' pre post, e ∈ (ingestReg c o s' r).2 ∧
      (ingestRegs c o s rs).2 = pre ++ (ingestReg c o s' r).2 ++ post := by
  induction rs generalizing s with
  | nil => cases he
  | cons r rs ih =>
    rw [ingestRegs_cons] at he ⊢
    simp only [List.mem_append] at he
    rcases he with he | he
    · exact ⟨r, s, [], (ingestRegs c o (ingestReg c o s r).1 rs).2, he, by simp⟩
    · obtain ⟨r', s', pre, post, hm, hsplit⟩ := ih _ he
      exact ⟨r', s', (ingestReg c o s r).2 ++ pre, post, hm, by simp [hsplit]⟩

/-- … and so does every event of any run of messages -/
theorem run_events_split (c : Cfg) (ws : List Wire) (s : RSt) (e : Ev) (he : e ∈ (run c s ws).2) :
    ∃ o r s' pre post, e ∈ (ingestReg c o s' r).2 ∧ (run c s ws).2 = pre ++ (ingestReg c o s' r).2 ++ post := by
  induction ws generalizing s with
  | nil => cases he
  | cons w ws ih =>
    rw [run_cons] at he ⊢
    simp only [List.mem_append] at he
    rcases he with he | he
    · cases w with
      | garbage => cases he
      | msg m o =>
        unfold ingestWire at he ⊢
        cases hp : parse c (.msg m o) with
        | none => rw [hp] at he; cases he
        | some regs =>
          rw [hp] at he
          simp only at he ⊢
          obtain ⟨r, s', pre, post, hm, hsplit⟩ := regs_events_split c o regs s e he
          exact ⟨o, r, s', pre, post ++ (run c (ingestRegs c o s regs).1 ws).2, hm, by simp [hsplit]⟩
    · obtain ⟨o, r, s', pre, post, hm, hsplit⟩ := ih _ he
      exact ⟨o, r, s', (ingestWire c s w).2 ++ pre, post, hm, by simp [hsplit]⟩

/-- **Shared copies are marked pre-scanned** (source `DetectorPrescan`), and only registrations learned
from the local detector are shared, only when sharing is enabled — in any run of messages. -/
theorem share_marked_prescanned (c : Cfg) (s : RSt) (ws : List Wire) (sh : Shared)
    (h : Ev.share sh ∈ (run c s ws).2) :
    sh.prescanned = true ∧ sh.source = srcDetectorPrescan ∧ sh.reg.source = srcDetector ∧ c.shareOverAPI = true := by
  obtain ⟨o, r, s', _, _, hm, _⟩ := run_events_split c ws s _ h
  obtain ⟨rfl, hsrc, hshare, _, _⟩ := share_of_ingestReg c o s' r sh hm
  exact ⟨rfl, rfl, hsrc, hshare⟩

/-- **The IPv6 twin is not shared**: an IPv6 registration is passed on only when its client does not
support IPv4 (so there is no IPv4 twin that carries the share) — in any run of messages. -/
theorem v6_twin_not_shared (c : Cfg) (s : RSt) (ws : List Wire) (sh : Shared)
    (h : Ev.share sh ∈ (run c s ws).2) (h6 : isV4 sh.reg.phantom = false) : sh.reg.v4Support = false := by
  obtain ⟨o, r, s', _, _, hm, _⟩ := run_events_split c ws s _ h
  obtain ⟨rfl, _, _, hv6, _⟩ := share_of_ingestReg c o s' r sh hm
  exact hv6 h6

/-- **Shared only after passing the liveness probe**: in any run of messages, the share request of a
registration that needs a probe (IPv4 phantom, not pre-scanned) comes directly after the probe of its
phantom and port, and that probe was not answered. -/
theorem share_after_liveness (c : Cfg) (s : RSt) (ws : List Wire) (sh : Shared)
    (h : Ev.share sh ∈ (run c s ws).2) (hnp : needProbe sh.reg = true) :
    ∃ pre post, (run c s ws).2 = pre ++ Ev.probe sh.reg.phantom sh.reg.port :: Ev.share sh :: post := by
  obtain ⟨o, r, s', pre, post, hm, hsplit⟩ := run_events_split c ws s _ h
  obtain ⟨rfl, _, _, _, hl⟩ := share_of_ingestReg c o s' r sh hm
  obtain ⟨_, post', hevs⟩ := hl hnp
  exact ⟨pre, post' ++ post, by rw [hsplit, hevs]; simp⟩

/-- the verdict behind such a share: the probe said "not live" -/
theorem share_after_liveness_verdict (c : Cfg) (o : Oracles) (s : RSt) (r : Reg) (sh : Shared)
    (h : Ev.share sh ∈ (ingestReg c o s r).2) (hnp : needProbe r = true) : o.live = false :=
  ((share_of_ingestReg c o s r sh h).2.2.2.2 hnp).1

/-! ### at most once -/

/-- is the event a share request for the registration stored under key `k` -/
def isShareOf (k : CJ.Registry.Key) : Ev → Bool
  | .share sh => keyOf sh.reg == k
  | _ => false

/-- 0 once the key is tracked, 1 before: the number of share requests still possible for it -/
def budget (s : RSt) (k : CJ.Registry.Key) : Nat := if (get s k).isSome then 0 else 1

theorem count_evsOf (c : Cfg) (o : Oracles) (r : Reg) (k : CJ.Registry.Key) :
    (evsOf c o r).countP (isShareOf k) ≤ if keyOf r = k then 1 else 0 := by
  have hp : (probeEvs r).countP (isShareOf k) = 0 := by
    unfold probeEvs; cases needProbe r <;> simp [isShareOf]
  have hs : (shareEvs c r).countP (isShareOf k) ≤ if keyOf r = k then 1 else 0 := by
    unfold shareEvs
    cases hc : (decide (r.source = srcDetector) && c.shareOverAPI)
    · simp
    · cases hg : genShare r with
      | none => simp
      | some sh =>
        obtain ⟨rfl, _⟩ := genShare_some hg
        by_cases hk : keyOf r = k <;> simp [isShareOf, hk]
  unfold evsOf
  cases hcov : o.covertOk <;> cases hl : (needProbe r && o.live) <;>
    cases hb : (decide (r.source = srcDetector) && blocklisted c r.phantom) <;>
    simp [List.countP_append, hp, isShareOf] <;> exact hs

theorem budget_ingestReg (c : Cfg) (o : Oracles) (s : RSt) (r : Reg) (k : CJ.Registry.Key) :
    (ingestReg c o s r).2.countP (isShareOf k) + budget (ingestReg c o s r).1 k ≤ budget s k := by
  rcases validate_cases c r with hv | hv
  · rcases get_isSome_or_none s (keyOf r) with ⟨e, he⟩ | hn
    · obtain ⟨hevs, hget⟩ := ingestReg_dup c o s r e hv he
      rw [hevs]
      unfold budget
      rw [hget k]
      by_cases hk : keyOf r = k
      · subst hk; simp [he]
      · simp [hk]
    · obtain ⟨hevs, hget⟩ := ingestReg_fresh c o s r hv hn
      rw [hevs]
      have hc := count_evsOf c o r k
      unfold budget
      rw [hget k]
      by_cases hk : keyOf r = k
      · subst hk; rw [if_pos rfl] at hc ⊢; simp [hn]; exact hc
      · rw [if_neg hk] at hc ⊢; omega
  · rw [ingestReg_invalid c o s r hv]; simp

theorem budget_ingestRegs (c : Cfg) (o : Oracles) (rs : List Reg) (s : RSt) (k : CJ.Registry.Key) :
    (ingestRegs c o s rs).2.countP (isShareOf k) + budget (ingestRegs c o s rs).1 k ≤ budget s k := by
  induction rs generalizing s with
  | nil => simp [ingestRegs]
  | cons r rs ih =>
    rw [ingestRegs_cons]
    simp only [List.countP_append]
    have h1 := budget_ingestReg c o s r k
    have h2 := ih (ingestReg c o s r).1
    omega

theorem budget_ingestWire (c : Cfg) (s : RSt) (w : Wire) (k : CJ.Registry.Key) :
    (ingestWire c s w).2.countP (isShareOf k) + budget (ingestWire c s w).1 k ≤ budget s k := by
  cases w with
  | garbage => simp [ingestWire]
  | msg m o =>
    unfold ingestWire
    cases hp : parse c (.msg m o) with
    | none => simp
    | some regs => exact budget_ingestRegs c o regs s k

theorem budget_run (c : Cfg) (ws : List Wire) (s : RSt) (k : CJ.Registry.Key) :
    (run c s ws).2.countP (isShareOf k) + budget (run c s ws).1 k ≤ budget s k := by
  induction ws generalizing s with
  | nil => simp [run]
  | cons w ws ih =>
    rw [run_cons]
    simp only [List.countP_append]
    have h1 := budget_ingestWire c s w k
    have h2 := ih (ingestWire c s w).1
    omega

/-- **Shared at most once per client registration**: in any run of messages from any registry, at
most one share request is made for a registration (key), and none for one that is already tracked —
re-sent messages take the duplicate path, which returns before the share. -/
theorem share_at_most_once (c : Cfg) (s : RSt) (ws : List Wire) (k : CJ.Registry.Key) :
    (run c s ws).2.countP (isShareOf k) ≤ 1 ∧
      ((get s k).isSome = true → (run c s ws).2.countP (isShareOf k) = 0) := by
  have h := budget_run c ws s k
  constructor
  · have hb : budget s k ≤ 1 := by unfold budget; split <;> omega
    omega
  · intro ht
    have hb : budget s k = 0 := by unfold budget; rw [if_pos ht]
    omega

/-- **A re-sent registration has no effect**, whatever changed in the message: when the registration a
message yields is already tracked — a copy delivered again, or the same session registering again with
another covert address, other flags (pre-scanned set) or through another source (first seen by the local
detector, then shared by a peer) — it is not announced, no liveness probe is sent for an IPv4
registration, nothing is shared for it, and it is connectable afterwards iff it was before.  In
particular a registration that was dropped (live phantom, forbidden covert address, blocklisted phantom)
is not revived by a later message that would pass. -/
theorem resent_registration_no_effects (c : Cfg) (s : RSt) (m : Msg) (o : Oracles) (hsel : SelectorFam o) (f : Fam)
    (r : Reg) (hr : regOf c m o f = some r) (e : CJ.Registry.Reg) (he : get s (keyOf r) = some e) :
    Ev.announce r ∉ (ingestWire c s (.msg m o)).2 ∧
    (f = .v4 → ∀ ph port, Ev.probe ph port ∉ (ingestWire c s (.msg m o)).2) ∧
    (ingestWire c s (.msg m o)).2.countP (isShareOf (keyOf r)) = 0 ∧
    (connectable (ingestWire c s (.msg m o)).1 r = true ↔ connectable s r = true) := by
  have hcore : ¬ (validate c r = .ok () ∧ get s (keyOf r) = none ∧ passes c o r = true) := by
    rintro ⟨_, hn, _⟩; rw [he] at hn; cases hn
  refine ⟨fun ha => hcore ((wire_effect c s m o hsel f r hr).2.mp ha), ?_, ?_, ?_⟩
  · intro hf ph port hp
    subst hf
    obtain ⟨r', ⟨hr', _, hn, _, _⟩, _, _⟩ := (probe_iff_required c s m o hsel ph port).mp hp
    rw [hr] at hr'; cases hr'
    rw [he] at hn; cases hn
  · have h := budget_ingestWire c s (.msg m o) (keyOf r)
    have hb : budget s (keyOf r) = 0 := by unfold budget; rw [he]; rfl
    omega
  · rw [connectable_iff, connectable_iff]
    constructor
    · intro h
      rcases (wire_effect c s m o hsel f r hr).1.mp h with h | h
      · exact h
      · exact absurd h hcore
    · intro h; exact (wire_effect c s m o hsel f r hr).1.mpr (Or.inl h)

/-- … and a single message makes at most one share request in total (its IPv6 twin never shares when
there is an IPv4 twin) -/
theorem one_share_per_message (c : Cfg) (s : RSt) (m : Msg) (o : Oracles) (hsel : SelectorFam o)
    (sh sh' : Shared) (h : Ev.share sh ∈ (ingestWire c s (.msg m o)).2)
    (h' : Ev.share sh' ∈ (ingestWire c s (.msg m o)).2) : sh = sh' := by
  obtain ⟨f, r, s1, hr, he, _, _⟩ := wire_events c s m o _ h
  obtain ⟨f', r', s2, hr', he', _, _⟩ := wire_events c s m o _ h'
  obtain ⟨rfl, _, _, hv6, _⟩ := share_of_ingestReg c o s1 r sh he
  obtain ⟨rfl, _, _, hv6', _⟩ := share_of_ingestReg c o s2 r' sh' he'
  have hp := buildFam_phantom hsel (regOf_some hr).2
  have hp' := buildFam_phantom hsel (regOf_some hr').2
  have hsup : ∀ g x, regOf c m o g = some x → x.v4Support = m.v4Support := by
    intro g x hx
    obtain ⟨_, _, _, _, _, _, _, _, _, _, _, rfl⟩ := (buildFam_ok_iff c m o g x).mp (regOf_some hx).2
    rfl
  have hatt4 : ∀ x, regOf c m o .v4 = some x → m.v4Support = true := by
    intro x hx
    have := (regOf_some hx).1
    unfold attempted at this
    simp only [Bool.and_eq_true] at this
    exact this.1.1.2
  cases f <;> cases f'
  · rw [hr] at hr'; cases hr'; rfl
  · have := hv6' (hp'.2 rfl).2
    rw [hsup _ _ hr', hatt4 _ hr] at this; cases this
  · have := hv6 (hp.2 rfl).2
    rw [hsup _ _ hr, hatt4 _ hr'] at this; cases this
  · rw [hr] at hr'; cases hr'; rfl

/-! ### link to C10: what is admitted is announceable -/

/-- an admitted registration satisfies the announcement-relevant guarantees C10 starts from, provided
the transport's protocol is TCP or UDP (`CJ.Props.C10.transport_protos_acceptable`; composed with the
detector's rules in `CJ.Props.C10.admitted_announcement_accepted`) -/
theorem admitted_announceable (c : Cfg) (m : Msg) (o : Oracles) (f : Fam) (hsel : SelectorFam o) (r : Reg)
    (hr : regOf c m o f = some r)
    (hproto : o.proto = CJ.Detector.protoTcp ∨ o.proto = CJ.Detector.protoUdp)
    (hport : ∀ p, o.tpPort = some p → p < 65536) :
    CJ.Detector.Announceable
      { phantom := r.phantom, registrant := r.registrant, port := r.port, proto := r.proto } := by
  have hb := (regOf_some hr).2
  have hp := buildFam_phantom hsel hb
  obtain ⟨ph, rnd, p, hs, _, _, hbase, _, hvr, hfam, _, rfl⟩ := (buildFam_ok_iff c m o f _).mp hb
  unfold mkReg at hp ⊢
  simp only at hp ⊢
  have hv : ∀ ip : Bytes, ip.length = 4 ∨ ip.length = 16 → (CJ.Detector.ipOf ip).isSome = true := by
    intro ip hl
    rw [CJ.Detector.ipOf_isSome_iff]
    rcases hl with h | h
    · left; exact len4_isV4 h
    · right; exact h
  refine ⟨?_, hv _ ((validIP_iff _).mp hvr), ?_, hproto, ?_⟩
  · cases f with
    | v4 => exact hv _ (isV4_len (hp.1 rfl))
    | v6 => exact hv _ (Or.inr (hp.2 rfl).1)
  · intro h4; exact hfam h4
  · show finalPort m p < 65536
    have hp443 : p < 65536 := by
      unfold basePort at hbase
      split at hbase
      · cases hbase; decide
      · exact hport p hbase
    unfold finalPort
    cases m.rr with
    | none => exact hp443
    | some rr =>
      cases hd : rr.dstPort with
      | none => simp only [hd]; exact hp443
      | some q => simp only [hd]; exact Nat.mod_lt q (by decide : 0 < 65536)

/-! ### non-vacuity: the hypotheses are satisfiable, and every condition can be the only one that fails -/

theorem fresh_init (c : Cfg) (m : Msg) (o : Oracles) : Fresh c m o CJ.Registry.init := by
  intro f r _
  unfold CJ.Ingest.get CJ.Registry.init
  exact Std.HashMap.getElem?_empty

/-- on an empty registry the iff holds with no hypothesis on the state -/
theorem admitted_iff_init (c : Cfg) (m : Msg) (o : Oracles) (f : Fam) (hsel : SelectorFam o) :
    admitted c CJ.Registry.init m o f ↔ Conditions c m o f :=
  admitted_iff_conditions c _ m o f hsel (fresh_init c m o)

def c0 : Cfg :=
  { enableV4 := true, enableV6 := true, shareOverAPI := true, transports := [1, 4], blocklist := [([192, 122, 0, 0], 16)] }
def m0 : Msg :=
  { payload := true, v4Support := true, v6Support := true,
    registrant := some [0, 0, 0, 0, 0, 0, 0, 0, 0, 0, 0xff, 0xff, 203, 0, 113, 9],
    source := srcDetector, transport := 1, libVer := 4, prescanned := false, rr := none }
def o0 : Oracles :=
  { sel4 := some ([198, 51, 100, 7], true), sel6 := some ([0x20, 1, 0x48, 0xa8, 0x68, 0x7f, 0, 1, 0, 0, 0, 0, 0, 0, 0, 5], true),
    paramsOk := true, tpPort := some 50123, proto := 1, geoOk := true, covertOk := true, live := false, ident := "id" }

example : SelectorFam o0 :=
  ⟨by intro ph rnd h; cases h; decide, by intro ph rnd h; cases h; decide⟩
example : admitB c0 m0 o0 .v4 = true := by decide
example : admitB c0 m0 o0 .v6 = true := by decide
-- one input flipped at a time, everything else as in the admitted base case
example : admitB c0 { m0 with payload := false } o0 .v4 = false := by decide
example : admitB c0 { m0 with v4Support := false } o0 .v4 = false := by decide
example : admitB { c0 with enableV4 := false } m0 o0 .v4 = false := by decide
example : admitB { c0 with enableV6 := false } m0 o0 .v6 = false := by decide
example : admitB c0 { m0 with registrant := none } o0 .v4 = false := by decide            -- no IPv4 registrant
example : admitB c0 { m0 with registrant := some [1, 2, 3, 4, 5] } o0 .v6 = false := by decide
example : admitB c0 { m0 with transport := 99 } o0 .v4 = false := by decide
example : admitB c0 m0 { o0 with paramsOk := false } .v4 = false := by decide
example : admitB c0 m0 { o0 with tpPort := none } .v4 = false := by decide
example : admitB c0 { m0 with rr := some { ipv6 := some [1, 2, 3] } } o0 .v6 = false := by decide
example : admitB c0 m0 { o0 with geoOk := false } .v4 = false := by decide
example : admitB c0 m0 { o0 with covertOk := false } .v4 = false := by decide
example : admitB c0 m0 { o0 with sel4 := none } .v4 = false := by decide                  -- unknown generation / no IPv4 subnets
example : admitB c0 m0 { o0 with sel4 := none } .v6 = true := by decide                   -- … which does not cancel the IPv6 twin
example : admitB c0 m0 { o0 with sel4 := some ([192, 122, 190, 5], true) } .v4 = false := by decide   -- blocklisted phantom
example : admitB c0 m0 { o0 with live := true } .v4 = false := by decide
example : admitB c0 m0 { o0 with live := true } .v6 = true := by decide                   -- IPv6 is never probed
example : admitB c0 { m0 with prescanned := true } { o0 with live := true } .v4 = true := by decide  -- pre-scanned: no probe

-- a selector that breaks its contract (IPv4 answer to the IPv6 request) with an IPv6 registrant: the family
-- check is the only condition that fails, and no IPv6 registration is built
example : ∀ r, buildFam c0 { m0 with registrant := none } { o0 with sel6 := some ([198, 51, 100, 9], true) } .v6 ≠ .ok r :=
  family_consistency_only_failing c0 _ _ [198, 51, 100, 9] true rfl rfl (by decide) (by decide)
example : (buildFam c0 { m0 with registrant := none } o0 .v6).toOption.isSome = true := by decide
-- the registrar's parameters replace the client's unless the client disabled overrides
def rrBad : RROracles := { paramsOk := false, tpPort := none }
example : admitB c0 { m0 with rr := some { tparams := true } } (resolveOracles { m0 with rr := some { tparams := true } } o0 rrBad) .v4
    = false := by decide
example : admitB c0 { m0 with rr := some { tparams := true }, disableOverrides := true }
    (resolveOracles { m0 with rr := some { tparams := true }, disableOverrides := true } o0 rrBad) .v4 = true := by decide

end CJ.Props.C07
