import CJ.Props.C03
import CJ.Model.ReloadEnv
/-!
# C03 — the station state the connection arrives in (configuration reloads)

The theorems of `CJ.Props.C03` take the outcome of the handler's GeoIP preamble as a hypothesis
(`Geo = ok`).  That outcome is read from reloadable station state.  Here the state is modelled
(`CJ.ReloadEnv`: the SIGHUP loop body, `OnReload`, `geoip.New`, branch by branch) and the hypothesis is
discharged for every history of reloads:

* `failed_reload_keeps_database`, `failed_reload_changes_nothing_the_handler_reads`,
  `failed_reloads_erasable` — a reload that fails (configuration unreadable, a database file that
  `geoip2.Open` refuses) leaves what the handler reads exactly as it was, wherever it sits in the history;
* `database_after_history` — the database in force is the start-up database or one `geoip.New` returned;
* `probe_view_after_any_history` — if the start-up database, the empty database and the readers answer the
  peer's lookups, a probe sees "deadline armed, read until the first read error" after *any* history.

Correspondence: `reloadenv|…` lines — the real `ParseConfig` + `OnReload` on real files (good, missing,
a directory, junk, truncated; bad TOML, bad blocklist entry; bad subnet file) against `run`, followed by
a probe on the real `handleNewTCPConn` with the C03 oracles.
-/
namespace CJ.Props.C03
open CJ.ConnHandler CJ.ReloadEnv

section
variable {D : Type} (empty : D) (reader : Bool → Bool → D)

theorem geoipNew_failed_iff (f : Files) :
    geoipNew empty reader f = .failed ↔ (f.asn = .broken ∨ f.cc = .broken) := by
  rcases f with ⟨a, c⟩
  cases a <;> cases c <;> simp [geoipNew]

theorem installs_false_iff (r : Req) :
    installs r = false ↔ (r.configOk = false ∨ geoipNew empty reader r.files = .failed) := by
  rcases r with ⟨c, s, ⟨a, cc⟩⟩
  cases c <;> cases a <;> cases cc <;> simp [installs, geoipNew]

theorem sighup_geo (s : Station D) (r : Req) :
    (sighup empty reader s r).geo =
      if r.configOk then
        (match geoipNew empty reader r.files with
         | .failed => s.geo
         | .installed d _ => d)
      else s.geo := by
  by_cases hc : r.configOk = true
  · simp only [sighup, hc, if_true, onReload]
    cases geoipNew empty reader r.files <;> by_cases hs : r.subnetsOk = true <;> simp [hs]
  · simp [sighup, hc]

/-- **A failed reload keeps the database.**  `ParseConfig` failed, or `geoip.New` returned no database:
the value behind `GeoIPDatabase()` is the one that was there before. -/
theorem failed_reload_keeps_database (s : Station D) (r : Req) (h : installs r = false) :
    (sighup empty reader s r).geo = s.geo := by
  rw [sighup_geo]
  rcases (installs_false_iff empty reader r).mp h with hc | hf
  · simp [hc]
  · simp [hf]

theorem run_cons (s : Station D) (r : Req) (rs : List Req) :
    run empty reader s (r :: rs) = run empty reader (sighup empty reader s r) rs := rfl

theorem run_append (s : Station D) (rs rs' : List Req) :
    run empty reader s (rs ++ rs') = run empty reader (run empty reader s rs) rs' := by
  simp [run, List.foldl_append]

/-- the database after a history depends on the database before it only (not on the selector / policy generations) -/
theorem run_geo_congr (s s' : Station D) (h : s.geo = s'.geo) (rs : List Req) :
    (run empty reader s rs).geo = (run empty reader s' rs).geo := by
  induction rs generalizing s s' with
  | nil => exact h
  | cons r rs ih =>
    rw [run_cons, run_cons]
    apply ih
    rw [sighup_geo, sighup_geo, h]

/-- **Failed reloads can be erased from any history** as far as the database is concerned. -/
theorem failed_reloads_erasable (s : Station D) (rs : List Req) :
    (run empty reader s rs).geo = (run empty reader s (rs.filter installs)).geo := by
  induction rs generalizing s with
  | nil => rfl
  | cons r rs ih =>
    by_cases hi : installs r = true
    · rw [List.filter_cons_of_pos hi, run_cons, run_cons]; exact ih _
    · have hi' : installs r = false := by simpa using hi
      rw [List.filter_cons_of_neg hi, run_cons, ← ih s]
      exact run_geo_congr empty reader _ _ (failed_reload_keeps_database empty reader s r hi') rs

/-- **The database in force** after any history is the start-up database, or the database some
reload's `geoip.New` returned — never anything else. -/
theorem database_after_history (s : Station D) (rs : List Req) :
    (run empty reader s rs).geo = s.geo ∨
      ∃ r ∈ rs, ∃ m, geoipNew empty reader r.files = .installed (run empty reader s rs).geo m := by
  induction rs generalizing s with
  | nil => exact Or.inl rfl
  | cons r rs ih =>
    rw [run_cons]
    rcases ih (sighup empty reader s r) with h | ⟨r', hr', m, hm⟩
    · rw [h, sighup_geo]
      by_cases hc : r.configOk = true
      · simp only [hc, if_true]
        cases hg : geoipNew empty reader r.files with
        | failed => exact Or.inl rfl
        | installed d m => exact Or.inr ⟨r, List.mem_cons_self, m, by simp [hg]⟩
      · simp [hc]
    · exact Or.inr ⟨r', List.mem_cons_of_mem _ hr', m, hm⟩

/-- what `geoip.New` can return with a database -/
theorem geoipNew_installed (f : Files) (d : D) (m : Bool) (h : geoipNew empty reader f = .installed d m) :
    d = empty ∨ ∃ a c, d = reader a c := by
  rcases f with ⟨a, c⟩
  cases a <;> cases c <;> simp [geoipNew] at h
  · exact Or.inl h.1.symm
  · exact Or.inr ⟨false, true, h.1.symm⟩
  · exact Or.inr ⟨true, false, h.1.symm⟩
  · exact Or.inr ⟨true, true, h.1.symm⟩

end

section
variable {T R A : Type}

/-- **A failed reload changes nothing the handler reads**: the whole action trace of the next connection
(any stream, any peer, tagged or not) is the one it would have been without that reload. -/
theorem failed_reload_changes_nothing_the_handler_reads (cls : T → Bytes → Verdict R)
    (sched : Nat → List T → List T) (empty : A → Ans) (reader : Bool → Bool → A → Ans)
    (s : Station (A → Ans)) (rs : List Req) (r : Req) (h : installs r = false)
    (remote : Option A) (count : Nat) (ts : List T) (evs : List Ev) :
    handlerAfter cls sched empty reader s (rs ++ [r]) remote count ts evs =
      handlerAfter cls sched empty reader s rs remote count ts evs := by
  unfold handlerAfter
  rw [run_append]
  show handler cls sched (preamble (sighup empty reader (run empty reader s rs) r).geo remote) count ts evs = _
  rw [failed_reload_keeps_database empty reader _ r h]

/-- the database answers both lookups of the preamble for this peer -/
def Answers (db : A → Ans) (a : A) : Prop := preamble db (some a) = .ok

instance (db : A → Ans) (a : A) : Decidable (Answers db a) := by unfold Answers; infer_instance

/-- **What a prober sees, whatever was reloaded before.**  If every database that can be in force
(start-up, empty, the readers) answers the peer's lookups, then after any history of reloads —
successful or failed for any reason, in any order — a probe sees: deadline armed, everything read,
return after the first read error. -/
theorem probe_view_after_any_history (cls : T → Bytes → Verdict R) (sched : Nat → List T → List T)
    (hs : SchedOk sched) (empty : A → Ans) (reader : Bool → Bool → A → Ans)
    (s : Station (A → Ans)) (rs : List Req) (a : A) (count : Nat) (ts : List T) (evs : List Ev)
    (hn : NoMatch cls ts evs)
    (h0 : Answers s.geo a) (he : Answers empty a) (hr : ∀ x y, Answers (reader x y) a) :
    connView (handlerAfter cls sched empty reader s rs (some a) count ts evs) =
      .setDeadline :: ((readsOf evs).map .readData ++ [.readEnd (endOf evs), .ret]) := by
  have hok : preamble (run empty reader s rs).geo (some a) = .ok := by
    rcases database_after_history empty reader s rs with h | ⟨r, _, m, hm⟩
    · rw [h]; exact h0
    · rcases geoipNew_installed empty reader r.files _ m hm with h | ⟨x, y, h⟩
      · rw [h]; exact he
      · rw [h]; exact hr x y
  unfold handlerAfter
  rw [hok]
  exact probe_view cls sched hs count ts evs hn

end

/-! the hypotheses are satisfiable, and the failing branch is reachable -/

def exReader : Bool → Bool → Nat → Ans := fun a c _ =>
  { cc := some (if c then "US" else ""), asn := some (if a then 64500 else 0) }
def exEmpty : Nat → Ans := fun _ => { cc := some "", asn := some 0 }
def exStation : Station (Nat → Ans) := { geo := fun _ => { cc := some "unk", asn := none } }

example : Answers exStation.geo 7 := by decide
example : Answers exEmpty 7 := by decide
example : ∀ x y, Answers (exReader x y) 7 := by decide
example : installs ⟨true, true, ⟨.opens, .broken⟩⟩ = false := by decide
example : installs ⟨false, true, ⟨.opens, .opens⟩⟩ = false := by decide
example : installs ⟨true, false, ⟨.unset, .unset⟩⟩ = true := by decide
example : ((run exEmpty exReader exStation
    [⟨true, true, ⟨.opens, .opens⟩⟩, ⟨true, true, ⟨.broken, .opens⟩⟩, ⟨false, true, ⟨.unset, .unset⟩⟩]).geo 7).asn = some 64500 := by
  decide
example : (run exEmpty exReader exStation
    [⟨true, false, ⟨.opens, .opens⟩⟩, ⟨true, true, ⟨.broken, .opens⟩⟩, ⟨false, true, ⟨.unset, .unset⟩⟩]).selector = 1 := by
  decide

end CJ.Props.C03
