import CJ.Lemmas.Ingress
import CJ.Lemmas.Responder
import CJ.Gen.C11Tables
import CJ.Gen.C11Index
import CJ.Gen.C11MapDeref
import CJ.Gen.C11LruCalls
import CJ.Props.C14
/-!
# C11 — no externally supplied bytes can crash a station or registrar process

Property theorems only. `Outcome.Safe o` = `o` is neither a Go panic nor a loop that does not terminate
(`Outcome.hang`, the model's fuel running out); every theorem is for *all* inputs — arbitrary byte
strings of any length, arbitrary lookup results, arbitrary registrar answers.

What is modelled: the byte-level parsers of the DNS channel, the length guards in front of every slice
of first-flight data in the wrapping transports (over the prefix table and the obfs4 constants
regenerated from the tree, `CJ/Gen/C11Tables.lean`), and the nil-handling of the entry points that take
optional protobuf sub-messages, and `getRemoteAddr` of the HTTP front end with Go's indexing as a partial
operation (`indexAt`) behind `strings.Split`. What is not: protobuf, net/http, `net.ParseIP`, the obfs4
library, Noise — there the harness (differential fuzzing with `recover`, hang detection, HTTP status
observation) is the evidence. The IPv4 selector contract of `processBdReq` is discharged from C14's
containment theorem (`processBdReq_no_panic_c14`).
-/
namespace CJ.Props.C11
open CJ.Codec CJ.Ingress

/-! ## byte-level parsers of the DNS registrar -/

theorem msgformat_request_no_panic (p : Bytes) : (removeRequestFormat p).Safe := removeRequest_safe p
theorem msgformat_response_no_panic (p : Bytes) : (removeResponseFormat p).Safe := removeResponse_safe p

/-- `DecodeRDataTXT`: no slice out of range, and the loop ends, on every byte string -/
theorem decodeTXT_no_panic (p : Bytes) : (decodeTXT p).Safe := decodeTXTLoop_safe p []

/-- `readName` terminates: with the fuel `nameFuel buf` the loop never runs out, wherever it starts and
whatever pointers (forward, backward, to themselves, in cycles) the buffer contains -/
theorem readName_terminates (buf : Bytes) (pos : Nat) : readName buf pos ≠ .hang := (readName_safe buf pos).2

theorem readName_no_panic (buf : Bytes) (pos : Nat) : ∀ s, readName buf pos ≠ .panic s := (readName_safe buf pos).1

/-- the variant behind it, for any state of the loop: pointers followed so far ≤ limit, fuel above the measure -/
theorem readNameLoop_terminates (buf : Bytes) (fuel pos : Nat) (labels : List Label) (np seekTo : Nat)
    (hnp : np ≤ compressionPointerLimit) (hf : nameMeasure buf.length np pos < fuel) :
    readNameLoop buf fuel pos labels np seekTo ≠ .hang := (readNameLoop_safe buf fuel pos labels np seekTo hnp hf).2

/-- `readMessage`: header, then as many questions and records as the counts announce, each read safely -/
theorem readMessage_no_panic (buf : Bytes) : (readMessage buf).Safe := readMessage_safe buf

/-- the message reader terminates on every buffer: `readName`'s fuel never runs out and the section loops
run as often as the 16-bit counts say -/
theorem readMessage_terminates (buf : Bytes) : readMessage buf ≠ .hang := (readMessage_safe buf).2

theorem decodeTXT_terminates (p : Bytes) : decodeTXT p ≠ .hang := (decodeTXTLoop_safe p []).2

/-- `MessageFromWireFormat` on arbitrary bytes -/
theorem messageFromWireFormat_no_panic (buf : Bytes) : (messageFromWireFormat buf).Safe :=
  messageFromWireFormat_safe buf

/-- and what it returns is a message `WireFormat` accepts again (names validated by `NewName`):
parsing never yields a name that makes the writer's `panic(length)` reachable -/
theorem readName_result_valid (buf : Bytes) (pos : Nat) (n : Name) (e : Nat) (h : readName buf pos = .ok (n, e)) :
    validName n := by
  unfold readName at h
  have key : ∀ fuel p labels np seekTo, readNameLoop buf fuel p labels np seekTo = .ok (n, e) → validName n := by
    intro fuel
    induction fuel with
    | zero => intro p labels np seekTo h; simp [readNameLoop] at h
    | succ fuel ih =>
      intro p labels np seekTo h
      rw [readNameLoop] at h
      split at h
      · cases h
      · split at h
        · try simp only at h
          split at h
          · unfold finishName at h
            cases hn : newName labels with
            | ok n' =>
              rw [hn] at h; simp only [Outcome.bind] at h; cases h
              have := newName_ok_eq hn
              subst this; exact hn
            | err e' => rw [hn] at h; cases h
            | panic s => rw [hn] at h; cases h
            | hang => rw [hn] at h; cases h
          · split at h
            · exact ih _ _ _ _ h
            · cases h
        · split at h
          · split at h
            · cases h
            · try simp only at h
              split at h
              · cases h
              · exact ih _ _ _ _ h
          · cases h
  exact key _ _ _ _ _ h

/-! ## the DNS responder: one datagram through the handler goroutine of `RecvAndRespond`

`handleDatagram` (CJ/Model/Responder.lean) is the body of the `go func() { … }()` from the bytes
`ReadFrom` delivered to the bytes given to `WriteTo`: the parser whose error is only logged, `responseFor`,
`RemoveRequestFormat`, `craftResponse` (Noise and the callback: a parameter), `AddResponseFormat`,
`dnsRespToUDPResp` with `resp.Question[0]` as the partial operation it is in Go, the size limit with its
second `dnsRespToUDPResp`. The goroutine has no `recover`: a panic anywhere on this path ends the
registrar. -/

/-- **no datagram can panic the handler**, whatever base32 decoder, Noise implementation and callback
are plugged in, for every base domain and size limit -/
theorem responder_datagram_no_panic (dom : Name) (maxUDP : Nat) (dec : Bytes → Option Bytes)
    (craft : Bytes → Option Bytes) (buf : Bytes) : (handleDatagram dom maxUDP dec craft buf).Safe :=
  handleDatagram_safe dom maxUDP dec craft buf

/-- the response `responseFor` returns echoes the query's questions (any number of them), has no answer
and no authority records, and at most its own OPT RR -/
theorem responder_response_sections (q : Message) (dom : Name) (maxUDP : Nat) (dec : Bytes → Option Bytes)
    (resp : Message) (pl : Option Bytes) (h : responseFor q dom maxUDP dec = some (resp, pl)) :
    resp.question = q.question ∧ resp.answer = [] ∧ resp.authority = [] ∧
      (resp.additional = [] ∨ ∃ ttl, resp.additional = [optRR ttl]) :=
  responseFor_question h

/-- a payload (the answer kind) comes only out of a query with exactly one question … -/
theorem responder_payload_one_question (q : Message) (dom : Name) (maxUDP : Nat) (dec : Bytes → Option Bytes)
    (resp : Message) (pl : Bytes) (h : responseFor q dom maxUDP dec = some (resp, some pl)) :
    ∃ qu, q.question = [qu] ∧ resp.question = [qu] :=
  responseFor_payload h

/-- … but RCODE 0 does **not** mean a payload: it is also what the BADVERS answer carries in its four
header bits, and that answer is returned before the questions are counted -/
theorem responder_noerror_kinds (q : Message) (dom : Name) (maxUDP : Nat) (dec : Bytes → Option Bytes)
    (resp : Message) (pl : Option Bytes) (h : responseFor q dom maxUDP dec = some (resp, pl))
    (hr : resp.flags &&& 0x000f = 0) :
    pl.isSome = true ∨ ∃ add, scanOPT q.additional [] 0 = .badVers add :=
  responseFor_noerror h hr

/-- `dnsRespToUDPResp`: the branch that indexes `resp.Question[0]` is entered exactly when RCODE is 0 and
there is exactly one question, and there the index is in range; otherwise the response goes out as it is -/
theorem responder_answer_branch (resp : Message) (payload : Bytes) :
    (resp.flags &&& 0x000f = 0 ∧ resp.question.length = 1 →
      ∃ q, resp.question = [q] ∧ udpResponseGo resp payload =
        wireFormat { resp with answer := [⟨q.name, q.qtype, q.qclass, 60, encodeTXT payload⟩] }) ∧
    (¬ (resp.flags &&& 0x000f = 0 ∧ resp.question.length = 1) → udpResponseGo resp payload = wireFormat resp) := by
  constructor
  · intro h
    obtain ⟨q, hq, hf⟩ := first_eq_of_length_one h.2
    refine ⟨q, hq, ?_⟩
    unfold udpResponseGo udpResponseWith
    rw [if_pos ⟨h.1, Or.inr h.2⟩, hf]
    rfl
  · intro h
    unfold udpResponseGo udpResponseWith
    have : ¬ (resp.flags &&& 0x000f = 0 ∧ (true = false ∨ resp.question.length = 1)) := by
      intro hc
      rcases hc.2 with h' | h'
      · cases h'
      · exact h ⟨hc.1, h'⟩
    rw [if_neg this]

/-- the partial index never fails behind the full guard: the model with Go's indexing is the total
function the C15 theorems are about -/
theorem responder_answer_index_safe (resp : Message) (payload : Bytes) :
    udpResponseGo resp payload = udpResponse resp payload := udpResponseGo_eq resp payload

/-- the 23-byte query with no question and one OPT RR of EDNS version 1 -/
def badversNoQuestion : Bytes :=
  [0x12, 0x34, 0, 0, 0, 0, 0, 0, 0, 0, 0, 1,  0, 0, 0x29, 0x10, 0, 0, 1, 0, 0, 0, 0]

/-- **the second half of the guard is needed**: for that query `responseFor` returns RCODE 0 with an empty
question list; `dnsRespToUDPResp` with the guard reduced to the RCODE test panics on it (index out of
range), and so does the whole handler — while the code under test answers it -/
theorem responder_question_count_guard_needed :
    (∃ resp, responseFor (lenientParse badversNoQuestion) [[0x74]] 1232 (fun _ => none) = some (resp, none) ∧
      resp.flags &&& 0x000f = 0 ∧ resp.question = [] ∧
      udpResponseWith false resp [] = .panic "index out of range") ∧
    handleDatagramWith false [[0x74]] 1232 (fun _ => none) (fun _ => none) badversNoQuestion =
      .panic "index out of range" ∧
    (handleDatagram [[0x74]] 1232 (fun _ => none) (fun _ => none) badversNoQuestion).isOk = true := by
  refine ⟨⟨⟨0x1234, 0x8000, [], [], [], [optRR 0x01000000]⟩, ?_, ?_, ?_, ?_⟩, ?_, ?_⟩ <;> decide

/-! ## first-flight bytes on phantom connections -/

/-- `min`: the 32-byte identifier is only sliced once 32 bytes are there -/
theorem min_no_panic (data : Bytes) (registered : Bytes → Bool) : (wrapMin data registered).Safe :=
  wrapMin_safe data registered

/-- every row of the prefix table the code uses now is well formed … -/
theorem prefix_table_wf : ∀ p ∈ CJ.Gen.C11.prefixTable, p.wf = true := by decide

/-- … hence the tag extraction `data[Offset : Offset+64]` is in bounds for every prefix, every buffer,
every lookup result and every iteration order of the Go map -/
theorem prefix_slices_in_bounds (order : List PrefixSpec) (hperm : ∀ p ∈ order, p ∈ CJ.Gen.C11.prefixTable)
    (data : Bytes) (getReg : Bytes → Option RegView) : (wrapPrefix order data getReg).Safe :=
  wrapPrefix_safe order (fun p hp => prefix_table_wf p (hperm p hp)) data getReg

/-- the general statement the table is an instance of -/
theorem prefix_no_panic (table : List PrefixSpec) (hwf : ∀ p ∈ table, p.wf = true) (data : Bytes)
    (getReg : Bytes → Option RegView) : (wrapPrefix table data getReg).Safe := wrapPrefix_safe table hwf data getReg

/-- the tag length the model uses is the one in the code -/
theorem prefix_tag_length_pinned : CJ.Gen.C11.prefixMinTagLength = prefixTagLength := by decide

/-- `findMarkMac` (server side, from the tail): `buf[pos:pos+MarkLength]` is in bounds for every buffer -/
theorem obfs4_findMarkMac_no_panic (buf : Bytes) (startPos maxPos : Nat) (markAt : Bytes → Bool) :
    (findMarkMac CJ.Gen.C11.obfs4Consts CJ.Gen.C11.obfs4Consts.markLength buf startPos maxPos markAt).Safe :=
  findMarkMac_safe _ buf startPos maxPos markAt

/-- `obfs4.WrapConnection` with the constants of the tree: the representative copy and every mark
comparison stay inside the data, for any number of registrations on the phantom -/
theorem obfs4_no_panic (data : Bytes) (regs : List (Bytes → Bool)) :
    (wrapObfs4 CJ.Gen.C11.obfs4Consts data regs).Safe :=
  wrapObfs4_safe _ (by decide) data regs

/-! ## entry points with optional sub-messages -/

/-- `POST /register`: always a status -/
theorem register_status (r : HttpReq) (proc : ProcResult) : ∃ code, register r proc = .ok code := by
  unfold register
  split
  · exact ⟨_, rfl⟩
  · split
    · exact ⟨_, rfl⟩
    · split <;> exact ⟨_, rfl⟩

/-- `POST /register-bidirectional` (with the nil check of the `fix:` commit): always a status, whatever
the body decodes to, whichever ClientConf the server holds, whatever the registrar answers -/
theorem registerBidirectional_status (r : HttpReq) (newer : Bool) (proc : ProcResult) :
    ∃ code, registerBidirectional r newer proc = .ok code := by
  unfold registerBidirectional
  split
  · exact ⟨_, rfl⟩
  · split
    · exact ⟨_, rfl⟩
    · split
      · exact ⟨_, rfl⟩
      · cases proc <;> exact ⟨_, rfl⟩

/-! ## the HTTP front end from the request as it arrives: `getRemoteAddr`

`register_status` / `registerBidirectional_status` above start *after* `getRemoteAddr`; the model of the
handlers has no partial operation. `getRemoteAddr` has three: `values[len(values)-1]`,
`IPs[len(IPs)-1]`, `IPs[len(IPs)-2]` on what `strings.Split` made of a header value the peer chose. -/

/-- Go's index expression is as partial in the model as in Go: a value iff `0 ≤ i < len(l)` -/
theorem indexAt_safe_iff {α : Type} (l : List α) (i : Int) : (indexAt l i).Safe ↔ 0 ≤ i ∧ i < l.length :=
  CJ.Ingress.indexAt_safe_iff l i

/-- `strings.Split(value, ",")` never returns the empty slice — also not for the empty value, for a
value of separators only, for any bytes at all -/
theorem splitOn_ne_nil (sep : UInt8) (value : Bytes) : splitOn sep value ≠ [] :=
  CJ.Ingress.splitOn_ne_nil sep value

/-- it is `strings.Split`: `n` separators give `n + 1` pieces, and the pieces joined by the separator are
the value again -/
theorem splitOn_spec (sep : UInt8) (value : Bytes) :
    (splitOn sep value).length = value.count sep + 1 ∧ [sep].intercalate (splitOn sep value) = value :=
  ⟨CJ.Ingress.splitOn_length sep value, CJ.Ingress.splitOn_join sep value⟩

/-- the model of `getRemoteAddr` is the general one at `strings.Split(·, ",")` -/
theorem getRemoteAddr_eq : getRemoteAddr = getRemoteAddrWith (splitOn 44) := rfl

/-- `getRemoteAddr` over any splitting function that never answers the empty slice: every index
expression is in range — for every peer address, every list of header values (none, one, many, empty
ones), every answer of `net.ParseIP` -/
theorem getRemoteAddrWith_no_panic (split : Bytes → List Bytes) (hsplit : ∀ v, split v ≠ [])
    (remote : Option String) (lb : Bool) (values : List Bytes) (parse : Bytes → Option String) :
    (getRemoteAddrWith split remote lb values parse).Safe := by
  obtain ⟨ip, h⟩ := getRemoteAddrWith_ok split hsplit remote lb values parse
  rw [h]; exact .ok ip

/-- … and that hypothesis is exactly what is needed: if the splitting function answers the empty slice
for some value `v`, a request whose (last) `X-Forwarded-For` value is `v` panics -/
theorem getRemoteAddrWith_empty_split_panics (split : Bytes → List Bytes) (v : Bytes) (hv : split v = [])
    (remote : Option String) (lb : Bool) (parse : Bytes → Option String) :
    getRemoteAddrWith split remote lb [v] parse = .panic "index out of range" := by
  have h1 : indexAt [v] ((([v] : List Bytes).length : Int) - 1) = .ok v := rfl
  unfold getRemoteAddrWith
  rw [if_pos (by simp), h1, Outcome.ok_bind]
  simp only [hv]
  rfl

/-- no panic for every request ⇔ the splitting function never answers the empty slice -/
theorem getRemoteAddrWith_no_panic_iff (split : Bytes → List Bytes) :
    (∀ remote lb values parse, (getRemoteAddrWith split remote lb values parse).Safe) ↔ ∀ v, split v ≠ [] := by
  constructor
  · intro h v hv
    exact (h none false [v] (fun _ => none)).1 _ (getRemoteAddrWith_empty_split_panics split v hv _ _ _)
  · intro h remote lb values parse
    exact getRemoteAddrWith_no_panic split h remote lb values parse

/-- the instance that matters: had the header been cut with a function that drops empty pieces (as
`strings.FieldsFunc` does), the one-byte header value `,` would crash the registrar — whoever the peer
is and whatever `net.ParseIP` answers -/
theorem getRemoteAddrWith_needs_nonempty_split (remote : Option String) (lb : Bool) (parse : Bytes → Option String) :
    getRemoteAddrWith (fieldsOn [44]) remote lb [[44]] parse = .panic "index out of range" :=
  getRemoteAddrWith_empty_split_panics (fieldsOn [44]) [44] (by decide) remote lb parse

/-- **`getRemoteAddr` never panics**: for every peer address, every number and content of
`X-Forwarded-For` values and every answer of `net.ParseIP`, all three index expressions are in range
(because `strings.Split` gives at least one piece) -/
theorem getRemoteAddr_no_panic (remote : Option String) (lb : Bool) (values : List Bytes)
    (parse : Bytes → Option String) : (getRemoteAddr remote lb values parse).Safe :=
  getRemoteAddrWith_no_panic (splitOn 44) (CJ.Ingress.splitOn_ne_nil 44) remote lb values parse

/-- it returns: an address or nil -/
theorem getRemoteAddr_returns (remote : Option String) (lb : Bool) (values : List Bytes)
    (parse : Bytes → Option String) : ∃ ip, getRemoteAddr remote lb values parse = .ok ip :=
  getRemoteAddrWith_ok (splitOn 44) (CJ.Ingress.splitOn_ne_nil 44) remote lb values parse

/-- without the header the peer address is the answer -/
theorem getRemoteAddr_no_header (remote : Option String) (lb : Bool) (parse : Bytes → Option String) :
    getRemoteAddr remote lb [] parse = .ok remote := rfl

/-- **`POST /register`, from the request as it arrives: always a status** — for every list of
`X-Forwarded-For` values, every `net.ParseIP`, every request and every answer of the registrar -/
theorem registerHttp_status (remote : Option String) (lb : Bool) (values : List Bytes)
    (parse : Bytes → Option String) (r : HttpReq) (proc : ProcResult) :
    ∃ code, registerHttp remote lb values parse r proc = .ok code := by
  obtain ⟨ip, h⟩ := getRemoteAddr_returns remote lb values parse
  unfold registerHttp
  rw [h, Outcome.ok_bind]
  exact register_status _ proc

/-- **`POST /register-bidirectional`, from the request as it arrives: always a status** -/
theorem registerBidirectionalHttp_status (remote : Option String) (lb : Bool) (values : List Bytes)
    (parse : Bytes → Option String) (r : HttpReq) (newer : Bool) (proc : ProcResult) :
    ∃ code, registerBidirectionalHttp remote lb values parse r newer proc = .ok code := by
  obtain ⟨ip, h⟩ := getRemoteAddr_returns remote lb values parse
  unfold registerBidirectionalHttp
  rw [h, Outcome.ok_bind]
  exact registerBidirectional_status _ newer proc

/-- no address at all (nil peer address, nothing parsable in the header) is answered 400 by both -/
theorem registerHttp_no_address (remote : Option String) (lb : Bool) (values : List Bytes)
    (parse : Bytes → Option String) (r : HttpReq) (newer : Bool) (proc : ProcResult)
    (h : getRemoteAddr remote lb values parse = .ok none) :
    registerHttp remote lb values parse r proc = .ok 400 ∧
    registerBidirectionalHttp remote lb values parse r newer proc = .ok 400 := by
  unfold registerHttp registerBidirectionalHttp
  rw [h]
  exact ⟨rfl, rfl⟩

/-- a wrapper without registration payload is answered 400 -/
theorem registerBidirectional_no_payload (r : HttpReq) (newer : Bool) (proc : ProcResult)
    (h1 : r.remoteAddrOk = true) (h2 : getC2SFromReq r = .inr false) :
    registerBidirectional r newer proc = .ok 400 := by
  simp [registerBidirectional, h1, h2]

/-- the handler before the fix does panic: a well-formed POST whose C2SWrapper has no payload, when the
server's ClientConf is newer (the replay the harness found) -/
theorem registerBidirectional_unchecked_panics :
    registerBidirectionalUnchecked ⟨true, true, 40, true, some false⟩ true .ok = .panic "nil pointer dereference" := by
  decide

/-- `processBdReq`: under the C14 contract of the selector for IPv4 (the selected address is a 4-byte or
IPv4-mapped 16-byte address) nothing panics; an absent payload is `ErrNoC2SBody` -/
theorem processBdReq_no_panic (r : BdReq) (h4 : ∀ ip, r.select4 = some ip → (to4 ip).isSome = true) :
    (processBdReq r).Safe := by
  unfold processBdReq
  split
  · exact .ok _
  · split
    · exact .ok _
    · simp only
      have hsel : (if r.v4 = true then
            match r.select4 with
            | none => Outcome.ok false
            | some ip => (beUint32 (to4 ip)).bind fun _ => Outcome.ok true
          else Outcome.ok true).Safe := by
        split
        · cases hs : r.select4 with
          | none => exact .ok _
          | some ip =>
            simp only
            have := h4 ip hs
            cases ht : to4 ip with
            | none => rw [ht] at this; cases this
            | some b =>
              have hl : b.length = 4 := by
                unfold to4 at ht
                split at ht
                · cases ht; assumption
                · split at ht
                  · cases ht; rename_i h; simp [List.length_drop, h.1]
                  · cases ht
              match b, hl with
              | [a0, a1, a2, a3], _ => simp [beUint32, Outcome.bind, Outcome.Safe]
        · exact .ok _
      refine hsel.bind fun ok4 => ?_
      repeat (first | exact .ok _ | split)

/-! ### the selector contract, discharged from C14 -/

/-- what C14 proves about `(*PhantomIPSelector).Select(seed, gen, ver, v6 = false)` is what
`processBdReq` needs: a successful IPv4 selection is 4 bytes long (`select_contained`), so
`net.IP.To4` is not nil — for every generator, HKDF stream, configuration, seed, generation and
library version -/
theorem selector_contract_from_c14 (R : CJ.Phantom.Rng) (g : R.G) (h : CJ.Phantom.Hk) (cfg : CJ.Phantom.Cfg)
    (seed : Bytes) (gen ver : Nat) (a : CJ.Phantom.Addr)
    (hok : CJ.Props.C14.select R g h cfg seed gen ver false = .ok a) : (to4 a.bytes).isSome = true := by
  have hl : a.bytes.length = 4 := by
    simpa using (CJ.Props.C14.select_contained R g h cfg seed gen ver false a hok).1
  simp [to4, hl]

/-- **`processBdReq` never panics when its IPv4 address comes from the C14 selector** — no hypothesis
about the selector is left: every request whose `select4` is what `Select(…, v6 = false)` answered
(an address, an error, even a panic caught upstream counted as error) -/
theorem processBdReq_no_panic_c14 (R : CJ.Phantom.Rng) (g : R.G) (h : CJ.Phantom.Hk) (cfg : CJ.Phantom.Cfg)
    (seed : Bytes) (gen ver : Nat) (r : BdReq)
    (hsel : r.select4 = match CJ.Props.C14.select R g h cfg seed gen ver false with
      | .ok a => some a.bytes
      | _ => none) : (processBdReq r).Safe := by
  apply processBdReq_no_panic
  intro ip hip
  rw [hsel] at hip
  split at hip
  · rename_i a ha
    cases hip
    exact selector_contract_from_c14 R g h cfg seed gen ver a ha
  · cases hip

theorem processBdReq_no_payload (r : BdReq) (h : r.hasPayload = false) : processBdReq r = .ok .errNoC2SBody := by
  simp [processBdReq, h]

/-- without that contract it does: a 3-byte address (C14's leading-zero finding) reaches `Uint32(nil)` -/
theorem processBdReq_needs_selector_contract :
    processBdReq ⟨true, true, true, false, some [1, 2, 3], none, true, true, true, true⟩ = .panic "index out of range" := by
  decide

theorem processC2SWrapper_no_panic (present : Bool) (secretLen : Nat) (marshalOk : Bool) :
    (processC2SWrapper present secretLen marshalOk).Safe := by
  unfold processC2SWrapper
  repeat (first | exact .ok _ | split)

/-- `parseRegMessage`: the one write through the payload pointer is only reached when the payload is
there (the family flags are read through nil-safe getters and are false otherwise) -/
theorem parseRegMessage_no_panic (m : ZmqMsg) (hc : m.consistent) (e4 e6 b4 b6 : Bool) :
    (parseRegMessage m e4 e6 b4 b6).Safe := by
  have hnew : ∀ b, m.hasPayload = true → (newRegistrationC2SWrapper m b).Safe := by
    intro b hp
    simp [newRegistrationC2SWrapper, hp, Outcome.Safe]
  unfold parseRegMessage
  split
  · exact .ok _
  · simp only
    have h4 : (if m.v4Support = true ∧ e4 = true ∧ m.srcIsV4 = true then
        (newRegistrationC2SWrapper m b4).bind fun ok => Outcome.ok (some ok) else Outcome.ok none).Safe := by
      split
      · rename_i h
        have hp : m.hasPayload = true := by
          cases hh : m.hasPayload with
          | true => rfl
          | false => have := (hc hh).1; rw [this] at h; simp at h
        exact (hnew b4 hp).bind fun _ => .ok _
      · exact .ok _
    refine h4.bind fun r4 => ?_
    have h6 : (if m.v6Support = true ∧ e6 = true then
        (newRegistrationC2SWrapper m b6).bind fun ok => Outcome.ok (some ok) else Outcome.ok none).Safe := by
      split
      · rename_i h
        have hp : m.hasPayload = true := by
          cases hh : m.hasPayload with
          | true => rfl
          | false => have := (hc hh).2; rw [this] at h; simp at h
        exact (hnew b6 hp).bind fun _ => .ok _
      · exact .ok _
    refine h6.bind fun r6 => ?_
    by_cases hb : ((if r4 = some true then 1 else 0) + (if r6 = some true then 1 else 0) = 0 ∧
        (r4 = some false ∨ r6 = some false))
    · rw [if_pos hb]; exact .ok _
    · rw [if_neg hb]; exact .ok _

/-- tie 1: every field access written as `x.Sub.Field` through a protobuf sub-message pointer that the
extractor finds in the packages a registration message, a first flight or a registration request passes
through (`scannedFiles` source files; the sub-message fields are taken from the generated protobuf types)
is guarded by a nil check -/
theorem entrypoints_nil_safe : ∀ s ∈ CJ.Gen.C11.derefSites, s.guarded = true := by decide

/-- Field accesses through a local name that holds a sub-message (`p := x.GetSub()`, then `p.Field`) that no
nil check guards where they stand, with the reason each is safe all the same:
* `NewRegistrationC2SWrapper`, `c2s.TransportParams`: the write through the payload pointer that
  `newRegistrationC2SWrapper` models as a partial operation; `parseRegMessage_no_panic` shows it is only
  reached when the payload is there;
* `processBdReq`, `regResp.…`: the response is re-read from the wrapper after `regOverrides.Override` ran
  on it; that an override never removes the response it is given is its contract (the harness runs the
  production override on every request it generates). -/
def aliasDischarged : List (String × String) :=
  [("NewRegistrationC2SWrapper", "c2s.TransportParams"), ("processBdReq", "regResp.DstPort"),
   ("processBdReq", "regResp.Ipv4Addr")]

/-- tie 1, aliases: every other access through such a local name is guarded by a nil check of the name or
of the expression it was assigned from. A new unguarded one (say `src := params.GetSrcAddr4(); src.IP`)
makes this false. -/
theorem alias_derefs_nil_safe :
    ∀ s ∈ CJ.Gen.C11.aliasSites, s.guarded = true ∨ (s.fn, s.expr) ∈ aliasDischarged := by decide

/-- Explicit dereferences of an optional scalar without a check: only `RegistrationSource` of a
`DecoyRegistration`, which `NewRegistration` always sets (`&regSrc`); the station harness asserts on every
registration `parseRegMessage` returns that it is there (signature `registration-without-source`). -/
def starDischarged : List (String × String) :=
  [("ingestRegistration", "*reg.RegistrationSource"), ("AddRegStats", "*source")]

/-- tie 1, `*x.F`: every other explicit dereference of an optional scalar is guarded -/
theorem star_derefs_nil_safe :
    ∀ s ∈ CJ.Gen.C11.starSites, s.guarded = true ∨ (s.fn, s.expr) ∈ starDischarged := by decide

/-- the scan is not empty-handed: it read the entry packages and found sites of each kind -/
theorem extractor_saw_the_code : 40 ≤ CJ.Gen.C11.scannedFiles ∧ 10 ≤ CJ.Gen.C11.derefSites.length ∧
    5 ≤ CJ.Gen.C11.aliasSites.length ∧ 3 ≤ CJ.Gen.C11.starSites.length := by decide

/-! ## the registrar after an input: requests, reloads and the selector lock

A refused request must not take the registrar's other operations with it. `processBdReqLocks` is
`processBdReq` together with the read locks of `selectorMutex` it still holds on return; `regRun` runs a
history of requests and reloads (`ReloadSubnets`, what SIGHUP does) on the lock state. -/

/-- where the lock is released does not change any answer … -/
theorem processBdReq_locks_answer (hold : Bool) (r : BdReq) : (processBdReqLocks hold r).1 = processBdReq r := by
  unfold processBdReqLocks processBdReq
  by_cases h1 : r.hasPayload <;> by_cases h2 : r.keysOk <;> simp only [h1, h2, Bool.not_true, Bool.not_false, if_true, if_false,
    Bool.false_eq_true]
  cases hs : (if r.v4 = true then
      match r.select4 with
      | none => Outcome.ok false
      | some ip => (beUint32 (to4 ip)).bind fun _ => Outcome.ok true
    else Outcome.ok true) with
  | ok b =>
    cases b with
    | false => simp [Outcome.bind]
    | true =>
      simp only [Outcome.bind]
      by_cases h6 : (r.v6 = true ∧ r.select6.isNone = true)
      · simp [h6]
      · simp only [h6, if_false, Bool.not_true, Bool.false_eq_true]
        by_cases a : r.transportKnown <;> by_cases b : r.paramsOk <;> by_cases c : r.overrideOk <;> by_cases d : r.dstPortOk <;> simp [a, b, c, d]
  | err e => simp [Outcome.bind]
  | panic s => simp [Outcome.bind]
  | hang => simp [Outcome.bind]

/-- … and the code under test releases it on **every** path: whatever the request, accepted or refused,
no read lock is held when `processBdReq` returns -/
theorem processBdReq_releases_selector_lock (r : BdReq) : (processBdReqLocks false r).2 = 0 := by
  unfold processBdReqLocks
  by_cases h1 : r.hasPayload <;> by_cases h2 : r.keysOk <;> simp only [h1, h2, Bool.not_true, Bool.not_false, if_true, if_false,
    Bool.false_eq_true]
  split
  · rfl
  · split <;> (try rfl)
    repeat' split
    all_goals rfl
  · rfl
  · rfl
  · rfl

theorem regStep_live (s : RegLock) (hs : s.readers = 0 ∧ s.writerWaiting = false) (op : RegOp) :
    ((regStep false s op).1.readers = 0 ∧ (regStep false s op).1.writerWaiting = false) ∧
      (regStep false s op).2.isBlocked = false := by
  obtain ⟨hr, hw⟩ := hs
  cases op with
  | reload => simp [regStep, hr, hw, RegAnswer.isBlocked]
  | request r =>
    have hl := processBdReq_releases_selector_lock r
    simp only [regStep, hw, Bool.false_eq_true, false_and, if_false]
    cases hp : processBdReqLocks false r with
    | mk ans leaked =>
      rw [hp] at hl
      simp only at hl
      simp [hr, hl, RegAnswer.isBlocked]

/-- **the registrar stays live after any history**: whatever requests were sent before — refused at any
exit of `processBdReq` or answered — and however many reloads came in between, no reload and no request
ever blocks, and no lock is left held -/
theorem registrar_live_after_any_history (ops : List RegOp) :
    (regRun false {} ops).1.readers = 0 ∧ (regRun false {} ops).1.writerWaiting = false ∧
      ∀ a ∈ (regRun false {} ops).2, a.isBlocked = false := by
  have key : ∀ (ops : List RegOp) (s : RegLock), s.readers = 0 ∧ s.writerWaiting = false →
      ((regRun false s ops).1.readers = 0 ∧ (regRun false s ops).1.writerWaiting = false) ∧
        ∀ a ∈ (regRun false s ops).2, a.isBlocked = false := by
    intro ops
    induction ops with
    | nil => intro s hs; exact ⟨hs, by intro a ha; cases ha⟩
    | cons op rest ih =>
      intro s hs
      obtain ⟨h1, h2⟩ := regStep_live s hs op
      obtain ⟨i1, i2⟩ := ih (regStep false s op).1 h1
      simp only [regRun]
      refine ⟨i1, ?_⟩
      intro a ha
      simp only [List.mem_cons] at ha
      rcases ha with ha | ha
      · rw [ha]; exact h2
      · exact i2 a ha
  obtain ⟨⟨a, b⟩, c⟩ := key ops {} ⟨rfl, rfl⟩
  exact ⟨a, b, c⟩

/-- the early release is what the theorem rests on: with the lock kept across the selections, one request
naming a generation nobody configured is refused in the ordinary way — and the next reload, and the
well-formed request after it, never return -/
theorem registrar_lock_across_selection_wedges :
    let ok : BdReq := ⟨true, true, true, true, some [10, 1, 2, 3], some [1], true, true, true, true⟩
    ((regRun true {} [.request { ok with select4 := none }, .reload, .request ok]).2.map RegAnswer.isBlocked = [false, true, true]) ∧
    ((regRun true {} [.request { ok with v4 := false, select6 := none }, .reload]).2.map RegAnswer.isBlocked = [false, true]) ∧
    ((regRun false {} [.request { ok with select4 := none }, .reload, .request ok]).2.map RegAnswer.isBlocked = [false, false, false]) := by
  decide

/-! ## constant-index expressions of the DNS registrar packages (regenerated table)

`CJ/Gen/C11Index.lean` lists every `x[k]` with a literal `k` in the packages a DNS datagram passes through
and the length guard the extractor recognised for it (see go/harness/C11/zz_verif_c11_idxgen_test.go for the
four shapes; the analysis is pinned by fixtures). The slices are filled by whoever sends the datagram. -/

/-- every constant index in those packages sits behind a length guard: `resp.Question[0]` in
`dnsRespToUDPResp` behind `len(resp.Question) == 1` in the enclosing condition (the guard
`responder_question_count_guard_needed` shows to be necessary), `query.Question[0]` in `responseFor` behind
the FORMERR return, `resp.Answer[0]` of the requester behind its count check, the first byte of a frame and
of a TXT string behind the length tests, `Additional[0]` / `Answer[0]` of the responder behind the statement
that puts an element there -/
theorem dns_index_sites_guarded : ∀ s ∈ CJ.Gen.C11Index.indexSites, s.guard ≠ "" := by decide

/-- the scan is not empty-handed: it read the packages and found the sites the model's partial operations
stand for -/
theorem dns_index_extractor_saw_the_code : 12 ≤ CJ.Gen.C11Index.scannedFiles ∧
    (∃ s ∈ CJ.Gen.C11Index.indexSites, s.fn = "dnsRespToUDPResp" ∧ s.expr = "resp.Question[0]" ∧ s.guard = "enclosing-if") ∧
    (∃ s ∈ CJ.Gen.C11Index.indexSites, s.fn = "responseFor" ∧ s.expr = "query.Question[0]" ∧ s.guard = "dominating-return") ∧
    (∃ s ∈ CJ.Gen.C11Index.indexSites, s.fn = "RemoveRequestFormat" ∧ s.expr = "p[0]") ∧
    (∃ s ∈ CJ.Gen.C11Index.indexSites, s.fn = "DecodeRDataTXT" ∧ s.expr = "p[0]") ∧
    (∃ s ∈ CJ.Gen.C11Index.indexSites, s.fn = "dnsResponsePayload" ∧ s.expr = "resp.Answer[0]") := by decide

/-! ## dereferences through elements of maps of pointers (regenerated table)

`CJ/Gen/C11MapDeref.lean` lists every `m[k].field` / `*m[k]` where `m` is a struct field of type
`map[K]*T`, in the packages a registration, a first flight or a phantom connection passes through — the
per-ASN connection counters of `connStats` (keyed by the peer's ASN and wiped at every statistics epoch),
the registration statistics per generation / library version / transport — with the guard on the same map
and key that makes sure the element exists (see go/harness/C11/zz_verif_c11_mapgen_test.go; pinned by
fixtures). A missing element is a nil pointer; the connection handler has no `recover`. -/

set_option maxRecDepth 16000 in
/-- every such dereference comes after a statement that makes sure **that** map has an element for **that**
key (a guard on the other family's map does not count), with nothing in between that replaces the map,
deletes from it or releases the lock, and under a lock taken in front of both -/
theorem map_derefs_guarded : ∀ s ∈ CJ.Gen.C11MapDeref.mapSites, s.guard ≠ "" ∧ s.locked = true := by decide

set_option maxRecDepth 16000 in
/-- the scan is not empty-handed: it found the per-ASN maps of both families and their use in the transition
a connection makes when it is closed before sending anything -/
theorem map_extractor_saw_the_code : 60 ≤ CJ.Gen.C11MapDeref.scannedFiles ∧ 200 ≤ CJ.Gen.C11MapDeref.mapSites.length ∧
    "v4geoIPMap" ∈ CJ.Gen.C11MapDeref.pointerMaps ∧ "v6geoIPMap" ∈ CJ.Gen.C11MapDeref.pointerMaps ∧
    (∃ s ∈ CJ.Gen.C11MapDeref.mapSites, s.fn = "createdToClose" ∧ s.map = "c.v4geoIPMap" ∧ s.guard = "ensured") ∧
    (∃ s ∈ CJ.Gen.C11MapDeref.mapSites, s.fn = "createdToClose" ∧ s.map = "c.v6geoIPMap" ∧ s.guard = "ensured") ∧
    (∃ s ∈ CJ.Gen.C11MapDeref.mapSites, s.fn = "AddRegStats" ∧ s.map = "s.generations") := by decide

/-! ## the liveness cache under the ingest workers (regenerated table)

`CJ/Gen/C11LruCalls.lean` lists every call the liveness cache makes into its LRU list and whether the cache's
own mutex is held at that call (go/harness/C11/zz_verif_c11_lrugen_test.go; pinned by fixtures). The list's
eviction callback takes that mutex. -/

/-- a call into the list made without holding the mutex returns, whether or not it evicts … -/
theorem liveness_list_call_returns (evicts : Bool) : (listCall .nothing evicts).Safe := by
  cases evicts <;> simp [listCall, evictionProceeds, Outcome.Safe]

/-- … and one made while holding it — for reading or for writing — never returns once it evicts: the
ingest worker is stuck with the lock, and every worker that consults the cache queues behind it -/
theorem liveness_list_call_under_lock_hangs :
    listCall .readLock true = .hang ∧ listCall .writeLock true = .hang ∧
    listCall .readLock false = .ok () := by decide

/-- every call the cache makes into the list (`Lookup`'s refresh, `Add`, `ClearExpired`'s removals) is made
with the mutex released -/
theorem lru_calls_outside_mutex : ∀ c ∈ CJ.Gen.C11LruCalls.lruCalls, c.mutexHeld = false := by decide

/-- the scan is not empty-handed: it found the callback that locks and the three callers -/
theorem lru_extractor_saw_the_code : CJ.Gen.C11LruCalls.evictionCallbackLocks = true ∧
    (∃ c ∈ CJ.Gen.C11LruCalls.lruCalls, c.fn = "Lookup" ∧ c.callee = "lru.Add") ∧
    (∃ c ∈ CJ.Gen.C11LruCalls.lruCalls, c.fn = "Add" ∧ c.callee = "lru.Add") ∧
    (∃ c ∈ CJ.Gen.C11LruCalls.lruCalls, c.fn = "ClearExpired" ∧ c.callee = "lru.Remove") := by decide

/-! ## non-vacuity -/

example : (⟨true, false, false, false, true, true⟩ : ZmqMsg).consistent := by intro _; exact ⟨rfl, rfl⟩
example : ∀ ip, (⟨true, true, true, false, some [192, 122, 190, 7], none, true, true, true, true⟩ : BdReq).select4 = some ip →
    (to4 ip).isSome = true := by intro ip h; cases h; decide
example : processBdReq ⟨true, true, true, false, some [192, 122, 190, 7], none, true, true, true, true⟩ = .ok .response := by
  decide
example : wrapPrefix CJ.Gen.C11.prefixTable (List.replicate 64 0) (fun _ => some (.prefixParams 0)) = .ok (.found 64) := by
  decide
example : readName [0xc0, 0x00] 0 = .err .tooManyPointers := by decide
example : CJ.Gen.C11.prefixTable ≠ [] ∧ CJ.Gen.C11.derefSites ≠ [] := by decide

/-- a parse function for the examples: `1.2.3.4` and ` 5.6.7.8` (trimmed) parse, nothing else does -/
def exParse (c : Bytes) : Option String :=
  if c = [49, 46, 50, 46, 51, 46, 52] then some "1.2.3.4"
  else if c = [32, 53, 46, 54, 46, 55, 46, 56] then some "5.6.7.8" else none

-- `getRemoteAddrWith_no_panic`: the hypothesis holds for `strings.Split` …
example : ∀ v, splitOn 44 v ≠ [] := CJ.Ingress.splitOn_ne_nil 44
-- … and `getRemoteAddrWith_empty_split_panics`: it fails for the `FieldsFunc`-like splitter, on `,` and on the empty value
example : fieldsOn [44] [44] = [] ∧ fieldsOn [44] [] = [] ∧ fieldsOn [44] [49, 44, 44, 50] = [[49], [50]] := by decide
example : splitOn 44 [] = [[]] ∧ splitOn 44 [44] = [[], []] ∧ splitOn 44 [49, 44, 44, 50] = [[49], [], [50]] := by decide
-- the branches of `getRemoteAddr`: `X-Forwarded-For: 1.2.3.4, 5.6.7.8` from a remote peer → the last entry,
example : getRemoteAddr (some "9.9.9.9") false [[49, 46, 50, 46, 51, 46, 52, 44, 32, 53, 46, 54, 46, 55, 46, 56]] exParse =
    .ok (some "5.6.7.8") := by decide
-- from a loopback peer → the second-last,
example : getRemoteAddr (some "127.0.0.1") true [[49, 46, 50, 46, 51, 46, 52, 44, 32, 53, 46, 54, 46, 55, 46, 56]] exParse =
    .ok (some "1.2.3.4") := by decide
-- the last header value counts; a value `,` from a loopback peer (pieces `""`, `""`) falls back to the peer,
example : getRemoteAddr (some "127.0.0.1") true [[49, 46, 50, 46, 51, 46, 52], [44]] exParse = .ok (some "127.0.0.1") := by
  decide
-- an empty header value and a nil peer address: nil, and the handlers answer 400 (`registerHttp_no_address`)
example : getRemoteAddr none false [[]] exParse = .ok none := by decide
example : registerHttp none false [[]] exParse ⟨true, true, 40, true, some true⟩ .ok = .ok 400 := by decide
example : registerHttp (some "9.9.9.9") false [] exParse ⟨false, true, 40, true, some true⟩ .ok = .ok 204 := by decide
example : registerBidirectionalHttp none true [[44], [49, 46, 50, 46, 51, 46, 52]] exParse ⟨false, true, 40, true, some true⟩ false .ok =
    .ok 200 := by decide
-- `indexAt` does panic out of range (both sides)
example : indexAt ([] : List Bytes) ((0 : Int) - 1) = .panic "index out of range" ∧
    indexAt [[1]] (1 : Int) = .panic "index out of range" ∧ indexAt [[1], [2]] ((2 : Int) - 2) = .ok [1] := by decide

-- `selector_contract_from_c14` / `processBdReq_no_panic_c14`: C14's selector does answer (HKDF path and legacy path)
example : CJ.Props.C14.select CJ.Props.C14.toyRng CJ.Props.C14.toy0 CJ.Props.C14.zeroHk CJ.Props.C14.cfg0 [7] 1 2 false =
    .ok ⟨[10, 1, 0, 0], true⟩ := by decide
example : (⟨true, true, true, false, some [10, 1, 0, 0], none, true, true, true, true⟩ : BdReq).select4 =
    match CJ.Props.C14.select CJ.Props.C14.toyRng CJ.Props.C14.toy0 CJ.Props.C14.zeroHk CJ.Props.C14.cfg0 [7] 1 2 false with
    | .ok a => some a.bytes
    | _ => none := by decide
-- also with a leading-zero network (`0.1.2.0/24`, the C14 finding that made `To4()` nil before its repair)
example : (⟨true, true, true, false, some [0, 1, 2, 1], none, true, true, true, true⟩ : BdReq).select4 =
    match CJ.Props.C14.select CJ.Props.C14.toyRng CJ.Props.C14.toy0 CJ.Props.C14.zeroHk CJ.Props.C14.cfg0 [2, 0, 0, 1, 2] 1 1 false with
    | .ok a => some a.bytes
    | _ => none := by decide
-- and an error of the selector is an error of `processBdReq`, not a panic
example : (⟨true, true, true, false, none, none, true, true, true, true⟩ : BdReq).select4 =
    match CJ.Props.C14.select CJ.Props.C14.toyRng CJ.Props.C14.toy0 CJ.Props.C14.zeroHk CJ.Props.C14.cfg0 [7] 9 2 false with
    | .ok a => some a.bytes
    | _ => none := by decide

end CJ.Props.C11
