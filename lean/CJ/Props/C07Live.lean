import CJ.Props.C07
import CJ.Props.C18
import CJ.Model.IngestLive
/-!
# C07 with the liveness tester inside: "the phantom did not answer the probe (or a fresh enough cached verdict says so)"

`CJ.Props.C07` treats the liveness verdict as a parameter of the message.  Here the verdict is *computed*: the station
carries the caching tester of `pkg/station/liveness` (C18's model, composed unchanged in `CJ.IngestLive`), messages arrive
at times `now` in worlds that say what a probe of each phantom would return (ground truth, not a tester's word).  The
theorems hold for every liveness-cache configuration, every cache state the tester can be in after any history of
questions, and every history of messages; no ordering of the arrival times is assumed.
-/
namespace CJ.Props.C07
open CJ.Ingest CJ.Liveness CJ.IngestLive

/-- the questions put to the tester, as tester operations -/
def opsOf (asked : List (XOp × XOut)) : List XOp := asked.map (·.1)

/-! ### where the tester is asked -/

/-- **Where `ingestRegistration` does not ask, the verdict is read by nothing**: the composed model passes the caller's
`o.live` through in that case, and it does not matter what it is. -/
theorem unasked_verdict_irrelevant (c : Cfg) (o : Oracles) (s : RSt) (r : Reg) (b : Bool)
    (h : reachesProbe c o s r = false) : ingestReg c { o with live := b } s r = ingestReg c o s r := by
  unfold reachesProbe at h
  unfold ingestReg
  cases hv : validate c r with
  | error e => rfl
  | ok u =>
    rw [hv] at h
    simp only at h ⊢
    cases hk : s.decoys.contains (keyOf r) with
    | true => simp
    | false =>
      cases hc : o.covertOk with
      | false => simp
      | true =>
        have hn : needProbe r = false := by simpa [hk, hc] using h
        simp [hn]

theorem reachesProbe_iff (c : Cfg) (o : Oracles) (s : RSt) (r : Reg) :
    reachesProbe c o s r = true ↔
      validate c r = .ok () ∧ get s (keyOf r) = none ∧ o.covertOk = true ∧ needProbe r = true := by
  unfold reachesProbe
  rcases validate_cases c r with hv | hv
  · rw [hv]
    simp only [Bool.and_eq_true, Bool.not_eq_true', contains_iff_get]
    cases hg : get s (keyOf r) <;> simp
  · cases hv' : validate c r with
    | error e => simp
    | ok u => cases u; exact absurd hv' hv

theorem reachesProbe_live (c : Cfg) (o : Oracles) (s : RSt) (r : Reg) (b : Bool) :
    reachesProbe c { o with live := b } s r = reachesProbe c o s r := rfl

/-- **The tester is asked exactly when a probe is required** — the question is the `P` event of the base model: the
composed model asks iff `ingestReg` records `Ev.probe` for this registration, whatever the tester then answers. -/
theorem asked_iff_probe_event (c : Cfg) (o : Oracles) (now : Int) (w : World) (x : LSt) (r : Reg) :
    (ingestRegL c o now w x r).asked ≠ [] ↔ Ev.probe r.phantom r.port ∈ (ingestRegL c o now w x r).evs := by
  unfold ingestRegL
  cases hr : reachesProbe c o x.reg r with
  | true =>
    simp only [if_true, ne_eq, List.cons_ne_nil, not_false_eq_true, true_iff]
    obtain ⟨hv, hg, hc, hn⟩ := (reachesProbe_iff c o x.reg r).mp hr
    rw [evs_ingestReg, if_pos ⟨hv, hg⟩, probe_mem_evsOf]
    exact ⟨hc, hn, rfl, rfl⟩
  | false =>
    simp only [Bool.false_eq_true, if_false, ne_eq, not_true_eq_false, false_iff]
    intro hm
    rw [evs_ingestReg] at hm
    by_cases hcond : validate c r = .ok () ∧ get x.reg (keyOf r) = none
    · rw [if_pos hcond] at hm
      obtain ⟨hc, hn, _, _⟩ := (probe_mem_evsOf c o r _ _).mp hm
      have := (reachesProbe_iff c o x.reg r).mpr ⟨hcond.1, hcond.2, hc, hn⟩
      rw [hr] at this; cases this
    · rw [if_neg hcond] at hm; cases hm

/-- at most one question per registration, and it is about this registration's phantom at the time of the message in
the world of the message -/
theorem asked_shape (c : Cfg) (o : Oracles) (now : Int) (w : World) (x : LSt) (r : Reg) :
    (ingestRegL c o now w x r).asked = [] ∨
      ∃ out, (ingestRegL c o now w x r).asked = [(.query now (phKey r.phantom) (w (phKey r.phantom)), out)] := by
  unfold ingestRegL
  cases reachesProbe c o x.reg r with
  | true => exact Or.inr ⟨_, rfl⟩
  | false => exact Or.inl rfl

/-! ### the tester's state is the history of the questions -/

theorem runXFrom_append (t : Tester) (a b : List XOp) : runXFrom t (a ++ b) = runXFrom (runXFrom t a) b := by
  unfold runXFrom; exact List.foldl_append ..

theorem tester_ingestRegL (c : Cfg) (o : Oracles) (now : Int) (w : World) (x : LSt) (r : Reg) :
    (ingestRegL c o now w x r).st.tester = runXFrom x.tester (opsOf (ingestRegL c o now w x r).asked) := by
  unfold ingestRegL
  cases reachesProbe c o x.reg r with
  | true => rfl
  | false => rfl

theorem tester_ingestRegsL (c : Cfg) (o : Oracles) (now : Int) (w : World) (regs : List Reg) (x : LSt) :
    (ingestRegsL c o now w x regs).st.tester = runXFrom x.tester (opsOf (ingestRegsL c o now w x regs).asked) := by
  induction regs generalizing x with
  | nil => rfl
  | cons r rest ih =>
    show (ingestRegsL c o now w (ingestRegL c o now w x r).st rest).st.tester = _
    rw [ih]
    show _ = runXFrom x.tester (opsOf ((ingestRegL c o now w x r).asked ++
      (ingestRegsL c o now w (ingestRegL c o now w x r).st rest).asked))
    unfold opsOf
    rw [List.map_append, runXFrom_append, ← opsOf, ← opsOf, ← tester_ingestRegL]

theorem tester_ingestWireL (c : Cfg) (x : LSt) (m : TMsg) :
    (ingestWireL c x m).st.tester = runXFrom x.tester (opsOf (ingestWireL c x m).asked) := by
  unfold ingestWireL
  cases hw : m.wire with
  | garbage => rfl
  | msg mm o =>
    simp only
    cases parse c (.msg mm o) with
    | none => rfl
    | some regs => exact tester_ingestRegsL c o m.now m.world regs x

/-- **The tester's state after any history of messages is C18's history of the questions that were asked**: every
theorem of C18 about `runX cfg ops` applies to the tester inside the station with `ops` = the questions of the run. -/
theorem tester_runL (c : Cfg) (ms : List TMsg) (x : LSt) :
    (runL c x ms).st.tester = runXFrom x.tester (opsOf (runL c x ms).asked) := by
  induction ms generalizing x with
  | nil => rfl
  | cons m rest ih =>
    show (runL c (ingestWireL c x m).st rest).st.tester = _
    rw [ih]
    show _ = runXFrom x.tester (opsOf ((ingestWireL c x m).asked ++ (runL c (ingestWireL c x m).st rest).asked))
    unfold opsOf
    rw [List.map_append, runXFrom_append, ← opsOf, ← opsOf, ← tester_ingestWireL]

/-- a question of a message: about some address, at the message's time, carrying the message's world -/
def QuestionOf (m : TMsg) (q : XOp) : Prop := ∃ a, q = .query m.now a (m.world a)

theorem asked_ingestRegsL (c : Cfg) (o : Oracles) (now : Int) (w : World) (regs : List Reg) (x : LSt) (q : XOp)
    (h : q ∈ opsOf (ingestRegsL c o now w x regs).asked) : ∃ a, q = .query now a (w a) := by
  induction regs generalizing x with
  | nil => cases h
  | cons r rest ih =>
    have h' : q ∈ opsOf ((ingestRegL c o now w x r).asked ++
        (ingestRegsL c o now w (ingestRegL c o now w x r).st rest).asked) := h
    unfold opsOf at h'
    rw [List.map_append, List.mem_append] at h'
    rcases h' with h' | h'
    · rcases asked_shape c o now w x r with he | ⟨out, he⟩
      · rw [he] at h'; cases h'
      · rw [he] at h'
        simp only [List.map_cons, List.map_nil, List.mem_singleton] at h'
        exact ⟨_, h'⟩
    · exact ih _ h'

theorem asked_ingestWireL (c : Cfg) (x : LSt) (m : TMsg) (q : XOp) (h : q ∈ opsOf (ingestWireL c x m).asked) :
    QuestionOf m q := by
  unfold ingestWireL at h
  cases hw : m.wire with
  | garbage => rw [hw] at h; cases h
  | msg mm o =>
    rw [hw] at h
    simp only at h
    cases hp : parse c (.msg mm o) with
    | none => rw [hp] at h; cases h
    | some regs => rw [hp] at h; exact asked_ingestRegsL c o m.now m.world regs x q h

/-- every question of a run belongs to one of its messages -/
theorem asked_runL (c : Cfg) (ms : List TMsg) (x : LSt) (q : XOp) (h : q ∈ opsOf (runL c x ms).asked) :
    ∃ m ∈ ms, QuestionOf m q := by
  induction ms generalizing x with
  | nil => cases h
  | cons m rest ih =>
    have h' : q ∈ opsOf ((ingestWireL c x m).asked ++ (runL c (ingestWireL c x m).st rest).asked) := h
    unfold opsOf at h'
    rw [List.map_append, List.mem_append] at h'
    rcases h' with h' | h'
    · exact ⟨m, List.mem_cons_self .., asked_ingestWireL c x m q h'⟩
    · obtain ⟨m', hm', hq⟩ := ih _ h'
      exact ⟨m', List.mem_cons_of_mem _ hm', hq⟩

/-! ### the admission clause -/

theorem announce_self (c : Cfg) (o : Oracles) (now : Int) (w : World) (x : LSt) (r r0 : Reg)
    (h : Ev.announce r0 ∈ (ingestRegL c o now w x r).evs) : r0 = r := by
  unfold ingestRegL at h
  cases hr : reachesProbe c o x.reg r with
  | true => rw [hr] at h; exact ((announce_mem_ingestReg c _ x.reg r0 r).mp h).1
  | false => rw [hr] at h; exact ((announce_mem_ingestReg c _ x.reg r0 r).mp h).1

/-- a non-live verdict served from the cache was measured: some earlier question of the history carried a probe result
with boolean `false` for this address, less than the non-live lifetime before `now` (no chronology assumed) -/
theorem cached_not_live_was_measured (lc : Config) (ops : List XOp) (now : Int) (a : String) (r : Measured)
    (h : (queryX (runX lc ops) now a r).2 = .cached false) :
    ∃ d tm e, lc.durNonLive = .ok d ∧ XOp.query tm a ⟨false, e⟩ ∈ ops ∧ now - tm < d := by
  have hx : CJ.Props.C18.answerX lc ops now a r = .cached false := h
  have h0 : CJ.Props.C18.answer lc (ops.map XOp.forget) now a r.live = .cached false := by
    rw [← CJ.Props.C18.answerX_forget, hx]; rfl
  obtain ⟨d, tm, h1, h2, h3⟩ := CJ.Props.C18.served_only_if_fresh lc _ now a r.live false h0
  unfold CJ.Props.C18.probes at h2
  have hl := logXFrom_forget ops (new lc).1 []
  simp only [List.map_nil] at hl
  rw [← hl, List.mem_map] at h2
  obtain ⟨p, hp, hpf⟩ := h2
  obtain ⟨pt, pa, ⟨pv, pe⟩⟩ := p
  simp only [XProbe.forget, Prod.mk.injEq] at hpf
  obtain ⟨rfl, rfl, rfl⟩ := hpf
  have hq := CJ.Props.C18.logged_pair_was_returned lc ops (pt, pa, ⟨false, pe⟩) hp
  exact ⟨d, pt, pe, by simpa [Config.dur] using h1, hq, h3⟩

/-- **Admission needs "did not answer"** (one registration, any cache state reachable by a history of questions): when a
registration that needs a probe is announced, then either the probe was sent now and the phantom did not answer it, or
the tester served a cached non-live verdict — and then the phantom did not answer a probe that an earlier question of the
history sent less than the configured non-live lifetime ago.  The tester's word never enters: the conclusion speaks about
the world. -/
theorem admitted_phantom_did_not_answer (lc : Config) (ops : List XOp) (c : Cfg) (o : Oracles) (now : Int) (w : World)
    (s : RSt) (r r0 : Reg)
    (hann : Ev.announce r0 ∈ (ingestRegL c o now w ⟨s, runX lc ops⟩ r).evs) (hnp : needProbe r = true) :
    ((w (phKey r.phantom)).live = false ∧
        (ingestRegL c o now w ⟨s, runX lc ops⟩ r).asked =
          [(.query now (phKey r.phantom) (w (phKey r.phantom)), .probed (w (phKey r.phantom)))]) ∨
      (∃ d tm e, lc.durNonLive = .ok d ∧ XOp.query tm (phKey r.phantom) ⟨false, e⟩ ∈ ops ∧ now - tm < d ∧
        (ingestRegL c o now w ⟨s, runX lc ops⟩ r).asked =
          [(.query now (phKey r.phantom) (w (phKey r.phantom)), .cached false)]) := by
  unfold ingestRegL at hann ⊢
  cases hr : reachesProbe c o s r with
  | false =>
    exfalso
    simp only [hr, Bool.false_eq_true, if_false] at hann
    obtain ⟨_, hv, hg, hp⟩ := (announce_mem_ingestReg c o s r0 r).mp hann
    unfold passes at hp
    simp only [Bool.and_eq_true] at hp
    have := (reachesProbe_iff c o s r).mpr ⟨hv, hg, hp.1.1, hnp⟩
    rw [hr] at this; cases this
  | true =>
    simp only [hr, if_true] at hann ⊢
    obtain ⟨_, _, _, hp⟩ := (announce_mem_ingestReg c _ s r0 r).mp hann
    unfold passes at hp
    simp only [Bool.and_eq_true, hnp, Bool.true_and, Bool.not_eq_true'] at hp
    have hvd : verdict (queryX (runX lc ops) now (phKey r.phantom) (w (phKey r.phantom))).2 = false := hp.1.2
    rcases queryX_shape (runX lc ops) now (phKey r.phantom) (w (phKey r.phantom)) with ⟨v, hv⟩ | hpr
    · rw [hv] at hvd
      have hvf : v = false := hvd
      subst hvf
      obtain ⟨d, tm, e, h1, h2, h3⟩ := cached_not_live_was_measured lc ops now _ _ hv
      exact Or.inr ⟨d, tm, e, h1, h2, h3, by rw [hv]⟩
    · rw [hpr] at hvd
      exact Or.inl ⟨hvd, by rw [hpr]⟩

/-- every event of a list of registrations on a station with a tester sits in one `ingestRegL` call, whose tester is
the starting tester after the questions asked so far in this message -/
theorem regsL_events_split (c : Cfg) (o : Oracles) (now : Int) (w : World) (regs : List Reg) (x : LSt) (e : CJ.Ingest.Ev)
    (he : e ∈ (ingestRegsL c o now w x regs).evs) :
    ∃ r s pre, e ∈ (ingestRegL c o now w ⟨s, runXFrom x.tester pre⟩ r).evs ∧ ∀ q ∈ pre, ∃ a, q = .query now a (w a) := by
  induction regs generalizing x with
  | nil => cases he
  | cons r rest ih =>
    have he' : e ∈ (ingestRegL c o now w x r).evs ++ (ingestRegsL c o now w (ingestRegL c o now w x r).st rest).evs := he
    rw [List.mem_append] at he'
    rcases he' with he' | he'
    · exact ⟨r, x.reg, [], he', by intro q hq; cases hq⟩
    · obtain ⟨r', s, pre, hm, hq⟩ := ih _ he'
      rw [tester_ingestRegL, ← runXFrom_append] at hm
      refine ⟨r', s, _, hm, ?_⟩
      intro q hq'
      rw [List.mem_append] at hq'
      rcases hq' with hq' | hq'
      · rcases asked_shape c o now w x r with h0 | ⟨out, h0⟩
        · rw [h0] at hq'; cases hq'
        · rw [h0] at hq'
          simp only [opsOf, List.map_cons, List.map_nil, List.mem_singleton] at hq'
          exact ⟨_, hq'⟩
      · exact hq q hq'

/-- **The clause over histories**: a station starts with an empty registry and the tester `liveness.New` builds for
*any* liveness configuration, and ingests *any* history of messages `h`, then message `m`.  If `m` makes a registration
connectable (announces it) whose phantom needs a probe, then the phantom did not answer a probe — the world of some
message `m'` of `h ++ [m]` says so — and that probe is either of this very instant (`m'.now = m.now`: sent for `m`
itself) or younger than the configured non-live lifetime.  Holds for every cache configuration (uncached, either cache
alone, map or LRU of any capacity), every history, every assignment of worlds and times. -/
theorem history_admitted_phantom_did_not_answer (lc : Config) (c : Cfg) (h : List TMsg) (m : TMsg) (r : Reg)
    (hann : Ev.announce r ∈ (ingestWireL c (runL c (LSt.init lc) h).st m).evs) (hnp : needProbe r = true) :
    ∃ m' ∈ h ++ [m], (m'.world (phKey r.phantom)).live = false ∧
      (m'.now = m.now ∨ ∃ d, lc.durNonLive = .ok d ∧ m.now - m'.now < d) := by
  unfold ingestWireL at hann
  cases hw : m.wire with
  | garbage => rw [hw] at hann; cases hann
  | msg mm o =>
    rw [hw] at hann
    simp only at hann
    cases hp : parse c (.msg mm o) with
    | none => rw [hp] at hann; cases hann
    | some regs =>
      rw [hp] at hann
      simp only at hann
      obtain ⟨r', s, pre, hm, hq⟩ := regsL_events_split c o m.now m.world regs _ _ hann
      have hrr := announce_self c o m.now m.world _ r' r hm
      subst hrr
      rw [tester_runL, ← runXFrom_append] at hm
      have hm' : Ev.announce r ∈ (ingestRegL c o m.now m.world
          ⟨s, runX lc (opsOf (runL c (LSt.init lc) h).asked ++ pre)⟩ r).evs := hm
      rcases admitted_phantom_did_not_answer lc _ c o m.now m.world s r r hm' hnp with ⟨hl, _⟩ | ⟨d, tm, e, h1, h2, h3, _⟩
      · exact ⟨m, by simp, hl, Or.inl rfl⟩
      · rw [List.mem_append] at h2
        rcases h2 with h2 | h2
        · obtain ⟨m', hm'mem, a, hqa⟩ := asked_runL c h _ _ h2
          simp only [XOp.query.injEq] at hqa
          obtain ⟨rfl, rfl, hwm⟩ := hqa
          refine ⟨m', by simp [hm'mem], ?_, Or.inr ⟨d, h1, h3⟩⟩
          rw [← hwm]
        · obtain ⟨a, hqa⟩ := hq _ h2
          simp only [XOp.query.injEq] at hqa
          obtain ⟨rfl, rfl, hwm⟩ := hqa
          refine ⟨m, by simp, ?_, Or.inl rfl⟩
          rw [← hwm]

/-- the converse reading for the base model's parameter: the `live` that `ingestReg` is run with *is* the tester's answer
whenever the tester is asked (so every theorem of `CJ.Props.C07` about `ingestReg c o …` applies with
`o.live := verdict answer`) -/
theorem composed_is_base_with_testers_answer (c : Cfg) (o : Oracles) (now : Int) (w : World) (x : LSt) (r : Reg) :
    ∃ b, (ingestRegL c o now w x r).st.reg = (ingestReg c { o with live := b } x.reg r).1 ∧
      (ingestRegL c o now w x r).evs = (ingestReg c { o with live := b } x.reg r).2 ∧
      (∀ out, (ingestRegL c o now w x r).asked = [(.query now (phKey r.phantom) (w (phKey r.phantom)), out)] →
        b = verdict out) := by
  unfold ingestRegL
  cases hr : reachesProbe c o x.reg r with
  | true =>
    refine ⟨_, rfl, rfl, ?_⟩
    intro out ho
    simp only [if_true, List.cons.injEq, Prod.mk.injEq, and_true, true_and] at ho
    rw [ho]
  | false =>
    refine ⟨o.live, rfl, rfl, ?_⟩
    intro out ho
    simp at ho

/-! ### the hypotheses are satisfiable -/

def lcU : Config := { durLive := .unset, capLive := 0, durNonLive := .unset, capNonLive := 0 }
def lc0 : Config := { durLive := .unset, capLive := 0, durNonLive := .ok 3600, capNonLive := 1 }
def silent : World := fun _ => ⟨false, .notLive⟩
def answers : World := fun _ => ⟨true, .liveHost⟩
def reg0 : Reg :=
  { phantom := [192, 0, 2, 1], port := 443, proto := 0, registrant := [10, 0, 0, 1], source := 0, transport := 1,
    prescanned := false, v4Support := true, ident := "a" }

theorem get_init (k : CJ.Registry.Key) : get CJ.Registry.init k = none := by
  unfold CJ.Ingest.get CJ.Registry.init
  exact Std.HashMap.getElem?_empty

theorem reaches0 : reachesProbe c0 o0 CJ.Registry.init reg0 = true :=
  (reachesProbe_iff c0 o0 CJ.Registry.init reg0).mpr ⟨by decide, get_init _, by decide, by decide⟩

/-- a silent phantom on a station that has just started (uncached tester): the registration is announced, after a probe -/
example : CJ.Ingest.Ev.announce reg0 ∈ (ingestRegL c0 o0 10 silent ⟨CJ.Registry.init, runX lcU []⟩ reg0).evs ∧
    needProbe reg0 = true := by
  refine ⟨?_, by decide⟩
  unfold ingestRegL
  simp only [reaches0, if_true]
  rw [announce_mem_ingestReg]
  exact ⟨rfl, by decide, get_init _, by decide⟩

/-- a phantom that answers is not announced -/
example : CJ.Ingest.Ev.announce reg0 ∉ (ingestRegL c0 o0 10 answers ⟨CJ.Registry.init, runX lcU []⟩ reg0).evs := by
  unfold ingestRegL
  simp only [reaches0, if_true]
  rw [announce_mem_ingestReg]
  rintro ⟨_, _, _, hp⟩
  revert hp
  decide

/-- the cached branch is reachable: measured silent at 10, asked again at 20 while the phantom answers by now — the
cached verdict (younger than 3600) is served; at 3610 it is not -/
example : (queryX (runX lc0 [.query 10 "4.c0000201" ⟨false, .notLive⟩]) 20 "4.c0000201" ⟨true, .liveHost⟩).2 = .cached false := by
  simp [runX, runXFrom, stepX, queryX, store, lc0, new, initCached, lookupOpt, addOpt, Cache.lookup, Cache.add, LRU.add,
    newLRUCache, onEvict]
example : (queryX (runX lc0 [.query 10 "4.c0000201" ⟨false, .notLive⟩]) 3610 "4.c0000201" ⟨true, .liveHost⟩).2 =
    .probed ⟨true, .liveHost⟩ := by
  simp [runX, runXFrom, stepX, queryX, store, lc0, new, initCached, lookupOpt, addOpt, Cache.lookup, Cache.add, LRU.add,
    newLRUCache, onEvict]

end CJ.Props.C07
