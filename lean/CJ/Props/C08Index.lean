import CJ.Lemmas.RegistryIndex
import CJ.Props.C08
/-!
# C08 — the timeout map as the code keys it: one string `phantom + "|" + identifier`

`CJ.Props.C08` is stated over a registry whose two maps share the key (phantom, identifier).  The code
keys `decoysTimeouts` by the single string `timeoutIndex(phantom, identifier)`; identifiers are transport
HMACs, arbitrary bytes.  These theorems are about `CJ.RegistryIndex` (records under index strings, removal
index → record → registration) and hold for **every identifier**, separator bytes included, and every
history; the only hypothesis is the one the code has: the textual phantom address contains no `'|'`.
-/
open Std

namespace CJ.Props.C08Index
open CJ.Registry CJ.RegistryIndex CJ.Props.C08

/-- **Distinct registrations never share a timeout record**: the index is injective — whatever bytes the
two identifiers are made of. -/
theorem index_injective (k k' : Key) (hk : sepFree k) (hk' : sepFree k') (h : idx k = idx k') : k = k' :=
  idx_inj k k' hk hk' h

/-- the hypothesis is needed: with a separator inside the phantom text two registrations collide -/
theorem index_collides_without_hypothesis : ∃ k k' : Key, k ≠ k' ∧ idx k = idx k' :=
  ⟨("a|b", "c"), ("a", "b|c"), by decide, by decide⟩

/-- an index is read back by cutting at the FIRST separator … -/
theorem split_first_inverts (k : Key) (hk : sepFree k) : splitFirst (idx k) = some (units k.1, units k.2) :=
  splitFirst_join _ _ hk

/-- … and not at the last one: an identifier containing `'|'` is torn apart -/
theorem split_last_does_not_invert :
    ∃ k : Key, sepFree k ∧ splitLast (idx k) ≠ some (units k.1, units k.2) :=
  ⟨("10.0.0.1", "x|y"), by decide, by decide⟩

/-- **Every history of the string-indexed registry is a history of the pair-keyed registry**: same
registrations, and under `idx k` exactly the record the pair-keyed model keeps under `k`. -/
theorem indexed_history_is_a_history (c : Cfg) (kops : List KOp) (hs : ∀ op ∈ kops, op.sepFree) :
    ∃ s, Reach c s ∧ R (krun c kops) s := by
  obtain ⟨ops, h⟩ := krun_R c kops hs
  exact ⟨run c ops, ⟨ops, rfl⟩, h⟩

/-- every record is stored under the index of the registration it names (so `removeRegistration`,
which follows the record's fields, removes the registration whose record it is) -/
theorem record_under_its_own_index (c : Cfg) (kops : List KOp) (hs : ∀ op ∈ kops, op.sepFree)
    (i : Index) (t : KTO) (h : (krun c kops).timeouts[i]? = some t) : idx t.key = i := by
  obtain ⟨_, _, hR⟩ := indexed_history_is_a_history c kops hs
  exact (hR.back i t h).2

/-- **The sweep is exact on the string-indexed registry**, for every history and every identifier:
after a sweep at `now` the registration `k` is tracked — and has its timeout record — iff it was tracked
and its record satisfies the age rule. -/
theorem indexed_sweep_exact (c : Cfg) (kops : List KOp) (hs : ∀ op ∈ kops, op.sepFree) (now : Nat)
    (k : Key) (hk : sepFree k) :
    let before := krun c kops
    let after := (ksweep c now before).1
    (after.decoys.contains k = true ↔
      ∃ t, before.timeouts[idx k]? = some t ∧ alive c now t.to) ∧
    (after.timeouts.contains (idx k) = after.decoys.contains k) := by
  intro before after
  obtain ⟨s, hr, hR⟩ := indexed_history_is_a_history c kops hs
  have hi := reach_inv hr
  have hR' : R after (sweep c now s).1 := ksweep_R c now hR hi
  have hex := sweep_exact c s hr now k
  have hinv' := inv_sweep c now s hi k
  constructor
  · rw [HashMap.contains_eq_isSome_getElem?, hR'.dec k, ← HashMap.contains_eq_isSome_getElem?]
    unfold tracked at hex
    rw [hex, hR.fwd k hk]
    constructor
    · rintro ⟨t, _, ht, ha⟩
      exact ⟨lift k t, by rw [ht]; rfl, by rw [lift_to]; exact ha⟩
    · rintro ⟨t, ht, ha⟩
      cases hst : s.timeouts[k]? with
      | none => rw [hst] at ht; cases ht
      | some t0 =>
        rw [hst] at ht
        simp only [Option.map_some, Option.some.injEq] at ht
        subst ht
        rw [lift_to] at ha
        refine ⟨t0, ?_, rfl, ha⟩
        rw [hi k]; exact contains_of_getElem? _ _ _ hst
  · rw [HashMap.contains_eq_isSome_getElem?, hR'.fwd k hk, HashMap.contains_eq_isSome_getElem?, hR'.dec k,
      ← HashMap.contains_eq_isSome_getElem?, hinv', HashMap.contains_eq_isSome_getElem?]
    cases (sweep c now s).1.timeouts[k]? <;> rfl

/-- a stale or foreign index (nothing stored under it) makes `removeRegistration` a no-op -/
theorem unknown_index_removes_nothing (c : Cfg) (now : Nat) (ks : KSt) (i : Index)
    (h : ks.timeouts[i]? = none) : kremove c now ks i = (ks, none) :=
  kremove_absent c now ks i h

/-! the hypotheses are satisfiable: an identifier made of separators only, next to a plain one -/
def khist0 : List KOp :=
  [.register ("10.0.0.1", "||") 0 0, .register ("10.0.0.1", "|") 0 0, .markActive ("10.0.0.1", "|") 0]

example : ∀ op ∈ khist0, op.sepFree := by
  intro op h
  simp only [khist0, List.mem_cons, List.mem_nil_iff, or_false] at h
  rcases h with rfl | rfl | rfl <;> (show sepFree _; decide)
example : sepFree ("2001:db8::1", "x|y") := by decide

end CJ.Props.C08Index
