import CJ.Lemmas.HalfPipe
/-!
# C05 — the proxy relays byte streams faithfully and always tears both sides down

Property theorems only.  `halfPipe up st s` is the model of one direction of the relay
(`CJ.Model.HalfPipe`), a total function of the script `s` of results its two connections return
(reads: bytes *and* an optional error per call; writes: accepted count and optional error per call;
`SetDeadline` results in call order; the two `Close` results).  Every theorem is universally quantified
over the script — hence over all chunkings of the stream, all positions and kinds of fault on either
connection (alone, in pairs, any number), and over whatever the other direction of the proxy does to
the two connections (its effect on this direction is some sequence of call results, i.e. a script).
-/
namespace CJ.Props.C05
open CJ.HalfPipe

/-- **Fidelity (no loss of order, no duplication, no invention).**  What the destination accepted is a
prefix of the concatenation of what the source returned, for every script. -/
theorem delivered_is_prefix (up : Bool) (st : Stats) (s : Script) :
    (halfPipe up st s).delivered <+: allBytes s.reads :=
  run_prefix s

/-- **Completeness up to the first fault.**  If no write fails or falls short and every deadline call
succeeds (directly, or through the `SetReadDeadline` fallback of a connection that answers ENOTSUP), *everything* read is delivered: all bytes of all reads up to and including the first read that
reported an error or EOF — the bytes that arrived together with that indication included. -/
theorem delivered_complete_until_fault (up : Bool) (st : Stats) (s : Script)
    (hw : noWriteFault s.writes) (hd : allDlOk s.dls) (hc : conforming s.reads) :
    (halfPipe up st s).delivered = allBytes (consumed s.reads) :=
  run_complete s hw hd hc

/-- The special case the unrepaired code got wrong: error-free reads `pre`, then a read that returns
bytes `bs` *together with* an error `e` (EOF, reset, timeout, …).  All of `pre` and all of `bs` arrive. -/
theorem data_with_error_delivered (up : Bool) (st : Stats) (pre : List ReadRes) (bs : Bytes) (e : Err)
    (rest : List ReadRes) (ws : List WriteRes) (ds : List DlRes) (cs cd : Option Err)
    (hpre : ∀ r ∈ pre, r.err = none)
    (hw : noWriteFault ws) (hd : allDlOk ds) (hc : conforming (pre ++ ⟨bs, some e⟩ :: rest)) :
    (halfPipe up st ⟨pre ++ ⟨bs, some e⟩ :: rest, ws, ds, cs, cd⟩).delivered = allBytes pre ++ bs := by
  rw [delivered_complete_until_fault up st _ hw hd hc]
  show allBytes (consumed (pre ++ ⟨bs, some e⟩ :: rest)) = allBytes pre ++ bs
  induction pre with
  | nil => simp [consumed]
  | cons r pre ih =>
    have hr : r.err = none := hpre r (by simp)
    have hc' : conforming (pre ++ ⟨bs, some e⟩ :: rest) := fun x hx => hc x (by simp [hx])
    simp only [List.cons_append, consumed, hr, Option.isSome_none, Bool.false_eq_true, if_false,
      allBytes_cons, List.append_assoc]
    rw [ih (fun x hx => hpre x (by simp [hx])) hc']

/-- The stream delivered does not depend on how the source chunked it: two fault-free scripts whose
consumed reads concatenate to the same bytes deliver the same bytes. -/
theorem delivered_chunking_independent (up up' : Bool) (st st' : Stats) (s s' : Script)
    (hw : noWriteFault s.writes) (hd : allDlOk s.dls) (hc : conforming s.reads)
    (hw' : noWriteFault s'.writes) (hd' : allDlOk s'.dls) (hc' : conforming s'.reads)
    (h : allBytes (consumed s.reads) = allBytes (consumed s'.reads)) :
    (halfPipe up st s).delivered = (halfPipe up' st' s').delivered := by
  rw [delivered_complete_until_fault up st s hw hd hc, delivered_complete_until_fault up' st' s' hw' hd' hc', h]

/-- **Reported byte count = bytes actually delivered**, for every script (short writes and writes that
return `n > 0` with an error included). -/
theorem stats_equal_delivered (up : Bool) (st : Stats) (s : Script) :
    (halfPipe up st s).counted = (halfPipe up st s).delivered.length :=
  run_counted s

/-- **Tear-down on every exit.**  Whatever ends the direction — EOF, reset, timeout, write error, short
write, a failing `SetDeadline`, a failing `Close` — both connections are closed exactly once by it, the
tunnel statistics are completed once and the wait group is released exactly once. -/
theorem both_closed_on_every_exit (up : Bool) (st : Stats) (s : Script) :
    (halfPipe up st s).closedSrc = 1 ∧ (halfPipe up st s).closedDst = 1 ∧
      (halfPipe up st s).done = 1 ∧ (halfPipe up st s).completed = 1 :=
  ⟨rfl, rfl, rfl, rfl⟩

theorem wg_done_once (up : Bool) (st : Stats) (s : Script) : (halfPipe up st s).done = 1 := rfl

/-- **A direction stops at its first failing call.**  Every call but the last succeeded, except that a
read which returned an error may be followed by exactly one write (of the bytes that came with it).
Since a closed connection fails every call, a direction whose connections were closed by the other
direction makes at most two more calls before it tears down as well. -/
theorem stops_at_first_failure (up : Bool) (st : Stats) (s : Script) :
    stopsAtFailure (halfPipe up st s).trace :=
  run_stops s

/-- **Termination with a bound**: the number of calls made on the two connections is at most four per
scripted read plus three (initial deadlines and the read that finds the script exhausted). -/
theorem halfpipe_calls_bounded (up : Bool) (st : Stats) (s : Script) :
    (halfPipe up st s).trace.length ≤ 4 * s.reads.length + 3 :=
  run_trace_bound s

/-- the asynchronous close of the source and the synchronous close of the destination may run in either
order: the recorded error texts are the same -/
theorem close_order_irrelevant (up : Bool) (a b : Option Err) (st : Stats) :
    closeConn up true a (closeConn up false b st) = closeConn up false b (closeConn up true a st) :=
  closeConn_comm up a b st

/-- a failing `SetDeadline` ends the direction (the deadline failure is the last call) and is logged once -/
theorem deadline_failure_logged_once (up : Bool) (st : Stats) (s : Script) :
    (halfPipe up st s).logs ≤ 1 :=
  halfPipe_logs_le up st s

/-! ### `Proxy` -/

/-- with a dial error that produces a non-empty statistic (true of every error `net.Dial` returns,
`dialSane`) `Proxy` never dereferences a nil covert connection -/
theorem proxy_no_panic (i : ProxyIn) (h : dialSane i) : (proxy i).panicked = false :=
  proxy_noPanic i h

/-- **`Proxy` returns**: for every pair of scripts both directions release the wait group, so
`wg.Wait()` does not block. -/
theorem proxy_returns (i : ProxyIn) (h : dialSane i) : (proxy i).returned = true ∧ (proxy i).wgPending = 0 :=
  proxy_returns' i h

/-- **The session gauge is balanced** on every path (dial failure, PROXY-header failure, relay). -/
theorem gauge_balanced (i : ProxyIn) : (proxy i).gaugeAdds = (proxy i).gaugeRemoves :=
  proxy_gauge i

/-- when the relay ran, both connections were closed (the client by both directions, the covert by
both directions and once more by `Proxy` itself) -/
theorem proxy_closes_both (i : ProxyIn) (h : (proxy i).started = true) :
    2 ≤ (proxy i).clientCloses ∧ 2 ≤ (proxy i).covertCloses :=
  proxy_closes i h

/-- **The totals `Proxy` reports are the bytes delivered in each direction.** -/
theorem proxy_counts_equal_delivered (i : ProxyIn) (u d : Out)
    (hu : (proxy i).upOut = some u) (hdn : (proxy i).downOut = some d) :
    (proxy i).bytesUp = u.delivered.length ∧ (proxy i).bytesDown = d.delivered.length :=
  proxy_counts i u d hu hdn

/-! ### non-vacuity: the hypotheses are satisfiable and the interesting case is covered -/

/-- "hello " then ("world", EOF): everything arrives, 11 bytes are counted -/
def ex1 : Script :=
  { reads := [⟨[104, 101, 108, 108, 111, 32], none⟩, ⟨[119, 111, 114, 108, 100], some .eof⟩],
    writes := [], dls := [] }

example : noWriteFault ex1.writes ∧ allDlOk ex1.dls ∧ conforming ex1.reads := by
  refine ⟨?_, ?_, ?_⟩
  · intro w hw; simp [ex1] at hw
  · intro d hd; simp [ex1] at hd
  · intro r hr
    simp [ex1] at hr
    rcases hr with rfl | rfl <;> simp [bufLen]

example : (halfPipe true {} ex1).delivered = [104, 101, 108, 108, 111, 32, 119, 111, 114, 108, 100] ∧
    (halfPipe true {} ex1).counted = 11 := by decide

/-- a short write in the middle: the prefix property is strict, the count follows what was delivered -/
def ex2 : Script :=
  { reads := [⟨[1, 2, 3], none⟩, ⟨[4, 5], none⟩], writes := [⟨3, none⟩, ⟨1, none⟩], dls := [] }

example : (halfPipe false {} ex2).delivered = [1, 2, 3, 4] ∧ (halfPipe false {} ex2).counted = 4 ∧
    (halfPipe false {} ex2).stats.client = "short write" := by decide

/-- a source that supports read deadlines only (an obfs4 connection: `SetDeadline` answers ENOTSUP, the
`SetReadDeadline` fallback works): the hypotheses of completeness hold and everything is delivered —
where C04 meets C05 -/
def ex3 : Script :=
  { reads := [⟨[1, 2], none⟩, ⟨[3], some .eof⟩], writes := [],
    dls := [.unsupported true, .ok, .unsupported true, .ok] }

example : allDlOk ex3.dls := by
  intro d hd
  simp [ex3] at hd
  rcases hd with rfl | rfl | rfl | rfl <;> rfl

example : (halfPipe true {} ex3).delivered = [1, 2, 3] ∧ (halfPipe true {} ex3).logs = 0 := by decide

/-- … and when the fallback fails as well, the direction ends there, logged once, both sides closed -/
example : (halfPipe true {} { ex3 with dls := [.unsupported false] }).trace = [.dl true false true] ∧
    (halfPipe true {} { ex3 with dls := [.unsupported false] }).logs = 1 := by decide

example : dialSane { dialErr := some .refused, header := none, up := ex1, down := ex2 } := by
  intro e he; cases he; exact ⟨"refused", rfl, by decide⟩

example : (proxy { dialErr := none, header := none, up := ex1, down := ex2 }).started = true := by decide

end CJ.Props.C05
