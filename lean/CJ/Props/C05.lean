import CJ.Lemmas.HalfPipe
import CJ.Gen.RelayShape
import CJ.Gen.RelayLoop
/-!
# C05 — the proxy relays byte streams faithfully and always tears both sides down

Property theorems only.  `halfPipe up st s` is the model of one direction of the relay
(`CJ.Model.HalfPipe`), a total function of the script `s` of results its two connections return
(reads: bytes *and* an optional error per call; writes: accepted count and optional error per call;
`SetDeadline` results in call order; the two `Close` results).  Every theorem is universally quantified
over the script — hence over all chunkings of the stream, all positions and kinds of fault on either
connection (alone, in pairs, any number), and over whatever the other direction of the proxy does to
the two connections (its effect on this direction is some sequence of call results, i.e. a script).

Tear-down is not assumed: `halfPipe` is the interpretation of a *statement list with a defer stack*
(`exec`), and which deferred functions an exit runs follows from where the `defer` statements stand.
`CJ.Gen.halfPipeStmts` / `CJ.Gen.proxyStmts` are the top-level statements of the two Go functions,
regenerated from the source on every run (tie 1).
-/
namespace CJ.Props.C05
open CJ.HalfPipe

/-- **Fidelity (no loss of order, no duplication, no invention).**  What the destination accepted is a
prefix of the concatenation of what the source returned, for every script. -/
theorem delivered_is_prefix (up : Bool) (st : Stats) (s : Script) :
    (halfPipe up st s).delivered <+: allBytes s.reads := by
  rw [halfPipe_delivered]; exact run_prefix s

/-- **Completeness up to the first fault.**  If no write fails or falls short and every deadline call
succeeds (directly, or through the `SetReadDeadline` fallback of a connection that answers ENOTSUP), *everything* read is delivered: all bytes of all reads up to and including the first read that
reported an error or EOF — the bytes that arrived together with that indication included. -/
theorem delivered_complete_until_fault (up : Bool) (st : Stats) (s : Script)
    (hw : noWriteFault s.writes) (hd : allDlOk s.dls) (hc : conforming s.reads) :
    (halfPipe up st s).delivered = allBytes (consumed s.reads) := by
  rw [halfPipe_delivered]; exact run_complete s hw hd hc

/-- The special case the unrepaired code got wrong: error-free reads `pre`, then a read that returns
bytes `bs` *together with* an error `e` (EOF, reset, timeout, …).  All of `pre` and all of `bs` arrive. -/
theorem data_with_error_delivered (up : Bool) (st : Stats) (pre : List ReadRes) (bs : Bytes) (e : Err)
    (rest : List ReadRes) (ws : List WriteRes) (ds : List DlRes) (cs cd : Option Err)
    (hpre : ∀ r ∈ pre, r.err = none)
    (hw : noWriteFault ws) (hd : allDlOk ds) (hc : conforming (pre ++ ⟨bs, some e⟩ :: rest)) :
    (halfPipe up st ⟨pre ++ ⟨bs, some e⟩ :: rest, ws, ds, cs, cd⟩).delivered = allBytes pre ++ bs := by
  rw [delivered_complete_until_fault up st _ hw hd hc]
  show allBytes (consumed (pre ++ ⟨bs, some e⟩ :: rest)) = allBytes pre ++ bs
  induction pre with
  | nil => simp [consumed]
  | cons r pre ih =>
    have hr : r.err = none := hpre r (by simp)
    have hc' : conforming (pre ++ ⟨bs, some e⟩ :: rest) := fun x hx => hc x (by simp [hx])
    simp only [List.cons_append, consumed, hr, Option.isSome_none, Bool.false_eq_true, if_false,
      allBytes_cons, List.append_assoc]
    rw [ih (fun x hx => hpre x (by simp [hx])) hc']

/-- The stream delivered does not depend on how the source chunked it: two fault-free scripts whose
consumed reads concatenate to the same bytes deliver the same bytes. -/
theorem delivered_chunking_independent (up up' : Bool) (st st' : Stats) (s s' : Script)
    (hw : noWriteFault s.writes) (hd : allDlOk s.dls) (hc : conforming s.reads)
    (hw' : noWriteFault s'.writes) (hd' : allDlOk s'.dls) (hc' : conforming s'.reads)
    (h : allBytes (consumed s.reads) = allBytes (consumed s'.reads)) :
    (halfPipe up st s).delivered = (halfPipe up' st' s').delivered := by
  rw [delivered_complete_until_fault up st s hw hd hc, delivered_complete_until_fault up' st' s' hw' hd' hc', h]

/-! ### a read that returns neither bytes nor an indication is not an end

`io.Reader` allows `Read` to return `(0, nil)` ("nothing happened"); connections wrapped by a framing
transport do it when a frame carries no payload.  The loop of `halfPipe` leaves only through `er != nil`,
`ew != nil` or a failing deadline call, so such a read changes nothing: the direction goes on reading, and
what the source delivers afterwards is relayed.  (The oracle of the harness states the same from the
script: the source's stream ends at its first end/error indication, nowhere else.) -/

/-- a read that says nothing: `(0, nil)` — no bytes, no end / error indication -/
def silent (r : ReadRes) : Bool := r.bytes.isEmpty && r.err.isNone

theorem allBytes_consumed_drop_silent (rs : List ReadRes) :
    allBytes (consumed (rs.filter (fun r => !silent r))) = allBytes (consumed rs) := by
  induction rs with
  | nil => rfl
  | cons r rs ih =>
    by_cases hs : silent r = true
    · have h := hs
      simp only [silent, Bool.and_eq_true, List.isEmpty_iff, Option.isNone_iff_eq_none] at h
      simp [List.filter, hs, consumed, h.1, h.2, ih]
    · have hs' : silent r = false := by simpa using hs
      by_cases he : r.err.isSome = true
      · simp [List.filter, hs', consumed, he]
      · simp [List.filter, hs', consumed, he, ih]

theorem consumed_errfree_append (pre rest : List ReadRes) (hpre : ∀ r ∈ pre, r.err = none) :
    consumed (pre ++ rest) = pre ++ consumed rest := by
  induction pre with
  | nil => rfl
  | cons r pre ih =>
    have hr : r.err = none := hpre r (by simp)
    simp [consumed, hr, ih (fun x hx => hpre x (by simp [hx]))]

/-- **Silent reads are erasable**: striking every `(0, nil)` read out of a fault-free script — wherever
they stand, however many — leaves the delivered stream unchanged.  Equivalently: inserting them anywhere
loses nothing. -/
theorem silent_reads_erasable (up : Bool) (st : Stats) (s : Script)
    (hw : noWriteFault s.writes) (hd : allDlOk s.dls) (hc : conforming s.reads) :
    (halfPipe up st { s with reads := s.reads.filter (fun r => !silent r) }).delivered =
      (halfPipe up st s).delivered := by
  have hc' : conforming (s.reads.filter (fun r => !silent r)) :=
    fun r hr => hc r (List.mem_filter.mp hr).1
  rw [delivered_complete_until_fault up st s hw hd hc,
    delivered_complete_until_fault up st { s with reads := s.reads.filter (fun r => !silent r) } hw hd hc']
  exact allBytes_consumed_drop_silent s.reads

/-- **A `(0, nil)` read in mid-stream does not end the direction**: error-free reads `pre`, a read that
returns nothing and no error, then whatever the source goes on to do (`rest`) — all of `pre` and everything
`rest` delivers up to its own first end/error indication arrive. -/
theorem silent_read_does_not_end_the_stream (up : Bool) (st : Stats) (pre rest : List ReadRes)
    (ws : List WriteRes) (ds : List DlRes) (cs cd : Option Err)
    (hpre : ∀ r ∈ pre, r.err = none)
    (hw : noWriteFault ws) (hd : allDlOk ds) (hc : conforming (pre ++ ⟨[], none⟩ :: rest)) :
    (halfPipe up st ⟨pre ++ ⟨[], none⟩ :: rest, ws, ds, cs, cd⟩).delivered =
      allBytes pre ++ allBytes (consumed rest) := by
  rw [delivered_complete_until_fault up st _ hw hd hc]
  show allBytes (consumed (pre ++ ⟨[], none⟩ :: rest)) = _
  rw [consumed_errfree_append pre _ hpre]
  simp [consumed, allBytes_append]

/-- the demonstration shape: a request line, a frame without payload, the rest of the request, EOF -/
def exSilent : Script :=
  { reads := [⟨[71, 69, 84], none⟩, ⟨[], none⟩, ⟨[72, 111], none⟩, ⟨[], some .eof⟩], writes := [], dls := [] }

example : (halfPipe true {} exSilent).delivered = [71, 69, 84, 72, 111] ∧
    nReads (halfPipe true {} exSilent).trace = 4 := by decide

/-- **Reported byte count = bytes actually delivered**, for every script (short writes and writes that
return `n > 0` with an error included). -/
theorem stats_equal_delivered (up : Bool) (st : Stats) (s : Script) :
    (halfPipe up st s).counted = (halfPipe up st s).delivered.length := by
  rw [halfPipe_counted, halfPipe_delivered]; exact run_counted s

/-- **No loss up to the point where one side fails**, for *every* script (faulty ones included).  With
`n` the number of `Read` calls the direction made: if no write failed, everything those `n` reads
returned was delivered — whether the direction was ended by EOF, a read error, or a failing
`SetDeadline` at any position; if a write failed or fell short, it was the write of the `n`-th read's
bytes: everything the first `n-1` reads returned was delivered, followed by a prefix of the `n`-th. -/
theorem no_loss_until_failure (up : Bool) (st : Stats) (s : Script) (hc : conforming s.reads) :
    ((run s).writeErr = none →
      (halfPipe up st s).delivered = allBytes (s.reads.take (nReads (halfPipe up st s).trace))) ∧
    (∀ e, (run s).writeErr = some e → ∃ k b part, nReads (halfPipe up st s).trace = k + 1 ∧
      s.reads[k]? = some b ∧ part <+: b.bytes ∧
      (halfPipe up st s).delivered = allBytes (s.reads.take k) ++ part) := by
  simpa [Lower] using run_Lower s hc

/-- a failing `SetDeadline` loses nothing that was read (special case of `no_loss_until_failure`) -/
theorem deadline_failure_loses_nothing (up : Bool) (st : Stats) (s : Script) (hc : conforming s.reads)
    (hw : (run s).writeErr = none) :
    (halfPipe up st s).delivered = allBytes (s.reads.take (nReads (halfPipe up st s).trace)) :=
  (no_loss_until_failure up st s hc).1 hw

/-! ### tear-down -/

/-- **Every exit of a body whose `defer`s stand above its first exit runs every deferred function**,
last registered first: for every statement list, every script, every state of the deadline script —
through whichever `return` (failed initial or refreshed deadline, a `return` the model does not even
interpret) or `break` (read error, EOF, write error, short write) the body is left. -/
theorem defers_first_tears_down (prog : List Stmt) (h : defersFirst prog = true) (s : Script)
    (ds : List DlRes) (f : Option Bool) : (exec s prog [] ds f).ran = fullTeardown prog :=
  exec_ran s prog h ds f

/-- the hypothesis is needed: with the closing `defer` registered *below* the initial deadline calls, a
failing first `SetDeadline` leaves both connections open (the wait group is still released) -/
theorem late_defer_skips_teardown :
    (exec { reads := [], writes := [], dls := [.fail] }
      [.deferActs [.duration, .completed, .wgDone], .arm true, .retIfErr true, .arm false, .retIfErr true,
       .deferActs [.spawnCloseSrc, .closeDst], .loop] [] [.fail] none).ran = [.duration, .completed, .wgDone] := by
  decide

/-- **Tie 1**: in the source under check every `defer` of `halfPipe` stands above its first exit … -/
theorem halfpipe_defers_first : defersFirst CJ.Gen.halfPipeStmts = true := by decide

/-- … so every exit of the function as written runs: close the source (on its own goroutine), close the
destination, complete the tunnel statistics, release the wait group — in this order -/
theorem halfpipe_source_teardown (s : Script) (ds : List DlRes) (f : Option Bool) :
    (exec s CJ.Gen.halfPipeStmts [] ds f).ran = [.spawnCloseSrc, .closeDst, .duration, .completed, .wgDone] := by
  rw [exec_ran s _ halfpipe_defers_first]; decide

/-- … and its statement skeleton is the one the executable model (and hence the correspondence run) uses -/
theorem halfpipe_skeleton_matches : skeleton CJ.Gen.halfPipeStmts = canonical := by decide

/-- **Tear-down on every exit.**  Whatever ends the direction — EOF, reset, timeout, write error, short
write, a failing `SetDeadline`, a failing `Close` — the exit runs exactly the deferred actions, in order. -/
theorem teardown_on_every_exit (up : Bool) (st : Stats) (s : Script) :
    (halfPipe up st s).teardown = [.spawnCloseSrc, .closeDst, .duration, .completed, .wgDone] :=
  halfPipe_teardown up st s

/-- hence both connections are closed exactly once by it, the tunnel statistics are completed once and
the wait group is released exactly once -/
theorem both_closed_on_every_exit (up : Bool) (st : Stats) (s : Script) :
    (halfPipe up st s).closedSrc = 1 ∧ (halfPipe up st s).closedDst = 1 ∧
      (halfPipe up st s).done = 1 ∧ (halfPipe up st s).completed = 1 :=
  halfPipe_counts up st s

theorem wg_done_once (up : Bool) (st : Stats) (s : Script) : (halfPipe up st s).done = 1 :=
  halfPipe_done up st s

/-- **A direction stops at its first failing call.**  Every call but the last succeeded, except that a
read which returned an error may be followed by exactly one write (of the bytes that came with it).
Since a closed connection fails every call, a direction whose connections were closed by the other
direction makes at most two more calls before it tears down as well. -/
theorem stops_at_first_failure (up : Bool) (st : Stats) (s : Script) :
    stopsAtFailure (halfPipe up st s).trace := by
  rw [halfPipe_trace]; exact run_stops s

/-- **Termination with a bound**: the number of calls made on the two connections is at most four per
scripted read plus three (initial deadlines and the read that finds the script exhausted). -/
theorem halfpipe_calls_bounded (up : Bool) (st : Stats) (s : Script) :
    (halfPipe up st s).trace.length ≤ 4 * s.reads.length + 3 := by
  rw [halfPipe_trace]; exact run_trace_bound s

/-- **A read error ends the direction — it is never retried.**  Error-free reads `pre`, then a read that
reports an error `e` of *any* kind (EOF, reset, a timeout, an error whose `Temporary()` is true such as
the deadline error or EAGAIN / EINTR): the direction makes no further `Read`, whatever the connection
would answer afterwards (`rest`: the same error for ever, for a deadline that stays expired).  Together
with `teardown_on_every_exit` and `halfpipe_calls_bounded`: an error that persists cannot keep a direction
spinning; it ends, closes both sides and releases the wait group. -/
theorem read_error_ends_direction (up : Bool) (st : Stats) (pre : List ReadRes) (bs : Bytes) (e : Err)
    (rest : List ReadRes) (ws : List WriteRes) (ds : List DlRes) (cs cd : Option Err) :
    nReads (halfPipe up st ⟨pre ++ ⟨bs, some e⟩ :: rest, ws, ds, cs, cd⟩).trace ≤ pre.length + 1 := by
  rw [halfPipe_trace]; exact run_reads_until_error pre bs e rest ws ds cs cd

/-- … and what the connection would have answered afterwards is irrelevant to everything observable:
the script after the first failing read can be replaced by any other -/
theorem after_read_error_irrelevant (up : Bool) (st : Stats) (pre : List ReadRes) (hpre : ∀ r ∈ pre, r.err = none)
    (bs : Bytes) (e : Err) (rest rest' : List ReadRes) (ws : List WriteRes) (ds : List DlRes) (cs cd : Option Err) :
    halfPipe up st ⟨pre ++ ⟨bs, some e⟩ :: rest, ws, ds, cs, cd⟩ =
      halfPipe up st ⟨pre ++ ⟨bs, some e⟩ :: rest', ws, ds, cs, cd⟩ := by
  have hl : ∀ ws ds, loop (pre ++ ⟨bs, some e⟩ :: rest) ws ds = loop (pre ++ ⟨bs, some e⟩ :: rest') ws ds := by
    induction pre with
    | nil => intro ws ds; simp [loop, afterWrite]
    | cons r pre ih =>
      intro ws ds
      have hr : r.err = none := hpre r (by simp)
      have ih' := ih (fun x hx => hpre x (by simp [hx]))
      simp only [List.cons_append, loop, hr, afterWrite, ih']
  simp only [halfPipe, halfPipeP, exec, canonical, hl]

/-- **Tie 1 for the loop body**: the statements of the relay loop in the source under check are the ones
`loop` mirrors — `Read`; write what was read and `break` on a write error or a short write; `break` on a
read error (no `continue`, no retry); re-arm both deadlines, `return` on failure -/
theorem halfpipe_loop_matches :
    CJ.RelayClock.loopSkeleton CJ.Gen.relayLoopStmts = CJ.RelayClock.canonicalLoop := by decide

/-- the asynchronous close of the source and the synchronous close of the destination may run in either
order: the recorded error texts are the same -/
theorem close_order_irrelevant (up : Bool) (a b : Option Err) (st : Stats) :
    closeConn up true a (closeConn up false b st) = closeConn up false b (closeConn up true a st) :=
  closeConn_comm up a b st

/-- **every failing `SetDeadline` is logged, once, and nothing else is**: the number of "error setting
deadline" lines is the number of failed deadline calls in the trace, which is at most one (the failure
ends the direction, `stops_at_first_failure`) -/
theorem deadline_failure_logged_once (up : Bool) (st : Stats) (s : Script) :
    (halfPipe up st s).logs = ((halfPipe up st s).trace.filter Ev.failedDl).length ∧ (halfPipe up st s).logs ≤ 1 := by
  rw [halfPipe_logs, halfPipe_trace, run_failedDl]
  exact ⟨rfl, by split <;> omega⟩

/-! ### `Proxy` -/

/-- with a dial error that produces a non-empty statistic (true of every error `net.Dial` returns,
`dialSane`) `Proxy` never dereferences a nil covert connection -/
theorem proxy_no_panic (i : ProxyIn) (h : dialSane i) : (proxy i).panicked = false :=
  proxy_noPanic i h

/-- **`Proxy` returns**: for every pair of scripts both directions release the wait group, so
`wg.Wait()` does not block. -/
theorem proxy_returns (i : ProxyIn) (h : dialSane i) : (proxy i).returned = true ∧ (proxy i).wgPending = 0 :=
  proxy_returns' i h

/-- **The session gauge is balanced** on every path (dial failure, PROXY-header failure, relay). -/
theorem gauge_balanced (i : ProxyIn) : (proxy i).gaugeAdds = (proxy i).gaugeRemoves :=
  proxy_gauge i

/-- when the relay ran, both connections were closed (the client by both directions, the covert by
both directions and once more by `Proxy` itself) -/
theorem proxy_closes_both (i : ProxyIn) (h : (proxy i).started = true) :
    (proxy i).clientCloses = 2 ∧ (proxy i).covertCloses = 3 :=
  proxy_closes i h

/-- the covert connection is closed on every path on which it was opened (PROXY-header failure included) -/
theorem proxy_covert_closed (i : ProxyIn) (hd : i.dialErr = none) : 1 ≤ (proxy i).covertCloses :=
  CJ.HalfPipe.proxy_covert_closed i hd

/-- **Tie 1**: the top-level statements of `Proxy` in the source under check — dial, return on a dial
error, `defer covertConn.Close()`, PROXY header, `wg.Add(2)`, gauge +1, the two directions, `wg.Wait()`,
gauge −1, print — are the ones the model interprets, in this order -/
theorem proxy_skeleton_matches : skeletonP CJ.Gen.proxyStmts = canonicalP := by decide

/-- **The totals `Proxy` reports are the bytes delivered in each direction.** -/
theorem proxy_counts_equal_delivered (i : ProxyIn) (u d : Out)
    (hu : (proxy i).upOut = some u) (hdn : (proxy i).downOut = some d) :
    (proxy i).bytesUp = u.delivered.length ∧ (proxy i).bytesDown = d.delivered.length :=
  proxy_counts i u d hu hdn

/-! ### non-vacuity: the hypotheses are satisfiable and the interesting case is covered -/

/-- "hello " then ("world", EOF): everything arrives, 11 bytes are counted -/
def ex1 : Script :=
  { reads := [⟨[104, 101, 108, 108, 111, 32], none⟩, ⟨[119, 111, 114, 108, 100], some .eof⟩],
    writes := [], dls := [] }

example : noWriteFault ex1.writes ∧ allDlOk ex1.dls ∧ conforming ex1.reads := by
  refine ⟨?_, ?_, ?_⟩
  · intro w hw; simp [ex1] at hw
  · intro d hd; simp [ex1] at hd
  · intro r hr
    simp [ex1] at hr
    rcases hr with rfl | rfl <;> simp [bufLen]

example : (halfPipe true {} ex1).delivered = [104, 101, 108, 108, 111, 32, 119, 111, 114, 108, 100] ∧
    (halfPipe true {} ex1).counted = 11 := by decide

/-- a short write in the middle: the prefix property is strict, the count follows what was delivered -/
def ex2 : Script :=
  { reads := [⟨[1, 2, 3], none⟩, ⟨[4, 5], none⟩], writes := [⟨3, none⟩, ⟨1, none⟩], dls := [] }

example : (halfPipe false {} ex2).delivered = [1, 2, 3, 4] ∧ (halfPipe false {} ex2).counted = 4 ∧
    (halfPipe false {} ex2).stats.client = "short write" := by decide

/-- a source that supports read deadlines only (an obfs4 connection: `SetDeadline` answers ENOTSUP, the
`SetReadDeadline` fallback works): the hypotheses of completeness hold and everything is delivered —
where C04 meets C05 -/
def ex3 : Script :=
  { reads := [⟨[1, 2], none⟩, ⟨[3], some .eof⟩], writes := [],
    dls := [.unsupported true, .ok, .unsupported true, .ok] }

example : allDlOk ex3.dls := by
  intro d hd
  simp [ex3] at hd
  rcases hd with rfl | rfl | rfl | rfl <;> rfl

example : (halfPipe true {} ex3).delivered = [1, 2, 3] ∧ (halfPipe true {} ex3).logs = 0 := by decide

/-- … and when the fallback fails as well, the direction ends there, logged once, both sides closed -/
example : (halfPipe true {} { ex3 with dls := [.unsupported false] }).trace = [.dl true false true] ∧
    (halfPipe true {} { ex3 with dls := [.unsupported false] }).logs = 1 := by decide

/-- a write that accepts one byte and then reports a reset, in the middle of the stream: the first read
arrives whole, the second up to the fault, the third is never read (`no_loss_until_failure`, second part) -/
def ex4 : Script :=
  { reads := [⟨[1, 2, 3], none⟩, ⟨[4, 5, 6], none⟩, ⟨[7], none⟩], writes := [⟨bufLen, none⟩, ⟨1, some .reset⟩], dls := [] }

example : (run ex4).writeErr = some .reset ∧ nReads (halfPipe true {} ex4).trace = 2 ∧
    (halfPipe true {} ex4).delivered = [1, 2, 3, 4] ∧ (halfPipe true {} ex4).exit = .writeErr := by decide

/-- the deadline refresh after the second read fails: both reads arrived (first part), the exit is the
`return` inside the loop, and the tear-down is complete -/
example : (run { ex4 with writes := [], dls := [.ok, .ok, .ok, .ok, .fail] }).writeErr = none ∧
    (halfPipe true {} { ex4 with writes := [], dls := [.ok, .ok, .ok, .ok, .fail] }).delivered = [1, 2, 3, 4, 5, 6] ∧
    (halfPipe true {} { ex4 with writes := [], dls := [.ok, .ok, .ok, .ok, .fail] }).exit = .dlRefresh true ∧
    (halfPipe true {} { ex4 with writes := [], dls := [.ok, .ok, .ok, .ok, .fail] }).closedDst = 1 := by decide

/-- the PROXY-header failure path closes the covert connection it opened and starts nothing -/
example : (proxy { dialErr := none, header := some false, up := ex1, down := ex2 }).covertCloses = 1 ∧
    (proxy { dialErr := none, header := some false, up := ex1, down := ex2 }).started = false := by decide

example : dialSane { dialErr := some .refused, header := none, up := ex1, down := ex2 } := by
  intro e he; cases he; exact ⟨"refused", rfl, by decide⟩

example : (proxy { dialErr := none, header := none, up := ex1, down := ex2 }).started = true := by decide

end CJ.Props.C05
