import CJ.Model.DnsHandler
/-!
# C11: the DNS registrar's handler cannot be crashed by a request, whatever the processor answers
-/
namespace CJ.Props.C11Dns
open CJ.Codec CJ.DnsHandler

/-- no request - decodable or not, with or without payload, with or without a generation - and no answer of the
processor makes the handler panic or hang -/
theorem dnsreq_no_panic (d : Option Wrapper) (latest : Nat) (reg : RegAns) : (handle d latest reg).Safe := by
  cases d with
  | none => exact ⟨fun s h => by simp [handle, handleWith] at h, by simp [handle, handleWith]⟩
  | some w =>
    cases hb : w.srcBd <;> cases hr : reg.resp <;> cases hm : reg.respMarshals <;>
      exact ⟨fun s h => by simp [handle, handleWith, Outcome.bind, hb, hr, hm] at h,
        by simp [handle, handleWith, Outcome.bind, hb, hr, hm]⟩

/-- the getters are needed: the same handler reading the generation through the fields panics on a wrapper
without payload (which `proto.Unmarshal` produces from the empty request) -/
theorem dnsreq_needs_getters (latest : Nat) (reg : RegAns) :
    handleWith genDirect (some ⟨none, false⟩) latest reg = .panic "nil pointer dereference" := by
  simp [handleWith, genDirect, Outcome.bind]

/-- a request that does not decode: an error, and the processor is not called -/
theorem dnsreq_undecodable_no_call (latest : Nat) (reg : RegAns) :
    handle none latest reg = .ok ⟨none, none⟩ := rfl

/-- a request that decodes: exactly one call, chosen by the wrapper's own source field alone -/
theorem dnsreq_one_call (w : Wrapper) (latest : Nat) (reg : RegAns) :
    ∃ a, handle (some w) latest reg = .ok a ∧ a.call = some (if w.srcBd then Call.bd else Call.uni) := by
  cases hb : w.srcBd <;> cases hr : reg.resp <;> cases hm : reg.respMarshals <;>
    simp [handle, handleWith, Outcome.bind, hb, hr, hm]

/-- every request that decodes is answered unless the processor handed back a response that cannot be marshalled,
and the answer is: success exactly when the processor reported no error, the outdated flag from the generation the
getters read (0 without payload), and the processor's response pointer for a bidirectional request - also next to
an error -/
theorem dnsreq_answered (w : Wrapper) (latest : Nat) (reg : RegAns)
    (h : w.srcBd = false ∨ reg.resp = none ∨ reg.respMarshals = true) :
    handle (some w) latest reg =
      .ok ⟨some ⟨!reg.err, decide (getGen w < latest), if w.srcBd then reg.resp else none⟩,
        some (if w.srcBd then Call.bd else Call.uni)⟩ := by
  rcases h with h | h | h
  · simp [handle, handleWith, Outcome.bind, h]
  · cases hb : w.srcBd <;> simp [handle, handleWith, Outcome.bind, h, hb]
  · cases hb : w.srcBd <;> cases hr : reg.resp <;> simp [handle, handleWith, Outcome.bind, h, hb, hr]

example : ∃ (w : Wrapper) (reg : RegAns), w.srcBd = false ∨ reg.resp = none ∨ reg.respMarshals = true :=
  ⟨⟨none, true⟩, ⟨some 7, true, false⟩, Or.inr (Or.inr rfl)⟩

/-- and the exception is real: a bidirectional request whose processor returns a response `proto.Marshal` refuses
gets an error and no payload - after the processor was called -/
theorem dnsreq_unmarshallable_response (w : Wrapper) (latest : Nat) (reg : RegAns) (k : Nat)
    (hb : w.srcBd = true) (hr : reg.resp = some k) (hm : reg.respMarshals = false) :
    handle (some w) latest reg = .ok ⟨none, some Call.bd⟩ := by
  simp [handle, handleWith, Outcome.bind, hb, hr, hm]

example : ∃ (w : Wrapper) (reg : RegAns) (k : Nat), w.srcBd = true ∧ reg.resp = some k ∧ reg.respMarshals = false :=
  ⟨⟨none, true⟩, ⟨some 7, false, false⟩, 7, rfl, rfl, rfl⟩

/-- a unidirectional request is always answered and never carries a response back, whatever the processor returned -/
theorem dnsreq_uni_no_response (w : Wrapper) (latest : Nat) (reg : RegAns) (hs : w.srcBd = false) :
    ∃ r, handle (some w) latest reg = .ok ⟨some r, some Call.uni⟩ ∧ r.bd = none ∧ r.success = !reg.err := by
  simp [handle, handleWith, Outcome.bind, hs]

example : ∃ w : Wrapper, w.srcBd = false := ⟨⟨none, false⟩, rfl⟩

/-- a wrapper without payload is outdated exactly when the registrar holds any generation at all -/
theorem dnsreq_no_payload_outdated (latest : Nat) (reg : RegAns) :
    ∃ r c, handle (some ⟨none, false⟩) latest reg = .ok ⟨some r, c⟩ ∧ r.outdated = decide (0 < latest) :=
  ⟨⟨!reg.err, decide (0 < latest), none⟩, some Call.uni, rfl, rfl⟩

end CJ.Props.C11Dns
