import CJ.Props.C10
import CJ.Lemmas.Derive
/-!
# C10 — the message the station publishes, for every transport the station enables

`NewDecoyRegistration` fills the announcement-relevant fields of a registration from the transport:
`PhantomProto` is the transport's `GetProto()` (wrapping transports: TCP, the connecting DTLS transport:
UDP), `PhantomPort` is the answer of `getPhantomDstPort` (443, the transport's default, or a port of the
transport's range).  `sendToDetector` copies them, with the two addresses, into the message (`mkS2D`).

`CJ.Props.C10.admitted_announcement_accepted` takes "the protocol is TCP or UDP" and "the port fits 16
bits" as hypotheses about the transport.  Here they are discharged for the transports that exist:
the protocol from the table dumped from the tree under test (`CJ.Gen.C10.transportProtos`), the port from
the per-transport model of C01 (`CJ.Port.stationPort`, corresponded by C01's `port` lines) and the
constants dumped from the transports.
-/
namespace CJ.Props.C10
open CJ.Detector CJ.Port

/-- `pb.TransportType` wire value of a station transport -/
def transportWire : Transport → Option Nat
  | .min => some 1
  | .obfs4 => some 2
  | .dtls => some 3
  | .prefix => some 4
  | .unknown => none

/-- `GetProto()` of the transport, from the table dumped from the tree under test -/
def transportProto (t : Transport) : Option Nat :=
  match transportWire t with
  | none => none
  | some w => (CJ.Gen.C10.transportProtos.find? (fun p => p.1 == w)).map (·.2)

/-- the announcement-relevant fields of the registration `NewDecoyRegistration` builds for transport `t`:
protocol from the transport, port from `getPhantomDstPort` (`sr`: the phantom's subnet allows a random
port), the selected phantom and the reported registrant address.  No registration when the transport is
not enabled or the port selection fails. -/
def regFor (k : Consts) (s : CJ.Phantom.Stream) (lim : Nat) (t : Transport) (ver : Nat) (data : Option Wire)
    (sr : Bool) (phantom registrant : Bytes) : Option Reg :=
  match transportProto t, stationPort k s lim t ver data sr with
  | some pr, .ok q => some { phantom := phantom, registrant := registrant, port := q, proto := pr }
  | _, _ => none

/-- the constants of the transports keep every port inside 16 bits -/
structure PortsFit (k : Consts) : Prop where
  wf : k.WF
  dtls : k.dtlsDefault < 65536
  prefixes : ∀ p ∈ k.stationPrefixes, p.2 < 65536

/-- the constants dumped from the transports do -/
theorem ports_fit_of_code : PortsFit CJ.Derive.genConsts :=
  ⟨⟨by decide, by decide, by decide, by decide⟩, by decide, by decide⟩

theorem lookupPrefix_mem {tbl : List (Int × Nat)} {id : Int} {q : Nat} (h : lookupPrefix tbl id = some q) :
    ∃ p ∈ tbl, p.2 = q := by
  unfold lookupPrefix at h
  cases hf : tbl.find? (fun p => p.1 == id) with
  | none => rw [hf] at h; cases h
  | some p =>
    rw [hf] at h
    simp only [Option.map_some, Option.some.injEq] at h
    exact ⟨p, List.mem_of_find?_eq_some hf, h⟩

/-- **Every port the station registers fits the message's 16-bit port**, for every transport, parameter
message, library version and seed stream. -/
theorem station_port_fits (k : Consts) (hk : PortsFit k) (s : CJ.Phantom.Stream) (lim : Nat) (t : Transport)
    (ver : Nat) (data : Option Wire) (sr : Bool) (q : Nat) (h : stationPort k s lim t ver data sr = .ok q) :
    q < 65536 := by
  have o := stationPort_origin k hk.wf s lim t ver data sr q h
  cases o with
  | fixed443 h => omega
  | dtlsDefault h => have := hk.dtls; omega
  | prefixDefault id h =>
    obtain ⟨p, hp, rfl⟩ := lookupPrefix_mem h.2
    exact hk.prefixes p hp
  | inRange lo hi hr h =>
    have hhi : hi ≤ 65536 := by
      rcases hr with ⟨_, e⟩ | ⟨_, e⟩ | ⟨_, e⟩ | ⟨_, e⟩
      · have := hk.wf.rMin.2; rw [← e] at this; exact this
      · have := hk.wf.rObfs4.2; rw [← e] at this; exact this
      · have := hk.wf.rPrefix.2; rw [← e] at this; exact this
      · have := hk.wf.rDtls.2; rw [← e] at this; exact this
    omega
  | entropy lo hi h => omega

/-- **Wrapping transports announce TCP, the connecting transport UDP** (on the tree under test), and a
transport the station has not enabled announces nothing. -/
theorem transport_proto_table :
    transportProto .min = some protoTcp ∧ transportProto .obfs4 = some protoTcp ∧
    transportProto .prefix = some protoTcp ∧ transportProto .dtls = some protoUdp ∧
    transportProto .unknown = none := by decide

theorem transport_proto_acceptable (t : Transport) (pr : Nat) (h : transportProto t = some pr) :
    pr = protoTcp ∨ pr = protoUdp := by
  obtain ⟨h1, h2, h3, h4, h5⟩ := transport_proto_table
  cases t
  · rw [h1] at h; cases h; exact Or.inl rfl
  · rw [h2] at h; cases h; exact Or.inl rfl
  · rw [h3] at h; cases h; exact Or.inl rfl
  · rw [h4] at h; cases h; exact Or.inr rfl
  · rw [h5] at h; cases h

/-- every transport of the model with a wire value is one the station's main package enables, and
conversely -/
theorem transport_wires_enabled :
    ∀ w, w ∈ CJ.Gen.C10.enabledTransports ↔ ∃ t, transportWire t = some w := by
  intro w
  constructor
  · intro h
    have h' : w = 1 ∨ w = 2 ∨ w = 3 ∨ w = 4 := by
      simpa [CJ.Gen.C10.enabledTransports] using h
    rcases h' with rfl | rfl | rfl | rfl
    · exact ⟨.min, rfl⟩
    · exact ⟨.obfs4, rfl⟩
    · exact ⟨.dtls, rfl⟩
    · exact ⟨.prefix, rfl⟩
  · rintro ⟨t, ht⟩
    cases t <;> simp [transportWire] at ht <;> subst ht <;> decide

/-- **The message published for a registration of an enabled transport is accepted and denotes the
registration**: for every transport, library version, parameter message, seed stream, subnet flag and
every phantom / registrant pair the ingest admits (valid addresses, no IPv6 registrant with an IPv4
phantom), the detector dispatches the `New` / `Update` message as an add-or-update of exactly
(registrant, phantom, the port `getPhantomDstPort` chose, the transport's protocol, the station's own
lifetime for that state). -/
theorem enabled_transport_message_accepted (k : Consts) (hk : PortsFit k) (s : CJ.Phantom.Stream) (lim : Nat)
    (t : Transport) (ver : Nat) (data : Option Wire) (sr : Bool) (phantom registrant : Bytes) (r : Reg)
    (hr : regFor k s lim t ver data sr phantom registrant = some r)
    (hph : (ipOf phantom).isSome) (hcl : (ipOf registrant).isSome)
    (hfam : (to4 phantom).isSome → (to4 registrant).isSome) (st : RegState) :
    ∃ ph cl pr q, ipOf phantom = some ph ∧ ipOf registrant = some cl ∧ transportProto t = some pr ∧
      stationPort k s lim t ver data sr = .ok q ∧
      dispatch (announce r st) = .addOrUpdate
        { client := cl, phantom := ph, dstPort := q, srcPort := 0, proto := nextHeader pr,
          timeout := stationLifetime st } := by
  unfold regFor at hr
  cases hp : transportProto t with
  | none => rw [hp] at hr; cases hr
  | some pr =>
    cases hq : stationPort k s lim t ver data sr with
    | err e => rw [hp, hq] at hr; cases hr
    | panic w => rw [hp, hq] at hr; cases hr
    | ok q =>
      rw [hp, hq] at hr
      simp only [Option.some.injEq] at hr
      subst hr
      have ha : Announceable { phantom := phantom, registrant := registrant, port := q, proto := pr } :=
        ⟨hph, hcl, hfam, transport_proto_acceptable t pr hp, station_port_fits k hk s lim t ver data sr q hq⟩
      obtain ⟨ph, cl, h1, h2, h3⟩ := timeouts_match _ ha st
      exact ⟨ph, cl, pr, q, h1, h2, rfl, rfl, h3⟩

/-- the IP next-header number the detector keys the session on: 17 for the connecting (DTLS) transport,
6 for the wrapping ones -/
theorem transport_next_header :
    (transportProto .dtls).map nextHeader = some 17 ∧
    ∀ t ∈ [Transport.min, .obfs4, .prefix], (transportProto t).map nextHeader = some 6 := by decide

/-! ### non-vacuity: a UDP / IPv6 registration and a TCP / IPv4 one, constants of the code -/

example : regFor CJ.Derive.genConsts (fun _ => 0) 0 .dtls 4 none false reg6.phantom reg6.registrant =
    some { reg6 with port := 443 } := by decide
example : regFor CJ.Derive.genConsts (fun _ => 0) 0 .prefix 4 (some (.prefix 8 false)) true reg4.phantom
    reg4.registrant = some { reg4 with port := 53 } := by decide
example : regFor CJ.Derive.genConsts (fun _ => 0) 0 .unknown 4 none true reg4.phantom reg4.registrant = none := by
  decide

end CJ.Props.C10
