import CJ.Lemmas.ConnHandler
import CJ.Lemmas.WrapCls
import CJ.Gen.ConnCalls
import CJ.Gen.PrefixTable
import CJ.Gen.WrapConsts
/-!
# C03 — unauthenticated connections get no bytes and no early close

Property theorems about the model of `handleNewTCPConn` (`CJ/Model/ConnHandler.lean`), parametric in
the wrapping transports (`cls : T → Bytes → Verdict R`), in the order in which Go's map iteration
visits them on every pass (`sched`, any order: `SchedOk`), in the registration count of the phantom
and in the event script (content, length, segmentation, pacing and the way the peer ends the
connection).  All statements are for every script, of any length.

**Explicit hypothesis of the property:** the GeoIP lookups of the remote address succeed (`Geo.ok`).
When they fail the handler returns at once (`geoip_failure_returns_at_once`): a database of the wrong
kind in an otherwise accepted configuration is a deployment assumption, stated here, not hidden.

A *probe* is a script on which no possible transport ever answers `found` or an error on any prefix
of what the peer sends (`NoMatch`).  The first part of the file is parametric in the transports; the
section "the real transports" instantiates them with the C02 models of min / prefix / obfs4
(`CJ/Model/Wrap.lean`, over the regenerated prefix table in any iteration order) and proves that they
answer an error or a match only after a **registered** identifier / mark was presented
(`transport_error_needs_registered_tag`, `match_needs_registered_tag`), so that `NoMatch` follows from
"no prefix of the stream presents a registered tag" (`untagged_is_probe`), and that they have all given
up by 8192 buffered bytes (`real_transports_give_up_by_8192`, constants regenerated from the code).
The handler model has no `write` action at all: the only operations it performs on the client
connection are arming the deadline and reading; that the real function does nothing else with the
connection is the regenerated syntactic fact `conn_calls_ok` (and the harness' recording connection),
and everything else the model does with the connection (clearing the deadline, wrapping, proxying) is
shown here to happen only after a `found` verdict.
-/
namespace CJ.Props.C03
open CJ.ConnHandler

variable {T R : Type}

/-- a probe: no possible transport finds a registration or errors on any prefix of the peer's bytes -/
def NoMatch (cls : T → Bytes → Verdict R) (ts : List T) (evs : List Ev) : Prop :=
  ∀ t ∈ ts, Quiet cls t (dataOf evs)

/-- Every run (GeoIP ok) ends in exactly one of three ways: a read reported an error after which the
handler returned; a transport reported an unexpected error, the handler slept until the deadline and
returned; a transport found a registration, the handler cleared the deadline, marked the registration
active and proxied.  Everything before is passive (arming the deadline, successful reads, queries
answered try-again / not-transport, the switch to the discard loop). -/
theorem handler_shape (cls : T → Bytes → Verdict R) (sched : Nat → List T → List T)
    (count : Nat) (ts : List T) (evs : List Ev) :
    Ending (handler cls sched .ok count ts evs) := by
  unfold handler
  apply ending_cons_passive rfl
  by_cases h : count < 1
  · simp only [h, if_true]
    exact ending_cons_passive rfl (ending_discard evs)
  · simp only [h, if_false]
    exact loop_shape cls sched evs 0 ts []

private theorem split_in_tail {α : Type} (p : α → Bool) :
    ∀ (P tail pre post : List α) (x : α), (∀ a ∈ P, p a = true) → p x = false →
      P ++ tail = pre ++ x :: post → ∃ q, pre = P ++ q ∧ tail = q ++ x :: post := by
  intro P
  induction P with
  | nil => intro tail pre post x _ _ h; exact ⟨pre, rfl, by simpa using h⟩
  | cons a P ih =>
    intro tail pre post x hP hx h
    cases pre with
    | nil =>
      simp at h
      have := hP a (List.mem_cons_self ..)
      rw [h.1, hx] at this; cases this
    | cons b pre =>
      simp at h
      obtain ⟨q, h1, h2⟩ := ih tail pre post x (fun a ha => hP a (List.mem_cons_of_mem _ ha)) hx h.2
      exact ⟨q, by simp [h.1, h1], h2⟩

/-- **No hand-off without a match.**  The handler touches the connection beyond arming the deadline and
reading (it clears the deadline, marks a registration active, hands the connection to the proxy — the
only place from which bytes can be written to the peer) only after some transport answered `found` for
that very registration.  (The model has no write action; "no `Write`/`Close` in the handler itself" is
`conn_calls_ok` below.) -/
theorem no_handoff_without_match (cls : T → Bytes → Verdict R) (sched : Nat → List T → List T)
    (count : Nat) (ts : List T) (evs : List Ev) (a : Act T R)
    (ha : a ∈ handler cls sched .ok count ts evs)
    (hact : a = .clearDeadline ∨ (∃ r, a = .markActive r) ∨ (∃ r s, a = .proxy r s)) :
    ∃ t n r k, .query t n (.found r k) ∈ handler cls sched .ok count ts evs ∧
      (a = .clearDeadline ∨ a = .markActive r ∨ ∃ s, a = .proxy r s) := by
  have hnp : a.passive = false := by
    rcases hact with rfl | ⟨r, rfl⟩ | ⟨r, s, rfl⟩ <;> rfl
  cases handler_shape cls sched count ts evs with
  | gaveUp pre e h1 h2 =>
    rw [h1] at ha
    rcases List.mem_append.mp ha with h | h
    · rw [h2 a h] at hnp; cases hnp
    · simp at h
      rcases h with rfl | rfl <;> (rcases hact with h | ⟨_, h⟩ | ⟨_, _, h⟩ <;> cases h)
  | aborted pre t n h1 h2 =>
    rw [h1] at ha
    rcases List.mem_append.mp ha with h | h
    · rw [h2 a h] at hnp; cases hnp
    · simp at h
      rcases h with rfl | rfl | rfl <;> (rcases hact with h | ⟨_, h⟩ | ⟨_, _, h⟩ <;> cases h)
  | matched pre t n r k s h1 h2 =>
    refine ⟨t, n, r, k, by rw [h1]; simp, ?_⟩
    rw [h1] at ha
    rcases List.mem_append.mp ha with h | h
    · rw [h2 a h] at hnp; cases hnp
    · simp at h
      rcases h with rfl | rfl | rfl | rfl | rfl
      · rcases hact with h | ⟨_, h⟩ | ⟨_, _, h⟩ <;> cases h
      · exact Or.inl rfl
      · exact Or.inr (Or.inl rfl)
      · exact Or.inr (Or.inr ⟨s, rfl⟩)
      · rcases hact with h | ⟨_, h⟩ | ⟨_, _, h⟩ <;> cases h

/-- On a probe the handler does nothing but arm the deadline, read, query the transports and return. -/
theorem probe_only_reads (cls : T → Bytes → Verdict R) (sched : Nat → List T → List T)
    (hs : SchedOk sched) (count : Nat) (ts : List T) (evs : List Ev) (hn : NoMatch cls ts evs) :
    ∀ a ∈ handler cls sched .ok count ts evs, a.passive = true ∨ (∃ e, a = .readEnd e) ∨ a = .ret := by
  intro a ha
  unfold handler at ha
  simp only [List.mem_cons] at ha
  rcases ha with rfl | ha
  · exact Or.inl rfl
  · by_cases h : count < 1
    · simp only [h, if_true, List.mem_cons] at ha
      rcases ha with rfl | ha
      · exact Or.inl rfl
      · rw [discard_eq] at ha
        rcases List.mem_append.mp ha with h' | h'
        · obtain ⟨n, _, rfl⟩ := List.mem_map.mp h'; exact Or.inl rfl
        · simp at h'
          rcases h' with rfl | rfl
          · exact Or.inr (Or.inl ⟨_, rfl⟩)
          · exact Or.inr (Or.inr rfl)
    · simp only [h, if_false] at ha
      exact (loop_view_quiet cls sched hs evs 0 ts [] (by simpa [NoMatch, Quiet] using hn)).2 a ha

/-- **What a prober sees.**  On a probe the peer-visible behaviour is: arm the deadline, keep reading
whatever arrives, return after the first read error (deadline, EOF, reset, failure) — and nothing
else.  It does not depend on the transports, their answers, the order they are asked in, or on the
number of registrations on the phantom. -/
theorem probe_view (cls : T → Bytes → Verdict R) (sched : Nat → List T → List T)
    (hs : SchedOk sched) (count : Nat) (ts : List T) (evs : List Ev) (hn : NoMatch cls ts evs) :
    connView (handler cls sched .ok count ts evs) =
      .setDeadline :: ((readsOf evs).map .readData ++ [.readEnd (endOf evs), .ret]) := by
  unfold handler
  by_cases h : count < 1
  · simp only [h, if_true, connView]
    rw [connView_discard, discard_eq]
  · simp only [h, if_false, connView]
    rw [(loop_view_quiet cls sched hs evs 0 ts [] (by simpa [NoMatch, Quiet] using hn)).1, discard_eq]

/-- With no registration on the phantom (`count = 0`, whatever transports are enabled) the visible
trace is the same as with any number of registrations that the probe does not match ("same trace up
to reads": the reads are determined by the script alone). -/
theorem count_zero_same_trace (cls : T → Bytes → Verdict R) (sched : Nat → List T → List T)
    (hs : SchedOk sched) (count : Nat) (ts : List T) (evs : List Ev) (hn : NoMatch cls ts evs)
    (cls' : T → Bytes → Verdict R) (sched' : Nat → List T → List T) (ts' : List T) :
    connView (handler cls sched .ok count ts evs) = connView (handler cls' sched' .ok 0 ts' evs) := by
  rw [probe_view cls sched hs count ts evs hn]
  simp only [handler, Nat.lt_one_iff, if_true, connView]
  rw [connView_discard, discard_eq]

/-- **No early close.**  On a probe the handler returns only after a read reported an error, and that
error is the first one in the script — the deadline when the peer merely stays silent or keeps
sending, otherwise the peer's own EOF / reset or a failure of the read. -/
theorem no_return_before_deadline (cls : T → Bytes → Verdict R) (sched : Nat → List T → List T)
    (hs : SchedOk sched) (count : Nat) (ts : List T) (evs : List Ev) (hn : NoMatch cls ts evs) :
    ∃ pre, handler cls sched .ok count ts evs = pre ++ [.readEnd (endOf evs), .ret] ∧
      ∀ a ∈ pre, a.passive = true := by
  have hall := probe_only_reads cls sched hs count ts evs hn
  have hview := probe_view cls sched hs count ts evs hn
  cases handler_shape cls sched count ts evs with
  | gaveUp pre e h1 h2 =>
    refine ⟨pre, ?_, h2⟩
    rw [h1, connView_append] at hview
    have hv : connView ([.readEnd e, .ret] : List (Act T R)) = [.readEnd e, .ret] := rfl
    rw [hv] at hview
    have h3 : connView pre ++ [Act.readEnd e, Act.ret] =
        (Act.setDeadline :: (readsOf evs).map Act.readData) ++ [Act.readEnd (endOf evs), Act.ret] := by
      simpa using hview
    have := (List.append_inj' h3 rfl).2
    simp at this
    rw [h1, this]
  | aborted pre t n h1 _ =>
    have := hall .sleepUntilDeadline (by rw [h1]; simp)
    rcases this with h | ⟨_, h⟩ | h <;> cases h
  | matched pre t n r k s h1 _ =>
    have := hall .clearDeadline (by rw [h1]; simp)
    rcases this with h | ⟨_, h⟩ | h <;> cases h

/-- **Always reading.**  (a) In every run, the handler stops reading and sleeps only immediately after
a transport reported an unexpected error, and then returns.  (b) On a probe it never sleeps. -/
theorem always_reading (cls : T → Bytes → Verdict R) (sched : Nat → List T → List T)
    (count : Nat) (ts : List T) (evs : List Ev) (pre post : List (Act T R))
    (h : handler cls sched .ok count ts evs = pre ++ .sleepUntilDeadline :: post) :
    (∃ pre' t n, pre = pre' ++ [.query t n .err]) ∧ post = [.ret] := by
  have hx : (Act.sleepUntilDeadline : Act T R).passive = false := rfl
  cases handler_shape cls sched count ts evs with
  | gaveUp P e h1 h2 =>
    obtain ⟨q, _, hq⟩ := split_in_tail Act.passive P _ pre post _ h2 hx (h1.symm.trans h)
    rcases q with _ | ⟨a, _ | ⟨b, _ | ⟨c, q⟩⟩⟩ <;> simp at hq
  | aborted P t n h1 h2 =>
    obtain ⟨q, hp, hq⟩ := split_in_tail Act.passive P _ pre post _ h2 hx (h1.symm.trans h)
    rcases q with _ | ⟨a, _ | ⟨b, _ | ⟨c, q⟩⟩⟩ <;> simp at hq
    obtain ⟨rfl, rfl⟩ := hq
    exact ⟨⟨P, t, n, hp⟩, rfl⟩
  | matched P t n r k s h1 h2 =>
    obtain ⟨q, _, hq⟩ := split_in_tail Act.passive P _ pre post _ h2 hx (h1.symm.trans h)
    rcases q with _ | ⟨a, _ | ⟨b, _ | ⟨c, _ | ⟨d, _ | ⟨e, q⟩⟩⟩⟩⟩ <;> simp at hq

theorem probe_never_sleeps (cls : T → Bytes → Verdict R) (sched : Nat → List T → List T)
    (hs : SchedOk sched) (count : Nat) (ts : List T) (evs : List Ev) (hn : NoMatch cls ts evs) :
    .sleepUntilDeadline ∉ handler cls sched .ok count ts evs := by
  intro h
  rcases probe_only_reads cls sched hs count ts evs hn _ h with h | ⟨_, h⟩ | h <;> cases h

/-- If every possible transport answers not-transport on the buffer a read completes, that pass removes
them all and from there on the handler only discards what arrives until the first read error. -/
theorem gives_up_at (cls : T → Bytes → Verdict R) (sched : Nat → List T → List T)
    (hs : SchedOk sched) (t : T) (ts : List T) (i : Nat) (buf c : Bytes) (evs : List Ev)
    (hB : ∀ u ∈ t :: ts, cls u (buf ++ c) = .notT) :
    ∃ qs : List (Act T R), (∀ a ∈ qs, ∃ u, a = Act.query u (buf ++ c).length .notT) ∧
      loop cls sched i (t :: ts) buf (.data c :: evs) =
        Act.readData c.length :: (qs ++ Act.discardUntilErr :: CJ.ConnHandler.discard evs) := by
  have hall : ∀ u ∈ sched i (t :: ts), cls u (buf ++ c) = .notT :=
    fun u hu => hB u ((hs i (t :: ts) u).mp hu)
  obtain ⟨h2, hq⟩ := pass_all_notT cls (buf ++ c) (sched i (t :: ts)) [] hall
  refine ⟨(pass cls (buf ++ c) (sched i (t :: ts)) []).1, hq, ?_⟩
  simp only [loop]
  rw [h2]
  cases evs <;> simp [loop]

/-- **Gives up after a bounded number of bytes, and keeps reading.**  If every possible transport
answers not-transport on every buffer of at least `B` bytes, then the pass that first sees `B` buffered
bytes removes them all and from there on the handler only discards what arrives until the first read
error.  Instantiated for the real transports with `B = 8192` in `real_transports_give_up_by_8192`. -/
theorem gives_up_bounded (cls : T → Bytes → Verdict R) (sched : Nat → List T → List T)
    (hs : SchedOk sched) (B : Nat) (t : T) (ts : List T)
    (hB : ∀ u ∈ t :: ts, ∀ b : Bytes, B ≤ b.length → cls u b = .notT)
    (i : Nat) (buf c : Bytes) (evs : List Ev) (hlen : B ≤ (buf ++ c).length) :
    ∃ qs : List (Act T R), (∀ a ∈ qs, ∃ u, a = Act.query u (buf ++ c).length .notT) ∧
      loop cls sched i (t :: ts) buf (.data c :: evs) =
        Act.readData c.length :: (qs ++ Act.discardUntilErr :: CJ.ConnHandler.discard evs) :=
  gives_up_at cls sched hs t ts i buf c evs (fun u hu => hB u hu _ hlen)

/-- Why the GeoIP hypothesis is needed: when the remote address is not an IP or a lookup fails, the
handler returns at once — before arming a deadline or reading. -/
theorem geoip_failure_returns_at_once (cls : T → Bytes → Verdict R) (sched : Nat → List T → List T)
    (geo : Geo) (hg : geo ≠ .ok) (count : Nat) (ts : List T) (evs : List Ev) :
    handler cls sched geo count ts evs = [.ret] := by
  cases geo <;> simp [handler] at hg ⊢

/-! ## The real transports

`CJ.WrapCls.cls w` are the C02 models of `WrapConnection` of min, prefix and obfs4 as classifiers of the
handler, for a station environment `w`: the valid registrations on the probed phantom, the tag-reveal
and mark-search oracles, and the order in which the supported-prefix map is iterated at each call. -/

open CJ.WrapCls in
/-- the station iterates, at every call and in some order, exactly the prefix table the code ships
(regenerated from `prefix.DefaultPrefixes` on every run) -/
def StationEnv (w : CJ.WrapCls.Env) : Prop := ∀ d e, e ∈ w.table d ↔ e ∈ CJ.Gen.prefixTable

/-- every shipped prefix leaves room for the whole tag before its decision length (no out-of-range slice) -/
theorem prefix_table_wf : ∀ e ∈ CJ.Gen.prefixTable, e.offset + 64 ≤ max e.minLen e.maxLen := by decide

/-- no decision length of a shipped prefix exceeds the obfs4 maximum handshake length -/
theorem prefix_table_bound : ∀ e ∈ CJ.Gen.prefixTable, e.minLen ≤ 8192 ∧ e.maxLen ≤ 8192 := by decide

/-- the length constants of the transport models are the ones the code uses -/
theorem model_constants_match_code :
    CJ.Gen.WrapConsts.minTagLen = CJ.Wrap.minTagLen ∧ CJ.Gen.prefixTagLen = CJ.Wrap.prefixTagLen ∧
    CJ.Gen.WrapConsts.obfs4ClientMinHandshake = CJ.Wrap.obfs4MinHandshake ∧
    CJ.Gen.WrapConsts.obfs4MaxHandshake = CJ.Wrap.obfs4MaxHandshake ∧
    2 * CJ.Gen.WrapConsts.obfs4IdentLen = CJ.Wrap.obfs4IdentHexLen := by decide

theorem StationEnv.tableWf {w : CJ.WrapCls.Env} (h : StationEnv w) : CJ.WrapCls.TableWf w :=
  fun d e he => prefix_table_wf e ((h d e).mp he)

/-- **A transport answers an unexpected error only after a registered tag was presented**: min and
obfs4 never do; prefix only when the tag window of one of its prefixes reveals, under a station key, the
identifier of a registration on the probed phantom (registered under another transport or prefix).
This is the only way into the handler's sleep-instead-of-read path (`always_reading`). -/
theorem transport_error_needs_registered_tag (w : CJ.WrapCls.Env) (hw : StationEnv w)
    (t : CJ.WrapCls.Tr) (d : Bytes) (h : CJ.WrapCls.cls w t d = .err) :
    t = .prefix ∧ ∃ e ∈ CJ.Gen.prefixTable, ∃ r ∈ w.regs,
      w.reveal (CJ.Wrap.window d e.offset) = some r.ident := by
  cases t with
  | min => exact absurd h (CJ.WrapCls.min_ne_err _ _)
  | obfs4 => exact absurd h (CJ.WrapCls.obfs4_ne_err _ _ _)
  | «prefix» =>
    obtain ⟨e, he, r, hr, hrev⟩ :=
      CJ.WrapCls.prefix_err_needs_registered_tag (w.table d) w.reveal w.regs d (hw.tableWf d) h
    exact ⟨rfl, e, (hw d e).mp he, r, hr, hrev⟩

/-- **A transport answers `found` only after a registered tag was presented**: the first 32 bytes are
a registered identifier (min), a tag window reveals one (prefix), a registered mark is located (obfs4). -/
theorem match_needs_registered_tag (w : CJ.WrapCls.Env) (hw : StationEnv w)
    (t : CJ.WrapCls.Tr) (d : Bytes) (rid k : Nat) (h : CJ.WrapCls.cls w t d = .found rid k) :
    (t = .min ∧ ∃ r ∈ w.regs, r.ident = CJ.Wrap.toHex (d.take 32)) ∨
    (t = .prefix ∧ ∃ e ∈ CJ.Gen.prefixTable, ∃ r ∈ w.regs,
      w.reveal (CJ.Wrap.window d e.offset) = some r.ident) ∨
    (t = .obfs4 ∧ ∃ r ∈ w.regs, r.rid ∈ w.marks d) := by
  cases t with
  | min =>
    obtain ⟨r, hr, _, hi, _⟩ := CJ.WrapCls.min_found_needs_tag _ _ _ _ h
    exact Or.inl ⟨rfl, r, hr, hi⟩
  | «prefix» =>
    obtain ⟨e, he, r, hr, hrev⟩ :=
      CJ.WrapCls.prefix_found_needs_registered_tag (w.table d) w.reveal w.regs d (hw.tableWf d) rid k h
    exact Or.inr (Or.inl ⟨rfl, e, (hw d e).mp he, r, hr, hrev⟩)
  | obfs4 =>
    obtain ⟨r, hr, hrid, hm⟩ := CJ.WrapCls.obfs4_found_needs_mark _ _ _ _ _ h
    exact Or.inr (Or.inr ⟨rfl, r, hr, hrid ▸ hm⟩)

/-- A stream no prefix of which presents a registered tag to any transport is a probe (`NoMatch`),
whichever transports are enabled. -/
theorem untagged_is_probe (w : CJ.WrapCls.Env) (hw : StationEnv w) (ts : List CJ.WrapCls.Tr)
    (evs : List Ev) (hu : CJ.WrapCls.Untagged w (dataOf evs)) : NoMatch (CJ.WrapCls.cls w) ts evs :=
  fun t _ => CJ.WrapCls.untagged_quiet w hw.tableWf _ hu t

/-- **The property for the real transports.**  Against min, prefix (the shipped table, any iteration
order) and obfs4, with any registrations on the phantom, a connection that never presents a registered
tag sees exactly: the deadline armed, everything it sends read, the return after the first read error
(the deadline if it merely keeps sending or stays silent) — no sleep, no hand-off. -/
theorem probe_view_real (w : CJ.WrapCls.Env) (hw : StationEnv w)
    (sched : Nat → List CJ.WrapCls.Tr → List CJ.WrapCls.Tr) (hs : SchedOk sched) (count : Nat)
    (ts : List CJ.WrapCls.Tr) (evs : List Ev) (hu : CJ.WrapCls.Untagged w (dataOf evs)) :
    connView (handler (CJ.WrapCls.cls w) sched .ok count ts evs) =
        .setDeadline :: ((readsOf evs).map .readData ++ [.readEnd (endOf evs), .ret]) ∧
    .sleepUntilDeadline ∉ handler (CJ.WrapCls.cls w) sched .ok count ts evs ∧
    ∀ a ∈ handler (CJ.WrapCls.cls w) sched .ok count ts evs,
      a ≠ .clearDeadline ∧ (∀ r, a ≠ .markActive r) ∧ ∀ r s, a ≠ .proxy r s := by
  have hn := untagged_is_probe w hw ts evs hu
  refine ⟨probe_view _ sched hs count ts evs hn, probe_never_sleeps _ sched hs count ts evs hn, ?_⟩
  intro a ha
  rcases probe_only_reads _ sched hs count ts evs hn a ha with h | ⟨e, rfl⟩ | rfl
  · refine ⟨?_, ?_, ?_⟩
    · rintro rfl; cases h
    · rintro r rfl; cases h
    · rintro r s rfl; cases h
  · exact ⟨by simp, by simp, by simp⟩
  · exact ⟨by simp, by simp, by simp⟩

/-- **The real transports have all given up by 8192 buffered bytes** (the obfs4 maximum handshake
length; no decision length of the shipped prefix table is larger): the read that brings an untagged
buffer to at least 8192 bytes is followed by not-transport answers only, after which the handler drains
the connection until the first read error. -/
theorem real_transports_give_up_by_8192 (w : CJ.WrapCls.Env) (hw : StationEnv w)
    (sched : Nat → List CJ.WrapCls.Tr → List CJ.WrapCls.Tr) (hs : SchedOk sched)
    (t : CJ.WrapCls.Tr) (ts : List CJ.WrapCls.Tr) (i : Nat) (buf c : Bytes) (evs : List Ev)
    (hlen : CJ.Gen.WrapConsts.obfs4MaxHandshake ≤ (buf ++ c).length)
    (hmin : CJ.WrapCls.MinUntagged w.regs (buf ++ c))
    (hpre : CJ.WrapCls.PrefixUntagged (w.table (buf ++ c)) w.reveal w.regs (buf ++ c))
    (hobf : CJ.WrapCls.Obfs4Untagged (w.marks (buf ++ c)) w.regs) :
    ∃ qs : List (Act CJ.WrapCls.Tr Nat), (∀ a ∈ qs, ∃ u, a = Act.query u (buf ++ c).length .notT) ∧
      loop (CJ.WrapCls.cls w) sched i (t :: ts) buf (.data c :: evs) =
        Act.readData c.length :: (qs ++ Act.discardUntilErr :: CJ.ConnHandler.discard evs) := by
  have h8 : (8192 : Nat) ≤ (buf ++ c).length := hlen
  apply gives_up_at _ sched hs t ts i buf c evs
  intro u _
  refine CJ.WrapCls.untagged_long_notT w hw.tableWf _ hmin hpre hobf h8 ?_ u
  intro e he
  have := prefix_table_bound e ((hw _ e).mp he)
  omega

/-! ## Tie to the source: what `handleNewTCPConn` does with the connection (regenerated on every run)

`CJ/Gen/ConnCalls.lean` is extracted from the syntax tree of `cmd/application/conns.go` in the tree
under check (every occurrence of the connection variables is classified).  The model's action alphabet (arm the deadline, read, clear the deadline, hand the
connection to the transports / the proxy) is complete only if the function does nothing else with the
connection; in particular there is no `Write` and no `Close` on any path. -/

/-- The handler invokes nothing but `RemoteAddr`, `SetDeadline` and `Read` on the client connection (found
by the type of the parameter; every copy of it is followed), hands it only to `getRemoteAsIP`, to
`io.Copy` **as the source** (argument 1: `io.Copy(io.Discard, conn)` reads; as argument 0 it would write
to the peer) and to the transports' `WrapConnection`, touches the wrapped connection only to pass it to
`Proxy` (and to a log line's `%T`), and there is no other use of either: no copy into another variable,
no type assertion or type switch (behind which `*net.TCPConn`-only calls such as `CloseWrite` /
`SetLinger` could hide), no address-of, literal, closure capture, `defer` or goroutine.  The extractor
does see the calls the model relies on (`Read`, `SetDeadline` are present). -/
theorem conn_calls_ok :
    (∀ m ∈ CJ.Gen.ConnCalls.clientConnMethods, m ∈ ["Read", "RemoteAddr", "SetDeadline"]) ∧
    (∀ f ∈ CJ.Gen.ConnCalls.clientConnPassedTo, f ∈ ["getRemoteAsIP#0", "io.Copy#1", "t.WrapConnection#1"]) ∧
    (∀ m ∈ CJ.Gen.ConnCalls.wrappedMethods, m ∈ ["SetDeadline"]) ∧
    (∀ f ∈ CJ.Gen.ConnCalls.wrappedPassedTo, f ∈ ["cj.Proxy#1", "logger.Errorf#1"]) ∧
    CJ.Gen.ConnCalls.aliases = [] ∧
    "Write" ∉ CJ.Gen.ConnCalls.clientConnMethods ∧ "Close" ∉ CJ.Gen.ConnCalls.clientConnMethods ∧
    "Read" ∈ CJ.Gen.ConnCalls.clientConnMethods ∧ "SetDeadline" ∈ CJ.Gen.ConnCalls.clientConnMethods ∧
    "io.Copy#1" ∈ CJ.Gen.ConnCalls.clientConnPassedTo ∧ "cj.Proxy#1" ∈ CJ.Gen.ConnCalls.wrappedPassedTo := by
  decide

/-- `handleNewConn` — the goroutine that owns the accepted `*net.TCPConn` and calls `handleNewTCPConn` —
does nothing with the connection but: defer its `Close` as the very first statement (so that it runs
when, and only when, the handler has returned), duplicate the descriptor (`File`) to read the original
destination and restore non-blocking mode, and hand it to `handleNewTCPConn`.  No `Write`, `SetLinger`,
`CloseWrite`, early `Close`, no other use; on the duplicate only `Fd` and `Close`; the only direct system
call is `SetNonblock`. -/
theorem new_conn_calls_ok :
    (∀ m ∈ CJ.Gen.ConnCalls.newConnMethods, m ∈ ["File"]) ∧
    CJ.Gen.ConnCalls.newConnDeferred = ["Close@0"] ∧
    CJ.Gen.ConnCalls.newConnPassedTo = ["cm.handleNewTCPConn#1"] ∧
    (∀ m ∈ CJ.Gen.ConnCalls.newConnFdMethods, m ∈ ["Close", "Fd"]) ∧
    (∀ f ∈ CJ.Gen.ConnCalls.newConnFdPassedTo, f ∈ ["getOriginalDst#0", "syscall.SetNonblock#0"]) ∧
    (∀ f ∈ CJ.Gen.ConnCalls.newConnSyscalls, f ∈ ["SetNonblock"]) ∧
    CJ.Gen.ConnCalls.newConnOther = [] := by
  decide

/-! ## Non-vacuity: concrete classifiers, a probe that comes close, and its trace -/

/-- a min-like transport: needs `tag.length` bytes, then finds registration `r` iff they equal `tag` -/
def tagCls (tag : Bytes) (r : Nat) : Bytes → Verdict Nat := fun b =>
  if b.length < tag.length then .tryAgain
  else if b.take tag.length = tag then .found r tag.length else .notT

/-- an obfs4-like transport that finds nothing: try-again until `B` bytes, then not-transport -/
def boundCls (B : Nat) : Bytes → Verdict Nat := fun b => if b.length < B then .tryAgain else .notT

/-- transport 0 is min-like with tag `[1,2,3,4]`, transport 1 gives up at 6 bytes -/
def exCls : Nat → Bytes → Verdict Nat
  | 0 => tagCls [1, 2, 3, 4] 7
  | _ => boundCls 6

/-- the probe sends the first three tag bytes right, the fourth wrong, then more garbage, then is silent -/
def exProbe : List Ev := [.data [1, 2], .data [3, 9], .data [5, 5, 5]]

example : NoMatch exCls [0, 1] exProbe := by
  intro t ht n
  have hS : dataOf exProbe = [1, 2, 3, 9, 5, 5, 5] := rfl
  rw [hS]
  simp only [List.mem_cons, List.mem_nil_iff, or_false] at ht
  rcases ht with rfl | rfl
  · rcases n with _ | _ | _ | _ | _ | _ | _ | n <;> simp [exCls, tagCls]
  · simp only [exCls, boundCls]
    split <;> simp

example : handler exCls (fun _ ts => ts.reverse) .ok 2 [0, 1] exProbe =
    [.setDeadline,
     .readData 2, .query 1 2 .tryAgain, .query 0 2 .tryAgain,
     .readData 2, .query 0 4 .notT, .query 1 4 .tryAgain,
     .readData 3, .query 1 7 .notT,
     .discardUntilErr, .readEnd .deadline, .ret] := by decide

example : SchedOk (fun (_ : Nat) (ts : List Nat) => ts.reverse) := by
  intro i ts t; simp

/-- the same probe against a phantom without registrations: same visible trace -/
example : connView (handler exCls (fun _ ts => ts) .ok 0 [0, 1] exProbe) =
    connView (handler exCls (fun _ ts => ts.reverse) .ok 2 [0, 1] exProbe) := by decide

/-- the error path exists (it is excluded by `NoMatch`, not by the model): a transport that errors -/
example : handler (fun (_ : Nat) (_ : Bytes) => (Verdict.err : Verdict Nat)) (fun _ ts => ts) .ok 1 [0]
    [.data [1]] = [.setDeadline, .readData 1, .query 0 1 .err, .sleepUntilDeadline, .ret] := by decide

/-! ### the real transports: the hypotheses are satisfiable, and the error path is real -/

/-- a station with one min registration whose identifier the probe does not present -/
def exEnv : CJ.WrapCls.Env :=
  { regs := [{ ident := CJ.Wrap.toHex (List.replicate 32 7), transport := 1, prefixParam := none, rid := 3 }],
    table := fun _ => CJ.Gen.prefixTable, reveal := fun _ => none, marks := fun _ => [] }

example : StationEnv exEnv := fun _ _ => Iff.rfl

example : CJ.WrapCls.Untagged exEnv (dataOf [.data [7, 7], .data [7, 9]]) := by
  intro n
  have hS : dataOf [.data [7, 7], .data [7, 9]] = [7, 7, 7, 9] := rfl
  rw [hS]
  refine ⟨?_, ?_, ?_⟩
  · intro r hr
    simp only [exEnv, List.mem_singleton] at hr
    subst hr
    have h4 : ∀ m, ([7, 7, 7, 9] : Bytes).take (m + 4) = [7, 7, 7, 9] := fun m => by simp
    rcases n with _ | _ | _ | _ | n
    · decide
    · decide
    · decide
    · decide
    · rw [h4 n]; decide
  · intro e _ r _; simp [exEnv]
  · intro r _; simp [exEnv]

/-- the same station asked with the registered identifier: min finds the registration -/
example : CJ.WrapCls.cls exEnv .min (List.replicate 40 7) = .found 3 32 := by decide

/-- the error path is real and needs a registered tag: a min registration's identifier revealed from
the tag window of the prefix transport (`ErrIncorrectTransport`) -/
example : CJ.WrapCls.cls { exEnv with reveal := fun _ => some (CJ.Wrap.toHex (List.replicate 32 7)) } .prefix
    (List.replicate 64 0) = .err := by decide

end CJ.Props.C03
