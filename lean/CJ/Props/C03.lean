import CJ.Lemmas.ConnHandler
import CJ.Gen.ConnCalls
/-!
# C03 — unauthenticated connections get no bytes and no early close

Property theorems about the model of `handleNewTCPConn` (`CJ/Model/ConnHandler.lean`), parametric in
the wrapping transports (`cls : T → Bytes → Verdict R`), in the order in which Go's map iteration
visits them on every pass (`sched`, any order: `SchedOk`), in the registration count of the phantom
and in the event script (content, length, segmentation, pacing and the way the peer ends the
connection).  All statements are for every script, of any length.

**Explicit hypothesis of the property:** the GeoIP lookups of the remote address succeed (`Geo.ok`).
When they fail the handler returns at once (`geoip_failure_returns_at_once`): a database of the wrong
kind in an otherwise accepted configuration is a deployment assumption, stated here, not hidden.

A *probe* is a script on which no possible transport ever answers `found` or an error on any prefix
of what the peer sends (`NoMatch`).  That the concrete transports answer an error only after a
registered identifier / mark was found is part of C02 (`transport_error_needs_match`).
The handler model has no `write` action at all: the only operations it performs on the client
connection are arming the deadline and reading; the harness checks the same on the real code (the
set of `net.Conn` methods the handler invokes), and everything else it does with the connection
(clearing the deadline, wrapping, proxying) is shown here to happen only after a `found` verdict.
-/
namespace CJ.Props.C03
open CJ.ConnHandler

variable {T R : Type}

/-- a probe: no possible transport finds a registration or errors on any prefix of the peer's bytes -/
def NoMatch (cls : T → Bytes → Verdict R) (ts : List T) (evs : List Ev) : Prop :=
  ∀ t ∈ ts, Quiet cls t (dataOf evs)

/-- Every run (GeoIP ok) ends in exactly one of three ways: a read reported an error after which the
handler returned; a transport reported an unexpected error, the handler slept until the deadline and
returned; a transport found a registration, the handler cleared the deadline, marked the registration
active and proxied.  Everything before is passive (arming the deadline, successful reads, queries
answered try-again / not-transport, the switch to the discard loop). -/
theorem handler_shape (cls : T → Bytes → Verdict R) (sched : Nat → List T → List T)
    (count : Nat) (ts : List T) (evs : List Ev) :
    Ending (handler cls sched .ok count ts evs) := by
  unfold handler
  apply ending_cons_passive rfl
  by_cases h : count < 1
  · simp only [h, if_true]
    exact ending_cons_passive rfl (ending_discard evs)
  · simp only [h, if_false]
    exact loop_shape cls sched evs 0 ts []

private theorem split_in_tail {α : Type} (p : α → Bool) :
    ∀ (P tail pre post : List α) (x : α), (∀ a ∈ P, p a = true) → p x = false →
      P ++ tail = pre ++ x :: post → ∃ q, pre = P ++ q ∧ tail = q ++ x :: post := by
  intro P
  induction P with
  | nil => intro tail pre post x _ _ h; exact ⟨pre, rfl, by simpa using h⟩
  | cons a P ih =>
    intro tail pre post x hP hx h
    cases pre with
    | nil =>
      simp at h
      have := hP a (List.mem_cons_self ..)
      rw [h.1, hx] at this; cases this
    | cons b pre =>
      simp at h
      obtain ⟨q, h1, h2⟩ := ih tail pre post x (fun a ha => hP a (List.mem_cons_of_mem _ ha)) hx h.2
      exact ⟨q, by simp [h.1, h1], h2⟩

/-- **No write, no wrapping, no proxying without a match.**  The handler touches the connection beyond
arming the deadline and reading (it clears the deadline, marks a registration active, hands the
connection to the proxy) only after some transport answered `found` for that very registration. -/
theorem no_write_without_match (cls : T → Bytes → Verdict R) (sched : Nat → List T → List T)
    (count : Nat) (ts : List T) (evs : List Ev) (a : Act T R)
    (ha : a ∈ handler cls sched .ok count ts evs)
    (hact : a = .clearDeadline ∨ (∃ r, a = .markActive r) ∨ (∃ r s, a = .proxy r s)) :
    ∃ t n r k, .query t n (.found r k) ∈ handler cls sched .ok count ts evs ∧
      (a = .clearDeadline ∨ a = .markActive r ∨ ∃ s, a = .proxy r s) := by
  have hnp : a.passive = false := by
    rcases hact with rfl | ⟨r, rfl⟩ | ⟨r, s, rfl⟩ <;> rfl
  cases handler_shape cls sched count ts evs with
  | gaveUp pre e h1 h2 =>
    rw [h1] at ha
    rcases List.mem_append.mp ha with h | h
    · rw [h2 a h] at hnp; cases hnp
    · simp at h
      rcases h with rfl | rfl <;> (rcases hact with h | ⟨_, h⟩ | ⟨_, _, h⟩ <;> cases h)
  | aborted pre t n h1 h2 =>
    rw [h1] at ha
    rcases List.mem_append.mp ha with h | h
    · rw [h2 a h] at hnp; cases hnp
    · simp at h
      rcases h with rfl | rfl | rfl <;> (rcases hact with h | ⟨_, h⟩ | ⟨_, _, h⟩ <;> cases h)
  | matched pre t n r k s h1 h2 =>
    refine ⟨t, n, r, k, by rw [h1]; simp, ?_⟩
    rw [h1] at ha
    rcases List.mem_append.mp ha with h | h
    · rw [h2 a h] at hnp; cases hnp
    · simp at h
      rcases h with rfl | rfl | rfl | rfl | rfl
      · rcases hact with h | ⟨_, h⟩ | ⟨_, _, h⟩ <;> cases h
      · exact Or.inl rfl
      · exact Or.inr (Or.inl rfl)
      · exact Or.inr (Or.inr ⟨s, rfl⟩)
      · rcases hact with h | ⟨_, h⟩ | ⟨_, _, h⟩ <;> cases h

/-- On a probe the handler does nothing but arm the deadline, read, query the transports and return. -/
theorem probe_only_reads (cls : T → Bytes → Verdict R) (sched : Nat → List T → List T)
    (hs : SchedOk sched) (count : Nat) (ts : List T) (evs : List Ev) (hn : NoMatch cls ts evs) :
    ∀ a ∈ handler cls sched .ok count ts evs, a.passive = true ∨ (∃ e, a = .readEnd e) ∨ a = .ret := by
  intro a ha
  unfold handler at ha
  simp only [List.mem_cons] at ha
  rcases ha with rfl | ha
  · exact Or.inl rfl
  · by_cases h : count < 1
    · simp only [h, if_true, List.mem_cons] at ha
      rcases ha with rfl | ha
      · exact Or.inl rfl
      · rw [discard_eq] at ha
        rcases List.mem_append.mp ha with h' | h'
        · obtain ⟨n, _, rfl⟩ := List.mem_map.mp h'; exact Or.inl rfl
        · simp at h'
          rcases h' with rfl | rfl
          · exact Or.inr (Or.inl ⟨_, rfl⟩)
          · exact Or.inr (Or.inr rfl)
    · simp only [h, if_false] at ha
      exact (loop_view_quiet cls sched hs evs 0 ts [] (by simpa [NoMatch, Quiet] using hn)).2 a ha

/-- **What a prober sees.**  On a probe the peer-visible behaviour is: arm the deadline, keep reading
whatever arrives, return after the first read error (deadline, EOF, reset, failure) — and nothing
else.  It does not depend on the transports, their answers, the order they are asked in, or on the
number of registrations on the phantom. -/
theorem probe_view (cls : T → Bytes → Verdict R) (sched : Nat → List T → List T)
    (hs : SchedOk sched) (count : Nat) (ts : List T) (evs : List Ev) (hn : NoMatch cls ts evs) :
    connView (handler cls sched .ok count ts evs) =
      .setDeadline :: ((readsOf evs).map .readData ++ [.readEnd (endOf evs), .ret]) := by
  unfold handler
  by_cases h : count < 1
  · simp only [h, if_true, connView]
    rw [connView_discard, discard_eq]
  · simp only [h, if_false, connView]
    rw [(loop_view_quiet cls sched hs evs 0 ts [] (by simpa [NoMatch, Quiet] using hn)).1, discard_eq]

/-- With no registration on the phantom (`count = 0`, whatever transports are enabled) the visible
trace is the same as with any number of registrations that the probe does not match ("same trace up
to reads": the reads are determined by the script alone). -/
theorem count_zero_same_trace (cls : T → Bytes → Verdict R) (sched : Nat → List T → List T)
    (hs : SchedOk sched) (count : Nat) (ts : List T) (evs : List Ev) (hn : NoMatch cls ts evs)
    (cls' : T → Bytes → Verdict R) (sched' : Nat → List T → List T) (ts' : List T) :
    connView (handler cls sched .ok count ts evs) = connView (handler cls' sched' .ok 0 ts' evs) := by
  rw [probe_view cls sched hs count ts evs hn]
  simp only [handler, Nat.lt_one_iff, if_true, connView]
  rw [connView_discard, discard_eq]

/-- **No early close.**  On a probe the handler returns only after a read reported an error, and that
error is the first one in the script — the deadline when the peer merely stays silent or keeps
sending, otherwise the peer's own EOF / reset or a failure of the read. -/
theorem no_return_before_deadline (cls : T → Bytes → Verdict R) (sched : Nat → List T → List T)
    (hs : SchedOk sched) (count : Nat) (ts : List T) (evs : List Ev) (hn : NoMatch cls ts evs) :
    ∃ pre, handler cls sched .ok count ts evs = pre ++ [.readEnd (endOf evs), .ret] ∧
      ∀ a ∈ pre, a.passive = true := by
  have hall := probe_only_reads cls sched hs count ts evs hn
  have hview := probe_view cls sched hs count ts evs hn
  cases handler_shape cls sched count ts evs with
  | gaveUp pre e h1 h2 =>
    refine ⟨pre, ?_, h2⟩
    rw [h1, connView_append] at hview
    have hv : connView ([.readEnd e, .ret] : List (Act T R)) = [.readEnd e, .ret] := rfl
    rw [hv] at hview
    have h3 : connView pre ++ [Act.readEnd e, Act.ret] =
        (Act.setDeadline :: (readsOf evs).map Act.readData) ++ [Act.readEnd (endOf evs), Act.ret] := by
      simpa using hview
    have := (List.append_inj' h3 rfl).2
    simp at this
    rw [h1, this]
  | aborted pre t n h1 _ =>
    have := hall .sleepUntilDeadline (by rw [h1]; simp)
    rcases this with h | ⟨_, h⟩ | h <;> cases h
  | matched pre t n r k s h1 _ =>
    have := hall .clearDeadline (by rw [h1]; simp)
    rcases this with h | ⟨_, h⟩ | h <;> cases h

/-- **Always reading.**  (a) In every run, the handler stops reading and sleeps only immediately after
a transport reported an unexpected error, and then returns.  (b) On a probe it never sleeps. -/
theorem always_reading (cls : T → Bytes → Verdict R) (sched : Nat → List T → List T)
    (count : Nat) (ts : List T) (evs : List Ev) (pre post : List (Act T R))
    (h : handler cls sched .ok count ts evs = pre ++ .sleepUntilDeadline :: post) :
    (∃ pre' t n, pre = pre' ++ [.query t n .err]) ∧ post = [.ret] := by
  have hx : (Act.sleepUntilDeadline : Act T R).passive = false := rfl
  cases handler_shape cls sched count ts evs with
  | gaveUp P e h1 h2 =>
    obtain ⟨q, _, hq⟩ := split_in_tail Act.passive P _ pre post _ h2 hx (h1.symm.trans h)
    rcases q with _ | ⟨a, _ | ⟨b, _ | ⟨c, q⟩⟩⟩ <;> simp at hq
  | aborted P t n h1 h2 =>
    obtain ⟨q, hp, hq⟩ := split_in_tail Act.passive P _ pre post _ h2 hx (h1.symm.trans h)
    rcases q with _ | ⟨a, _ | ⟨b, _ | ⟨c, q⟩⟩⟩ <;> simp at hq
    obtain ⟨rfl, rfl⟩ := hq
    exact ⟨⟨P, t, n, hp⟩, rfl⟩
  | matched P t n r k s h1 h2 =>
    obtain ⟨q, _, hq⟩ := split_in_tail Act.passive P _ pre post _ h2 hx (h1.symm.trans h)
    rcases q with _ | ⟨a, _ | ⟨b, _ | ⟨c, _ | ⟨d, _ | ⟨e, q⟩⟩⟩⟩⟩ <;> simp at hq

theorem probe_never_sleeps (cls : T → Bytes → Verdict R) (sched : Nat → List T → List T)
    (hs : SchedOk sched) (count : Nat) (ts : List T) (evs : List Ev) (hn : NoMatch cls ts evs) :
    .sleepUntilDeadline ∉ handler cls sched .ok count ts evs := by
  intro h
  rcases probe_only_reads cls sched hs count ts evs hn _ h with h | ⟨_, h⟩ | h <;> cases h

/-- **Gives up after a bounded number of bytes, and keeps reading.**  If every possible transport
answers not-transport on every buffer of at least `B` bytes (8192, the longest obfs4 handshake, for the
real transports when nothing matched), then the pass that first sees `B` buffered bytes removes them
all and from there on the handler only discards what arrives until the first read error. -/
theorem gives_up_bounded (cls : T → Bytes → Verdict R) (sched : Nat → List T → List T)
    (hs : SchedOk sched) (B : Nat) (t : T) (ts : List T)
    (hB : ∀ u ∈ t :: ts, ∀ b : Bytes, B ≤ b.length → cls u b = .notT)
    (i : Nat) (buf c : Bytes) (evs : List Ev) (hlen : B ≤ (buf ++ c).length) :
    ∃ qs : List (Act T R), (∀ a ∈ qs, ∃ u, a = Act.query u (buf ++ c).length .notT) ∧
      loop cls sched i (t :: ts) buf (.data c :: evs) =
        Act.readData c.length :: (qs ++ Act.discardUntilErr :: CJ.ConnHandler.discard evs) := by
  have hall : ∀ u ∈ sched i (t :: ts), cls u (buf ++ c) = .notT :=
    fun u hu => hB u ((hs i (t :: ts) u).mp hu) _ hlen
  obtain ⟨h2, hq⟩ := pass_all_notT cls (buf ++ c) (sched i (t :: ts)) [] hall
  refine ⟨(pass cls (buf ++ c) (sched i (t :: ts)) []).1, hq, ?_⟩
  simp only [loop]
  rw [h2]
  cases evs <;> simp [loop]

/-- Why the GeoIP hypothesis is needed: when the remote address is not an IP or a lookup fails, the
handler returns at once — before arming a deadline or reading. -/
theorem geoip_failure_returns_at_once (cls : T → Bytes → Verdict R) (sched : Nat → List T → List T)
    (geo : Geo) (hg : geo ≠ .ok) (count : Nat) (ts : List T) (evs : List Ev) :
    handler cls sched geo count ts evs = [.ret] := by
  cases geo <;> simp [handler] at hg ⊢

/-! ## Tie to the source: what `handleNewTCPConn` does with the connection (regenerated on every run)

`CJ/Gen/ConnCalls.lean` is extracted from the syntax tree of `cmd/application/conns.go` in the tree
under check.  The model's action alphabet (arm the deadline, read, clear the deadline, hand the
connection to the transports / the proxy) is complete only if the function does nothing else with the
connection; in particular there is no `Write` and no `Close` on any path. -/

/-- The handler invokes nothing but `RemoteAddr`, `SetDeadline` and `Read` on the client connection,
hands it only to `getRemoteAsIP`, `io.Copy(io.Discard, ·)` and the transports' `WrapConnection`, touches
the wrapped connection only to clear the deadline and to pass it to `Proxy` (and a log line), keeps no
alias of either and starts no goroutine. -/
theorem conn_calls_ok :
    (∀ m ∈ CJ.Gen.ConnCalls.clientConnMethods, m ∈ ["Read", "RemoteAddr", "SetDeadline"]) ∧
    (∀ f ∈ CJ.Gen.ConnCalls.clientConnPassedTo, f ∈ ["getRemoteAsIP", "io.Copy", "t.WrapConnection"]) ∧
    (∀ m ∈ CJ.Gen.ConnCalls.wrappedMethods, m ∈ ["SetDeadline"]) ∧
    (∀ f ∈ CJ.Gen.ConnCalls.wrappedPassedTo, f ∈ ["cj.Proxy", "logger.Errorf"]) ∧
    CJ.Gen.ConnCalls.aliases = [] ∧
    "Write" ∉ CJ.Gen.ConnCalls.clientConnMethods ∧ "Close" ∉ CJ.Gen.ConnCalls.clientConnMethods := by
  decide

/-! ## Non-vacuity: concrete classifiers, a probe that comes close, and its trace -/

/-- a min-like transport: needs `tag.length` bytes, then finds registration `r` iff they equal `tag` -/
def tagCls (tag : Bytes) (r : Nat) : Bytes → Verdict Nat := fun b =>
  if b.length < tag.length then .tryAgain
  else if b.take tag.length = tag then .found r tag.length else .notT

/-- an obfs4-like transport that finds nothing: try-again until `B` bytes, then not-transport -/
def boundCls (B : Nat) : Bytes → Verdict Nat := fun b => if b.length < B then .tryAgain else .notT

/-- transport 0 is min-like with tag `[1,2,3,4]`, transport 1 gives up at 6 bytes -/
def exCls : Nat → Bytes → Verdict Nat
  | 0 => tagCls [1, 2, 3, 4] 7
  | _ => boundCls 6

/-- the probe sends the first three tag bytes right, the fourth wrong, then more garbage, then is silent -/
def exProbe : List Ev := [.data [1, 2], .data [3, 9], .data [5, 5, 5]]

example : NoMatch exCls [0, 1] exProbe := by
  intro t ht n
  have hS : dataOf exProbe = [1, 2, 3, 9, 5, 5, 5] := rfl
  rw [hS]
  simp only [List.mem_cons, List.mem_nil_iff, or_false] at ht
  rcases ht with rfl | rfl
  · rcases n with _ | _ | _ | _ | _ | _ | _ | n <;> simp [exCls, tagCls]
  · simp only [exCls, boundCls]
    split <;> simp

example : handler exCls (fun _ ts => ts.reverse) .ok 2 [0, 1] exProbe =
    [.setDeadline,
     .readData 2, .query 1 2 .tryAgain, .query 0 2 .tryAgain,
     .readData 2, .query 0 4 .notT, .query 1 4 .tryAgain,
     .readData 3, .query 1 7 .notT,
     .discardUntilErr, .readEnd .deadline, .ret] := by decide

example : SchedOk (fun (_ : Nat) (ts : List Nat) => ts.reverse) := by
  intro i ts t; simp

/-- the same probe against a phantom without registrations: same visible trace -/
example : connView (handler exCls (fun _ ts => ts) .ok 0 [0, 1] exProbe) =
    connView (handler exCls (fun _ ts => ts.reverse) .ok 2 [0, 1] exProbe) := by decide

/-- the error path exists (it is excluded by `NoMatch`, not by the model): a transport that errors -/
example : handler (fun (_ : Nat) (_ : Bytes) => (Verdict.err : Verdict Nat)) (fun _ ts => ts) .ok 1 [0]
    [.data [1]] = [.setDeadline, .readData 1, .query 0 1 .err, .sleepUntilDeadline, .ret] := by decide

end CJ.Props.C03
