import CJ.Gen.C09ChanShape
import CJ.Props.C09Pipeline
/-!
# C09 — the atomic actions of the pipeline model are the channel operations of the source

`CJ/Gen/C09ChanShape.lean` is regenerated from the tree under check by `go/extract/chanshape`.  Here: the extracted
loops are the reviewed ones (`decide`), the meaning of the reviewed loops (`CJ/Model/ChanShape.lean`) is
`PipelineMsg.step` for every state and every offered message, and the facts about the rest of the two functions the
model leans on (count before the hand-off, drop counted only under `default`, the buffer closed only by a deferred
call, `wg.Wait` last, pool size and capacity).
-/
namespace CJ.Props.C09Shape
open CJ.PipelineMsg CJ.ChanShape

theorem extracted_distributor_loop_is_reviewed : CJ.Gen.C09ChanShape.distributor.loop = reviewedDistLoop := by decide
theorem extracted_worker_loop_is_reviewed : CJ.Gen.C09ChanShape.worker.loop = reviewedWorkerLoop := by decide

theorem reviewed_dist_is_step (s : St) (input : Option Msg) (hl : s.dist = .loop) :
    distIter reviewedDistLoop s input = some (step s (.dist input)) := by
  cases s with
  | mk cap buf hand idle exited cancelled dist recvCtr dropCtr recv fwd taken dropped processed rejected =>
  simp only at hl; subst hl
  cases cancelled <;> cases input <;>
    simp [distIter, reviewedDistLoop, step, distStmts, distStmt, distLeaf, distLeaves, innerSel, handoff]
  rename_i m
  by_cases h1 : buf = [] ∧ 0 < idle <;> by_cases h2 : buf.length < cap <;>
    simp [h1, h2, distLeaves, distLeaf]

/-- One iteration of the extracted distributor loop IS the model's `dist` action: for every state in the loop and
whatever the environment offers. -/
theorem distributor_shape_is_the_model_action (s : St) (input : Option Msg) (hl : s.dist = .loop) :
    distIter CJ.Gen.C09ChanShape.distributor.loop s input = some (step s (.dist input)) := by
  rw [extracted_distributor_loop_is_reviewed]; exact reviewed_dist_is_step s input hl

example : ∃ s : St, s.dist = .loop := ⟨init 1 2, rfl⟩

theorem reviewed_worker_is_step (s : St) :
    workerIter reviewedWorkerLoop s .buffer = some (step s .take) ∧
    workerIter reviewedWorkerLoop s .done = some (step s .exit) := by
  cases s with
  | mk cap buf hand idle exited cancelled dist recvCtr dropCtr recv fwd taken dropped processed rejected =>
  constructor
  · cases buf <;> simp [workerIter, reviewedWorkerLoop, keeps, step]
  · simp [workerIter, reviewedWorkerLoop, keeps, step]

/-- One pass of the extracted worker through its `select` IS the model's `take` (receive case) / `exit` (`Done` case)
action; the receive case's body cannot leave the loop (`keeps`), the `Done` case is a bare `return`. -/
theorem worker_shape_is_the_model_action (s : St) :
    workerIter CJ.Gen.C09ChanShape.worker.loop s .buffer = some (step s .take) ∧
    workerIter CJ.Gen.C09ChanShape.worker.loop s .done = some (step s .exit) := by
  rw [extracted_worker_loop_is_reviewed]; exact reviewed_worker_is_step s

/-- What a worker does with a message between `take` and `finish`: parse (an error continues the loop = `rejected`),
then ingest every registration; nothing in it is a channel operation, a `return` or a `go`. -/
theorem worker_body_is_parse_then_ingest :
    CJ.Gen.C09ChanShape.worker.loop.cases.find? (·.1 = .recv .buffer) =
      some (.recv .buffer, [.leaf (.call .parseRegMessage), .leaf .ifCont, .leaf .ifCont, .leaf (.each [.ingestRegistration])]) := by
  decide

/-! ## The rest of the two functions -/

def indexOfStmt (p : Stmt → Bool) : List Stmt → Option Nat
  | [] => none
  | st :: r => if p st then some 0 else (indexOfStmt p r).map (· + 1)

def isSel : Stmt → Bool | .sel _ => true | _ => false

/-- Counted before the hand-off: in the receive case `addIngestMessage` stands in front of the hand-off `select`
(so a message that is dropped has been counted as received), and it occurs once. -/
theorem counted_before_handoff :
    let body := ((CJ.Gen.C09ChanShape.distributor.loop.cases.find? (·.1 = .recv .input)).map (·.2)).getD []
    indexOfStmt (· == .leaf (.call .addIngestMessage)) body = some 1 ∧ indexOfStmt isSel body = some 2 ∧
      (body.filter (· == .leaf (.call .addIngestMessage))).length = 1 := by decide

def leavesOf : Stmt → List (Comm × Leaf)
  | .leaf l => [(.recv .input, l)]
  | .sel cs => cs.flatMap fun c => c.2.map fun l => (c.1, l)

/-- Dropped AND counted only under `default`: every occurrence of `addDroppedMessage` in the distributor's loop is in
the `default` branch of the hand-off `select`, there is exactly one, and none behind the loop. -/
theorem drop_counted_only_in_default :
    let all := CJ.Gen.C09ChanShape.distributor.loop.cases.flatMap fun c => c.2.flatMap leavesOf
    (all.filter (·.2 == .call .addDroppedMessage)) = [(.dflt, .call .addDroppedMessage)] ∧
    (.call .addDroppedMessage) ∉ CJ.Gen.C09ChanShape.distributor.post := by decide

/-- The buffer is closed by a deferred call only (it runs after `wg.Wait`, when no worker can receive from it any
more: a worker receiving from a closed buffer would assert a nil message to `[]byte`), and the worker closes nothing. -/
theorem buffer_closed_only_by_defer :
    CJ.Gen.C09ChanShape.distributor.closes = [(.buffer, true)] ∧ CJ.Gen.C09ChanShape.worker.closes = [] ∧
    "deferclose(shallowBuffer)" ∈ CJ.Gen.C09ChanShape.distributor.pre := by decide

/-- `wg.Wait()` is the last statement of `HandleRegUpdates` and nothing behind the loop is a channel operation
(the model's `waiting → done` transition), both functions signal their wait groups by a deferred call. -/
theorem wait_is_last :
    CJ.Gen.C09ChanShape.distributor.post.getLast? = some (.call .wgWait) ∧
    CJ.Gen.C09ChanShape.distributor.post = [.call .log, .call .wgWait] ∧
    CJ.Gen.C09ChanShape.worker.post = [] ∧
    "deferwg.Done()" ∈ CJ.Gen.C09ChanShape.worker.pre ∧ "deferparentWG.Done()" ∈ CJ.Gen.C09ChanShape.distributor.pre := by
  decide

/-- The workers are what the model says they are: the one `go` statement of `HandleRegUpdates` starts
`startIngestThread` with the buffer in the position of the channel it selects on; the worker starts nothing. -/
theorem workers_read_the_buffer :
    CJ.Gen.C09ChanShape.distributor.spawns = [("rm.startIngestThread", some 1)] ∧
    CJ.Gen.C09ChanShape.worker.name = "startIngestThread" ∧ CJ.Gen.C09ChanShape.worker.chanParam = some 1 ∧
    CJ.Gen.C09ChanShape.worker.spawns = [] ∧
    "fori:=0;i<workers;i++{wg.Add(1)gorm.startIngestThread(ctx,shallowBuffer,wg)}" ∈ CJ.Gen.C09ChanShape.distributor.pre := by
  decide

/-- Pool size and buffer capacity of the model are the source's. -/
theorem pool_and_capacity_as_in_source (configured w : Nat) :
    workersOf configured = (if configured = 0 then CJ.Gen.C09ChanShape.defaultWorkerCount else configured) ∧
    capOf w = w / CJ.Gen.C09ChanShape.jobBufferDivisor ∧
    CJ.Gen.C09ChanShape.bufferCapExpr = "workers/jobBufferDivisor" ∧
    "workers:=defaultWorkerCount" ∈ CJ.Gen.C09ChanShape.distributor.pre ∧
    "ifrm.IngestWorkerCount!=0{workers=rm.IngestWorkerCount}" ∈ CJ.Gen.C09ChanShape.distributor.pre :=
  ⟨rfl, rfl, by decide, by decide, by decide⟩

/-! ## The interpretation discriminates: shapes that are not the model are refused or differ -/

/-- a hand-off without `default` is a blocking send: no meaning in the model -/
theorem blocking_handoff_refused (it : It) (m : Msg) : innerSel it m [(.send .buffer, [])] = none := rfl

def dropUncounted : Loop :=
  { cond := .ctxErrNil, cases := [(.recv .done, [.leaf .brk]),
      (.recv .input, [.leaf .ifClosedBreak, .leaf (.call .addIngestMessage), .sel [(.send .buffer, []), (.dflt, [.call .log])]])] }

/-- a drop that is not counted is not the model's action -/
theorem uncounted_drop_differs :
    (distIter dropUncounted (init 0 0) (some ⟨1, .valid⟩)).map (·.dropCtr) = some 0 ∧
    (step (init 0 0) (.dist (some ⟨1, .valid⟩))).dropCtr = 1 := by decide

def workerReturnsOnBad : Loop :=
  { cond := .forever, cases := [(.recv .done, [.leaf .ret]),
      (.recv .buffer, [.leaf (.call .parseRegMessage), .leaf (.opaque "iferr!=nil{return}"), .leaf (.each [.ingestRegistration])])] }

/-- a worker that can leave its loop from the receive case has no meaning in the model -/
theorem leaving_worker_refused (s : St) (c : Chan) : workerIter workerReturnsOnBad s c = none := by
  simp [workerIter, workerReturnsOnBad, keeps]

/-- without the loop condition `ctx.Err() == nil` the shape is refused (the `select` alone may keep taking input
after the stop request: `cancel_stops_intake` would not follow) -/
theorem loop_condition_needed (s : St) (i : Option Msg) :
    distIter { reviewedDistLoop with cond := .forever } s i = none := rfl

end CJ.Props.C09Shape
