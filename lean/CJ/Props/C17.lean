import CJ.Lemmas.LogTaint
import CJ.Gen.LogSites
/-!
# C17 — client addresses never reach the station's logs (client-address logging off, default level)

Property theorems only.  Errors are trees mirroring the values the Go network stack returns
(`CJ.Model.LogTaint.Err`); their text is a list of tokens in which every address is a token of its own
that remembers whose address it is.  `generalize app` is the model of the two `generalizeErr` functions
(`app = true`: cmd/application/conns.go, `app = false`: pkg/station/lib/proxies.go).
`CJ.Gen.logSites` is regenerated from the Go sources on every run: every logger call and logger prefix
of every non-test file under cmd/application, pkg/station, pkg/transports, pkg/dtls with a classification
of each printed value; with it the log-level table (observed at run time), the assignments to
`logClientIP` and the fields of the JSON summaries.
-/
namespace CJ.Props.C17
open CJ.LogTaint

/-- **The sanitiser removes every address** of *every* error that names endpoints only through operation
errors (`opaqueClean`: what package net, os, syscall and the wrapping transports return from Read, Write,
Close, SetDeadline, File, Dial): each anticipated errno, unanticipated errnos, timeouts, operation errors
whose text embeds both endpoints, wrapped any number of times, in either variant of the function. -/
theorem generalize_no_addr (app : Bool) (e : Err) (hc : e.opaqueClean = true) :
    noAddr (generalizedText app e) = true :=
  generalizedText_noAddr app e hc

/-- the same for the error value itself -/
theorem generalize_result_no_addr (app : Bool) (e r : Err) (hc : e.opaqueClean = true)
    (h : generalize app e = some r) : noAddr r.text = true :=
  generalize_noAddr app e r hc h

/-- without the hypothesis, for *every* error: the sanitiser never adds an address — an address in its
result was in the text it was given -/
theorem generalize_adds_no_addr (app : Bool) (e : Err) :
    ∀ t ∈ generalizedText app e, t.isStr = false → t ∈ e.text :=
  generalizedText_sub app e

/-- **The hypothesis is needed.**  An operation error flattened into text (`fmt.Errorf("…: %v", opErr)`,
as pkg/dtls does for its deadline errors) and a `*net.AddrError` carry an address in an opaque part; both
variants of the function return them as they are, address included.  (No such error reaches a logged
`generalizeErr` today — the harness feeds both shapes to the real functions to confirm that model and
code agree on this.) -/
def flattened : Err :=
  .other [.str "error setting deadline: set udp ", .addr ⟨.client, "203.0.113.77:5555"⟩, .str ": invalid argument"]
def addrError : Err :=
  .netErr [.str "address ", .addr ⟨.client, "203.0.113.77"⟩, .str ": missing port in address"] false

theorem opaque_address_passes_through (app : Bool) :
    noClient (generalizedText app flattened) = false ∧ noClient (generalizedText app addrError) = false ∧
    flattened.opaqueClean = false ∧ addrError.opaqueClean = false := by
  cases app <;> decide

/-- **Tie 1 for the hypothesis**: in the code whose errors reach `generalizeErr` or a connection logger
(cmd/application, pkg/station/lib, the wrapping transports, the connection methods of pkg/dtls) no error
is flattened into text outside the reviewed configuration-loading sites -/
theorem no_unreviewed_flattening : CJ.Gen.flattenSites.all (fun f => reviewedFlatten.contains f) = true := by decide

/-- what the tunnel statistics store (`e.Error()` of the generalised error, or nothing) is address-free -/
theorem stat_text_no_addr (e : Option Err) (hc : ∀ x, e = some x → x.opaqueClean = true) :
    noAddr (statText e) = true := statText_noAddr e hc

/-- the reduction does not touch errors that carry no operation error: the sentinels the callers compare
with `errors.Is` after `generalizeErr` (`transports.ErrTryAgain`, `ErrNotTransport`) keep their identity -/
theorem generalize_keeps_internal_errors (e : Err) (h : e.hasOp = false) : e.strip = e :=
  strip_id_of_not_hasOp e h

/-- Why the reduction is needed (the probe of DESIGN §7): the text of the operation error a failed read
returns embeds the client's endpoint; printing it unchanged leaks it. -/
def probe : Err :=
  .opError "read" "tcp" (some ⟨.station, "10.9.8.7:41245"⟩) (some ⟨.client, "203.0.113.77:5555"⟩)
    (.errno 100 "network is down")

theorem passthrough_would_leak : noClient probe.text = false := by decide

theorem probe_generalized :
    render (generalizedText true probe) = "read tcp: network is down" ∧
    render (generalizedText false probe) = "read tcp: network is down" := by decide

/-! ### where error texts come from: classes, flattening, construction from client-derived values -/

/-- **`generalizeErr` is precise about what it sanitises**: an error that names clients only inside operation
errors reachable by `Unwrap` (class `structured`; its opaque parts may name the station, a phantom or the
covert) comes out without any client address … -/
theorem generalize_structured_no_client (app : Bool) (e : Err) (h : e.inCls .structured) :
    noClient (generalizedText app e) = true :=
  generalizedText_noClient app e h

/-- … wrapping with `%w` keeps the class, flattening a clean error keeps it clean … -/
theorem wrap_keeps_class (c : Cls) (pre : List Tok) (e : Err) (hp : noClient pre = true) (h : e.inCls c) :
    (Err.wrapped pre e).inCls c := wrapped_inCls c pre e hp h

theorem flatten_within_flat (c : Cls) (pre post : List Tok) (e : Err) (hp : noClient pre = true)
    (hq : noClient post = true) (h : e.inCls c) : (Err.other (pre ++ e.text ++ post)).inCls c.flat :=
  flattened_inCls c pre post e hp hq h

/-- … but **a structured error that was flattened stays tainted through `generalizeErr`**: the dial error of
a connecting transport (`dial udp <station>-><client>: connect: network is unreachable`, class `structured`)
formatted with `%v` into `error connecting to dtls client: …` has no operation error left for the sanitiser
to strip; both variants of the function return it with the client's endpoint in the text.  This is why
`Cls.flat .structured = .leaky` and why `Cls.gen .leaky = .leaky`. -/
def dialError : Err :=
  .opError "dial" "udp" (some ⟨.station, "[::]:41245"⟩) (some ⟨.client, "[2001:db8:77::c17]:54321"⟩)
    (.syscallErr "connect" (.errno 101 "network is unreachable"))
def flattenedDialError : Err := .other ([.str "error connecting to dtls client: "] ++ dialError.text)

theorem flattened_structured_stays_tainted (app : Bool) :
    dialError.opaqueNoClient = true ∧ noClient (generalizedText app dialError) = true ∧
    noClient (generalizedText app flattenedDialError) = false ∧
    Cls.gen (Cls.flat .structured) = .leaky := by
  cases app <;> exact ⟨by decide, by decide, by decide, rfl⟩

/-- **an error constructed from a client-derived value is tainted whatever is wrapped inside it**: the
PROXY header quoted into `wrote 0 bytes of "PROXY TCP4 <client> …": <write error of the covert connection>`
puts the client into the text although the wrapped write error is clean; a `Src.tainted` source is
`leaky` for every table, with or without `generalizeErr`. -/
def headerWriteError : Err :=
  .wrapped [.str "wrote 0 bytes of \"PROXY TCP4 ", .addr ⟨.client, "203.0.113.77"⟩, .str " 127.0.0.1 5555 1234\\r\\n\": "]
    (.opError "write" "tcp" (some ⟨.station, "10.9.8.7:40000"⟩) (some ⟨.covert, "198.51.100.5:443"⟩)
      (.syscallErr "write" (.errno ECONNRESET "connection reset by peer")))

theorem tainted_construction_is_opaque (known : List Cls) (self : Nat) (w : String) (app : Bool) :
    srcCls known self (.tainted w) = .leaky ∧ (Arg.err (.tainted w)).ok known = false ∧
    noClient headerWriteError.text = false ∧ noClient (generalizedText app (.other headerWriteError.text)) = false := by
  refine ⟨rfl, by simp [Arg.ok, siteSrcCls, srcCls, rsrcCls, Src.resolve], by decide, ?_⟩
  cases app <;> decide

/-- the class computation is monotone in what it is told about a call: no source can lower the class of
a function below that of any of its sources (`Cls.max` is an upper bound) -/
theorem cls_max_upper (a b : Cls) : (a.max b = .clean → a = .clean ∧ b = .clean) := by
  cases a <;> cases b <;> simp [Cls.max]

/-! ### call sites (tie 1: the table is regenerated from the sources on every run) -/

/-- the regenerated summaries with the reviewed tables consulted, and the classes the extractor computed
for them (a certificate: `classes_fixpoint` checks it) -/
def resolved : List RFn := CJ.Gen.errFns.map ErrFn.resolve
def fnClasses : List Cls := CJ.Gen.errFnClasses

/-- everything that is checked by evaluation over the regenerated call-site and summary tables, in one
evaluation (the theorems below are its parts) -/
def tablesOk (k : List Cls) : Bool :=
  solves resolved k && CJ.Gen.logSites.all (Site.ok CJ.Gen.levelEmitted k)

theorem tables_ok : tablesOk fnClasses = true := by decide +kernel

/-- **Every logger call that is emitted at the default level prints only arguments that cannot carry a
client address**: literals, numbers, type names, reviewed expressions that are not client addresses, and
error values whose class is `clean` — where the class of an error is computed from where it comes from:
a reviewed call outside the repository (`leafClasses`; an unlisted call is `leaky`), or functions of the
repository, whose regenerated summaries (`CJ.Gen.errFns`) say what they return: another call's error as it
is or wrapped with `%w` (same class), flattened into text (`Cls.flat`: leaky unless it was clean), passed
through `generalizeErr` (`Cls.gen`: clean unless it was leaky), or constructed from a client-derived value
(leaky).  Checked by evaluation over the regenerated tables: a new call site that prints a raw error from
an unreviewed call, a client address or an unreviewed expression, a helper that starts to format a
client-derived value into the error it returns, a sanitised error whose origin flattens an operation error,
each make this theorem fail. -/
theorem sites_all_ok : CJ.Gen.logSites.all (Site.ok CJ.Gen.levelEmitted fnClasses) = true := by
  have h := tables_ok
  simp only [tablesOk, Bool.and_eq_true] at h
  exact h.2

theorem sites_no_addr : ∀ s ∈ CJ.Gen.logSites, s.ok CJ.Gen.levelEmitted fnClasses = true :=
  List.all_eq_true.mp sites_all_ok

/-- **the classes used by the call-site theorem solve the class equations** of the regenerated summaries:
the class of every summarised function is what its sources give — the reviewed class of the calls that leave
the repository, the classes of the functions it calls (recursion through name-resolved methods included),
`Cls.flat` for what it flattens, `Cls.gen` for what it sanitises, `leaky` for what it builds from a
client-derived value.  The list comes from the extractor; this theorem is what makes it more than a claim. -/
theorem classes_fixpoint : solves resolved fnClasses = true := by
  have h := tables_ok
  simp only [tablesOk, Bool.and_eq_true] at h
  exact h.1

/-- a solution assigns a class to every summarised function and to nothing else -/
theorem checkFrom_length (k : List Cls) : ∀ (i : Nat) (r : List RFn) (cs : List Cls),
    checkFrom k i r cs = true → cs.length = r.length
  | _, [], [], _ => rfl
  | i, f :: fs, c :: cs, h => by
    simp only [checkFrom, Bool.and_eq_true] at h
    simp [checkFrom_length k (i + 1) fs cs h.2]
  | _, [], _ :: _, h => by simp [checkFrom] at h
  | _, _ :: _, [], h => by simp [checkFrom] at h

theorem classes_length : fnClasses.length = CJ.Gen.errFns.length := by
  have := checkFrom_length fnClasses 0 resolved fnClasses classes_fixpoint
  simpa [resolved] using this

/-- **a guard is not a licence**: the one exempt diagnostic is exempt only under the guard it was reviewed
with; the same call under a widened guard (data returned together with an error) is an ordinary call site,
and it fails `Site.ok` because it prints a raw read error of a client connection -/
def exemptSite (guard : String) : Site :=
  { file := "pkg/station/lib/proxies.go", fn := "halfPipe", line := 172, level := .error,
    format := "unexpected read len error - up:%t (%dB): %s", guard := guard,
    args := [.lit, .num, .err (.err false false ⟨"src.Read", [], true⟩)] }

theorem exemption_is_guard_specific :
    (exemptSite "er != nil && nr > len(buf)").exempt = true ∧
    (exemptSite "er != nil && nr > 0 && !errors.Is(er, io.EOF)").exempt = false ∧
    Site.ok reviewedLevels [] (exemptSite "er != nil && nr > 0 && !errors.Is(er, io.EOF)") = false := by
  decide +kernel

/-- the level table observed on the code lists every level (none is emitted merely because it is missing) -/
theorem level_table_complete (l : Level) : (CJ.Gen.levelEmitted.lookup l).isSome = true := by
  cases l <;> decide

/-- **Client-address logging is off unless asked for**: `logClientIP` is declared once, with `false` (or
no) initialiser, and the only values ever assigned to it are the constant `false` and the parsed
environment variable `LOG_CLIENT_IP`; its address is never taken.  The assignments the call-site table
leaves out because they stand under `if logClientIP` are the reviewed ones. -/
theorem log_client_ip_off_by_default :
    CJ.Gen.logClientIPInit.length = 1 ∧ CJ.Gen.logClientIPInit.all (fun a => a == "false" || a == "<zero>") = true ∧
    CJ.Gen.logClientIPAssigns.all (fun a => reviewedLogClientIPAssigns.contains a) = true ∧
    CJ.Gen.guardedByLogClientIP.all (fun a => reviewedGuarded.contains a) = true := by decide

/-- **The JSON summaries have no field that could hold a client address**: every field of `tunnelStats`
and `regExpireLogMsg` (reflect) and every key of `DecoyRegistration.String()` (its output) is of a type
that cannot hold an address, or a string field whose content was reviewed -/
theorem summary_fields_reviewed : CJ.Gen.summaryFields.all fieldOk = true := by decide

/-- **Semantic reading of the table**: in every environment that respects the tables (every call returns an
error within the class computed for it — `clean`: no client address in its text; `structured`: client
addresses only inside operation errors reachable by `Unwrap` —, listed non-client expressions render no
client address), what an emitted, non-exempt call site prints contains no client address: raw errors are
clean, errors handed to `generalizeErr` are at most structured, and the sanitiser removes what they name. -/
theorem site_render_no_client (s : Site) (hs : s ∈ CJ.Gen.logSites)
    (hem : emittedBy CJ.Gen.levelEmitted s.level = true) (hex : s.exempt = false)
    (env : Env) (hok : env.Ok fnClasses) : noClient (renderSite env s) = true :=
  site_ok_noClient CJ.Gen.levelEmitted fnClasses s (sites_no_addr s hs) hem hex env hok

/-- a `SetDeadline` failure as package net builds it (`OpError{Op: "set", Source: nil, Addr: laddr}`)
names the local address only: logging it unchanged shows no client address -/
theorem deadline_error_no_client (net : String) (local_ : Addr) (cause : Err)
    (hl : local_.role ≠ .client) (hc : noClient cause.text = true) :
    noClient (deadlineError net local_ cause).text = true :=
  deadlineError_noClient net local_ cause hl hc

/-! ### connection description, tunnel summary, registration digest -/

/-- **The flow description uses the placeholder** unless client-address logging is switched on -/
theorem flow_description_placeholder (client phantom : Addr) (hp : phantom.role ≠ .client) :
    noClient (flowDescription false client phantom) = true :=
  flowDescription_placeholder client phantom hp

/-- … and with the switch on it does print the client (the placeholder is not vacuous) -/
theorem flow_description_with_logging (client phantom : Addr) (hc : client.role = .client) :
    noClient (flowDescription true client phantom) = false :=
  flowDescription_logging client phantom hc

/-- **The tunnel summary** (`proxy closed {…}`) holds no client address, whatever errors were recorded
for the dial, the covert side and the client side -/
theorem tunnel_summary_no_client (t : Tunnel) (hp : t.phantom.role ≠ .client) (hc : t.clean) :
    noClient (tunnelSummary t) = true :=
  tunnelSummary_noClient t hp hc

/-- **Registration digest, expiry record and the line that drops a registration omit the registrant** -/
theorem digest_omits_registrant (r : RegInfo) (hp : r.phantom.role ≠ .client) (hc : r.covert.role ≠ .client) :
    noClient (regDigest r) = true ∧ noClient (expireRecord r) = true ∧ noClient (droppingRegLine r) = true :=
  digests_noClient r hp hc

/-! ### non-vacuity -/

/-- an environment that respects the tables exists (everything renders as plain text) -/
example : Env.Ok fnClasses { app := true, raw := fun _ => .eof, exprToks := fun _ => [.str "x"] } :=
  ⟨fun o => by cases originCls fnClasses fnClasses.length o <;> first | rfl | trivial, fun _ _ _ _ => rfl⟩

example : probe.opaqueClean = true := by decide

/-- the table is not empty and contains emitted sites that print a generalised error -/
example : (CJ.Gen.logSites.any fun s => emittedBy CJ.Gen.levelEmitted s.level &&
    s.args.any fun a => match a with | .err (.err _ true _) => true | _ => false) = true := by
  decide +kernel

/-- a wrapped operation error two levels deep, timeouts, anticipated errnos -/
example : render (generalizedText false (.wrapped [.str "obfs4 handshake: "] probe)) = "read tcp: network is down" := by decide
example : generalize true (.opError "read" "tcp" none (some ⟨.client, "[2001:db8::77]:5555"⟩)
    (.syscallErr "read" (.errno ECONNRESET "connection reset by peer"))) = some errConnReset := by decide
example : generalize false (.opError "read" "tcp" none none .deadline) = some errConnTimeout := by decide
example : generalize false .eof = none ∧ generalize true .eof = some errConnClosed := by decide

end CJ.Props.C17
