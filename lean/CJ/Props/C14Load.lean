import CJ.Model.PhantomLoad
import CJ.Props.C01Gens
/-!
# C14 — "any subnet configuration" starts at the file

The selection's result depends on seed, generation, version, family and the configuration alone; the
configuration is the subnet *file*.  With the repaired loop (`loadStrict`) the table — hence every
selection — is a function of the file's set of tables, not of the order a Go map iteration serves them in;
the loop before the repair was not (`loose_load_depends_on_order`).
-/
namespace CJ.Props.C14Load
open CJ.Generations CJ.Phantom CJ.PhantomLoad CJ.Props.C01Gens

variable {α : Type}

/-- a key `Atoi` rejects, or a negative key, anywhere in the file ends the load with an error -/
theorem loadStrict_refuses_bad (es : List (Entry α)) (m : GMap α)
    (hb : ∃ e ∈ es, e.1 = none ∨ ∃ g, e.1 = some g ∧ g < 0) : loadStrictFrom m es = none := by
  induction es generalizing m with
  | nil => obtain ⟨e, he, _⟩ := hb; cases he
  | cons x rest ih =>
    obtain ⟨k, c⟩ := x
    cases k with
    | none => rfl
    | some g =>
      simp only [loadStrictFrom]
      by_cases hg : g < 0
      · simp [hg]
      · simp only [hg, ↓reduceIte]
        split
        · rfl
        · apply ih
          obtain ⟨e, he, hbad⟩ := hb
          rcases List.mem_cons.mp he with h1 | h1
          · subst h1
            rcases hbad with h | ⟨g', h, hl⟩
            · cases h
            · cases h; exact (hg hl).elim
          · exact ⟨e, h1, hbad⟩

/-- a number written twice (`1` and `01`): the second one is refused, wherever the two stand -/
theorem loadStrict_refuses_taken (m : GMap α) (k : Nat) (c : α) (rest : List (Entry α))
    (ht : taken m (toUint (k : Int)) = true) : loadStrictFrom m ((some (k : Int), c) :: rest) = none := by
  simp only [loadStrictFrom]
  have : ¬ ((k : Int) < 0) := by omega
  simp [this, ht]

/-- on distinct non-negative numbers the repaired loop is the old loop: the table C01's theorems are about -/
theorem loadStrictFrom_distinct (ns : List (Nat × α)) (m : GMap α)
    (hd : (ns.map (·.1)).Nodup) (hk : ∀ e ∈ ns, e.1 < word) (hm : ∀ e ∈ ns, taken m e.1 = false) :
    loadStrictFrom m (ns.map entry) = some (loadFrom m (ns.map fun e => ((e.1 : Int), e.2))) := by
  induction ns generalizing m with
  | nil => rfl
  | cons e rest ih =>
    obtain ⟨k, c⟩ := e
    have hkk : k < word := hk (k, c) (by simp)
    have hfk : taken m k = false := hm (k, c) (by simp)
    obtain ⟨hi, _⟩ := add_requested m k c hkk hfk
    simp only [List.map_cons, List.nodup_cons] at hd
    have hm' : ∀ e ∈ rest, taken (add m (k : Int) c).1 e.1 = false := by
      intro e he
      show taken (assign m (add m (k : Int) c).2 (some c)) e.1 = false
      rw [taken_set, hi, hm e (by simp [he])]
      have : k ≠ e.1 := fun h => hd.1 (List.mem_map.mpr ⟨e, he, h.symm⟩)
      simp [this]
    have hu : toUint (k : Int) = k := by
      unfold toUint
      have : (k : Int) % 18446744073709551616 = (k : Int) := Int.emod_eq_of_lt (by omega) (by unfold word at hkk; omega)
      rw [this]; rfl
    have hn : ¬ ((k : Int) < 0) := by omega
    simp only [List.map_cons, entry, loadStrictFrom, loadFrom, hn, ↓reduceIte, hu, hfk]
    exact ih (add m (k : Int) c).1 hd.2 (fun e he => hk e (by simp [he])) hm'

theorem loadStrict_distinct (ns : List (Nat × α)) (hd : (ns.map (·.1)).Nodup) (hk : ∀ e ∈ ns, e.1 < word) :
    loadStrict (ns.map entry) = some (load (ns.map fun e => ((e.1 : Int), e.2))) :=
  loadStrictFrom_distinct ns [] hd hk (fun _ _ => rfl)

/-- **The selection is a function of the file**: two iteration orders of the same accepted file (distinct
non-negative generation numbers — everything else is refused, `loadStrict_refuses_*`) give the same
answer to every selection. -/
theorem file_selection_fixed (h : Hk) (ns ns' : List (Nat × GenCfg)) (hp : ns.Perm ns')
    (hd : (ns.map (·.1)).Nodup) (hk : ∀ e ∈ ns, e.1 < word) (seed : Bytes) (gen ver : Nat) (v6 : Bool) :
    selectFromFile h (ns.map entry) seed gen ver v6 = selectFromFile h (ns'.map entry) seed gen ver v6 := by
  have hd' : (ns'.map (·.1)).Nodup := (hp.map _).nodup_iff.mp hd
  have hk' : ∀ e ∈ ns', e.1 < word := fun e he => hk e (hp.mem_iff.mpr he)
  unfold selectFromFile
  rw [loadStrict_distinct ns hd hk, loadStrict_distinct ns' hd' hk']
  simp only [Option.map_some]
  unfold stationSelect
  rw [file_order_irrelevant ns ns' hp hd hk gen]

example : ∃ ns : List (Nat × GenCfg), (ns.map (·.1)).Nodup ∧ (∀ e ∈ ns, e.1 < word) ∧ ns ≠ [] :=
  ⟨[(1, ⟨true, []⟩)], by simp, by simp [word], by simp⟩

/-- **Before the repair** the same file gave different tables: two tables whose keys are both the number 1,
served in the two orders. -/
theorem loose_load_depends_on_order :
    (loadLoose [(some 1, "a"), (some 1, "b")]).map (lookup · 1) ≠
    (loadLoose [(some 1, "b"), (some 1, "a")]).map (lookup · 1) := by decide

/-- the same with a key -1 next to an ordinary one -/
theorem loose_load_minus_one_depends_on_order :
    (loadLoose [(some 5, "a"), (some (-1), "b")]).map (lookup · 6) ≠
    (loadLoose [(some (-1), "b"), (some 5, "a")]).map (lookup · 6) := by decide

/-- the repaired loop refuses both files in both orders -/
theorem strict_refuses_examples :
    loadStrict [(some 1, "a"), (some 1, "b")] = none ∧ loadStrict [(some 1, "b"), (some 1, "a")] = none ∧
    loadStrict [(some 5, "a"), (some (-1), "b")] = none ∧ loadStrict [(some (-1), "b"), (some 5, "a")] = none := by
  decide

end CJ.Props.C14Load
