import CJ.Model.NetAddr

/-!
# C06: `ParseIP ∘ IP.String` on IPv6 texts
-/

namespace CJ.Props.C06V6
open CJ.NetAddr

theorem hexVal_hexDigit (k : Nat) (hk : k < 16) : hexVal (hexDigit k) = some k := by
  have : ∀ k : Fin 16, hexVal (hexDigit k.val) = some k.val := by decide
  exact this ⟨k, hk⟩

theorem hexDigit_ne_colon (k : Nat) (hk : k < 16) : hexDigit k ≠ ':' := by
  have : ∀ k : Fin 16, hexDigit k.val ≠ ':' := by decide
  exact this ⟨k, hk⟩

/-- the rest of the text does not go on with a hex digit -/
def NoHexHead (rest : Str) : Prop := ∀ c r, rest = c :: r → hexVal c = none

theorem noHexHead_nil : NoHexHead [] := by intro c r e; cases e
theorem noHexHead_colon (r : Str) : NoHexHead (':' :: r) := by
  intro c r' e
  cases e
  decide

theorem hexGroup_stop (rest : Str) (hr : NoHexHead rest) (acc off : Nat) :
    hexGroup rest acc off = some (acc, off, rest) := by
  cases rest with
  | nil => rfl
  | cons c r => simp [hexGroup, hr c r rfl]

theorem hexGroup_step (k : Nat) (hk : k < 16) (rest : Str) (acc off : Nat) (ho : off ≤ 3) :
    hexGroup (hexDigit k :: rest) acc off = hexGroup rest (acc * 16 + k) (off + 1) := by
  rw [hexGroup]
  simp [hexVal_hexDigit k hk, show ¬ off > 3 by omega]

/-- the four shapes of `fmtHex` -/
theorem fmtHex_cases (h : Nat) (_hh : h < 65536) :
    (h < 16 ∧ fmtHex h = [hexDigit h]) ∨
    (h < 256 ∧ fmtHex h = [hexDigit (h / 16), hexDigit (h % 16)]) ∨
    (h < 4096 ∧ fmtHex h = [hexDigit (h / 256), hexDigit (h / 16 % 16), hexDigit (h % 16)]) ∨
    (fmtHex h = [hexDigit (h / 4096 % 16), hexDigit (h / 256 % 16), hexDigit (h / 16 % 16), hexDigit (h % 16)]) := by
  by_cases h1 : h < 16
  · exact Or.inl ⟨h1, by simp [fmtHex, h1]⟩
  · by_cases h2 : h < 256
    · exact Or.inr (Or.inl ⟨h2, by simp [fmtHex, h1, h2]⟩)
    · by_cases h3 : h < 4096
      · exact Or.inr (Or.inr (Or.inl ⟨h3, by simp [fmtHex, h1, h2, h3]⟩))
      · exact Or.inr (Or.inr (Or.inr (by simp [fmtHex, h1, h2, h3])))

theorem fmtHex_head (h : Nat) (hh : h < 65536) : ∃ k r, k < 16 ∧ fmtHex h = hexDigit k :: r := by
  rcases fmtHex_cases h hh with ⟨h1, e⟩ | ⟨h1, e⟩ | ⟨h1, e⟩ | e
  · exact ⟨_, _, h1, e⟩
  · exact ⟨_, _, by omega, e⟩
  · exact ⟨_, _, by omega, e⟩
  · exact ⟨_, _, by omega, e⟩

/-- (a) the hex loop reads back one formatted group -/
theorem hexGroup_fmtHex (h : Nat) (hh : h < 65536) (rest : Str) (hr : NoHexHead rest) :
    hexGroup (fmtHex h ++ rest) 0 0 = some (h, (fmtHex h).length, rest) := by
  rcases fmtHex_cases h hh with ⟨h1, e⟩ | ⟨h1, e⟩ | ⟨h1, e⟩ | e
  · rw [e]; simp only [List.cons_append, List.nil_append]
    rw [hexGroup_step _ (by omega) _ _ _ (by omega), hexGroup_stop _ hr]
    exact congrArg some (Prod.ext (by dsimp only; omega) rfl)
  · rw [e]; simp only [List.cons_append, List.nil_append]
    rw [hexGroup_step _ (by omega) _ _ _ (by omega), hexGroup_step _ (by omega) _ _ _ (by omega),
      hexGroup_stop _ hr]
    exact congrArg some (Prod.ext (by dsimp only; omega) rfl)
  · rw [e]; simp only [List.cons_append, List.nil_append]
    rw [hexGroup_step _ (by omega) _ _ _ (by omega), hexGroup_step _ (by omega) _ _ _ (by omega),
      hexGroup_step _ (by omega) _ _ _ (by omega), hexGroup_stop _ hr]
    exact congrArg some (Prod.ext (by dsimp only; omega) rfl)
  · rw [e]; simp only [List.cons_append, List.nil_append]
    rw [hexGroup_step _ (by omega) _ _ _ (by omega), hexGroup_step _ (by omega) _ _ _ (by omega),
      hexGroup_step _ (by omega) _ _ _ (by omega), hexGroup_step _ (by omega) _ _ _ (by omega),
      hexGroup_stop _ hr]
    exact congrArg some (Prod.ext (by dsimp only; omega) rfl)

/-- the bytes of a list of 16-bit groups -/
def bytes : List Nat → List Nat
  | [] => []
  | h :: t => h / 256 :: h % 256 :: bytes t

theorem fmtHex_len_ne (h : Nat) (hh : h < 65536) : ((fmtHex h).length == 0) = false := by
  obtain ⟨k, r, _, e⟩ := fmtHex_head h hh
  simp [e]

/-- (b) the group loop reads back a colon-separated list of formatted groups (no ellipsis in the text) -/
theorem v6Loop_groups : ∀ (hs : List Nat) (fuel : Nat) (ip : List Nat) (ell : Option Nat), hs ≠ [] →
    (∀ h ∈ hs, h < 65536) → hs.length ≤ fuel → ip.length + 2 * hs.length ≤ 16 →
    v6Loop fuel (intercalate ':' (hs.map fmtHex)) ip ell = some ([], ip ++ bytes hs, ell)
  | [], _, _, _, hne, _, _, _ => absurd rfl hne
  | [h], fuel, ip, ell, _, hb, hf, hl => by
    have hh := hb h (by simp)
    cases fuel with
    | zero => simp at hf
    | succ f =>
      have g := hexGroup_fmtHex h hh [] noHexHead_nil
      rw [List.append_nil] at g
      simp only [List.length_cons, List.length_nil] at hl
      simp only [List.map, intercalate]
      rw [v6Loop, if_neg (by omega), g]
      simp [fmtHex_len_ne h hh, bytes]
  | h :: h2 :: t, fuel, ip, ell, _, hb, hf, hl => by
    have hh := hb h (by simp)
    cases fuel with
    | zero => simp at hf
    | succ f =>
      simp only [List.length_cons] at hl hf
      have ih := v6Loop_groups (h2 :: t) f (ip ++ [h / 256, h % 256]) ell (by simp)
        (fun z hz => hb z (List.mem_cons_of_mem _ hz)) (by simp only [List.length_cons]; omega)
        (by simp only [List.length_append, List.length_cons, List.length_nil]; omega)
      obtain ⟨k, r, hk, e2⟩ := fmtHex_head h2 (hb h2 (by simp))
      have hX : ∃ r', intercalate ':' ((h2 :: t).map fmtHex) = hexDigit k :: r' := by
        cases t with
        | nil => exact ⟨r, by simp [intercalate, e2]⟩
        | cons h3 t' => exact ⟨r ++ ':' :: intercalate ':' ((h3 :: t').map fmtHex), by simp [intercalate, e2]⟩
      obtain ⟨r', hX⟩ := hX
      have g := hexGroup_fmtHex h hh (':' :: intercalate ':' ((h2 :: t).map fmtHex)) (noHexHead_colon _)
      simp only [List.map_cons, intercalate] at g ih hX ⊢
      rw [v6Loop, if_neg (by omega), g]
      simp [fmtHex_len_ne h hh]
      split
      · rename_i heq
        rw [hX] at heq
        cases heq
      · rename_i r2 heq
        rw [hX] at heq
        exact absurd (List.cons.inj heq).1 (hexDigit_ne_colon k hk)
      · rw [ih]
        simp [bytes]

/-! ## (c) the whole path, for texts without `::` -/

def okv (c : Char) : Bool := c != '.' && c != '%'

theorem hexDigit_okv (k : Nat) (hk : k < 16) : okv (hexDigit k) = true := by
  have : ∀ k : Fin 16, okv (hexDigit k.val) = true := by decide
  exact this ⟨k, hk⟩

theorem fmtHex_okv (h : Nat) (hh : h < 65536) : (fmtHex h).all okv = true := by
  rcases fmtHex_cases h hh with ⟨h1, e⟩ | ⟨h1, e⟩ | ⟨h1, e⟩ | e <;> rw [e]
  all_goals simp only [List.all_cons, List.all_nil, Bool.and_true, Bool.and_eq_true]
  all_goals repeat' apply And.intro
  all_goals (apply hexDigit_okv; omega)

theorem intercalate_all (p : Char → Bool) (sep : Char) (hs : p sep = true) :
    ∀ l : List Str, (∀ x ∈ l, x.all p = true) → (intercalate sep l).all p = true
  | [], _ => rfl
  | [x], h => by rw [intercalate]; exact h x (by simp)
  | x :: y :: rest, h => by
    rw [intercalate, List.all_append, List.all_cons, h x (by simp), hs,
      intercalate_all p sep hs (y :: rest) (fun z hz => h z (List.mem_cons_of_mem _ hz))]
    rfl

theorem find_colon : ∀ T : Str, T.all okv = true → ':' ∈ T →
    T.find? (fun c => c == '.' || c == ':' || c == '%') = some ':'
  | [], _, hm => by simp at hm
  | c :: r, ha, hm => by
    simp only [List.all_cons, Bool.and_eq_true] at ha
    by_cases hc : c = ':'
    · subst hc; simp
    · have hm' : ':' ∈ r := by
        rcases List.mem_cons.1 hm with e | e
        · exact absurd e.symm hc
        · exact e
      have ha1 := ha.1
      simp [okv] at ha1
      have : (c == '.' || c == ':' || c == '%') = false := by simp [ha1.1, ha1.2, hc]
      rw [List.find?_cons, this]
      exact find_colon r ha.2 hm'

theorem cut_none (c : Char) : ∀ s : Str, c ∉ s → cut c s = (s, none)
  | [], _ => rfl
  | x :: xs, h => by
    have h1 : (x == c) = false := by
      apply beq_false_of_ne; intro e; exact h (e ▸ List.mem_cons_self ..)
    have ih := cut_none c xs (fun m => h (List.mem_cons_of_mem _ m))
    simp [cut, h1, ih]

theorem groups_lt : ∀ l : List Nat, (∀ x ∈ l, x < 256) → ∀ g ∈ groups l, g < 65536
  | [], _, g, hg => by simp [groups] at hg
  | [_], _, g, hg => by simp [groups] at hg
  | a :: b :: rest, h, g, hg => by
    rw [groups] at hg
    rcases List.mem_cons.1 hg with e | e
    · have := h a (by simp); have := h b (by simp); omega
    · exact groups_lt rest (fun z hz => h z (by simp [hz])) g e

theorem bytes_groups : ∀ l : List Nat, l.length % 2 = 0 → (∀ x ∈ l, x < 256) → bytes (groups l) = l
  | [], _, _ => rfl
  | [_], h, _ => by simp at h
  | a :: b :: rest, h, hb => by
    have ha := hb a (by simp)
    have hb' := hb b (by simp)
    have ih := bytes_groups rest (by simp only [List.length_cons] at h; omega) (fun z hz => hb z (by simp [hz]))
    rw [groups, bytes, ih]
    have e1 : (a * 256 + b) / 256 = a := by omega
    have e2 : (a * 256 + b) % 256 = b := by omega
    rw [e1, e2]

theorem groups_length : ∀ l : List Nat, (groups l).length = l.length / 2
  | [] => rfl
  | [_] => by simp [groups]
  | a :: b :: rest => by
    rw [groups]; simp only [List.length_cons, groups_length rest]; omega

theorem parseIPv6_nocolon (k : Nat) (hk : k < 16) (r' : Str) (ip : List Nat)
    (P : '%' ∉ hexDigit k :: r') (V : v6Loop 8 (hexDigit k :: r') [] none = some ([], ip, none))
    (hl : ip.length = 16) : parseIPv6 (hexDigit k :: r') = some (ip, []) := by
  simp only [parseIPv6, cut_none '%' _ P]
  rw [V]
  simp [hl]
  split
  · rename_i heq
    exact absurd (List.cons.inj heq).1 (hexDigit_ne_colon k hk)
  · rfl

/-- (c) `ParseIP(ip.String()) = ip` for the 16-byte addresses whose text has no `::`, i.e. no run of two or
more zero groups (`bestRun` finds none) -/
theorem parseIP_fmtIPv6_no_run (ip : List Nat) (hl : ip.length = 16) (hb : ∀ x ∈ ip, x < 256)
    (hr : (bestRun (groups ip)).2 = 0) : parseIP (fmtIPv6 ip) = some ip := by
  have G := groups_lt ip hb
  have GL : (groups ip).length = 8 := by rw [groups_length, hl]
  have BG := bytes_groups ip (by rw [hl]) hb
  have hT : fmtIPv6 ip = intercalate ':' ((groups ip).map fmtHex) := by
    unfold fmtIPv6
    simp [hr]
  rw [hT]
  generalize groups ip = hs at *
  have hs2 : ∃ h0 h1 t, hs = h0 :: h1 :: t := by
    cases hs with
    | nil => simp at GL
    | cons a t => cases t with
      | nil => simp at GL
      | cons b t => exact ⟨a, b, t, rfl⟩
  have V := v6Loop_groups hs 8 [] none (by intro e; rw [e] at GL; simp at GL) G (by omega)
    (by simp only [List.length_nil]; omega)
  rw [List.nil_append, BG] at V
  have A : (intercalate ':' (hs.map fmtHex)).all okv = true := by
    apply intercalate_all okv ':' (by decide)
    intro x hx
    rcases List.mem_map.1 hx with ⟨o, ho, rfl⟩
    exact fmtHex_okv o (G o ho)
  obtain ⟨h0, h1, t, rfl⟩ := hs2
  obtain ⟨k, r, hk, e0⟩ := fmtHex_head h0 (G h0 (by simp))
  have M : ':' ∈ intercalate ':' ((h0 :: h1 :: t).map fmtHex) := by simp [intercalate]
  have P : '%' ∉ intercalate ':' ((h0 :: h1 :: t).map fmtHex) := by
    intro m
    exact absurd (List.all_eq_true.1 A _ m) (by decide)
  have H : ∃ r', intercalate ':' ((h0 :: h1 :: t).map fmtHex) = hexDigit k :: r' :=
    ⟨r ++ ':' :: intercalate ':' ((h1 :: t).map fmtHex), by simp [intercalate, e0]⟩
  obtain ⟨r', H⟩ := H
  generalize intercalate ':' ((h0 :: h1 :: t).map fmtHex) = T at *
  subst H
  unfold parseIP parseAddr
  rw [find_colon _ A M]
  simp only [parseIPv6_nocolon k hk r' ip P V hl]
  simp [Addr.zone, Addr.as16]

/-- `ParseIP(ip.String()) = ip` for IPv6 — PARTIAL: covers exactly the 16-byte non-IPv4-mapped addresses whose
text has no `::` (no two consecutive zero 16-bit groups: `bestRun` finds no run).  The `::` texts are not
proved in general; the `example`s below evaluate the corner cases (`::` at the start, in the middle, at the
end, all-zero) in the kernel. -/
theorem parseIP_ipString_v6_partial (ip : List Nat) (hl : ip.length = 16) (hb : ∀ x ∈ ip, x < 256)
    (h4 : to4 ip = none) (hr : (bestRun (groups ip)).2 = 0) :
    ∃ s, ipString ip = some s ∧ parseIP s = some ip := by
  refine ⟨fmtIPv6 ip, ?_, parseIP_fmtIPv6_no_run ip hl hb hr⟩
  simp [ipString, h4, hl]

/-! ## the hypotheses are satisfiable -/

/-- 2001:db8:1:2:3:4:5:6 -/
def ex1 : List Nat := [0x20, 0x01, 0x0d, 0xb8, 0, 1, 0, 2, 0, 3, 0, 4, 0, 5, 0, 6]
/-- 2001:db8:0:2:3:0:5:6 (single zero groups are not compressed) -/
def ex2 : List Nat := [0x20, 0x01, 0x0d, 0xb8, 0, 0, 0, 2, 0, 3, 0, 0, 0, 5, 0, 6]

example : hexGroup (fmtHex 0xdb8 ++ ":1".toList) 0 0 = some (0xdb8, 3, ":1".toList) :=
  hexGroup_fmtHex 0xdb8 (by decide) _ (noHexHead_colon _)
example : v6Loop 8 (intercalate ':' ((groups ex1).map fmtHex)) [] none = some ([], [] ++ bytes (groups ex1), none) :=
  v6Loop_groups (groups ex1) 8 [] none (by decide) (by decide) (by decide) (by decide)
example : parseIP (fmtIPv6 ex1) = some ex1 :=
  parseIP_fmtIPv6_no_run ex1 (by decide) (by decide) (by decide)
example : parseIP (fmtIPv6 ex2) = some ex2 :=
  parseIP_fmtIPv6_no_run ex2 (by decide) (by decide) (by decide)
example : ∃ s, ipString ex1 = some s ∧ parseIP s = some ex1 :=
  parseIP_ipString_v6_partial ex1 (by decide) (by decide) (by decide) (by decide)
example : fmtIPv6 ex2 = "2001:db8:0:2:3:0:5:6".toList := by decide +kernel

/-! ## the `::` corner cases, evaluated in the kernel (not covered by the theorem above) -/

def rt (ip : List Nat) (txt : String) : Bool := fmtIPv6 ip == txt.toList && parseIP (fmtIPv6 ip) == some ip

example : rt [0,0,0,0,0,0,0,0,0,0,0,0,0,0,0,1] "::1" = true := by decide +kernel
example : rt [0,0,0,0,0,0,0,0,0,0,0,0,0,0,0,0] "::" = true := by decide +kernel
example : rt [0,1,0,0,0,0,0,0,0,0,0,0,0,0,0,0] "1::" = true := by decide +kernel
example : rt [0x20,0x01,0x0d,0xb8,0,0,0,0,0,0,0,0,0,0,0,7] "2001:db8::7" = true := by decide +kernel
example : rt [0,1,0,0,0,0,0,2,0,0,0,0,0,0,0,3] "1:0:0:2::3" = true := by decide +kernel
example : rt [0,1,0,0,0,0,0,2,0,0,0,0,0,3,0,4] "1::2:0:0:3:4" = true := by decide +kernel
example : rt [0,0,0,0,0,0,0,0,0,0,255,255,1,2,3,4] "::ffff:102:304" = true := by decide +kernel
example : rt [0,1,0,2,0,3,0,4,0,5,0,6,0,0,0,0] "1:2:3:4:5:6::" = true := by decide +kernel

example : parseIP "::1".toList = some [0,0,0,0,0,0,0,0,0,0,0,0,0,0,0,1] := by decide +kernel

/-! ## towards the `::` case: what `bestRun` returns -/

/-- `bestRun`'s answer is "no run" or a position with its zero-run length, at least two -/
def RunInv (hs : List Nat) (best : Nat × Nat) : Prop :=
  best.2 = 0 ∨ (best.2 = zeroRun (hs.drop best.1) ∧ 2 ≤ best.2)

theorem bestRun_inv (hs : List Nat) : RunInv hs (bestRun hs) := by
  unfold bestRun
  have : ∀ (is : List Nat) (best : Nat × Nat), RunInv hs best →
      RunInv hs (is.foldl (fun (best : Nat × Nat) i =>
        let l := zeroRun (hs.drop i)
        if l ≥ 2 && l > best.2 then (i, l) else best) best) := by
    intro is
    induction is with
    | nil => intro best h; exact h
    | cons i t ih =>
      intro best h
      rw [List.foldl_cons]
      apply ih
      dsimp only
      split
      · rename_i hc
        simp at hc
        exact Or.inr ⟨rfl, hc.1⟩
      · exact h
  exact this _ _ (Or.inl rfl)

/-- the groups counted by `zeroRun` are zero -/
theorem zeroRun_take : ∀ l : List Nat,
    l.take (zeroRun l) = List.replicate (zeroRun l) 0 ∧ zeroRun l ≤ l.length
  | [] => by simp [zeroRun]
  | 0 :: rest => by
    have ih := zeroRun_take rest
    simp only [zeroRun, List.take_succ_cons, List.replicate_succ, List.length_cons, ih.1]
    exact ⟨trivial, by omega⟩
  | (n + 1) :: rest => by simp [zeroRun]

end CJ.Props.C06V6
