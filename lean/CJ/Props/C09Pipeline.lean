import CJ.Lemmas.PipelineMsg
/-!
# C09 — the ingest pipeline, message by message, for every schedule

Statements over `CJ/Model/PipelineMsg.lean` (`HandleRegUpdates` + `startIngestThread` with message identities),
all for an arbitrary buffer capacity, pool size and action list (= schedule + environment).
-/
namespace CJ.Props.C09Pipeline
open CJ.PipelineMsg

/-- No message is lost or duplicated between source and worker: whatever the schedule, every message the
distributor took from its input is — with its multiplicity — in exactly one of: dropped, buffer, a worker's
hand, processed, rejected. -/
theorem no_message_lost_or_duplicated (cap n : Nat) (acts : List Act) :
    (run (init cap n) acts).recv.Perm (places (run (init cap n) acts)) :=
  List.perm_iff_count.mpr (inv_run (inv_init cap n) acts).cons

/-- With distinct messages at the source nothing is in two places at once. -/
theorem distinct_in_distinct_out (cap n : Nat) (acts : List Act)
    (h : (run (init cap n) acts).recv.Nodup) : (places (run (init cap n) acts)).Nodup :=
  (no_message_lost_or_duplicated cap n acts).nodup_iff.mp h

example : (run (init 1 2) [.dist (some ⟨1, .valid⟩), .dist (some ⟨2, .bad⟩)]).recv.Nodup := by decide

theorem step_cap (s : St) (a : Act) : (step s a).cap = s.cap := by
  cases a <;> simp only [step] <;> repeat (first | rfl | split)

theorem run_cap (acts : List Act) : ∀ s : St, (run s acts).cap = s.cap := by
  induction acts with
  | nil => intro s; rfl
  | cons a r ih => intro s; show (run (step s a) r).cap = s.cap; rw [ih, step_cap]

/-- Bounded buffering: the shallow buffer never holds more than its capacity. -/
theorem buffer_never_exceeds_capacity (cap n : Nat) (acts : List Act) :
    (run (init cap n) acts).buf.length ≤ cap := by
  have h := (inv_run (inv_init cap n) acts).bounded
  have : (run (init cap n) acts).cap = cap := run_cap acts (init cap n)
  omega

/-- First in, first out: workers receive messages in the order the distributor forwarded them, and what was
forwarded (resp. dropped) is a subsequence of what arrived. -/
theorem forwarded_fifo (cap n : Nat) (acts : List Act) :
    let s := run (init cap n) acts
    s.fwd = s.taken ++ s.buf ∧ s.fwd.Sublist s.recv ∧ s.dropped.Sublist s.recv :=
  let h := inv_run (inv_init cap n) acts
  ⟨h.fifo, h.fwdSub, h.dropSub⟩

/-- Dropped AND counted, exactly once: the two statistics counters equal the number of messages taken from the
input and the number of messages dropped. -/
theorem counters_exact (cap n : Nat) (acts : List Act) :
    let s := run (init cap n) acts
    s.recvCtr = s.recv.length ∧ s.dropCtr = s.dropped.length :=
  let h := inv_run (inv_init cap n) acts
  ⟨h.rc, h.dc⟩

/-- The pool is closed: parked + holding + returned workers are the `n` that were started; what is processed
parsed, what is rejected did not. -/
theorem pool_accounted (cap n : Nat) (acts : List Act) :
    let s := run (init cap n) acts
    s.idle + s.hand.length + s.exited = n ∧ (∀ m ∈ s.processed, m.kind = .valid) ∧ (∀ m ∈ s.rejected, m.kind = .bad) :=
  let h := inv_run (inv_init cap n) acts
  ⟨h.pool, h.kindsP, h.kindsR⟩

/-- The receiver never blocks on the hand-off: while the loop runs and no stop was requested, an offered message
is always taken and counted — whatever the workers are doing — and it is dropped exactly when no worker is
parked behind an empty buffer and the buffer is full. -/
theorem receiver_never_blocks (s : St) (m : Msg) (hl : s.dist = .loop) (hc : s.cancelled = false) :
    (step s (.dist (some m))).recv = s.recv ++ [m] ∧
    (step s (.dist (some m))).recvCtr = s.recvCtr + 1 ∧
    ((step s (.dist (some m))).dropped = s.dropped ++ [m] ∧ (step s (.dist (some m))).dropCtr = s.dropCtr + 1
        ∧ ¬ (s.buf = [] ∧ 0 < s.idle) ∧ ¬ s.buf.length < s.cap
      ∨ (step s (.dist (some m))).dropped = s.dropped ∧ (step s (.dist (some m))).dropCtr = s.dropCtr
        ∧ (step s (.dist (some m))).fwd = s.fwd ++ [m]) := by
  simp only [step, hl, hc]
  by_cases h1 : s.buf = [] ∧ 0 < s.idle
  · simp [h1]
  · by_cases h2 : s.buf.length < s.cap
    · simp [h1, h2]
    · simp [h1, h2]

example : ∃ s : St, s.dist = .loop ∧ s.cancelled = false := ⟨init 0 0, rfl, rfl⟩

/-- After the stop request nothing is taken from the input any more, and the request stays. -/
theorem cancel_stops_intake (s : St) (a : Act) (hc : s.cancelled = true) :
    (step s a).recv = s.recv ∧ (step s a).cancelled = true := by
  cases a with
  | cancel => exact ⟨rfl, rfl⟩
  | dist input =>
    simp only [step]
    cases hd : s.dist <;> simp only [hc, if_true] <;> (try split) <;> (first | exact ⟨rfl, hc⟩ | simp [hc])
  | take =>
    simp only [step]
    split
    · split <;> exact ⟨rfl, hc⟩
    · exact ⟨rfl, hc⟩
  | exit => simp only [step]; split <;> exact ⟨rfl, hc⟩
  | finish m =>
    simp only [step]
    split
    · split <;> exact ⟨rfl, hc⟩
    · exact ⟨rfl, hc⟩

example : ∃ s : St, s.cancelled = true := ⟨step (init 0 0) .cancel, rfl⟩

/-- Shutdown measure: once stop was requested, every action either leaves the state's measure alone (it was not
enabled) or strictly decreases it — so at most `mu s` effective actions can follow, whatever the schedule and
whether or not messages keep being offered. -/
theorem postcancel_measure (s : St) (a : Act) (hc : s.cancelled = true) :
    mu (step s a) < mu s ∨ step s a = s := by
  cases a with
  | cancel => right; cases s; simp only [step]; simp_all
  | dist input =>
    simp only [step]
    cases hd : s.dist <;> simp only [hc, if_true]
    · left; simp [mu, distRank, hd]
    · split
      · left; simp [mu, distRank, hd]
      · first | (right; rfl) | (right; trivial) | trivial
    · first | (right; rfl) | (right; trivial) | trivial
  | take =>
    simp only [step]
    split
    · rename_i m rest hbuf
      split
      · left; simp only [mu, hbuf, List.length_cons]; omega
      · right; rfl
    · right; rfl
  | exit =>
    simp only [step]
    split
    · rename_i h; left; simp only [mu]; omega
    · right; rfl
  | finish m =>
    simp only [step]
    split
    · rename_i hm
      have hl := length_erase_mem hm
      split <;> (left; simp only [mu]; omega)
    · right; rfl

/-- The measure is bounded by the buffer capacity and the pool size. -/
theorem mu_bound (cap n : Nat) (acts : List Act) :
    mu (run (init cap n) acts) ≤ 3 * cap + 2 * n + 2 := by
  have hb := buffer_never_exceeds_capacity cap n acts
  have hp := (inv_run (inv_init cap n) acts).pool
  have : distRank (run (init cap n) acts).dist ≤ 2 := by cases (run (init cap n) acts).dist <;> simp [distRank]
  simp only [mu]; omega

/-- No deadlock during shutdown: after the stop request, as long as `HandleRegUpdates` has not returned, some
action is enabled and strictly decreases the measure. -/
theorem shutdown_never_stuck (s : St) (hc : s.cancelled = true) (hd : s.dist ≠ .done) :
    ∃ a, mu (step s a) < mu s := by
  cases hdist : s.dist with
  | done => exact absurd hdist hd
  | loop => exact ⟨.dist none, by simp [step, hdist, hc, mu, distRank]⟩
  | waiting =>
    cases hh : s.hand with
    | cons m rest =>
      refine ⟨.finish m, ?_⟩
      have hm : m ∈ s.hand := by rw [hh]; simp
      have hl := length_erase_mem hm
      simp only [step, hm, if_true]
      split <;> (simp only [mu]; omega)
    | nil =>
      by_cases hid : 0 < s.idle
      · exact ⟨.exit, by simp only [step, hid, hc, and_self, if_true, mu]; omega⟩
      · refine ⟨.dist none, ?_⟩
        have : s.idle = 0 := by omega
        simp [step, hdist, this, hh, mu, distRank]

/-- Termination after cancel: from every reachable state in which stop was requested there is a schedule of at
most `mu s ≤ 3·cap + 2·n + 2` actions after which `HandleRegUpdates` has returned (`dist = done`: the loop was
left, every worker returned, `wg.Wait()` passed). -/
theorem winds_down (n : Nat) (s : St) (hi : Inv n s) (hc : s.cancelled = true) :
    ∃ acts, acts.length ≤ mu s ∧ (run s acts).dist = .done := by
  generalize hk : mu s = k
  induction k using Nat.strongRecOn generalizing s with
  | _ k ih =>
    by_cases hd : s.dist = .done
    · exact ⟨[], by simp, hd⟩
    · obtain ⟨a, ha⟩ := shutdown_never_stuck s hc hd
      obtain ⟨acts, hlen, hdone⟩ := ih (mu (step s a)) (by omega) (step s a) (inv_step hi a)
        (cancel_stops_intake s a hc).2 rfl
      exact ⟨a :: acts, by simp only [List.length_cons]; omega, hdone⟩

example : ∃ s : St, Inv 2 s ∧ s.cancelled = true :=
  ⟨step (init 1 2) .cancel, inv_step (inv_init 1 2) .cancel, rfl⟩

/-- … and once returned, every worker has returned and holds nothing. -/
theorem returned_means_all_workers_returned (cap n : Nat) (acts : List Act)
    (h : (run (init cap n) acts).dist = .done) :
    (run (init cap n) acts).exited = n ∧ (run (init cap n) acts).hand = [] ∧ (run (init cap n) acts).cancelled = true := by
  have hi := inv_run (inv_init cap n) acts
  have ⟨h1, h2⟩ := hi.doneC h
  have hp := hi.pool
  refine ⟨?_, h2, hi.distC (by rw [h]; simp)⟩
  rw [h1, h2] at hp; simpa using hp

example : (run (init 1 2) [.cancel, .dist none, .exit, .exit, .dist none]).dist = .done := by decide

/-- The settled semantics the harness is compared with is a schedule of the model (so every theorem above
speaks about the states the correspondence lines print). -/
theorem settle_is_a_schedule (fuel : Nat) (s : St) : ∃ acts, settle fuel s = run s acts := by
  induction fuel generalizing s with
  | zero => exact ⟨[], rfl⟩
  | succ f ih =>
    unfold settle
    split
    · rename_i m _
      obtain ⟨acts, h⟩ := ih (step s (.finish m)); exact ⟨.finish m :: acts, h⟩
    · split
      · split
        · obtain ⟨acts, h⟩ := ih (step s .exit); exact ⟨.exit :: acts, h⟩
        · split
          · exact ⟨[], rfl⟩
          · obtain ⟨acts, h⟩ := ih (step s (.dist none)); exact ⟨.dist none :: acts, h⟩
      · split
        · obtain ⟨acts, h⟩ := ih (step s .take); exact ⟨.take :: acts, h⟩
        · exact ⟨[], rfl⟩

theorem event_is_a_schedule (s : St) (e : Event) : ∃ acts, event s e = run s acts := by
  cases e with
  | send m =>
    obtain ⟨acts, h⟩ := settle_is_a_schedule (fuelOf (step s (.dist (some m)))) (step s (.dist (some m)))
    exact ⟨.dist (some m) :: acts, h⟩
  | release id =>
    simp only [event]
    split
    · rename_i m _
      obtain ⟨acts, h⟩ := settle_is_a_schedule (fuelOf (step s (.finish m))) (step s (.finish m))
      exact ⟨.finish m :: acts, h⟩
    · exact ⟨[], rfl⟩
  | stop =>
    obtain ⟨acts, h⟩ := settle_is_a_schedule (fuelOf (step s .cancel)) (step s .cancel)
    exact ⟨.cancel :: acts, h⟩

end CJ.Props.C09Pipeline
