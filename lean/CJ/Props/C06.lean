import CJ.Lemmas.Covert
import CJ.Lemmas.Config
import CJ.Lemmas.IngestOrder
import CJ.Gen.C06Ingest
/-!
# C06 — the station never dials a covert address that policy forbids

Property theorems only.  The theorems hold for **every** policy, every environment (`Contains`,
`MatchString`, `IP.String` are arbitrary functions), every combination of answers the standard library
could give about the covert string (`Answers`) and every **resolver stream** (`Resolver`: the `n`-th
lookup is answered `rs n`, so a name may be answered differently at every lookup).  Admission consumes
exactly one resolver answer; the dial of an admitted registration consumes none and does not depend on
the stream at all.

The second group of theorems is about *which object* ends up dialable: any number of ingest workers
(each with its own freshly parsed registration object for the same key: duplicate deliveries, re-sent
registrations with another covert address) interleaved in any order at the scheduling points of
`ingestRegistration`.

Reading of "policy forbids" (decided with the lead, documented in `app_config.toml`: *"Override the
blocklist providing a more restrictive allowlist"*): when an allowlist is configured an address is
permitted iff it is inside the allowlist; otherwise iff it is outside every blocklisted subnet.  The
literal conjunction of the property text is kept as `accepted_is_permitted_literal_full`, refuted by
`accepted_is_permitted_literal_full_refuted` (overlapping lists), and proved under the condition that
the lists are disjoint (`accepted_outside_blocklist_and_inside_allowlist`).
-/

namespace CJ.Props.C06
open CJ.Covert

variable {Net Pat IP : Type}

/-- the configured policy forbids the address: a configured allowlist overrides the blocklist -/
def Forbids (env : Env Net Pat IP) (pol : Policy Net Pat) (ip : IP) : Prop :=
  if pol.enableAllow = true then ¬ inAny env pol.allow ip else inAny env pol.block ip

theorem isBlocklisted_iff_forbids (env : Env Net Pat IP) (pol : Policy Net Pat) (ip : IP) :
    isBlocklistedCovertAddr env pol ip = true ↔ Forbids env pol ip := by
  unfold isBlocklistedCovertAddr Forbids
  cases pol.enableAllow with
  | true =>
    simp only [if_true, Bool.not_eq_true', ← any_contains_iff]
    cases List.any pol.allow fun n => env.contains n ip <;> simp
  | false => simp only [Bool.false_eq_true, if_false, any_contains_iff]

/-- **Accepted ⇒ permitted literal.**  If the covert is not rejected then: the string split into host and
port, the port is a uint16, the host matched no blocklisted domain pattern, the one lookup (the answer
under the cursor) gave an address with an IP and no zone, that IP is not the unspecified address (which `net.Dial` would replace
by the local system), the policy does not forbid it, and the returned string is exactly
`JoinHostPort(IP.String(), port)` **of that IP** — the literal text of the address that was checked, not
a string supplied from elsewhere. -/
theorem accepted_is_permitted_literal (env : Env Net Pat IP) (pol : Policy Net Pat) (a : Answers)
    (rs : Resolver IP) (n : Nat) (h : (parseOrResolve env pol a rs n).out ≠ "") :
    ∃ host port ip,
      a.split = some (host, port) ∧ a.portOk = true ∧
      (∀ p ∈ pol.domains, env.matchString p host = false) ∧
      rs n = .addr (some ip) "" ∧ env.unspecified ip = false ∧
      ¬ Forbids env pol ip ∧
      (parseOrResolve env pol a rs n).out = joinHostPort (env.ipText ip) port := by
  obtain ⟨host, port, ip, _, hs, hd, hk, hr, hu, hb, hout⟩ := (accepted_iff env pol a rs n).mp h
  refine ⟨host, port, ip, hs, hk, ?_, hr, hu, ?_, by rw [hout]⟩
  · intro p hp
    unfold isBlocklistedCovertDomain at hd
    cases hm : env.matchString p host with
    | false => rfl
    | true =>
      have : (pol.domains.any fun p => env.matchString p host) = true := List.any_eq_true.mpr ⟨p, hp, hm⟩
      rw [this] at hd; cases hd
  · intro hf
    rw [← isBlocklisted_iff_forbids, hb] at hf; cases hf

/-- without an allowlist: outside every blocklisted subnet -/
theorem accepted_outside_blocklist (env : Env Net Pat IP) (pol : Policy Net Pat) (a : Answers)
    (rs : Resolver IP) (n : Nat)
    (hna : pol.enableAllow = false) (h : (parseOrResolve env pol a rs n).out ≠ "") :
    ∃ ip, rs n = .addr (some ip) "" ∧ ∀ net ∈ pol.block, env.contains net ip = false := by
  obtain ⟨_, _, ip, _, _, _, hr, _, hf, _⟩ := accepted_is_permitted_literal env pol a rs n h
  refine ⟨ip, hr, ?_⟩
  intro net hn
  cases hc : env.contains net ip with
  | false => rfl
  | true =>
    exfalso; apply hf
    unfold Forbids; simp only [hna, Bool.false_eq_true, if_false]
    exact ⟨net, hn, hc⟩

/-- with an allowlist configured: inside the allowlist -/
theorem accepted_inside_allowlist (env : Env Net Pat IP) (pol : Policy Net Pat) (a : Answers)
    (rs : Resolver IP) (n : Nat)
    (hal : pol.enableAllow = true) (h : (parseOrResolve env pol a rs n).out ≠ "") :
    ∃ ip, rs n = .addr (some ip) "" ∧ inAny env pol.allow ip := by
  obtain ⟨_, _, ip, _, _, _, hr, _, hf, _⟩ := accepted_is_permitted_literal env pol a rs n h
  refine ⟨ip, hr, ?_⟩
  unfold Forbids at hf
  simp only [hal, if_true] at hf
  exact Classical.not_not.mp hf

/-! ### every configuration in force — also one put in force by a reload

"Every station configuration" includes the configurations a running station is given by SIGHUP.  The reload
model is C19's (`CJ.Config.reloads`: per reload the outcome of the configuration load, of the subnets file
and of the GeoIP databases); the policy in force afterwards is that of the last configuration that loaded
(`CJ.Config.lastPolicy`), whatever happened to the other two loading steps. -/

section reload
open CJ.Config
variable {Sel Geo : Type}

/-- after any sequence of reloads admission decides exactly as under the last configuration that loaded -/
theorem admission_after_reloads (env : Env Net Pat IP) (st : Station Sel (Policy Net Pat) Geo)
    (evs : List (Outcome (Policy Net Pat) × Option Sel × GeoLoad Geo)) (hnp : ∀ ev ∈ evs, ev.1 ≠ .panic)
    (a : Answers) (rs : Resolver IP) (n : Nat) :
    ∃ st', reloads st evs = .ok st' ∧
      parseOrResolve env st'.policy a rs n = parseOrResolve env (lastPolicy st.policy evs) a rs n :=
  ⟨_, reloads_eq_last evs st hnp, rfl⟩

/-- **Accepted after reloads ⇒ permitted by the configuration in force**: whatever the running station
accepts after any sequence of reloads — with any subset of subnets files and GeoIP databases failing along the
way — is a literal that the last configuration that loaded does not forbid and whose host matched none of
*its* domain patterns. -/
theorem accepted_after_reloads_is_permitted (env : Env Net Pat IP) (st st' : Station Sel (Policy Net Pat) Geo)
    (evs : List (Outcome (Policy Net Pat) × Option Sel × GeoLoad Geo)) (hnp : ∀ ev ∈ evs, ev.1 ≠ .panic)
    (hst : reloads st evs = .ok st')
    (a : Answers) (rs : Resolver IP) (n : Nat) (h : (parseOrResolve env st'.policy a rs n).out ≠ "") :
    ∃ host port ip,
      a.split = some (host, port) ∧ a.portOk = true ∧
      (∀ p ∈ (lastPolicy st.policy evs).domains, env.matchString p host = false) ∧
      rs n = .addr (some ip) "" ∧ env.unspecified ip = false ∧
      ¬ Forbids env (lastPolicy st.policy evs) ip ∧
      (parseOrResolve env st'.policy a rs n).out = joinHostPort (env.ipText ip) port := by
  have hp : st'.policy = lastPolicy st.policy evs := by
    rw [reloads_eq_last evs st hnp] at hst
    cases hst; rfl
  rw [hp] at h ⊢
  exact accepted_is_permitted_literal env _ a rs n h

/-- in particular a reload whose GeoIP databases (or subnets file) fail while its configuration loads puts
the **new** policy in force: an address the new configuration forbids is not accepted afterwards -/
theorem forbidden_by_reloaded_policy_rejected (env : Env Net Pat IP) (st : Station Sel (Policy Net Pat) Geo)
    (pol : Policy Net Pat) (sel : Option Sel) (geo : GeoLoad Geo)
    (a : Answers) (rs : Resolver IP) (n : Nat) (ip : IP) (zone : String) (hr : rs n = .addr (some ip) zone)
    (hf : Forbids env pol ip) :
    ∃ st', reload st (.ok pol) sel geo = .ok st' ∧ (parseOrResolve env st'.policy a rs n).out = "" := by
  refine ⟨onReload st sel pol geo, rfl, ?_⟩
  have hpol : (onReload st sel pol geo).policy = pol := by
    cases sel <;> cases geo <;> rfl
  rw [hpol]
  cases hacc : decide ((parseOrResolve env pol a rs n).out = "") with
  | true => exact of_decide_eq_true hacc
  | false =>
    have hne : (parseOrResolve env pol a rs n).out ≠ "" := of_decide_eq_false hacc
    obtain ⟨_, _, ip', _, _, _, hr', _, hnf, _⟩ := accepted_is_permitted_literal env pol a rs n hne
    rw [hr] at hr'
    cases hr'
    exact absurd hf hnf

end reload

/-- the literal conjunction of the property text -/
def accepted_is_permitted_literal_full : Prop :=
  ∀ (env : Env Nat Nat Unit) (pol : Policy Nat Nat) (a : Answers) (rs : Resolver Unit) (n : Nat),
    (pol.enableAllow = true ↔ pol.allow ≠ []) →
    (parseOrResolve env pol a rs n).out ≠ "" →
    ∃ ip zone, rs n = .addr (some ip) zone ∧
      (∀ net ∈ pol.block, env.contains net ip = false) ∧ (pol.allow ≠ [] → inAny env pol.allow ip)

/-- … does not hold: a configured allowlist overrides the blocklist, so an address inside both lists is
accepted (documented behaviour; not repaired, see the header). -/
theorem accepted_is_permitted_literal_full_refuted : ¬ accepted_is_permitted_literal_full := by
  intro hfull
  let env : Env Nat Nat Unit := { contains := fun _ _ => true, matchString := fun _ _ => false, ipText := fun _ => "10.1.2.3",
                                   unspecified := fun _ => false }
  let pol : Policy Nat Nat := { block := [0], allow := [1], enableAllow := true, domains := [] }
  let a : Answers := { providedIsIP := false, split := some ("10.1.2.3", "80"), portOk := true, hostIsIP := true }
  let rs : Resolver Unit := fun _ => .addr (some ()) ""
  have hacc : (parseOrResolve env pol a rs 0).out ≠ "" := by
    apply (accepted_iff env pol a rs 0).mpr
    exact ⟨"10.1.2.3", "80", (), rfl, rfl, rfl, rfl, rfl, rfl, rfl, rfl⟩
  obtain ⟨ip, zone, _, hb, _⟩ := hfull env pol a rs 0 (by simp [pol]) hacc
  have := hb 0 (by simp [pol])
  simp [env] at this

/-- … and holds whenever the two lists are disjoint on the resolved address (in particular when the
allowlist is "more restrictive", as the configuration file describes it, or absent). -/
theorem accepted_outside_blocklist_and_inside_allowlist (env : Env Net Pat IP) (pol : Policy Net Pat)
    (a : Answers) (rs : Resolver IP) (n : Nat) (hwf : pol.enableAllow = true ↔ pol.allow ≠ [])
    (hdisj : ∀ ip, inAny env pol.allow ip → ¬ inAny env pol.block ip)
    (h : (parseOrResolve env pol a rs n).out ≠ "") :
    ∃ ip, rs n = .addr (some ip) "" ∧
      (∀ net ∈ pol.block, env.contains net ip = false) ∧ (pol.allow ≠ [] → inAny env pol.allow ip) := by
  obtain ⟨_, _, ip, _, _, _, hr, _, hf, _⟩ := accepted_is_permitted_literal env pol a rs n h
  refine ⟨ip, hr, ?_, ?_⟩
  · intro net hn
    cases hc : env.contains net ip with
    | false => rfl
    | true =>
      exfalso
      have hin : inAny env pol.block ip := ⟨net, hn, hc⟩
      unfold Forbids at hf
      by_cases hal : pol.enableAllow = true
      · simp only [hal, if_true] at hf
        exact hdisj ip (Classical.not_not.mp hf) hin
      · simp only [hal] at hf
        exact hf hin
  · intro hne
    have hal := hwf.mpr hne
    unfold Forbids at hf
    simp only [hal, if_true] at hf
    exact Classical.not_not.mp hf

/-! ### resolved once, at admission; answers that change between lookups -/

/-- names are resolved at most once per call, whatever the outcome: the resolver cursor moves by at most
one answer (and never backwards) -/
theorem resolved_at_most_once (env : Env Net Pat IP) (pol : Policy Net Pat) (a : Answers) (rs : Resolver IP)
    (n : Nat) : n ≤ (parseOrResolve env pol a rs n).cursor ∧ (parseOrResolve env pol a rs n).cursor ≤ n + 1 :=
  cursor_bounds env pol a rs n

/-- an accepted covert consumed exactly one answer -/
theorem accepted_resolved_exactly_once (env : Env Net Pat IP) (pol : Policy Net Pat) (a : Answers)
    (rs : Resolver IP) (n : Nat) (h : (parseOrResolve env pol a rs n).out ≠ "") :
    (parseOrResolve env pol a rs n).cursor = n + 1 := by
  obtain ⟨_, _, _, _, _, _, _, _, _, _, hout⟩ := (accepted_iff env pol a rs n).mp h
  rw [hout]

/-- **Answers that change between lookups do not matter**: the result (accepted string, statistics
flag, cursor) is a function of the single answer under the cursor — two resolvers that agree on that
one answer and differ arbitrarily on every other lookup give the same result. -/
theorem later_answers_irrelevant (env : Env Net Pat IP) (pol : Policy Net Pat) (a : Answers)
    (rs rs' : Resolver IP) (n : Nat) (h : rs n = rs' n) :
    parseOrResolve env pol a rs n = parseOrResolve env pol a rs' n :=
  result_congr env pol a rs rs' n h

/-- **The accepted string parses back to the checked address**: handed to `net.Dial` it is recognised as
a literal — the IP that the policy was evaluated on, the port that was checked —, it is not replaced by
the local system, and no resolver answer is consumed, whatever the resolver would answer now (`rs'` and
`m` are arbitrary).  The hypotheses are the standard-library contracts `SplitHostPort ∘ JoinHostPort`
and `ParseIP ∘ IP.String` for this address and port (the harness checks both on every accepted case)
and that the dialer's notion of "unspecified" is `IP.IsUnspecified`. -/
theorem accepted_parses_back (env : Env Net Pat IP) (pol : Policy Net Pat) (a : Answers) (rs : Resolver IP)
    (n : Nat) (L : DialLib IP) (h : (parseOrResolve env pol a rs n).out ≠ "") :
    ∃ host port ip, a.split = some (host, port) ∧ rs n = .addr (some ip) "" ∧ ¬ Forbids env pol ip ∧
      (L.splitHostPort (joinHostPort (env.ipText ip) port) = some (env.ipText ip, port) →
       L.parseIP (env.ipText ip) = some ip → L.unspecified ip = env.unspecified ip →
       ∀ (rs' : Resolver IP) (m : Nat),
         netDial L (parseOrResolve env pol a rs n).out rs' m = (.literal ip port, m)) := by
  obtain ⟨host, port, ip, hs, _, _, hr, hu, hf, hout⟩ := accepted_is_permitted_literal env pol a rs n h
  refine ⟨host, port, ip, hs, hr, hf, ?_⟩
  intro hsplit hparse hun rs' m
  rw [hout]
  unfold netDial
  rw [hsplit]
  simp only [hparse, hun, hu, Bool.false_eq_true, if_false]

/-- why the unspecified address must be rejected: as a literal it is not connected to as is — `net.Dial`
assumes the local system, whatever the policy said about `0.0.0.0` / `::` -/
theorem unspecified_literal_dials_local_system (L : DialLib IP) (s host port : String) (ip : IP)
    (rs : Resolver IP) (m : Nat) (hs : L.splitHostPort s = some (host, port)) (hp : L.parseIP host = some ip)
    (hu : L.unspecified ip = true) : netDial L s rs m = (.localSystem port, m) := by
  unfold netDial; rw [hs]; simp only [hp, hu, if_true]

/-- … and it is: whatever the policy, an unspecified address is never accepted -/
theorem unspecified_never_accepted (env : Env Net Pat IP) (pol : Policy Net Pat) (a : Answers) (rs : Resolver IP)
    (n : Nat) (ip : IP) (zone : String) (hr : rs n = .addr (some ip) zone) (hu : env.unspecified ip = true) :
    (parseOrResolve env pol a rs n).out = "" := by
  cases hout : (parseOrResolve env pol a rs n).out == "" with
  | true => simpa using hout
  | false =>
    have hne : (parseOrResolve env pol a rs n).out ≠ "" := by simpa using hout
    obtain ⟨_, _, ip', _, _, _, hr', hu', _, _⟩ := accepted_is_permitted_literal env pol a rs n hne
    rw [hr] at hr'
    cases hr'
    rw [hu] at hu'; cases hu'

/-- a string that `net.Dial` does not recognise as a literal is resolved **at dial time**: the station
would connect to whatever the resolver answers then (this is what the overwrite of `Covert` prevents) -/
theorem name_is_resolved_at_dial (L : DialLib IP) (s host port : String) (rs : Resolver IP) (m : Nat)
    (hs : L.splitHostPort s = some (host, port)) (hn : L.parseIP host = none) :
    netDial L s rs m = (.resolved (rs m) port, m + 1) := by
  unfold netDial; rw [hs]; simp only [hn]

/-- **A well-formed permitted literal is accepted unchanged.**  `provided = JoinHostPort host port` with
`host` a canonical literal (it parses, resolves to an address without a zone whose text is `host`), a
uint16 port, a host that matches no blocklisted pattern and an address the policy does not forbid: the
result is `provided` itself, and no name was resolved. -/
theorem permitted_literal_unchanged (env : Env Net Pat IP) (pol : Policy Net Pat) (a : Answers)
    (rs : Resolver IP) (n : Nat) (provided host port : String) (ip : IP)
    (hprov : provided = joinHostPort host port)
    (hnotip : a.providedIsIP = false)                       -- "host:port" is not itself an IP
    (hs : a.split = some (host, port)) (hport : a.portOk = true)
    (hlit : a.hostIsIP = true) (hres : rs n = .addr (some ip) "") (htext : env.ipText ip = host)
    (hspec : env.unspecified ip = false)
    (hdom : ∀ p ∈ pol.domains, env.matchString p host = false)
    (hperm : ¬ Forbids env pol ip) :
    parseOrResolve env pol a rs n = ⟨provided, false, n + 1⟩ := by
  have hd : isBlocklistedCovertDomain env pol host = false := by
    unfold isBlocklistedCovertDomain
    cases hx : (pol.domains.any fun p => env.matchString p host) with
    | false => rfl
    | true =>
      obtain ⟨p, hp, hm⟩ := List.any_eq_true.mp hx
      rw [hdom p hp] at hm; cases hm
  have hb : isBlocklistedCovertAddr env pol ip = false := by
    cases hx : isBlocklistedCovertAddr env pol ip with
    | false => rfl
    | true => exact absurd ((isBlocklisted_iff_forbids env pol ip).mp hx) hperm
  simp [parseOrResolve, hnotip, hs, hd, hport, hlit, hres, hb, hprov, addrText, htext, hspec]

/-! ### which object becomes dialable: any number of workers, any interleaving -/

section workers
variable (env : Env Net Pat IP) (pol : Policy Net Pat) (inp : Inputs) (rs : Resolver IP)

/-- object `i`'s `Covert` field holds the accepted output of a policy check of worker `i`'s own covert
string (at some resolver cursor) -/
def Checked (w : World) (i : Nat) : Prop :=
  ∃ n, (parseOrResolve env pol (inp.ans i) rs n).out ≠ "" ∧
    w.covertOf i = (parseOrResolve env pol (inp.ans i) rs n).out

/-- the invariant of the interleaved runs -/
structure Inv (w : World) : Prop where
  /-- a worker between its track step and its validation step is the one whose object is stored: a worker
  that finds another worker's object tracked stops (it is a duplicate) -/
  owner : ∀ i, (w.pc i = .afterTrack ∨ w.pc i = .beforeRegister) → ∃ v, w.store = some ⟨i, v⟩
  /-- a worker that is about to validate has checked (and overwritten) its own object -/
  ready : ∀ i, w.pc i = .beforeRegister → Checked env pol inp rs w i
  /-- the object behind a valid entry belongs to a worker that is finished, and it is checked -/
  valid : ∀ e, w.store = some e → e.valid = true → w.pc e.ptr = .done ∧ Checked env pol inp rs w e.ptr

theorem inv_init (raw : Nat → String) (c : Nat) : Inv env pol inp rs (World.init raw c) :=
  ⟨fun i h => by simp [World.init] at h, fun i h => by simp [World.init] at h, fun e h => by simp [World.init] at h⟩

theorem checked_of_covertOf_eq {w w' : World} {i : Nat} (h : w'.covertOf i = w.covertOf i)
    (hc : Checked env pol inp rs w i) : Checked env pol inp rs w' i := by
  obtain ⟨n, hne, heq⟩ := hc
  exact ⟨n, hne, by rw [h, heq]⟩

theorem inv_step (w : World) (i : Nat) (hinv : Inv env pol inp rs w) : Inv env pol inp rs (step env pol inp rs w i) := by
  obtain ⟨howner, hready, hvalid⟩ := hinv
  have hstore := step_store env pol inp rs w i
  constructor
  · -- owner
    intro j hj
    by_cases hji : j = i
    · subst hji
      rcases hj with hj | hj
      · obtain ⟨_, _, hs⟩ := step_pc_afterTrack env pol inp rs w j hj
        exact ⟨false, hs⟩
      · obtain ⟨hpc, _, _⟩ := step_pc_beforeRegister env pol inp rs w j hj
        obtain ⟨v, hv⟩ := howner j (Or.inl hpc)
        rcases hstore with h | ⟨h, _⟩ | ⟨h, _⟩
        · exact ⟨v, by rw [h, hv]⟩
        · rw [hpc] at h; cases h
        · rw [hpc] at h; cases h
    · rw [step_pc_other env pol inp rs w i j hji] at hj
      obtain ⟨v, hv⟩ := howner j hj
      rcases hstore with h | ⟨_, h, _⟩ | ⟨hpc, h, _⟩
      · exact ⟨v, by rw [h, hv]⟩
      · rw [hv] at h; cases h
      · -- worker i validates, but the stored object is j's: then i = j
        obtain ⟨v', hv'⟩ := howner i (Or.inr hpc)
        rw [hv] at hv'
        simp only [Option.some.injEq, Entry.mk.injEq] at hv'
        exact absurd hv'.1 hji
  · -- ready
    intro j hj
    by_cases hji : j = i
    · subst hji
      obtain ⟨_, hne, heq⟩ := step_pc_beforeRegister env pol inp rs w j hj
      exact ⟨w.cursor, hne, heq⟩
    · rw [step_pc_other env pol inp rs w i j hji] at hj
      exact checked_of_covertOf_eq env pol inp rs (step_covertOf_other env pol inp rs w i j hji) (hready j hj)
  · -- valid
    intro e he hv
    have hold : w.store = some e → (step env pol inp rs w i).pc e.ptr = .done ∧
        Checked env pol inp rs (step env pol inp rs w i) e.ptr := by
      intro hst
      obtain ⟨hd, hc⟩ := hvalid e hst hv
      by_cases hei : e.ptr = i
      · have : step env pol inp rs w i = w := step_done env pol inp rs w i (by rw [← hei]; exact hd)
        rw [this]; exact ⟨hd, hc⟩
      · exact ⟨by rw [step_pc_other env pol inp rs w i _ hei]; exact hd,
          checked_of_covertOf_eq env pol inp rs (step_covertOf_other env pol inp rs w i _ hei) hc⟩
    rcases hstore with h | ⟨_, _, h⟩ | ⟨hpc, h, hdone⟩
    · exact hold (by rw [← h]; exact he)
    · rw [h] at he; simp only [Option.some.injEq] at he; subst he; cases hv
    · -- worker i validates: what is stored is its own object
      obtain ⟨v, hst⟩ := howner i (Or.inr hpc)
      rw [h, hst] at he
      simp only [registerStep, Option.some.injEq] at he
      subst he
      exact ⟨hdone, checked_of_covertOf_eq env pol inp rs
        (step_covertOf_self env pol inp rs w i (by rw [hpc]; simp)) (hready i hpc)⟩

theorem inv_run (sched : List Nat) (w : World) (hinv : Inv env pol inp rs w) :
    Inv env pol inp rs (runSched env pol inp rs w sched) := by
  induction sched generalizing w with
  | nil => exact hinv
  | cons i rest ih => exact ih _ (inv_step env pol inp rs w i hinv)

/-- **Checked = dialed, for every interleaving.**  Any number of workers ingest registrations for the
same key (copies of one message, or re-sent registrations with other covert strings), interleaved in
any order at the scheduling points of `ingestRegistration`, with any resolver.  Whenever a connection
handler would get a registration to dial (a valid entry), the string it hands to `net.Dial` is the
accepted output of a policy check of **the stored object's own** covert string: a literal of an
address the policy does not forbid. -/
theorem checked_is_dialed (raw : Nat → String) (c : Nat) (sched : List Nat) (s : String)
    (h : (runSched env pol inp rs (World.init raw c) sched).dialString = some s) :
    ∃ i n host port ip, (inp.ans i).split = some (host, port) ∧ rs n = .addr (some ip) "" ∧
      env.unspecified ip = false ∧ ¬ Forbids env pol ip ∧ s = (parseOrResolve env pol (inp.ans i) rs n).out ∧
      s = joinHostPort (env.ipText ip) port := by
  have hinv := inv_run env pol inp rs sched _ (inv_init env pol inp rs raw c)
  unfold World.dialString at h
  cases hst : (runSched env pol inp rs (World.init raw c) sched).store with
  | none => rw [hst] at h; cases h
  | some e =>
    rw [hst] at h
    cases hv : e.valid with
    | false => simp [hv] at h
    | true =>
      simp only [hv, if_true, Option.some.injEq] at h
      obtain ⟨_, n, hne, heq⟩ := hinv.valid e hst hv
      obtain ⟨host, port, ip, hs, _, _, hr, hu, hf, hout⟩ := accepted_is_permitted_literal env pol (inp.ans e.ptr) rs n hne
      exact ⟨e.ptr, n, host, port, ip, hs, hr, hu, hf, by rw [← h, heq], by rw [← h, heq, hout]⟩

/-- … and the dial itself: the stored string is recognised as the literal of that address and port; the
connection goes there, no resolver answer is consumed at dial time, and nothing the resolver would
answer now (`rs'`) has any influence. -/
theorem dialed_is_checked_literal (raw : Nat → String) (c : Nat) (sched : List Nat) (L : DialLib IP)
    (rs' : Resolver IP) (d : Dialed IP) (m : Nat)
    (h : (runSched env pol inp rs (World.init raw c) sched).proxyDial L rs' = some (d, m)) :
    ∃ i n host port ip, (inp.ans i).split = some (host, port) ∧ rs n = .addr (some ip) "" ∧ ¬ Forbids env pol ip ∧
      (L.splitHostPort (joinHostPort (env.ipText ip) port) = some (env.ipText ip, port) →
       L.parseIP (env.ipText ip) = some ip → L.unspecified ip = env.unspecified ip →
       d = .literal ip port ∧ m = (runSched env pol inp rs (World.init raw c) sched).cursor) := by
  unfold World.proxyDial at h
  cases hs : (runSched env pol inp rs (World.init raw c) sched).dialString with
  | none => rw [hs] at h; cases h
  | some s =>
    rw [hs] at h
    simp only [Option.map_some, Option.some.injEq] at h
    obtain ⟨i, n, host, port, ip, hsp, hr, hu, hf, _, hlit⟩ := checked_is_dialed env pol inp rs raw c sched s hs
    refine ⟨i, n, host, port, ip, hsp, hr, hf, ?_⟩
    intro hsplit hparse hun
    subst hlit
    unfold netDial at h
    rw [hsplit] at h
    simp only [hparse, hun, hu, Bool.false_eq_true, if_false, Prod.mk.injEq] at h
    exact ⟨h.1.symm, h.2.symm⟩

/-- a rejected covert never yields a dialable registration: if no worker's covert string is accepted
(at any resolver cursor), no interleaving produces a valid entry -/
theorem rejected_never_admitted (raw : Nat → String) (c : Nat) (sched : List Nat)
    (hrej : ∀ i n, (parseOrResolve env pol (inp.ans i) rs n).out = "") :
    (runSched env pol inp rs (World.init raw c) sched).dialString = none := by
  cases h : (runSched env pol inp rs (World.init raw c) sched).dialString with
  | none => rfl
  | some s =>
    obtain ⟨i, n, _, _, _, _, _, _, _, hs, _⟩ := checked_is_dialed env pol inp rs raw c sched s h
    have hne : s ≠ "" := by
      obtain ⟨_, _, _, _, _, _, _, _, _, _, hlit⟩ := checked_is_dialed env pol inp rs raw c sched s h
      rw [hlit]; exact joinHostPort_ne_empty _ _
    rw [hs, hrej i n] at hne
    exact absurd rfl hne

/-- **A re-sent registration cannot change what is dialed**: once a registration is dialable, no further
step of any worker (a duplicate with another covert string, a late copy) changes the string that is
handed to `net.Dial`. -/
theorem dial_string_stable (w : World) (i : Nat) (s : String) (hinv : Inv env pol inp rs w)
    (h : w.dialString = some s) : (step env pol inp rs w i).dialString = some s := by
  unfold World.dialString at h
  cases hst : w.store with
  | none => rw [hst] at h; cases h
  | some e =>
    rw [hst] at h
    cases hv : e.valid with
    | false => simp [hv] at h
    | true =>
      simp only [hv, if_true, Option.some.injEq] at h
      have hdone := (hinv.valid e hst hv).1
      unfold World.dialString
      rw [step_store_keeps_valid env pol inp rs w i e hst hv]
      simp only [hv, if_true, Option.some.injEq]
      by_cases hei : e.ptr = i
      · rw [step_done env pol inp rs w i (by rw [← hei]; exact hdone)]; exact h
      · rw [step_covertOf_other env pol inp rs w i _ hei]; exact h

/-- **Valid ⇒ the covert is the checked literal, at the register step and ever after.**  Any number of workers,
any interleaving, *every* prefix of it — in particular the very step in which `register` sets `Valid` and
announces the registration to the detector, and every moment from then on at which `GetRegistrations` would
return it: the `Covert` field of the stored object is already the accepted output of the admission check of that
object's own covert string, i.e. the literal of an address the policy does not forbid.  (The overwrite
`reg.Covert = covert` precedes `AddRegistration`; `dial_dominated_by_admission` reads that order off the code.) -/
theorem valid_implies_checked_covert (raw : Nat → String) (c : Nat) (sched : List Nat) (e : Entry)
    (hst : (runSched env pol inp rs (World.init raw c) sched).store = some e) (hv : e.valid = true) :
    ∃ n host port ip, (inp.ans e.ptr).split = some (host, port) ∧ rs n = .addr (some ip) "" ∧
      env.unspecified ip = false ∧ ¬ Forbids env pol ip ∧
      (∀ p ∈ pol.domains, env.matchString p host = false) ∧
      (runSched env pol inp rs (World.init raw c) sched).covertOf e.ptr = (parseOrResolve env pol (inp.ans e.ptr) rs n).out ∧
      (runSched env pol inp rs (World.init raw c) sched).covertOf e.ptr = joinHostPort (env.ipText ip) port := by
  have hinv := inv_run env pol inp rs sched _ (inv_init env pol inp rs raw c)
  obtain ⟨_, n, hne, heq⟩ := hinv.valid e hst hv
  obtain ⟨host, port, ip, hs, _, hd, hr, hu, hf, hout⟩ := accepted_is_permitted_literal env pol (inp.ans e.ptr) rs n hne
  exact ⟨n, host, port, ip, hs, hr, hu, hf, hd, heq, by rw [heq, hout]⟩

/-- the step that marks the entry valid: a worker at `beforeRegister` has already overwritten its object -/
theorem register_step_finds_checked_covert (w : World) (i : Nat) (hinv : Inv env pol inp rs w)
    (hpc : w.pc i = .beforeRegister) :
    Checked env pol inp rs w i ∧ ∃ v, w.store = some ⟨i, v⟩ :=
  ⟨hinv.ready i hpc, hinv.owner i (Or.inr hpc)⟩

/-! ### the dial-back of connecting transports -/

/-- worker `i` is finished and its object holds the accepted output of its own admission check -/
def Settled (w : World) (i : Nat) : Prop := w.pc i = .done ∧ Checked env pol inp rs w i

theorem settled_step (w : World) (i k : Nat) (h : Settled env pol inp rs w i) :
    Settled env pol inp rs (step env pol inp rs w k) i := by
  obtain ⟨hd, hc⟩ := h
  by_cases hki : i = k
  · subst hki
    rw [step_done env pol inp rs w i hd]; exact ⟨hd, hc⟩
  · exact ⟨by rw [step_pc_other env pol inp rs w k i hki]; exact hd,
      checked_of_covertOf_eq env pol inp rs (step_covertOf_other env pol inp rs w k i hki) hc⟩

theorem settled_run (sched : List Nat) (w : World) (i : Nat) (h : Settled env pol inp rs w i) :
    Settled env pol inp rs (runSched env pol inp rs w sched) i := by
  induction sched generalizing w with
  | nil => exact h
  | cons k rest ih => exact ih _ (settled_step env pol inp rs w i k h)

theorem launch_settled (w : World) (j : Nat) (hinv : Inv env pol inp rs w) (hpc : w.pc j = .beforeRegister) :
    Settled env pol inp rs (step env pol inp rs w j) j := by
  refine ⟨?_, ?_⟩
  · unfold step; simp [hpc, updateAt]
  · exact checked_of_covertOf_eq env pol inp rs
      (step_covertOf_self env pol inp rs w j (by rw [hpc]; intro h; cases h)) (hinv.ready j hpc)

theorem launched_settled (connecting : Nat → Bool) (sched : List Nat) (w : World) (hinv : Inv env pol inp rs w)
    (i : Nat) (hi : i ∈ launched connecting env pol inp rs w sched) (sched' : List Nat) :
    Settled env pol inp rs (runSched env pol inp rs w (sched ++ sched')) i := by
  induction sched generalizing w with
  | nil => simp [launched] at hi
  | cons j rest ih =>
    simp only [launched, List.mem_append] at hi
    simp only [List.cons_append, runSched]
    rcases hi with hi | hi
    · by_cases hc : w.pc j = .beforeRegister ∧ connecting j = true
      · simp only [hc, and_self, if_true, List.mem_singleton] at hi
        subst hi
        exact settled_run env pol inp rs _ _ _ (launch_settled env pol inp rs w i hinv hc.1)
      · simp [hc] at hi
    · exact ih _ (inv_step env pol inp rs w j hinv) hi

/-- **A dial-back happens only after admission, and dials what admission returned.**  Any number of workers
for one key, any interleaving: every dial-back goroutine that is launched belongs to a worker that has
finished its ingest with an accepted covert, and *whenever* that goroutine reads `reg.Covert` afterwards
(after any further steps `sched'` of any workers) the field holds the accepted output of the admission check
of that worker's own covert string — the literal of an address the policy does not forbid.  In particular
no dial-back is launched for a registration whose covert was refused. -/
theorem dialback_only_after_admission (connecting : Nat → Bool) (raw : Nat → String) (c : Nat) (sched sched' : List Nat)
    (i : Nat) (hi : i ∈ launched connecting env pol inp rs (World.init raw c) sched) :
    ∃ n host port ip, (inp.ans i).split = some (host, port) ∧ rs n = .addr (some ip) "" ∧
      env.unspecified ip = false ∧ ¬ Forbids env pol ip ∧
      (∀ p ∈ pol.domains, env.matchString p host = false) ∧
      (runSched env pol inp rs (World.init raw c) (sched ++ sched')).covertOf i =
        (parseOrResolve env pol (inp.ans i) rs n).out ∧
      (runSched env pol inp rs (World.init raw c) (sched ++ sched')).covertOf i = joinHostPort (env.ipText ip) port := by
  obtain ⟨_, n, hne, heq⟩ := launched_settled env pol inp rs connecting sched _ (inv_init env pol inp rs raw c) i hi sched'
  obtain ⟨host, port, ip, hs, _, hd, hr, hu, hf, hout⟩ := accepted_is_permitted_literal env pol (inp.ans i) rs n hne
  exact ⟨n, host, port, ip, hs, hr, hu, hf, hd, heq, by rw [heq, hout]⟩

/-- no admission, no dial-back: if no check of worker `i`'s covert string accepts, `i` launches nothing -/
theorem refused_launches_no_dialback (connecting : Nat → Bool) (raw : Nat → String) (c : Nat) (sched : List Nat) (i : Nat)
    (hrej : ∀ n, (parseOrResolve env pol (inp.ans i) rs n).out = "") :
    i ∉ launched connecting env pol inp rs (World.init raw c) sched := by
  intro hi
  obtain ⟨_, n, hne, _⟩ := launched_settled env pol inp rs connecting sched _ (inv_init env pol inp rs raw c) i hi []
  exact hne (hrej n)

end workers

/-! ### non-vacuity -/

def env0 : Env Nat Nat Unit :=
  { contains := fun n _ => n == 1, matchString := fun p _ => p == 9, ipText := fun _ => "198.51.100.7",
    unspecified := fun _ => false }
def pol0 : Policy Nat Nat := { block := [0, 2], allow := [], enableAllow := false, domains := [7] }
def ans0 : Answers := { providedIsIP := false, split := some ("198.51.100.7", "443"), portOk := true, hostIsIP := true }
def rs0 : Resolver Unit := fun _ => .addr (some ()) ""
/-- a resolver whose answer changes after the first lookup -/
def rsFlip : Resolver Unit := fun n => if n = 0 then .addr (some ()) "" else .err

-- a permitted literal is accepted (the hypotheses of the theorems above are satisfiable) …
example : parseOrResolve env0 pol0 ans0 rs0 5 = ⟨joinHostPort "198.51.100.7" "443", false, 6⟩ := by
  simp [parseOrResolve, env0, pol0, ans0, rs0, isBlocklistedCovertDomain, isBlocklistedCovertAddr, addrText]
example : (parseOrResolve env0 pol0 ans0 rs0 0).out ≠ "" :=
  (accepted_iff env0 pol0 ans0 rs0 0).mpr ⟨"198.51.100.7", "443", (), rfl, rfl, rfl, rfl, rfl, rfl, rfl,
    by simp [parseOrResolve, env0, pol0, ans0, rs0, isBlocklistedCovertDomain, isBlocklistedCovertAddr, addrText]⟩
-- … also under a resolver whose later answers differ …
example : parseOrResolve env0 pol0 ans0 rsFlip 0 = parseOrResolve env0 pol0 ans0 rs0 0 :=
  later_answers_irrelevant env0 pol0 ans0 rsFlip rs0 0 rfl
-- … the empty host (ResolveIPAddr gives an address without an IP) is rejected …
def ansEmpty : Answers := { ans0 with split := some ("", "80"), hostIsIP := false }
example : (parseOrResolve env0 pol0 ansEmpty (fun _ => .addr none "") 0).out = "" := by
  simp [parseOrResolve, env0, pol0, ans0, ansEmpty, isBlocklistedCovertDomain]
-- … and so is a zone
def ansZone : Answers := { ans0 with split := some ("::ffff:10.0.0.1%eth0", "80"), hostIsIP := false }
example : (parseOrResolve env0 pol0 ansZone (fun _ => .addr (some ()) "eth0") 0).out = "" := by
  simp [parseOrResolve, env0, pol0, ans0, ansZone, isBlocklistedCovertDomain, isBlocklistedCovertAddr]

/-- two workers for one key: worker 0 sends a name that is rejected, worker 1 a permitted literal -/
def inp0 : Inputs :=
  { ans := fun i => if i = 0 then { ans0 with split := some ("evil.test", "80"), hostIsIP := false } else ans0,
    passes := fun _ => true }
def rsTwo : Resolver Unit := fun n => if n = 0 then .err else .addr (some ()) ""
def raw0 : Nat → String := fun i => if i = 0 then "evil.test:80" else "198.51.100.7:443"
-- the interleaving of the race: 1 looks, 0 looks, 0 tracks (its object is stored), 1 tracks — and finds
-- another worker's object tracked: it is a duplicate and stops —, 0 is rejected: nothing is dialable.
-- (Before the repair worker 1 went on and validated worker 0's object, whose covert is the raw name.)
example : (runSched env0 pol0 inp0 rsTwo (World.init raw0 0) [1, 0, 0, 1, 0, 1, 1]).dialString = none := by
  simp [runSched, step, World.init, World.dialString, updateAt, parseOrResolve, inp0, ans0, rsTwo, env0,
    pol0, isBlocklistedCovertDomain]
/-- **Why the duplicate check after `TrackRegistration` is needed**: in the code before the repair the same
interleaving made the rejected worker's object dialable — with its raw, unchecked covert string (a name
that is resolved at dial time). -/
theorem unrepaired_dials_unchecked_covert :
    (runSchedUnrepaired env0 pol0 inp0 rsTwo (World.init raw0 0) [1, 0, 0, 1, 0, 1, 1]).dialString = some "evil.test:80" := by
  simp [runSchedUnrepaired, stepUnrepaired, step, World.init, World.dialString, updateAt, registerStep, parseOrResolve, inp0,
    ans0, rsTwo, env0, pol0, isBlocklistedCovertDomain, isBlocklistedCovertAddr, addrText, joinHostPort_ne_empty, raw0]
-- the same race won by the worker with the permitted literal: its own checked literal is what is dialable
example : (runSched env0 pol0 inp0 rs0 (World.init raw0 0) [1, 0, 1, 0, 0, 1, 1]).dialString
    = some (joinHostPort "198.51.100.7" "443") := by
  simp [runSched, step, World.init, World.dialString, updateAt, registerStep, parseOrResolve, inp0, ans0, rs0, env0,
    pol0, isBlocklistedCovertDomain, isBlocklistedCovertAddr, addrText, joinHostPort_ne_empty]
-- a single worker, sequentially: admitted with its checked literal; a later duplicate changes nothing
example : (runSched env0 pol0 inp0 rs0 (World.init raw0 0) [1, 1, 1, 1]).dialString
    = some (joinHostPort "198.51.100.7" "443") := by
  simp [runSched, step, World.init, World.dialString, updateAt, registerStep, parseOrResolve, inp0, ans0, rs0, env0,
    pol0, isBlocklistedCovertDomain, isBlocklistedCovertAddr, addrText, joinHostPort_ne_empty]
example : (runSched env0 pol0 inp0 rs0 (World.init raw0 0) [1, 1, 1, 1, 0, 0, 0, 0]).dialString
    = some (joinHostPort "198.51.100.7" "443") := by
  simp [runSched, step, World.init, World.dialString, updateAt, registerStep, parseOrResolve, inp0, ans0, rs0, env0,
    pol0, isBlocklistedCovertDomain, isBlocklistedCovertAddr, addrText, joinHostPort_ne_empty]
-- a connecting transport: the worker with the permitted literal launches one dial-back, for its own object,
-- at the very end; the worker whose covert is refused launches none
example : launched (fun _ => true) env0 pol0 inp0 rs0 (World.init raw0 0) [1, 1, 1, 1] = [1] := by
  simp [launched, step, World.init, updateAt, parseOrResolve, inp0, ans0, rs0, env0,
    pol0, isBlocklistedCovertDomain, isBlocklistedCovertAddr, addrText, joinHostPort_ne_empty]
example : launched (fun _ => true) env0 pol0 inp0 rsTwo (World.init raw0 0) [0, 0, 0, 0] = [] := by
  simp [launched, step, World.init, updateAt, parseOrResolve, inp0, ans0, rsTwo, env0, pol0, isBlocklistedCovertDomain]
/-- **Why the dial-back has to come after the admission step**: with `handleConnectingTpReg` called right
after the registration is tracked (in front of `ParseOrResolveBlocklisted`) a dial-back is launched for the
worker whose covert is then refused, and its goroutine finds the client's raw string — a name that is
resolved at dial time — in `reg.Covert`. -/
theorem early_dialback_dials_unchecked_covert :
    0 ∈ launchedEarly (fun _ => true) env0 pol0 inp0 rsTwo (World.init raw0 0) [0, 0, 0, 0] ∧
    (runSched env0 pol0 inp0 rsTwo (World.init raw0 0) [0, 0, 0, 0]).covertOf 0 = "evil.test:80" ∧
    (runSched env0 pol0 inp0 rsTwo (World.init raw0 0) [0, 0, 0, 0]).dialString = none := by
  refine ⟨?_, ?_, ?_⟩ <;>
  simp [launchedEarly, runSched, step, World.init, World.dialString, updateAt, parseOrResolve, inp0, ans0, rsTwo, env0, pol0,
    isBlocklistedCovertDomain, raw0]
/-- a worker whose covert is a host name that resolves to a permitted address -/
def inpName : Inputs :=
  { ans := fun _ => { ans0 with split := some ("ok.test", "443"), hostIsIP := false }, passes := fun _ => true }
def rawName : Nat → String := fun _ => "ok.test:443"
-- in the code as it is, the entry is marked valid with the checked literal in place …
example : (runSched env0 pol0 inpName rs0 (World.init rawName 0) [0, 0, 0, 0]).dialString
    = some (joinHostPort "198.51.100.7" "443") := by
  simp [runSched, step, World.init, World.dialString, updateAt, registerStep, parseOrResolve, inpName, ans0, rs0, env0,
    pol0, isBlocklistedCovertDomain, isBlocklistedCovertAddr, addrText, joinHostPort_ne_empty]
/-- **Why the overwrite has to come before `AddRegistration`**: with `reg.Covert = covert` moved behind it, the
entry is marked valid (announced, returned by `GetRegistrations`) while the object still holds the client's
host name; a connection matched at that moment hands the name to `net.Dial`, which resolves it again — with
whatever the resolver answers then. -/
theorem late_overwrite_visible_with_unchecked_covert :
    (runSchedLateOverwrite env0 pol0 inpName rs0 (World.init rawName 0) [0, 0, 0, 0]).dialString = some "ok.test:443" ∧
    ∀ (L : DialLib Unit) (rs' : Resolver Unit) (m : Nat), L.splitHostPort "ok.test:443" = some ("ok.test", "443") →
      L.parseIP "ok.test" = none → netDial L "ok.test:443" rs' m = (.resolved (rs' m) "443", m + 1) := by
  refine ⟨?_, fun L rs' m hs hp => name_is_resolved_at_dial L _ _ _ rs' m hs hp⟩
  simp [runSchedLateOverwrite, stepLateOverwrite, step, World.init, World.dialString, updateAt, registerStep, parseOrResolve,
    inpName, ans0, rs0, env0, pol0, isBlocklistedCovertDomain, isBlocklistedCovertAddr, addrText, joinHostPort_ne_empty, rawName]
-- the dial of that string consumes no resolver answer
def L0 : DialLib Unit :=
  { splitHostPort := fun s => if s = joinHostPort "198.51.100.7" "443" then some ("198.51.100.7", "443") else none,
    parseIP := fun h => if h = "198.51.100.7" then some () else none, unspecified := fun _ => false }
example : netDial L0 (joinHostPort "198.51.100.7" "443") rsFlip 3 = (.literal () "443", 3) := by
  simp [netDial, L0]
-- the unspecified address is rejected although no list names it
example : (parseOrResolve { env0 with unspecified := fun _ => true } pol0 ans0 rs0 0).out = "" :=
  unspecified_never_accepted _ pol0 ans0 rs0 0 () "" rfl rfl

/-! ### the order of the steps of `ingestRegistration`, as extracted from the source

The model above launches the dial-back in the last segment of a worker, after `AddRegistration`
(`launched`), and lets nothing else dial a registration that is not valid.  That the code has this shape is
read off the syntax tree on every run (`CJ/Gen/C06Ingest.lean`). -/

set_option maxRecDepth 16000 in
open CJ.IngestOrder in
/-- **Every call that can lead to a dial is dominated by the admission check and by `AddRegistration`**: the
body of `ingestRegistration` has no loops / switches / gotos / defers; every call, `go` statement or deferred
call of a function from which `Dial*(… reg.Covert …)` is reachable comes after — at nesting depth 0 and in this
order — `ParseOrResolveBlocklisted`, the `return` on an empty result, the overwrite `reg.Covert = <result>` and
`AddRegistration`; the `Covert` field is assigned nowhere else in that body; there is such a call (the table is
not empty); and the dial-leading functions are called from nowhere but one another and `ingestRegistration`. -/
theorem dial_dominated_by_admission :
    CJ.Gen.C06Ingest.ingestHasJumps = false ∧
    dominated CJ.Gen.C06Ingest.dialLeading 0 CJ.Gen.C06Ingest.ingestSteps = true ∧
    CJ.Gen.C06Ingest.ingestSteps.filter (fun s => s.1 == "assign") = [("assign", "Covert:=admitted", 0)] ∧
    (CJ.Gen.C06Ingest.ingestSteps.any (isDialStep CJ.Gen.C06Ingest.dialLeading)) = true ∧
    "Proxy" ∈ CJ.Gen.C06Ingest.dialLeading ∧
    (∀ c ∈ CJ.Gen.C06Ingest.dialCalls, c.1 ∈ CJ.Gen.C06Ingest.dialLeading ∨ c.1 = "ingestRegistration") := by
  decide

open CJ.IngestOrder in
/-- spelled out: wherever the flattened body is split at a dial step, the four markers occur in front of it,
in their order -/
theorem dial_step_after_markers (pre : List Step) (s : Step) (post : List Step)
    (hsplit : CJ.Gen.C06Ingest.ingestSteps = pre ++ s :: post)
    (hs : isDialStep CJ.Gen.C06Ingest.dialLeading s = true) : markers.Sublist pre := by
  have h := dial_dominated_by_admission.2.1
  rw [hsplit] at h
  exact dominated_markers_before _ pre s post h hs

end CJ.Props.C06
