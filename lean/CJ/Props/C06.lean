import CJ.Lemmas.Covert
/-!
# C06 — the station never dials a covert address that policy forbids

Property theorems only.  The theorems hold for **every** policy, every environment (`Contains`,
`MatchString` are arbitrary functions) and every combination of answers the standard library could give
(`Answers`), so in particular for every covert string and for resolvers whose answers change between
lookups: admission consumes one resolver answer, the proxy none.

Reading of "policy forbids" (decided with the lead, documented in `app_config.toml`: *"Override the
blocklist providing a more restrictive allowlist"*): when an allowlist is configured an address is
permitted iff it is inside the allowlist; otherwise iff it is outside every blocklisted subnet.  The
literal conjunction of the property text is kept as `accepted_is_permitted_literal_full`, refuted by
`accepted_is_permitted_literal_full_refuted` (overlapping lists), and proved under the condition that
the lists are disjoint (`accepted_outside_blocklist_and_inside_allowlist`).
-/

namespace CJ.Props.C06
open CJ.Covert

variable {Net Pat IP : Type}

/-- the configured policy forbids the address: a configured allowlist overrides the blocklist -/
def Forbids (env : Env Net Pat IP) (pol : Policy Net Pat) (ip : IP) : Prop :=
  if pol.enableAllow = true then ¬ inAny env pol.allow ip else inAny env pol.block ip

theorem isBlocklisted_iff_forbids (env : Env Net Pat IP) (pol : Policy Net Pat) (ip : IP) :
    isBlocklistedCovertAddr env pol ip = true ↔ Forbids env pol ip := by
  unfold isBlocklistedCovertAddr Forbids
  cases pol.enableAllow with
  | true =>
    simp only [if_true, Bool.not_eq_true', ← any_contains_iff]
    cases List.any pol.allow fun n => env.contains n ip <;> simp
  | false => simp only [Bool.false_eq_true, if_false, any_contains_iff]

/-- **Accepted ⇒ permitted literal.**  If the covert is not rejected then: the string split into host and
port, the port is a uint16, the host matched no blocklisted domain pattern, the single resolution gave an
address with an IP and no zone, the policy does not forbid that IP, and the returned string is exactly
`JoinHostPort(text of that address, port)`. -/
theorem accepted_is_permitted_literal (env : Env Net Pat IP) (pol : Policy Net Pat) (a : Answers IP)
    (h : (parseOrResolve env pol a).out ≠ "") :
    ∃ host port ip text,
      a.split = some (host, port) ∧ a.portOk = true ∧
      (∀ p ∈ pol.domains, env.matchString p host = false) ∧
      a.resolved = .addr (some ip) "" text ∧
      ¬ Forbids env pol ip ∧
      (parseOrResolve env pol a).out = joinHostPort text port := by
  obtain ⟨host, port, ip, text, _, hs, hd, hk, hr, hb, hout⟩ := (accepted_iff env pol a).mp h
  refine ⟨host, port, ip, text, hs, hk, ?_, hr, ?_, by rw [hout]⟩
  · intro p hp
    unfold isBlocklistedCovertDomain at hd
    cases hm : env.matchString p host with
    | false => rfl
    | true =>
      have : (pol.domains.any fun p => env.matchString p host) = true := List.any_eq_true.mpr ⟨p, hp, hm⟩
      rw [this] at hd; cases hd
  · intro hf
    rw [← isBlocklisted_iff_forbids, hb] at hf; cases hf

/-- without an allowlist: outside every blocklisted subnet -/
theorem accepted_outside_blocklist (env : Env Net Pat IP) (pol : Policy Net Pat) (a : Answers IP)
    (hna : pol.enableAllow = false) (h : (parseOrResolve env pol a).out ≠ "") :
    ∃ ip zone_free_text, a.resolved = .addr (some ip) "" zone_free_text ∧
      ∀ n ∈ pol.block, env.contains n ip = false := by
  obtain ⟨_, _, ip, text, _, _, _, hr, hf, _⟩ := accepted_is_permitted_literal env pol a h
  refine ⟨ip, text, hr, ?_⟩
  intro n hn
  cases hc : env.contains n ip with
  | false => rfl
  | true =>
    exfalso; apply hf
    unfold Forbids; simp only [hna, Bool.false_eq_true, if_false]
    exact ⟨n, hn, hc⟩

/-- with an allowlist configured: inside the allowlist -/
theorem accepted_inside_allowlist (env : Env Net Pat IP) (pol : Policy Net Pat) (a : Answers IP)
    (hal : pol.enableAllow = true) (h : (parseOrResolve env pol a).out ≠ "") :
    ∃ ip text, a.resolved = .addr (some ip) "" text ∧ inAny env pol.allow ip := by
  obtain ⟨_, _, ip, text, _, _, _, hr, hf, _⟩ := accepted_is_permitted_literal env pol a h
  refine ⟨ip, text, hr, ?_⟩
  unfold Forbids at hf
  simp only [hal, if_true] at hf
  exact Classical.not_not.mp hf

/-- the literal conjunction of the property text -/
def accepted_is_permitted_literal_full : Prop :=
  ∀ (env : Env Nat Nat Unit) (pol : Policy Nat Nat) (a : Answers Unit),
    (pol.enableAllow = true ↔ pol.allow ≠ []) →
    (parseOrResolve env pol a).out ≠ "" →
    ∃ ip zone text, a.resolved = .addr (some ip) zone text ∧
      (∀ n ∈ pol.block, env.contains n ip = false) ∧ (pol.allow ≠ [] → inAny env pol.allow ip)

/-- … does not hold: a configured allowlist overrides the blocklist, so an address inside both lists is
accepted (documented behaviour; not repaired, see the header). -/
theorem accepted_is_permitted_literal_full_refuted : ¬ accepted_is_permitted_literal_full := by
  intro hfull
  let env : Env Nat Nat Unit := { contains := fun _ _ => true, matchString := fun _ _ => false }
  let pol : Policy Nat Nat := { block := [0], allow := [1], enableAllow := true, domains := [] }
  let a : Answers Unit := { providedIsIP := false, split := some ("10.1.2.3", "80"), portOk := true,
                            hostIsIP := true, resolved := .addr (some ()) "" "10.1.2.3" }
  have hacc : (parseOrResolve env pol a).out ≠ "" := by
    apply (accepted_iff env pol a).mpr
    exact ⟨"10.1.2.3", "80", (), "10.1.2.3", rfl, rfl, rfl, rfl, rfl, rfl, rfl⟩
  obtain ⟨ip, zone, text, _, hb, _⟩ := hfull env pol a (by simp [pol]) hacc
  have := hb 0 (by simp [pol])
  simp [env] at this

/-- … and holds whenever the two lists are disjoint on the resolved address (in particular when the
allowlist is "more restrictive", as the configuration file describes it, or absent). -/
theorem accepted_outside_blocklist_and_inside_allowlist (env : Env Net Pat IP) (pol : Policy Net Pat)
    (a : Answers IP) (hwf : pol.enableAllow = true ↔ pol.allow ≠ [])
    (hdisj : ∀ ip, inAny env pol.allow ip → ¬ inAny env pol.block ip)
    (h : (parseOrResolve env pol a).out ≠ "") :
    ∃ ip text, a.resolved = .addr (some ip) "" text ∧
      (∀ n ∈ pol.block, env.contains n ip = false) ∧ (pol.allow ≠ [] → inAny env pol.allow ip) := by
  obtain ⟨_, _, ip, text, _, _, _, hr, hf, _⟩ := accepted_is_permitted_literal env pol a h
  refine ⟨ip, text, hr, ?_, ?_⟩
  · intro n hn
    cases hc : env.contains n ip with
    | false => rfl
    | true =>
      exfalso
      have hin : inAny env pol.block ip := ⟨n, hn, hc⟩
      unfold Forbids at hf
      by_cases hal : pol.enableAllow = true
      · simp only [hal, if_true] at hf
        exact hdisj ip (Classical.not_not.mp hf) hin
      · simp only [hal] at hf
        exact hf hin
  · intro hne
    have hal := hwf.mpr hne
    unfold Forbids at hf
    simp only [hal, if_true] at hf
    exact Classical.not_not.mp hf

/-- **Checked = dialed.**  A registration passes the covert step only with a non-rejected covert; the
string then stored on the registration — the string `Proxy` hands to `net.Dial` — is the string that
`ParseOrResolveBlocklisted` returned, i.e. the text of the one address that was policy-checked; and
that admission consulted the resolver exactly once. -/
theorem checked_is_dialed (env : Env Net Pat IP) (pol : Policy Net Pat) (reg reg' : Reg) (a : Answers IP)
    (h : ingestCovert env pol reg a = some reg') :
    proxyDial reg' = (parseOrResolve env pol a).out ∧ (parseOrResolve env pol a).out ≠ "" ∧
      reg'.valid = true ∧ (parseOrResolve env pol a).resolverCalls = 1 := by
  unfold ingestCovert at h
  simp only at h
  split at h
  · cases h
  · rename_i hne
    simp only [Option.some.injEq] at h
    subst h
    refine ⟨rfl, hne, rfl, ?_⟩
    obtain ⟨_, _, _, _, _, _, _, _, _, _, hout⟩ := (accepted_iff env pol a).mp hne
    rw [hout]

/-- a rejected covert never yields a valid registration -/
theorem rejected_never_admitted (env : Env Net Pat IP) (pol : Policy Net Pat) (reg : Reg) (a : Answers IP)
    (h : (parseOrResolve env pol a).out = "") : ingestCovert env pol reg a = none := by
  unfold ingestCovert; simp [h]

/-- names are resolved at most once per admission, whatever the outcome -/
theorem resolved_at_most_once (env : Env Net Pat IP) (pol : Policy Net Pat) (a : Answers IP) :
    (parseOrResolve env pol a).resolverCalls ≤ 1 := resolverCalls_le_one env pol a

/-- the dialed string is the text of the checked address joined with the checked port -/
theorem dialed_is_checked_literal (env : Env Net Pat IP) (pol : Policy Net Pat) (reg reg' : Reg) (a : Answers IP)
    (h : ingestCovert env pol reg a = some reg') :
    ∃ host port ip text, a.split = some (host, port) ∧ a.resolved = .addr (some ip) "" text ∧
      ¬ Forbids env pol ip ∧ proxyDial reg' = joinHostPort text port := by
  obtain ⟨hd, hne, _, _⟩ := checked_is_dialed env pol reg reg' a h
  obtain ⟨host, port, ip, text, hs, _, _, hr, hf, hout⟩ := accepted_is_permitted_literal env pol a hne
  exact ⟨host, port, ip, text, hs, hr, hf, by rw [hd, hout]⟩

/-- **A well-formed permitted literal is accepted unchanged.**  `provided = JoinHostPort host port` with
`host` a canonical literal (it parses, and resolves to itself without a zone), a uint16 port, a host that
matches no blocklisted pattern and an address the policy does not forbid: the result is `provided`
itself, and no name was resolved. -/
theorem permitted_literal_unchanged (env : Env Net Pat IP) (pol : Policy Net Pat) (a : Answers IP)
    (provided host port : String) (ip : IP)
    (hprov : provided = joinHostPort host port)
    (hnotip : a.providedIsIP = false)                       -- "host:port" is not itself an IP
    (hs : a.split = some (host, port)) (hport : a.portOk = true)
    (hlit : a.hostIsIP = true) (hres : a.resolved = .addr (some ip) "" host)
    (hdom : ∀ p ∈ pol.domains, env.matchString p host = false)
    (hperm : ¬ Forbids env pol ip) :
    parseOrResolve env pol a = ⟨provided, false, 1⟩ := by
  have hd : isBlocklistedCovertDomain env pol host = false := by
    unfold isBlocklistedCovertDomain
    cases hx : (pol.domains.any fun p => env.matchString p host) with
    | false => rfl
    | true =>
      obtain ⟨p, hp, hm⟩ := List.any_eq_true.mp hx
      rw [hdom p hp] at hm; cases hm
  have hb : isBlocklistedCovertAddr env pol ip = false := by
    cases hx : isBlocklistedCovertAddr env pol ip with
    | false => rfl
    | true => exact absurd ((isBlocklisted_iff_forbids env pol ip).mp hx) hperm
  simp [parseOrResolve, hnotip, hs, hd, hport, hlit, hres, hb, hprov]

/-! ### non-vacuity -/

def env0 : Env Nat Nat Unit := { contains := fun n _ => n == 1, matchString := fun p _ => p == 9 }
def pol0 : Policy Nat Nat := { block := [0, 2], allow := [], enableAllow := false, domains := [7] }
def ans0 : Answers Unit := { providedIsIP := false, split := some ("198.51.100.7", "443"), portOk := true,
                             hostIsIP := true, resolved := .addr (some ()) "" "198.51.100.7" }

-- a permitted literal is accepted (the hypotheses of the theorems above are satisfiable) …
example : parseOrResolve env0 pol0 ans0 = ⟨joinHostPort "198.51.100.7" "443", false, 1⟩ := by
  simp [parseOrResolve, env0, pol0, ans0, isBlocklistedCovertDomain, isBlocklistedCovertAddr]
example : (parseOrResolve env0 pol0 ans0).out ≠ "" :=
  (accepted_iff env0 pol0 ans0).mpr ⟨"198.51.100.7", "443", (), "198.51.100.7", rfl, rfl, rfl, rfl, rfl, rfl,
    by simp [parseOrResolve, env0, pol0, ans0, isBlocklistedCovertDomain, isBlocklistedCovertAddr]⟩
-- … the empty host (ResolveIPAddr gives an address without an IP) is rejected …
def ansEmpty : Answers Unit :=
  { ans0 with split := some ("", "80"), hostIsIP := false, resolved := .addr none "" "" }
example : (parseOrResolve env0 pol0 ansEmpty).out = "" := by
  simp [parseOrResolve, env0, pol0, ans0, ansEmpty, isBlocklistedCovertDomain]
-- … and so is a zone
def ansZone : Answers Unit :=
  { ans0 with split := some ("::ffff:10.0.0.1%eth0", "80"), hostIsIP := false,
              resolved := .addr (some ()) "eth0" "10.0.0.1%eth0" }
example : (parseOrResolve env0 pol0 ansZone).out = "" := by
  simp [parseOrResolve, env0, pol0, ans0, ansZone, isBlocklistedCovertDomain, isBlocklistedCovertAddr]

end CJ.Props.C06
