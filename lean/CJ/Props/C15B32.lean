import CJ.Props.C15
import CJ.Lemmas.Base32
/-!
# C15 — base32 inside the model

`CJ.Props.C15` states the request path and the whole exchange for *any* text codec with the two laws of
`B32Laws`.  Here the codec is the executable model of Go's `encoding/base32` without padding
(`CJ/Model/Base32.lean`, corresponded with the real `Encode` / `Decode` on the lines `b32|enc`, `b32|dec`,
`b32|name`), the laws are **proved** for it (`b32_roundtrip`, `b32_alphabet_upper`, hence `b32_laws`), and the
path theorems are restated without the hypothesis.  The capacity of a query name is given in bytes of the
packet (`b32_length`: ⌈8n/5⌉ characters), so that the limit of `send` under a base domain is arithmetic on
the packet length alone (`query_capacity_bytes`, `query_capacity_bytes_example`: 147 bytes under
`t.example.com`, i.e. a Noise message of at most 146 bytes).

What the decoder does with texts the encoder never writes is part of the model (and of the correspondence)
but not of the property; three facts about it are recorded because the responder meets such texts on the
open Internet: newlines are dropped before decoding (`b32_decode_ignores_newlines`), a dangling symbol is
dropped without an error — the decoder is not injective (`b32_decoder_not_injective`) —, and the byte `0xFF`
is taken for padding (`b32_ff_is_padding`).
-/
namespace CJ.Props.C15
open CJ.Codec

/-- **base32 round trip**, every byte string, no bound on the length -/
theorem b32_roundtrip (p : Bytes) : Base32.decode (Base32.encode p) = some p := Base32.decode_encode p

/-- the encoder writes only `A`..`Z`, `2`..`7`: in particular no lower-case letter, no newline, no `0xFF` -/
theorem b32_alphabet (p : Bytes) : ∀ b ∈ Base32.encode p,
    ((65 ≤ b.toNat ∧ b.toNat ≤ 90) ∨ (50 ≤ b.toNat ∧ b.toNat ≤ 55)) := by
  intro b hb
  obtain ⟨v, rfl⟩ := Base32.mem_encode p b hb
  rw [Base32.encChar_toNat]
  have : v % 32 < 32 := Nat.mod_lt _ (by omega)
  split <;> omega

theorem b32_alphabet_upper (p : Bytes) : ∀ b ∈ Base32.encode p, ¬ (97 ≤ b ∧ b ≤ 122) := by
  intro b hb
  obtain ⟨v, rfl⟩ := Base32.mem_encode p b hb
  exact (Base32.encChar_ne v).2.2.2

/-- the two laws the path theorems of `CJ.Props.C15` assume, for the modelled codec: no longer a hypothesis -/
theorem b32_laws : B32Laws Base32.encode Base32.decode := ⟨b32_roundtrip, b32_alphabet_upper⟩

/-- `EncodedLen`: ⌈8n/5⌉ characters for `n` bytes -/
theorem b32_length (p : Bytes) : (Base32.encode p).length = (8 * p.length + 4) / 5 := by
  rw [Base32.length_encode, Base32.encodedLen_eq]

/-- the buffer `responseFor` allocates (`DecodedLen` of the text) is exactly as long as the packet -/
theorem b32_decoded_buffer_exact (p : Bytes) : Base32.decodedLen (Base32.encode p).length = p.length := by
  rw [Base32.length_encode, Base32.decodedLen_encodedLen]

/-- **capacity in bytes of the packet**: the query name of an `n`-byte packet under `dom` takes ⌈8n/5⌉
characters, one length byte per started 63-character label, and the encoding of `dom` -/
theorem query_capacity_bytes (p : Bytes) (dom : Name) :
    nameWireLen (chunks ((Base32.encode p).map toLowerB) 63 ++ dom) =
      (8 * p.length + 4) / 5 + ((8 * p.length + 4) / 5 + 62) / 63 + nameWireLen dom := by
  rw [query_capacity, List.length_map, b32_length]

/-- under `t.example.com`, `send` accepts a packet iff it has at most 147 bytes -/
theorem query_capacity_bytes_example (p : Bytes) :
    (sendName (Base32.encode p) exampleDom).isOk = true ↔ p.length ≤ 147 := by
  rw [(query_capacity_example (Base32.encode p)).1, b32_length]
  omega

/-- the query name of the packet `p` is the packet again at the responder, for the real codec -/
theorem query_payload_roundtrip_b32 (p : Bytes) (dom name : Name)
    (h : sendName (Base32.encode p) dom = .ok name) :
    (recvEncoded name dom).bind Base32.decode = some p :=
  query_payload_roundtrip _ _ b32_laws p dom name h

/-- … and through a resolver that rewrites the letter case of the name -/
theorem query_payload_roundtrip_recased_b32 (p : Bytes) (dom n m : Name)
    (h : sendName (Base32.encode p) dom = .ok n) (hc : CaseEq m n) :
    (recvEncoded m dom).bind Base32.decode = some p :=
  query_payload_roundtrip_recased _ _ b32_laws p dom n m h hc

/-- **request path, round trip, base32 modelled**: only Noise is left as a parameter -/
theorem request_path_roundtrip_b32 (seal_ : Bytes → Bytes) (open_ : Bytes → Option Bytes) (N : NoiseLaws seal_ open_)
    (dom : Name) (id : UInt16) (maxUDP : Nat) (hm : maxUDP ≤ 4096) (p buf : Bytes)
    (h : requestEncode seal_ Base32.encode dom id p = .ok buf) :
    requestDecode open_ Base32.decode dom maxUDP buf = some p :=
  request_path_roundtrip seal_ open_ N _ _ b32_laws dom id maxUDP hm p buf h

/-- **request path, exactly what is accepted, in bytes**: for a base domain with valid labels the encoder
succeeds iff the Noise message `m` has at most 255 bytes and ⌈8(|m|+1)/5⌉ characters fit the name -/
theorem request_accepts_iff_bytes (seal_ : Bytes → Bytes) (dom : Name) (id : UInt16) (p : Bytes)
    (hd : ∀ l ∈ dom, 0 < l.length ∧ l.length ≤ 63) :
    (requestEncode seal_ Base32.encode dom id p).isOk = true ↔
      (seal_ p).length ≤ 255 ∧
      (8 * ((seal_ p).length + 1) + 4) / 5 + ((8 * ((seal_ p).length + 1) + 4) / 5 + 62) / 63
        + nameWireLen dom ≤ 255 := by
  rw [request_accepts_iff_capacity seal_ Base32.encode dom id p hd, b32_length]
  simp only [List.length_cons]

/-- under `t.example.com`: a Noise message of at most 146 bytes (the frame byte makes 147) -/
theorem request_accepts_iff_bytes_example (seal_ : Bytes → Bytes) (id : UInt16) (p : Bytes) :
    (requestEncode seal_ Base32.encode exampleDom id p).isOk = true ↔ (seal_ p).length ≤ 146 := by
  rw [request_accepts_iff_bytes seal_ exampleDom id p (by decide)]
  have hw : nameWireLen exampleDom = 15 := by decide
  rw [hw]
  omega

/-- **the whole exchange, base32 modelled** -/
theorem exchange_roundtrip_b32 (seal_ : Bytes → Bytes) (open_ : Bytes → Option Bytes) (Nq : NoiseLaws seal_ open_)
    (sealR : Bytes → Bytes) (openR : Bytes → Option Bytes) (Nr : NoiseLaws sealR openR)
    (dom : Name) (id : UInt16) (maxUDP : Nat) (hm : maxUDP ≤ 4096) (p r qbuf : Bytes)
    (hq : requestEncode seal_ Base32.encode dom id p = .ok qbuf) (hlen : (sealR r).length + 2 ≤ 4096) :
    requestDecode open_ Base32.decode dom maxUDP qbuf = some p ∧
    ∃ resp f rbuf, responseFor (lenientParse qbuf) dom maxUDP Base32.decode = some (resp, some f) ∧
      ResponseShape resp dom ∧
      responseEncode sealR resp r = .ok rbuf ∧ responseDecode openR dom rbuf = some r :=
  exchange_roundtrip seal_ open_ Nq sealR openR Nr _ _ b32_laws dom id maxUDP hm p r qbuf hq hlen

/-- the hypotheses of `request_path_roundtrip_b32` are satisfiable (toy Noise, the real codec) -/
example : ∃ buf, requestEncode toySeal Base32.encode exampleDom 7 [1, 2, 3] = .ok buf ∧
    requestDecode toyOpen Base32.decode exampleDom 1232 buf = some [1, 2, 3] := by
  have hok : (requestEncode toySeal Base32.encode exampleDom 7 [1, 2, 3]).isOk = true := by
    rw [request_accepts_iff_bytes_example]; decide
  match h : requestEncode toySeal Base32.encode exampleDom 7 [1, 2, 3] with
  | .ok buf => exact ⟨buf, rfl, request_path_roundtrip_b32 toySeal toyOpen toyNoise exampleDom 7 1232 (by omega) _ buf h⟩
  | .err _ => rw [h] at hok; cases hok
  | .panic _ => rw [h] at hok; cases hok
  | .hang => rw [h] at hok; cases hok

/-! ## the decoder on texts the encoder never writes -/

/-- `\r` and `\n` anywhere in the text are dropped before decoding -/
theorem b32_decode_ignores_newlines (a b : Bytes) (c : UInt8) (hc : c = 13 ∨ c = 10) :
    Base32.decode (a ++ c :: b) = Base32.decode (a ++ b) := by
  unfold Base32.decode Base32.stripNewlines
  rcases hc with rfl | rfl <;> simp [List.filter_append]

/-- a dangling symbol gives neither a byte nor an error: `"AAA"` decodes like the empty text, and
`"AAAAAAAAA"` (nine symbols) like `"AAAAAAAA"`.  The decoder is not injective, so `decode t = some p` does
not make `t` the encoding of `p` -/
theorem b32_decoder_not_injective :
    Base32.decode [65, 65, 65] = some [] ∧ Base32.decode [] = some [] ∧
    Base32.decode [65, 65, 65, 65, 65, 65, 65, 65, 65] = Base32.decode [65, 65, 65, 65, 65, 65, 65, 65] := by
  refine ⟨?_, ?_, ?_⟩ <;>
    simp [Base32.decode, Base32.stripNewlines, Base32.decodeQuanta, Base32.readQuantum, Base32.decVal, Base32.pack]

/-- the byte `0xFF` (`byte(NoPadding)`) is read as padding: `AA` followed by six of them decodes like `AA`,
five are "not enough padding" -/
theorem b32_ff_is_padding :
    Base32.decode [65, 65, 255, 255, 255, 255, 255, 255] = some [0] ∧
    Base32.decode [65, 65, 255, 255, 255, 255, 255] = none := by
  refine ⟨?_, ?_⟩ <;>
    simp [Base32.decode, Base32.stripNewlines, Base32.decodeQuanta, Base32.readQuantum, Base32.decVal, Base32.pack]

/-- a byte outside the alphabet that is neither a newline nor `0xFF` makes the decoder fail when it stands
in the first quantum -/
theorem b32_rejects_foreign_first (c : UInt8) (rest : Bytes) (h1 : Base32.decVal c = none)
    (h2 : c ≠ 13 ∧ c ≠ 10 ∧ c ≠ 255) : Base32.decode (c :: rest) = none := by
  unfold Base32.decode Base32.stripNewlines
  have : List.filter (fun b => !(b == 13 || b == 10)) (c :: rest) =
      c :: List.filter (fun b => !(b == 13 || b == 10)) rest := by simp [h2.1, h2.2.1]
  rw [this, Base32.decodeQuanta]
  simp [Base32.readQuantum, h1, h2.2.2]

end CJ.Props.C15
