import CJ.Lemmas.Config
import CJ.Lemmas.Liveness
import CJ.Model.Covert
import CJ.Gen.C19Guards
import CJ.Gen.C19Sources
/-!
# C19 — accepted configurations run housekeeping safely; a bad reload changes nothing

Property theorems only.  The parser oracles (`cidr` = `net.ParseCIDR ∘ strings.TrimSpace`, `re` =
`regexp.Compile`), the TOML decoder and the file loaders of the reload are arbitrary: the theorems hold
for every configuration, every list of entries and every sequence of reloads.
-/

namespace CJ.Props.C19
open CJ.Config

variable {Net Pat : Type}

/-- **Every entry of an accepted configuration is enforced.**  If `ParseBlocklists` succeeds, each of the
four parsed lists consists of exactly the parse results of the configured entries, one by one and in
order (the covert blocklist possibly followed by the local interfaces' subnets), and the allowlist is
enabled exactly when it has an entry. -/
theorem accepted_enforces_every_entry (cidr : String → Outcome Net) (re : String → Outcome Pat)
    (ifaces : Option (List Net)) (raw : Raw) (parsed : Parsed Net Pat)
    (h : parseBlocklists cidr re ifaces raw = .ok parsed) :
    (∃ blk extra, ParsesTo cidr raw.block blk ∧ parsed.block = blk ++ extra ∧ (raw.publicAddrs = false → extra = [])) ∧
      ParsesTo re raw.domains parsed.domains ∧
      ParsesTo cidr raw.phantom parsed.phantom ∧
      ParsesTo cidr raw.allow parsed.allow ∧
      (parsed.enableAllow = true ↔ parsed.allow ≠ []) ∧
      (raw.allow ≠ [] → parsed.enableAllow = true) := by
  unfold parseBlocklists at h
  cases hb : parseAll cidr raw.block with
  | err => simp [hb] at h
  | panic => simp [hb] at h
  | ok blk =>
    cases hd : parseAll re raw.domains with
    | err => simp [hb, hd] at h
    | panic => simp [hb, hd] at h
    | ok dom =>
      cases hp : parseAll cidr raw.phantom with
      | err => simp [hb, hd, hp] at h
      | panic => simp [hb, hd, hp] at h
      | ok ph =>
        cases ha : parseAll cidr raw.allow with
        | err => simp [hb, hd, hp, ha] at h
        | panic => simp [hb, hd, hp, ha] at h
        | ok al =>
          simp only [hb, hd, hp, ha, Outcome.ok.injEq] at h
          subst h
          have hbp := (parseAll_ok_iff cidr raw.block blk).mp hb
          have hap := (parseAll_ok_iff cidr raw.allow al).mp ha
          refine ⟨?_, (parseAll_ok_iff re raw.domains dom).mp hd, (parseAll_ok_iff cidr raw.phantom ph).mp hp, hap, ?_, ?_⟩
          · cases hpub : raw.publicAddrs with
            | false => exact ⟨blk, [], hbp, by simp, fun _ => rfl⟩
            | true =>
              cases ifaces with
              | none => exact ⟨blk, [], hbp, by simp, fun h => by cases h⟩
              | some nets => exact ⟨blk, nets, hbp, by simp, fun h => by cases h⟩
          · cases al <;> simp
          · intro hne
            cases al with
            | nil =>
              unfold ParsesTo at hap
              cases hra : raw.allow with
              | nil => exact absurd hra hne
              | cons _ _ => rw [hra] at hap; simp at hap
            | cons _ _ => simp

/-- **A malformed entry rejects the load**: if any subnet entry or any domain pattern does not parse, the
configuration is not accepted … -/
theorem malformed_entry_rejects_load (cidr : String → Outcome Net) (re : String → Outcome Pat)
    (ifaces : Option (List Net)) (raw : Raw)
    (hbad : (∃ s, (s ∈ raw.block ∨ s ∈ raw.phantom ∨ s ∈ raw.allow) ∧ ∀ n, cidr s ≠ .ok n) ∨
            (∃ s, s ∈ raw.domains ∧ ∀ r, re s ≠ .ok r))
    (parsed : Parsed Net Pat) : parseBlocklists cidr re ifaces raw ≠ .ok parsed := by
  intro h
  obtain ⟨⟨blk, _, hb, _, _⟩, hd, hp, ha, _, _⟩ := accepted_enforces_every_entry cidr re ifaces raw parsed h
  rcases hbad with ⟨s, hs, hn⟩ | ⟨s, hs, hn⟩
  · rcases hs with hs | hs | hs
    · exact parseAll_not_ok_of_bad cidr raw.block s hs hn blk ((parseAll_ok_iff _ _ _).mpr hb)
    · exact parseAll_not_ok_of_bad cidr raw.phantom s hs hn parsed.phantom ((parseAll_ok_iff _ _ _).mpr hp)
    · exact parseAll_not_ok_of_bad cidr raw.allow s hs hn parsed.allow ((parseAll_ok_iff _ _ _).mpr ha)
  · exact parseAll_not_ok_of_bad re raw.domains s hs hn parsed.domains ((parseAll_ok_iff _ _ _).mpr hd)

/-- … and loading never panics as long as the parsers themselves return errors instead of panicking
(`net.ParseCIDR` and `regexp.Compile` do; `regexp.MustCompile` did not). -/
theorem load_no_panic (cidr : String → Outcome Net) (re : String → Outcome Pat)
    (hc : ∀ s, cidr s ≠ .panic) (hr : ∀ s, re s ≠ .panic) (ifaces : Option (List Net)) (d : Decoded) :
    parseConfig cidr re ifaces d ≠ .panic := by
  have key : ∀ raw, parseBlocklists cidr re ifaces raw ≠ .panic := by
    intro raw
    unfold parseBlocklists
    have h1 := parseAll_no_panic cidr hc raw.block
    have h2 := parseAll_no_panic re hr raw.domains
    have h3 := parseAll_no_panic cidr hc raw.phantom
    have h4 := parseAll_no_panic cidr hc raw.allow
    cases hb : parseAll cidr raw.block with
    | err => simp
    | panic => exact absurd hb h1
    | ok blk =>
      cases hd : parseAll re raw.domains with
      | err => simp
      | panic => exact absurd hd h2
      | ok dom =>
        cases hp : parseAll cidr raw.phantom with
        | err => simp
        | panic => exact absurd hp h3
        | ok ph =>
          cases ha : parseAll cidr raw.allow with
          | err => simp
          | panic => exact absurd ha h4
          | ok al => simp
  cases d with
  | err => simp [parseConfig]
  | ok reg =>
    cases reg with
    | none => simp only [parseConfig]; exact key _
    | some raw => simp only [parseConfig]; exact key raw

/-- so, under that contract, a malformed entry makes the load *fail* (an error, not a crash) -/
theorem malformed_entry_is_an_error (cidr : String → Outcome Net) (re : String → Outcome Pat)
    (hc : ∀ s, cidr s ≠ .panic) (hr : ∀ s, re s ≠ .panic) (ifaces : Option (List Net)) (raw : Raw)
    (hbad : (∃ s, (s ∈ raw.block ∨ s ∈ raw.phantom ∨ s ∈ raw.allow) ∧ ∀ n, cidr s ≠ .ok n) ∨
            (∃ s, s ∈ raw.domains ∧ ∀ r, re s ≠ .ok r)) :
    parseConfig cidr re ifaces (.ok (some raw)) = .err := by
  have h1 := load_no_panic cidr re hc hr ifaces (.ok (some raw))
  have h2 := malformed_entry_rejects_load cidr re ifaces raw hbad
  simp only [parseConfig] at h1 ⊢
  cases h : parseBlocklists cidr re ifaces raw with
  | err => rfl
  | panic => exact absurd h h1
  | ok p => exact absurd h (h2 p)

/-- a file that sets no registration option is the zero configuration, not a crash -/
theorem empty_file_is_zero_config (cidr : String → Outcome Net) (re : String → Outcome Pat)
    (ifaces : Option (List Net)) :
    parseConfig cidr re ifaces (.ok none) = .ok ⟨[], [], [], [], false⟩ := by
  simp [parseConfig, parseBlocklists, parseAll, Raw.zero]

variable {Sel Pol Geo : Type}

/-- **Reload is atomic per part.**  One SIGHUP: if the configuration did not load, nothing changes; if it
did, the address policies are the new ones, and the phantom selector / GeoIP database are the new ones
exactly when their own files loaded — otherwise the previous version of that part stays. -/
theorem reload_part_atomic (st st' : Station Sel Pol Geo) (conf : Outcome Pol) (sel : Option Sel) (geo : GeoLoad Geo)
    (h : reload st conf sel geo = .ok st') :
    (conf = .err ∧ st' = st) ∨
    (∃ pol, conf = .ok pol ∧ st'.policy = pol ∧
      st'.selector = sel.getD st.selector ∧ st'.geoip = geo.loaded.getD st.geoip) := by
  cases conf with
  | err => left; simp only [reload, Outcome.ok.injEq] at h; exact ⟨rfl, h.symm⟩
  | panic => simp [reload] at h
  | ok pol =>
    right
    simp only [reload, Outcome.ok.injEq] at h
    subst h
    refine ⟨pol, rfl, ?_, ?_, ?_⟩ <;> cases sel <;> cases geo <;> simp [onReload, GeoLoad.loaded]

/-- a reload panics only if loading the configuration panics -/
theorem reload_no_panic (st : Station Sel Pol Geo) (conf : Outcome Pol) (sel : Option Sel) (geo : GeoLoad Geo)
    (h : conf ≠ .panic) : ∃ st', reload st conf sel geo = .ok st' := by
  cases conf with
  | err => exact ⟨st, rfl⟩
  | panic => exact absurd rfl h
  | ok pol => exact ⟨_, rfl⟩

/-- **Any sequence of reloads**: as long as no configuration load panics the station survives, and every
part in force afterwards is either the start-up version or the version a *successful* load step of one of
the reloads produced — a failed load never contributes anything. -/
theorem reloads_parts_from_loaded (evs : List (Outcome Pol × Option Sel × GeoLoad Geo)) (st : Station Sel Pol Geo)
    (hnp : ∀ ev ∈ evs, ev.1 ≠ .panic) :
    ∃ st', reloads st evs = .ok st' ∧
      (st'.policy = st.policy ∨ ∃ ev ∈ evs, ev.1 = .ok st'.policy) ∧
      (st'.selector = st.selector ∨ ∃ ev ∈ evs, (∃ pol, ev.1 = .ok pol) ∧ ev.2.1 = some st'.selector) ∧
      (st'.geoip = st.geoip ∨ ∃ ev ∈ evs, (∃ pol, ev.1 = .ok pol) ∧ ev.2.2.loaded = some st'.geoip) := by
  induction evs generalizing st with
  | nil => exact ⟨st, rfl, Or.inl rfl, Or.inl rfl, Or.inl rfl⟩
  | cons ev rest ih =>
    obtain ⟨c, s, g⟩ := ev
    have hc : c ≠ .panic := hnp (c, s, g) (List.mem_cons_self ..)
    obtain ⟨st1, h1⟩ := reload_no_panic st c s g hc
    obtain ⟨st', h2, hp, hs, hg⟩ := ih st1 (fun ev hev => hnp ev (List.mem_cons_of_mem _ hev))
    refine ⟨st', by simp only [reloads, h1]; exact h2, ?_, ?_, ?_⟩
    · rcases hp with hp | ⟨ev, hev, hp⟩
      · rcases reload_part_atomic st st1 c s g h1 with ⟨_, rfl⟩ | ⟨pol, rfl, hpol, _, _⟩
        · exact Or.inl hp
        · right; exact ⟨(.ok pol, s, g), List.mem_cons_self .., by rw [hp, hpol]⟩
      · exact Or.inr ⟨ev, List.mem_cons_of_mem _ hev, hp⟩
    · rcases hs with hs | ⟨ev, hev, hs⟩
      · rcases reload_part_atomic st st1 c s g h1 with ⟨_, rfl⟩ | ⟨pol, rfl, _, hsel, _⟩
        · exact Or.inl hs
        · cases s with
          | none => left; rw [hs, hsel]; rfl
          | some s0 =>
            right
            exact ⟨(.ok pol, some s0, g), List.mem_cons_self .., ⟨pol, rfl⟩, by rw [hs, hsel]; rfl⟩
      · exact Or.inr ⟨ev, List.mem_cons_of_mem _ hev, hs⟩
    · rcases hg with hg | ⟨ev, hev, hg⟩
      · rcases reload_part_atomic st st1 c s g h1 with ⟨_, rfl⟩ | ⟨pol, rfl, _, _, hgeo⟩
        · exact Or.inl hg
        · cases hl : g.loaded with
          | none => left; rw [hg, hgeo, hl]; rfl
          | some g0 =>
            right
            refine ⟨(.ok pol, s, g), List.mem_cons_self .., ⟨pol, rfl⟩, ?_⟩
            rw [hg, hgeo, hl]; rfl
      · exact Or.inr ⟨ev, List.mem_cons_of_mem _ hev, hg⟩

/-- **Every subset of failing loading steps.**  One SIGHUP in which an arbitrary subset of the three loading
steps {configuration, phantom subnets file, GeoIP databases} fails: if the configuration is in the subset
nothing changes; otherwise the address policies are the new ones **whatever the other two did**, and each of
the other two parts is the new version exactly when its own step is not in the subset.  (The parts are
independent: no failure of one part keeps another part's new version out or lets its own result in.) -/
theorem reload_failure_subsets (st : Station Sel Pol Geo) (pol : Pol) (s : Sel) (g : Geo)
    (confFails selFails geoFails geoUnnamed : Bool) :
    reload st (if confFails then .err else .ok pol) (if selFails then none else some s)
        (if geoFails then .err else if geoUnnamed then .missing g else .ok g) =
      .ok (if confFails then st else
        { selector := if selFails then st.selector else s, policy := pol,
          geoip := if geoFails then st.geoip else g }) := by
  cases confFails <;> cases selFails <;> cases geoFails <;> cases geoUnnamed <;> rfl

/-- **Any sequence of reloads, exactly**: as long as no configuration load panics, after the whole sequence
every part is the version produced by the *last* reload in which that part loaded (`lastSelector`,
`lastPolicy`, `lastGeoip` in `CJ.Model.Config`) — the failures of other parts, in the same or in later
reloads, neither keep it out nor replace it. -/
theorem reloads_eq_last_loaded (evs : List (Outcome Pol × Option Sel × GeoLoad Geo)) (st : Station Sel Pol Geo)
    (hnp : ∀ ev ∈ evs, ev.1 ≠ .panic) :
    reloads st evs = .ok ⟨lastSelector st.selector evs, lastPolicy st.policy evs, lastGeoip st.geoip evs⟩ :=
  reloads_eq_last evs st hnp

/-- the address policy in force after a sequence of reloads does not depend on what happened to the subnets
files and the GeoIP databases: two sequences with the same configuration outcomes leave the same policy -/
theorem policy_independent_of_other_parts (evs evs' : List (Outcome Pol × Option Sel × GeoLoad Geo))
    (st : Station Sel Pol Geo) (hconf : evs.map (·.1) = evs'.map (·.1)) :
    lastPolicy st.policy evs = lastPolicy st.policy evs' := by
  induction evs generalizing evs' st with
  | nil =>
    cases evs' with
    | nil => rfl
    | cons _ _ => simp at hconf
  | cons ev rest ih =>
    cases evs' with
    | nil => simp at hconf
    | cons ev' rest' =>
      obtain ⟨c, s, g⟩ := ev
      obtain ⟨c', s', g'⟩ := ev'
      simp only [List.map_cons, List.cons.injEq] at hconf
      obtain ⟨hc, hr⟩ := hconf
      subst hc
      cases c with
      | ok pol => simp only [lastPolicy]; exact ih rest' ⟨st.selector, pol, st.geoip⟩ hr
      | err => simp only [lastPolicy]; exact ih rest' st hr
      | panic => simp only [lastPolicy]; exact ih rest' st hr

/-- a reload whose configuration does not load changes nothing at all -/
theorem failed_reload_changes_nothing (st : Station Sel Pol Geo) (sel : Option Sel) (geo : GeoLoad Geo) :
    reload st (.err : Outcome Pol) sel geo = .ok st := rfl

/-- **Housekeeping never panics**: for every liveness tester — in particular the tester of every accepted
configuration after every history — the statistics printer completes and reports the lengths of the
caches that exist (0 for a cache that is not configured). -/
theorem housekeeping_no_panic (t : CJ.Liveness.Tester) :
    printStats t = .ok (((t.cacheFor true).map (·.len)).getD 0, ((t.cacheFor false).map (·.len)).getD 0) := by
  cases t with
  | uncached => rfl
  | cached live nonLive =>
    cases live <;> cases nonLive <;> simp [printStats, lenOf, CJ.Liveness.Tester.cacheFor]

theorem housekeeping_no_panic_run (cfg : CJ.Liveness.Config) (ops : List CJ.Liveness.Op) :
    printStats (CJ.Liveness.run cfg ops) ≠ .panic := by
  rw [housekeeping_no_panic]; simp

/-! ### from "the entry is in the parsed list" to "the entry decides"

`accepted_enforces_every_entry` ends at the parsed lists.  The statements below continue to the decision
functions the station consults (`isBlocklistedCovertAddr`, `isBlocklistedCovertDomain`,
`IsBlocklistedPhantom`) and on to the covert-address admission of C06 (`parseOrResolve` over the same
lists): a configured entry decides every address / host name it covers, and nothing else decides. -/

section enforcement
variable {IP : Type}

/-- without an allowlist: an address is refused as covert address iff a configured blocklist entry (or,
with `covert_blocklist_public_addrs`, a local interface subnet) contains it -/
theorem blocklist_enforced_iff (cidr : String → Outcome Net) (re : String → Outcome Pat)
    (ifaces : Option (List Net)) (raw : Raw) (parsed : Parsed Net Pat)
    (h : parseBlocklists cidr re ifaces raw = .ok parsed) (hno : raw.allow = [])
    (contains : Net → IP → Bool) (ip : IP) :
    parsed.covertAddrBlocked contains ip = true ↔
      (∃ s ∈ raw.block, ∃ n, cidr s = .ok n ∧ contains n ip = true) ∨
      (raw.publicAddrs = true ∧ ∃ nets, ifaces = some nets ∧ ∃ n ∈ nets, contains n ip = true) := by
  obtain ⟨_, _, _, ha, hen, _⟩ := accepted_enforces_every_entry cidr re ifaces raw parsed h
  obtain ⟨blk, hb, hbe⟩ := parseBlocklists_block cidr re ifaces raw parsed h
  have hal : parsed.allow = [] := by rw [hno] at ha; exact parsesTo_nil cidr _ ha
  have hoff : parsed.enableAllow = false := by
    cases he : parsed.enableAllow with
    | false => rfl
    | true => exact absurd hal (hen.mp he)
  unfold Parsed.covertAddrBlocked
  simp only [hoff, Bool.false_eq_true, if_false, hbe, List.any_append, Bool.or_eq_true, List.any_eq_true]
  constructor
  · rintro (⟨n, hn, hc⟩ | ⟨n, hn, hc⟩)
    · obtain ⟨s, hs, hp⟩ := parsesTo_mem_rev cidr raw.block blk hb n hn
      exact Or.inl ⟨s, hs, n, hp, hc⟩
    · right
      unfold publicExtra at hn
      cases hp : raw.publicAddrs with
      | false => simp [hp] at hn
      | true =>
        simp only [hp, if_true] at hn
        cases ifaces with
        | none => simp at hn
        | some nets => exact ⟨rfl, nets, rfl, n, hn, hc⟩
  · rintro (⟨s, hs, n, hp, hc⟩ | ⟨hp, nets, rfl, n, hn, hc⟩)
    · exact Or.inl ⟨n, parsesTo_mem cidr raw.block blk hb s hs n hp, hc⟩
    · right
      unfold publicExtra
      simp only [hp, if_true, Option.getD_some]
      exact ⟨n, hn, hc⟩

/-- with an allowlist: an address is refused iff no configured allowlist entry contains it (the allowlist
takes precedence: the blocklist is not consulted) -/
theorem allowlist_enforced_iff (cidr : String → Outcome Net) (re : String → Outcome Pat)
    (ifaces : Option (List Net)) (raw : Raw) (parsed : Parsed Net Pat)
    (h : parseBlocklists cidr re ifaces raw = .ok parsed) (hne : raw.allow ≠ [])
    (contains : Net → IP → Bool) (ip : IP) :
    parsed.covertAddrBlocked contains ip = false ↔ ∃ s ∈ raw.allow, ∃ n, cidr s = .ok n ∧ contains n ip = true := by
  obtain ⟨_, _, _, ha, _, hon⟩ := accepted_enforces_every_entry cidr re ifaces raw parsed h
  unfold Parsed.covertAddrBlocked
  simp only [hon hne, if_true, Bool.not_eq_false', List.any_eq_true]
  constructor
  · rintro ⟨n, hn, hc⟩
    obtain ⟨s, hs, hp⟩ := parsesTo_mem_rev cidr raw.allow parsed.allow ha n hn
    exact ⟨s, hs, n, hp, hc⟩
  · rintro ⟨s, hs, n, hp, hc⟩
    exact ⟨n, parsesTo_mem cidr raw.allow parsed.allow ha s hs n hp, hc⟩

/-- a host name is refused iff a configured pattern matches it -/
theorem domains_enforced_iff (cidr : String → Outcome Net) (re : String → Outcome Pat)
    (ifaces : Option (List Net)) (raw : Raw) (parsed : Parsed Net Pat)
    (h : parseBlocklists cidr re ifaces raw = .ok parsed) (matchString : Pat → String → Bool) (host : String) :
    parsed.covertDomainBlocked matchString host = true ↔
      ∃ s ∈ raw.domains, ∃ r, re s = .ok r ∧ matchString r host = true := by
  obtain ⟨_, hd, _, _, _, _⟩ := accepted_enforces_every_entry cidr re ifaces raw parsed h
  unfold Parsed.covertDomainBlocked
  simp only [List.any_eq_true]
  constructor
  · rintro ⟨r, hr, hc⟩
    obtain ⟨s, hs, hp⟩ := parsesTo_mem_rev re raw.domains parsed.domains hd r hr
    exact ⟨s, hs, r, hp, hc⟩
  · rintro ⟨s, hs, r, hp, hc⟩
    exact ⟨r, parsesTo_mem re raw.domains parsed.domains hd s hs r hp, hc⟩

/-- a phantom address is refused iff a configured phantom-blocklist entry contains it -/
theorem phantom_enforced_iff (cidr : String → Outcome Net) (re : String → Outcome Pat)
    (ifaces : Option (List Net)) (raw : Raw) (parsed : Parsed Net Pat)
    (h : parseBlocklists cidr re ifaces raw = .ok parsed) (contains : Net → IP → Bool) (ip : IP) :
    parsed.phantomBlocked contains ip = true ↔ ∃ s ∈ raw.phantom, ∃ n, cidr s = .ok n ∧ contains n ip = true := by
  obtain ⟨_, _, hp', _, _, _⟩ := accepted_enforces_every_entry cidr re ifaces raw parsed h
  unfold Parsed.phantomBlocked
  simp only [List.any_eq_true]
  constructor
  · rintro ⟨n, hn, hc⟩
    obtain ⟨s, hs, hp⟩ := parsesTo_mem_rev cidr raw.phantom parsed.phantom hp' n hn
    exact ⟨s, hs, n, hp, hc⟩
  · rintro ⟨s, hs, n, hp, hc⟩
    exact ⟨n, parsesTo_mem cidr raw.phantom parsed.phantom hp' s hs n hp, hc⟩

/-- **An entry is enforced whatever else is in its list.**  Split each configured list at an arbitrary entry
`s` (`pre ++ s :: post`): no matter which entries precede or follow it — repetitions of `s`, entries with the
same network address and another prefix length, subnets containing it or contained in it, other spellings
of the same subnet — in an accepted configuration `s` decides every address / host it covers: a blocklist
entry refuses (no allowlist configured), a phantom-blocklist entry refuses, an allowlist entry permits, a
pattern refuses. -/
theorem entry_enforced_among_any_others (cidr : String → Outcome Net) (re : String → Outcome Pat)
    (ifaces : Option (List Net)) (raw : Raw) (parsed : Parsed Net Pat)
    (h : parseBlocklists cidr re ifaces raw = .ok parsed) (pre post : List String) (s : String)
    (contains : Net → IP → Bool) (matchString : Pat → String → Bool) :
    (raw.block = pre ++ s :: post → raw.allow = [] → ∀ n ip, cidr s = .ok n → contains n ip = true →
        parsed.covertAddrBlocked contains ip = true) ∧
    (raw.phantom = pre ++ s :: post → ∀ n ip, cidr s = .ok n → contains n ip = true →
        parsed.phantomBlocked contains ip = true) ∧
    (raw.allow = pre ++ s :: post → ∀ n ip, cidr s = .ok n → contains n ip = true →
        parsed.covertAddrBlocked contains ip = false) ∧
    (raw.domains = pre ++ s :: post → ∀ r host, re s = .ok r → matchString r host = true →
        parsed.covertDomainBlocked matchString host = true) := by
  refine ⟨?_, ?_, ?_, ?_⟩
  · intro hl hno n ip hn hc
    exact (blocklist_enforced_iff cidr re ifaces raw parsed h hno contains ip).mpr
      (Or.inl ⟨s, by rw [hl]; simp, n, hn, hc⟩)
  · intro hl n ip hn hc
    exact (phantom_enforced_iff cidr re ifaces raw parsed h contains ip).mpr ⟨s, by rw [hl]; simp, n, hn, hc⟩
  · intro hl n ip hn hc
    have hne : raw.allow ≠ [] := by rw [hl]; simp
    exact (allowlist_enforced_iff cidr re ifaces raw parsed h hne contains ip).mpr ⟨s, by rw [hl]; simp, n, hn, hc⟩
  · intro hl r host hr hm
    exact (domains_enforced_iff cidr re ifaces raw parsed h matchString host).mpr ⟨s, by rw [hl]; simp, r, hr, hm⟩

/-! ### the phantom blocklist at the outcome of the ingest, for every registration source -/

/-- **A blocklisted phantom is refused whatever the source of the registration**, provided every source that
`ValidateRegistration` exempts from its early check is covered by the late check of `ingestRegistration`. -/
theorem phantom_entry_enforced_for_every_source (exemptEarly checkedLate : List Nat)
    (h : ∀ s ∈ exemptEarly, s ∈ checkedLate) (src : Nat) :
    phantomAdmitted exemptEarly checkedLate src true = false := by
  unfold phantomAdmitted
  cases he : exemptEarly.contains src with
  | false => simp
  | true =>
    have hm : src ∈ checkedLate := h src (List.contains_iff_mem.mp he)
    have hl : checkedLate.contains src = true := List.contains_iff_mem.mpr hm
    rw [hl]; simp

/-- … and that is exactly what is needed: if some source is exempted early and not checked late, a
registration from that source with a blocklisted phantom gets through -/
theorem exempt_unchecked_source_admitted (exemptEarly checkedLate : List Nat) (src : Nat)
    (he : src ∈ exemptEarly) (hl : src ∉ checkedLate) :
    phantomAdmitted exemptEarly checkedLate src true = true := by
  unfold phantomAdmitted
  have h1 : exemptEarly.contains src = true := List.contains_iff_mem.mpr he
  have h2 : checkedLate.contains src = false := by
    cases hc : checkedLate.contains src with
    | false => rfl
    | true => exact absurd (List.contains_iff_mem.mp hc) hl
  rw [h1, h2]; simp

/-- the source sets read off the code: every source exempted early is checked late, the late check precedes
`AddRegistration`, and a number outside the enum is not exempted -/
theorem exempt_early_checked_late :
    (∀ s ∈ CJ.Gen.C19Sources.exemptEarly, s ∈ CJ.Gen.C19Sources.checkedLate) ∧
    CJ.Gen.C19Sources.lateBeforeAdd = true ∧
    CJ.Gen.C19Sources.outsideEnum ∉ CJ.Gen.C19Sources.exemptEarly ∧
    (∀ s ∈ CJ.Gen.C19Sources.exemptEarly, s ∈ CJ.Gen.C19Sources.sources.map (·.2)) := by decide

/-- **Every phantom-blocklist entry is enforced at the outcome of the ingest, for every source** (the enum
values and every other number), with the source sets of the code -/
theorem phantom_entry_enforced_for_every_source_extracted (src : Nat) :
    phantomAdmitted CJ.Gen.C19Sources.exemptEarly CJ.Gen.C19Sources.checkedLate src true = false :=
  phantom_entry_enforced_for_every_source _ _ exempt_early_checked_late.1 src

/-- from the configured entry to the outcome: in an accepted configuration a registration from any source
whose phantom lies inside a configured phantom-blocklist entry does not get past the checks -/
theorem phantom_entry_enforced_at_ingest (cidr : String → Outcome Net) (re : String → Outcome Pat)
    (ifaces : Option (List Net)) (raw : Raw) (parsed : Parsed Net Pat)
    (h : parseBlocklists cidr re ifaces raw = .ok parsed)
    (s : String) (hs : s ∈ raw.phantom) (n : Net) (hn : cidr s = .ok n)
    (contains : Net → IP → Bool) (ip : IP) (hc : contains n ip = true) (src : Nat) :
    phantomAdmitted CJ.Gen.C19Sources.exemptEarly CJ.Gen.C19Sources.checkedLate src
      (parsed.phantomBlocked contains ip) = false := by
  have hb : parsed.phantomBlocked contains ip = true :=
    (phantom_enforced_iff cidr re ifaces raw parsed h contains ip).mpr ⟨s, hs, n, hn, hc⟩
  rw [hb]
  exact phantom_entry_enforced_for_every_source_extracted src

/-- the address policy C06's admission model is evaluated with, built from the parsed configuration -/
def toPolicy (p : Parsed Net Pat) : CJ.Covert.Policy Net Pat :=
  { block := p.block, allow := p.allow, enableAllow := p.enableAllow, domains := p.domains }

theorem toPolicy_addr (env : CJ.Covert.Env Net Pat IP) (p : Parsed Net Pat) (ip : IP) :
    CJ.Covert.isBlocklistedCovertAddr env (toPolicy p) ip = p.covertAddrBlocked env.contains ip := rfl

theorem toPolicy_domain (env : CJ.Covert.Env Net Pat IP) (p : Parsed Net Pat) (host : String) :
    CJ.Covert.isBlocklistedCovertDomain env (toPolicy p) host = p.covertDomainBlocked env.matchString host := rfl

/-- **A configured blocklist entry is enforced at decision time**: in an accepted configuration without an
allowlist, C06's admission predicate refuses every address inside a configured blocklist subnet (by
`CJ.Props.C06.accepted_is_permitted_literal` such an address is then never accepted, stored or dialed). -/
theorem blocklist_entry_forbids (cidr : String → Outcome Net) (re : String → Outcome Pat)
    (ifaces : Option (List Net)) (raw : Raw) (parsed : Parsed Net Pat)
    (h : parseBlocklists cidr re ifaces raw = .ok parsed) (hno : raw.allow = [])
    (s : String) (hs : s ∈ raw.block) (n : Net) (hn : cidr s = .ok n)
    (env : CJ.Covert.Env Net Pat IP) (ip : IP) (hc : env.contains n ip = true) :
    CJ.Covert.isBlocklistedCovertAddr env (toPolicy parsed) ip = true := by
  rw [toPolicy_addr]
  exact (blocklist_enforced_iff cidr re ifaces raw parsed h hno env.contains ip).mpr (Or.inl ⟨s, hs, n, hn, hc⟩)

/-- **A configured allowlist is enforced at decision time**: C06's admission predicate refuses every address
outside all configured allowlist subnets, and admits every address inside one of them. -/
theorem allowlist_forbids_outside (cidr : String → Outcome Net) (re : String → Outcome Pat)
    (ifaces : Option (List Net)) (raw : Raw) (parsed : Parsed Net Pat)
    (h : parseBlocklists cidr re ifaces raw = .ok parsed) (hne : raw.allow ≠ [])
    (env : CJ.Covert.Env Net Pat IP) (ip : IP) :
    CJ.Covert.isBlocklistedCovertAddr env (toPolicy parsed) ip = true ↔
      ∀ s ∈ raw.allow, ∀ n, cidr s = .ok n → env.contains n ip = false := by
  rw [toPolicy_addr]
  constructor
  · intro hb s hs n hp
    cases hc : env.contains n ip with
    | false => rfl
    | true =>
      have := (allowlist_enforced_iff cidr re ifaces raw parsed h hne env.contains ip).mpr ⟨s, hs, n, hp, hc⟩
      rw [this] at hb; cases hb
  · intro hout
    cases hb : parsed.covertAddrBlocked env.contains ip with
    | true => rfl
    | false =>
      obtain ⟨s, hs, n, hp, hc⟩ := (allowlist_enforced_iff cidr re ifaces raw parsed h hne env.contains ip).mp hb
      rw [hout s hs n hp] at hc; cases hc

/-- **A configured domain pattern is enforced at decision time** -/
theorem domain_entry_forbids (cidr : String → Outcome Net) (re : String → Outcome Pat)
    (ifaces : Option (List Net)) (raw : Raw) (parsed : Parsed Net Pat)
    (h : parseBlocklists cidr re ifaces raw = .ok parsed)
    (s : String) (hs : s ∈ raw.domains) (r : Pat) (hre : re s = .ok r)
    (env : CJ.Covert.Env Net Pat IP) (host : String) (hm : env.matchString r host = true) :
    CJ.Covert.isBlocklistedCovertDomain env (toPolicy parsed) host = true := by
  rw [toPolicy_domain]
  exact (domains_enforced_iff cidr re ifaces raw parsed h env.matchString host).mpr ⟨s, hs, r, hre, hm⟩

/-- a reload whose configuration does not load leaves every decision as it was; one that loads decides
with the new lists only -/
theorem reload_decisions {Sel Geo : Type} (st st' : Station Sel (Parsed Net Pat) Geo) (conf : Outcome (Parsed Net Pat))
    (sel : Option Sel) (geo : GeoLoad Geo) (h : reload st conf sel geo = .ok st')
    (contains : Net → IP → Bool) (ip : IP) :
    (conf = .err ∧ st'.policy.covertAddrBlocked contains ip = st.policy.covertAddrBlocked contains ip) ∨
    (∃ pol, conf = .ok pol ∧ st'.policy.covertAddrBlocked contains ip = pol.covertAddrBlocked contains ip) := by
  rcases reload_part_atomic st st' conf sel geo h with ⟨hc, rfl⟩ | ⟨pol, hc, hp, _, _⟩
  · exact Or.inl ⟨hc, rfl⟩
  · exact Or.inr ⟨pol, hc, by rw [hp]⟩

end enforcement

/-! ### the nil tests of the statistics printer, as extracted from the source

`CJ.Gen.C19Guards.cacheCalls` is regenerated from pkg/station/liveness on every run: every method call
through an optional cache field in every method of `*CachedLivenessTester`, with the fields whose `!= nil`
test encloses it. -/

/-- the calls of one method, as `Deref`s of the model -/
def derefsOf (method : String) : List Deref :=
  (CJ.Gen.C19Guards.cacheCalls.filter (fun c => c.1 == method)).map (fun c => ⟨c.2.1, c.2.2.2⟩)

/-- every method call through an optional cache is enclosed by a nil test of **that** cache -/
theorem every_cache_call_guarded : ∀ c ∈ CJ.Gen.C19Guards.cacheCalls, c.2.1 ∈ c.2.2.2 := by decide

/-- the table speaks about the two cache fields of the model and nothing else -/
theorem cache_calls_known :
    CJ.Gen.C19Guards.optionalFields = cacheNames ∧
    ∀ c ∈ CJ.Gen.C19Guards.cacheCalls, c.2.1 ∈ cacheNames ∧ ∀ g ∈ c.2.2.2, g ∈ cacheNames := by decide

/-- the extractor saw the printer: it calls through both caches (a table that lost the printer would make
the next theorem empty) -/
theorem printStats_calls_present :
    "printStats" ∈ CJ.Gen.C19Guards.methods ∧
    (∃ d ∈ derefsOf "printStats", d.field = "ipCacheLive") ∧ (∃ d ∈ derefsOf "printStats", d.field = "ipCacheNonLive") := by
  decide

/-- **Housekeeping never panics, on the extracted guards**: for every method of the cached tester — the
statistics printer, the cache clean-up, the query path — and every combination of configured / absent
caches, no call goes through a nil cache. -/
theorem housekeeping_no_panic_extracted (method : String) (live nonLive : Option CJ.Liveness.Cache) :
    runDerefs live nonLive (derefsOf method) = .ok () := by
  apply runDerefs_guarded
  intro d hd
  unfold derefsOf at hd
  obtain ⟨c, hc, rfl⟩ := List.mem_map.mp hd
  exact every_cache_call_guarded c (List.mem_filter.mp hc).1

/-- … and that is exactly what is needed: a printer with a call that is not guarded by its own field panics
for some accepted configuration (the defect repaired in 809a733 was `ipCacheNonLive.Len()` under
`if ipCacheLive != nil`) -/
theorem unguarded_call_panics :
    ¬ ∀ live nonLive, runDerefs live nonLive [⟨"ipCacheLive", ["ipCacheLive"]⟩, ⟨"ipCacheNonLive", ["ipCacheLive"]⟩] ≠ .panic := by
  rw [no_panic_iff_self_guarded _ (by decide)]
  decide

/-! ### non-vacuity -/

def raw0 : Raw := { block := ["10.0.0.0/8", "fc00::/7 "], domains := ["localhost"], phantom := [], allow := ["a/24"], publicAddrs := false }

-- an accepted configuration (every entry parses) …
example : parseBlocklists (fun _ => Outcome.ok 1) (fun _ => Outcome.ok 2) none raw0 = .ok ⟨[1, 1], [2], [], [1], true⟩ := by
  simp [parseBlocklists, parseAll, raw0]
-- … two entries with one network address and different prefix lengths, narrow first: both are in the parsed list …
example : parseBlocklists (fun s => if s = "10.0.0.0/24" then Outcome.ok 24 else .ok 8) (fun _ => Outcome.ok 0) none
    { block := ["10.0.0.0/24", "10.0.0.0/8"], domains := [], phantom := [], allow := [], publicAddrs := false } =
    .ok ⟨[24, 8], [], [], [], false⟩ := by
  simp [parseBlocklists, parseAll]
-- … a malformed pattern makes the load fail …
example : parseBlocklists (fun _ => Outcome.ok 1) (fun _ => (Outcome.err : Outcome Nat)) none raw0 = .err := by
  simp [parseBlocklists, parseAll, raw0]
-- … a reload whose GeoIP databases fail while policy and subnets load (the policy is the new one) …
example : reload (⟨0, 0, 0⟩ : Station Nat Nat Nat) (.ok 1) (some 1) .err = .ok ⟨1, 1, 0⟩ := rfl
example : lastPolicy (Sel := Nat) (Geo := Nat) 0 [(.ok 1, none, .err), (.err, some 2, .ok 2), (.ok 3, none, .err)] = 3 := rfl
-- … a reload mixing a failed configuration load and a failed subnets load
example : reloads (⟨0, 0, 0⟩ : Station Nat Nat Nat) [(.ok 1, none, .missing 1), (.err, some 2, .ok 2)] = .ok ⟨0, 1, 1⟩ := by
  simp [reloads, reload, onReload]

end CJ.Props.C19
