import CJ.Model.HalfPipe
/-!
# C04 — the hand-off: relay deadlines on the wrapped connection

`handleNewTCPConn` clears the classification deadline and hands the *wrapped* connection to `Proxy`
(`CJ.Props.C04.deadline_cleared_then_proxy`).  Each direction of the relay then arms a deadline on both
of its connections before the first read and again after every read, and gives the tunnel up when one of
these calls fails (`CJ/Model/HalfPipe.lean`, C05: `armBoth`, `loop`).  A wrapped connection need not
support `SetDeadline`: the obfs4 connection answers `ENOTSUP`, and `setConnDeadline` then falls back to
`SetReadDeadline` (`DlRes.unsupported fallbackOk`).  This is where C04 meets C05: the flight of an obfs4
client is recognised (C04) but nothing is relayed unless that fallback succeeds.

The statements below are about the core of the relay model only (`armBoth`, `loop`), whatever the read
and write scripts are.
-/
namespace CJ.Props.C04Relay
open CJ.HalfPipe

/-- every `setConnDeadline` succeeds — directly, or through the `SetReadDeadline` fallback -/
def AllOk (ds : List DlRes) : Prop := ∀ d ∈ ds, d.succeeds = true

theorem popDl_ok (ds : List DlRes) (h : AllOk ds) : (popDl ds).1.succeeds = true ∧ AllOk (popDl ds).2 := by
  cases ds with
  | nil => exact ⟨rfl, by intro d hd; cases hd⟩
  | cons d t => exact ⟨h d (List.mem_cons_self ..), fun x hx => h x (List.mem_cons_of_mem _ hx)⟩

theorem armBoth_ok (ds : List DlRes) (h : AllOk ds) : (armBoth ds).2.1 = none ∧ AllOk (armBoth ds).2.2 := by
  obtain ⟨h1, h1'⟩ := popDl_ok ds h
  obtain ⟨h2, h2'⟩ := popDl_ok (popDl ds).2 h1'
  simp only [armBoth, arm, h1, h2]
  exact ⟨rfl, h2'⟩

theorem afterWrite_ok (er : Option Err) (ds : List DlRes) (k : List DlRes → Res) (h : AllOk ds)
    (hk : ∀ ds', AllOk ds' → (k ds').dlFail = none) : (afterWrite er ds k).dlFail = none := by
  unfold afterWrite
  cases er with
  | some e => rfl
  | none =>
    obtain ⟨h1, h2⟩ := armBoth_ok ds h
    simp only
    split
    · rename_i evs c ds' heq
      rw [heq] at h1; cases h1
    · rename_i evs ds' heq
      rw [heq] at h2
      exact hk ds' h2

/-- **Relay deadlines on the wrapped connection.**  When every `setConnDeadline` succeeds — which for a
wrapped connection answering `ENOTSUP` means: through the `SetReadDeadline` fallback — both deadlines
are armed before the first read, refreshed after every read, and the relay is never abandoned for a
deadline failure, for every read and write script. -/
theorem relay_deadlines_hold (rs : List ReadRes) : ∀ (ws : List WriteRes) (ds : List DlRes), AllOk ds →
    (loop rs ws ds).dlFail = none := by
  induction rs with
  | nil => intro ws ds _; rfl
  | cons r rs ih =>
    intro ws ds h
    simp only [loop]
    split
    · split
      · rfl
      · exact afterWrite_ok r.err ds _ h (fun ds' h' => ih _ ds' h')
    · exact afterWrite_ok r.err ds _ h (fun ds' h' => ih _ ds' h')

theorem initial_deadlines_hold (ds : List DlRes) (h : AllOk ds) :
    (armBoth ds).2.1 = none ∧ ∀ rs ws, (loop rs ws (armBoth ds).2.2).dlFail = none :=
  ⟨(armBoth_ok ds h).1, fun rs ws => relay_deadlines_hold rs ws _ (armBoth_ok ds h).2⟩

/-- the obfs4 case: every call answers `ENOTSUP` and the `SetReadDeadline` fallback succeeds -/
theorem obfs4_wrapped_relay_runs (n : Nat) (rs : List ReadRes) (ws : List WriteRes) :
    (armBoth (List.replicate n (.unsupported true))).2.1 = none ∧
    (loop rs ws (armBoth (List.replicate n (.unsupported true))).2.2).dlFail = none := by
  have h : AllOk (List.replicate n (.unsupported true)) := by
    intro d hd
    rw [List.eq_of_mem_replicate hd]; rfl
  exact ⟨(initial_deadlines_hold _ h).1, (initial_deadlines_hold _ h).2 rs ws⟩

/-- **The requirement is real**: if the wrapped connection supports neither `SetDeadline` nor the
fallback, the direction is given up on its first deadline call, before any byte is read — the obfs4
tunnels that "relayed nothing" (repaired in `/repo`, DESIGN §10.3 C04). -/
theorem relay_needs_deadline_support (ds : List DlRes) :
    armBoth (.unsupported false :: ds) = ([.dl true false true], some true, ds) := by
  simp [armBoth, arm, popDl, DlRes.succeeds, DlRes.viaFallback]

end CJ.Props.C04Relay
