import CJ.Model.HalfPipe
import CJ.Lemmas.RelayClock
import CJ.Gen.RelayLoop
/-!
# C04 — the hand-off: relay deadlines on the wrapped connection

`handleNewTCPConn` clears the classification deadline and hands the *wrapped* connection to `Proxy`
(`CJ.Props.C04.deadline_cleared_then_proxy`).  Each direction of the relay then arms a deadline on both
of its connections before the first read and again after every read, and gives the tunnel up when one of
these calls fails (`CJ/Model/HalfPipe.lean`, C05: `armBoth`, `loop`).  A wrapped connection need not
support `SetDeadline`: the obfs4 connection answers `ENOTSUP`, and `setConnDeadline` then falls back to
`SetReadDeadline` (`DlRes.unsupported fallbackOk`).  This is where C04 meets C05: the flight of an obfs4
client is recognised (C04) but nothing is relayed unless that fallback succeeds.

The statements below are about the core of the relay model only (`armBoth`, `loop`), whatever the read
and write scripts are.

The second half (`### the clock`) is about *when* those deadlines expire: the model of
`CJ/Model/RelayClock.lean` keeps a virtual clock and the deadline of each of the two connections, and is
parametric in which connections a direction re-arms per iteration; that list is regenerated from the
source under check (`CJ.Gen.relayLoopStmts`, `CJ.Gen.relayInitArms`).
-/
namespace CJ.Props.C04Relay
open CJ.HalfPipe

/-- every `setConnDeadline` succeeds — directly, or through the `SetReadDeadline` fallback -/
def AllOk (ds : List DlRes) : Prop := ∀ d ∈ ds, d.succeeds = true

theorem popDl_ok (ds : List DlRes) (h : AllOk ds) : (popDl ds).1.succeeds = true ∧ AllOk (popDl ds).2 := by
  cases ds with
  | nil => exact ⟨rfl, by intro d hd; cases hd⟩
  | cons d t => exact ⟨h d (List.mem_cons_self ..), fun x hx => h x (List.mem_cons_of_mem _ hx)⟩

theorem armBoth_ok (ds : List DlRes) (h : AllOk ds) : (armBoth ds).2.1 = none ∧ AllOk (armBoth ds).2.2 := by
  obtain ⟨h1, h1'⟩ := popDl_ok ds h
  obtain ⟨h2, h2'⟩ := popDl_ok (popDl ds).2 h1'
  simp only [armBoth, arm, h1, h2]
  exact ⟨rfl, h2'⟩

theorem afterWrite_ok (er : Option Err) (ds : List DlRes) (k : List DlRes → Res) (h : AllOk ds)
    (hk : ∀ ds', AllOk ds' → (k ds').dlFail = none) : (afterWrite er ds k).dlFail = none := by
  unfold afterWrite
  cases er with
  | some e => rfl
  | none =>
    obtain ⟨h1, h2⟩ := armBoth_ok ds h
    simp only
    split
    · rename_i evs c ds' heq
      rw [heq] at h1; cases h1
    · rename_i evs ds' heq
      rw [heq] at h2
      exact hk ds' h2

/-- **Relay deadlines on the wrapped connection.**  When every `setConnDeadline` succeeds — which for a
wrapped connection answering `ENOTSUP` means: through the `SetReadDeadline` fallback — both deadlines
are armed before the first read, refreshed after every read, and the relay is never abandoned for a
deadline failure, for every read and write script. -/
theorem relay_deadlines_hold (rs : List ReadRes) : ∀ (ws : List WriteRes) (ds : List DlRes), AllOk ds →
    (loop rs ws ds).dlFail = none := by
  induction rs with
  | nil => intro ws ds _; rfl
  | cons r rs ih =>
    intro ws ds h
    simp only [loop]
    split
    · split
      · rfl
      · exact afterWrite_ok r.err ds _ h (fun ds' h' => ih _ ds' h')
    · exact afterWrite_ok r.err ds _ h (fun ds' h' => ih _ ds' h')

theorem initial_deadlines_hold (ds : List DlRes) (h : AllOk ds) :
    (armBoth ds).2.1 = none ∧ ∀ rs ws, (loop rs ws (armBoth ds).2.2).dlFail = none :=
  ⟨(armBoth_ok ds h).1, fun rs ws => relay_deadlines_hold rs ws _ (armBoth_ok ds h).2⟩

/-- the obfs4 case: every call answers `ENOTSUP` and the `SetReadDeadline` fallback succeeds -/
theorem obfs4_wrapped_relay_runs (n : Nat) (rs : List ReadRes) (ws : List WriteRes) :
    (armBoth (List.replicate n (.unsupported true))).2.1 = none ∧
    (loop rs ws (armBoth (List.replicate n (.unsupported true))).2.2).dlFail = none := by
  have h : AllOk (List.replicate n (.unsupported true)) := by
    intro d hd
    rw [List.eq_of_mem_replicate hd]; rfl
  exact ⟨(initial_deadlines_hold _ h).1, (initial_deadlines_hold _ h).2 rs ws⟩

/-- **The requirement is real**: if the wrapped connection supports neither `SetDeadline` nor the
fallback, the direction is given up on its first deadline call, before any byte is read — the obfs4
tunnels that "relayed nothing" (repaired in `/repo`, DESIGN §10.3 C04). -/
theorem relay_needs_deadline_support (ds : List DlRes) :
    armBoth (.unsupported false :: ds) = ([.dl true false true], some true, ds) := by
  simp [armBoth, arm, popDl, DlRes.succeeds, DlRes.viaFallback]

/-! ### the clock: traffic in either direction keeps both connections alive

C04 promises that *every* application byte reaches the covert and every byte of the reply reaches the
client.  The relay cuts a tunnel whose connection stays silent past its deadline, so the promise needs:
a connection's deadline is pushed forward by the traffic it *carries*, not only by what is read from it
— each iteration of either direction re-arms **both** connections (the comment in the source says so:
"if connection is sending traffic unidirectionally we prevent the receiving side from timing out"). -/

open CJ.RelayClock in
/-- **Keep-alive.**  If each direction arms both of its connections in front of its loop (init timeout)
and again at the end of every iteration (stall timeout), then for every script of chunks and pauses in
which the pause since the last chunk of *either* direction never exceeds the timeout in force
(`paced`: one direction may stay silent for ever), no deadline ever expires: the tunnel is alive at the
end, everything the client sent has reached the covert, everything the covert sent has reached the
client, nothing was lost, no error was recorded.  Any timeouts, any number of events. -/
theorem keepalive_no_expiry (c : Cfg) (hi : Covers c.initArms .init) (hl : Covers c.loopArms .stall)
    (evs : List Evt) (hp : paced c.stall c.init 0 evs = true) :
    (run c evs).alive = true ∧ (run c evs).up = sent true evs ∧ (run c evs).down = sent false evs ∧
      (run c evs).lost = 0 ∧ (run c evs).cli = "" ∧ (run c evs).cov = "" := by
  obtain ⟨_, _, h⟩ := foldl_inv c hl evs (start c) c.init 0 [] [] (start_inv c hi) hp
  obtain ⟨ha, _, hu, hd, hlost, hcli, hcov⟩ := h
  simp only [List.nil_append] at hu hd
  exact ⟨ha, hu, hd, hlost, hcli, hcov⟩

open CJ.RelayClock in
/-- **Tie**: the body of the relay loop in the source under check is the one the models mirror (read;
write what was read, `break` on a write error; `break` on a read error; re-arm src, re-arm dst, each
followed by `return` on failure), `.other` statements aside … -/
theorem loop_skeleton_matches : loopSkeleton CJ.Gen.relayLoopStmts = canonicalLoop := by decide

open CJ.RelayClock in
/-- … in particular every iteration re-arms the source **and** the destination with the stall timeout,
and the calls in front of the loop arm both with the init timeout -/
theorem source_arms_both : Covers (armsOf CJ.Gen.relayLoopStmts) .stall ∧ Covers CJ.Gen.relayInitArms .init := by
  refine ⟨⟨?_, ?_, ?_⟩, ⟨?_, ?_, ?_⟩⟩ <;> decide

open CJ.RelayClock in
/-- the configuration read off the source under check -/
def sourceCfg : Cfg :=
  { init := CJ.Gen.proxyInitTimeoutMs, stall := CJ.Gen.proxyStallTimeoutMs,
    initArms := CJ.Gen.relayInitArms, loopArms := armsOf CJ.Gen.relayLoopStmts }

open CJ.RelayClock in
/-- both timeouts of the source under check are positive (with a zero timeout `paced` allows no pause) -/
theorem source_timeouts_positive : 0 < sourceCfg.init ∧ 0 < sourceCfg.stall := by decide

open CJ.RelayClock in
/-- **Keep-alive for the relay as written**: a paced transfer of any length and any mix of directions —
an upload to a covert that never answers, a download to a client that never speaks again — is delivered
in full and the tunnel stays up. -/
theorem keepalive_source (evs : List Evt) (hp : paced sourceCfg.stall sourceCfg.init 0 evs = true) :
    (run sourceCfg evs).alive = true ∧ (run sourceCfg evs).up = sent true evs ∧
      (run sourceCfg evs).down = sent false evs ∧ (run sourceCfg evs).lost = 0 :=
  have h := keepalive_no_expiry sourceCfg source_arms_both.2 source_arms_both.1 evs hp
  ⟨h.1, h.2.1, h.2.2.1, h.2.2.2.1⟩

open CJ.RelayClock in
/-- **The requirement is real**: a direction that re-arms only the connection it reads from (the second
call addressing `src` again) cuts a steady upload to a silent covert when the covert's *initial*
deadline runs out — here 30 s into a transfer that sends a byte every 20 s — and the bytes sent
afterwards are lost. -/
theorem refresh_both_needed :
    let c : Cfg := { init := 30, stall := 120, loopArms := [(true, .stall), (true, .stall)] }
    let evs := [Evt.chunk true [1], .wait 20, .chunk true [2], .wait 20, .chunk true [3]]
    paced c.stall c.init 0 evs = true ∧ (run c evs).alive = false ∧ (run c evs).up = [1, 2] ∧
      (run c evs).lost = 1 ∧ (run c evs).cov = "timeout" ∧ diedAt c (start c) 0 evs = some 3 := by decide

open CJ.RelayClock in
/-- **An idle tunnel is given up**: once the clock passes the deadline of either connection, the
direction blocked in `Read` on it times out and the tunnel ends (C05 proves what the exit tears down). -/
theorem idle_tunnel_expires (c : Cfg) (s : St) (dt d : Nat)
    (h : s.dlClient = some d ∨ s.dlCovert = some d) (hlt : d < s.now + dt) : (step c s (.wait dt)).alive = false := by
  simp only [step]
  cases hal : s.alive with
  | false => simp
  | true =>
    rcases h with h | h
    · have : expired (s.now + dt) s.dlClient = true := by simp [h, expired, hlt]
      simp [this]
    · have : expired (s.now + dt) s.dlCovert = true := by simp [h, expired, hlt]
      simp [this]

open CJ.RelayClock in
/-- … and not before: while the clock has not passed either deadline a pause changes nothing but the clock -/
theorem no_early_expiry (c : Cfg) (s : St) (dt a b : Nat) (ha : s.dlClient = some a) (hb : s.dlCovert = some b)
    (h1 : s.now + dt ≤ a) (h2 : s.now + dt ≤ b) : step c s (.wait dt) = { s with now := s.now + dt } := by
  have e1 : ¬ (a < s.now + dt) := by omega
  have e2 : ¬ (b < s.now + dt) := by omega
  cases hal : s.alive <;> simp [step, hal, ha, hb, expired, e1, e2]

/-! non-vacuity: a one-directional upload that lasts seven stall timeouts is `paced` for the source's
constants, so `keepalive_source` applies to it -/
open CJ.RelayClock in
example : paced sourceCfg.stall sourceCfg.init 0
    ([Evt.wait 29000, .chunk true [1]] ++ (List.replicate 7 [Evt.wait 119000, .chunk true [2]]).flatten) = true := by decide

end CJ.Props.C04Relay
