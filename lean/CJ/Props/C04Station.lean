import CJ.Model.ConnStation
import CJ.Gen.ConnCandidates
import CJ.Props.C04
/-!
# C04 — recognition depends on the connection alone: not on earlier connections, not on how the kernel
# hands the segments to `Read`

`CJ.Props.C04` is about one run of the read loop over the results of its `Read` calls, the candidate
transports being given.  This file closes the two gaps to the property text (model:
`CJ/Model/ConnStation.lean`):

* **history** — the candidates of a connection are `GetWrappingTransports()`; the handler deletes from
  that map.  With the getter of the source under check (a map made in the call: `source_getter_fresh`,
  over the regenerated `CJ/Gen/ConnCandidates.lean`) the station's set is the same after every history of
  connections, whatever they sent and whatever the transports answered, and each connection is served
  exactly as if it were the first one (`station_set_preserved`, `history_independent`,
  `recognised_after_any_history`).  With a getter that returns the station's own map the statement is
  false (`shared_map_loses_client`), and what is lost is never regained (`shared_only_shrinks`).
* **segments vs reads** — segments are queued by the kernel and handed out at most `len(buf)` bytes per
  `Read`, coalesced or split depending on when the handler gets to read.  For every interleaving of
  arriving segments and `Read` calls the read results are non-empty, at most `len(buf)` long and
  concatenate to the bytes sent (`kreads_flatten`, `kreads_bounded`), so the client is recognised and its
  data intact for every segmentation **and** every pacing (`recognised_any_segments_any_pacing`); the loop
  body of the source is the one the model mirrors (`read_loop_offers_every_read`).
-/
namespace CJ.Props.C04Station
open CJ.ConnHandler CJ.ConnStation

variable {T R : Type}

/-! ## history -/

theorem run_fresh (own : List T) (cs : List (Conn T R)) :
    run .fresh own cs = cs.map fun c => (handler c.cls c.sched c.geo c.count own c.evs, own) := by
  induction cs with
  | nil => rfl
  | cons c cs ih => simp [run, serve, ih]

/-- **The station's set of wrapping transports survives every history**: after any sequence of
connections (probers, clients of any transport, any verdicts, any errors) it is what it was. -/
theorem station_set_preserved (own : List T) (cs : List (Conn T R)) :
    ∀ p ∈ run .fresh own cs, p.2 = own := by
  rw [run_fresh]
  intro p hp
  obtain ⟨c, _, rfl⟩ := List.mem_map.mp hp
  rfl

/-- **History independence**: whatever connections came before (and come after), a connection is served
exactly as `handler` serves it on the station's full set of wrapping transports. -/
theorem history_independent (own : List T) (hist later : List (Conn T R)) (c : Conn T R) :
    (run .fresh own (hist ++ c :: later))[hist.length]? =
      some (handler c.cls c.sched c.geo c.count own c.evs, own) := by
  rw [run_fresh]
  simp

/-- **Recognition after any history.**  A registered client whose transport is genuine on its stream
`S` and whose co-transports are quiet on it is found, its registration marked used and exactly
`S.drop k ++ later data` proxied — for every segmentation of `S`, every iteration order, **and every
history of earlier connections on the station**. -/
theorem recognised_after_any_history (own : List T) (hist : List (Conn T R)) (c : Conn T R)
    (hs : SchedOk c.sched) (t0 : T) (r : R) (k : Nat) (S : Bytes)
    (g : Genuine c.cls t0 r k S) (hgood : Good c.cls own t0 S)
    (hk0 : 0 < k) (hkS : k ≤ S.length) (hgeo : c.geo = .ok) (hc : 1 ≤ c.count)
    (cs : List Bytes) (hcs : cs.flatten = S) (rest : List Ev) (hev : c.evs = cs.map Ev.data ++ rest) :
    ∃ pre n, (run .fresh own (hist ++ [c]))[hist.length]? =
        some (pre ++ [.query t0 n (.found r k), .clearDeadline, .markActive r,
                      .proxy r (S.drop k ++ dataOf rest), .ret], own) ∧
      ∀ a ∈ pre, a.passive = true := by
  obtain ⟨pre, n, he, hp⟩ :=
    CJ.Props.C04.segmentation_invariant c.cls c.sched hs t0 r k S g own hgood hk0 hkS c.count hc cs hcs rest
  refine ⟨pre, n, ?_, hp⟩
  rw [history_independent, hgeo, hev, he]

/-! ### the getter of the source under check -/

/-- `GetWrappingTransports` returns, on every path, a map it made in the call; the handler's candidate
map is bound once, to that call, and is used for nothing but `len`, `range` and `delete`. -/
theorem source_getter_fresh :
    getterOf CJ.Gen.ConnCandidates.getterReturns = some .fresh ∧
    CJ.Gen.ConnCandidates.candidateBinds = [.getterCall] ∧
    CJ.Gen.ConnCandidates.candidateEscapes = 0 := by decide

/-! ### a getter that hands out the station's own map -/

theorem passLeft_subset (cls : T → Bytes → Verdict R) (buf : Bytes) (ts keep : List T) :
    ∀ t ∈ passLeft cls buf ts keep, t ∈ keep ∨ t ∈ ts := by
  induction ts generalizing keep with
  | nil => intro t ht; simp [passLeft] at ht; exact Or.inl ht
  | cons a ts ih =>
    intro t ht
    unfold passLeft at ht
    split at ht
    · rcases ih _ t ht with h | h
      · rcases List.mem_cons.mp h with rfl | h
        · exact Or.inr (by simp)
        · exact Or.inl h
      · exact Or.inr (List.mem_cons_of_mem _ h)
    · rcases ih _ t ht with h | h
      · exact Or.inl h
      · exact Or.inr (List.mem_cons_of_mem _ h)
    · simp at ht; rcases ht with h | rfl | h
      · exact Or.inl h
      · exact Or.inr (by simp)
      · exact Or.inr (List.mem_cons_of_mem _ h)
    · simp at ht; rcases ht with h | rfl | h
      · exact Or.inl h
      · exact Or.inr (by simp)
      · exact Or.inr (List.mem_cons_of_mem _ h)

theorem pass_cont_subset (cls : T → Bytes → Verdict R) (buf : Bytes) (ts keep ts' : List T)
    (h : (pass cls buf ts keep).2 = .cont ts') : ∀ t ∈ ts', t ∈ keep ∨ t ∈ ts := by
  induction ts generalizing keep with
  | nil =>
    simp [pass] at h; subst h
    intro t ht; exact Or.inl (by simpa using ht)
  | cons a ts ih =>
    unfold pass at h
    split at h
    · intro t ht
      rcases ih _ h t ht with h' | h'
      · rcases List.mem_cons.mp h' with rfl | h'
        · exact Or.inr (by simp)
        · exact Or.inl h'
      · exact Or.inr (List.mem_cons_of_mem _ h')
    · intro t ht
      rcases ih _ h t ht with h' | h'
      · exact Or.inl h'
      · exact Or.inr (List.mem_cons_of_mem _ h')
    · simp at h
    · simp at h

theorem loopLeft_subset (cls : T → Bytes → Verdict R) (sched : Nat → List T → List T) (hs : SchedOk sched)
    (evs : List Ev) : ∀ i ts buf, ∀ t ∈ loopLeft cls sched i ts buf evs, t ∈ ts := by
  induction evs with
  | nil => intro i ts buf t ht; cases ts <;> simp [loopLeft] at ht <;> simp [ht]
  | cons e evs ih =>
    intro i ts buf t ht
    cases ts with
    | nil => simp [loopLeft] at ht
    | cons a ts =>
      cases e with
      | data c =>
        unfold loopLeft at ht
        split at ht
        · rename_i ts' hp
          have := ih _ _ _ t ht
          rcases pass_cont_subset cls _ _ _ _ hp t this with h | h
          · simp at h
          · exact (hs i _ t).mp h
        · rcases passLeft_subset cls _ _ _ t ht with h | h
          · simp at h
          · exact (hs i _ t).mp h
      | eof => simpa [loopLeft] using ht
      | reset => simpa [loopLeft] using ht
      | deadline => simpa [loopLeft] using ht
      | otherErr => simpa [loopLeft] using ht

/-- With a shared map the station's set can only shrink: a transport that some connection ruled out
is never offered to a later connection. -/
theorem shared_only_shrinks (own : List T) (c : Conn T R) (hs : SchedOk c.sched) :
    ∀ t ∈ (serve .shared own c).2, t ∈ own := by
  intro t ht
  simp only [serve, handlerLeft] at ht
  split at ht
  · split at ht
    · exact ht
    · exact loopLeft_subset c.cls c.sched hs c.evs 0 own [] t ht
  · exact ht

open CJ.Props.C04 in
/-- a prober that sends four bytes matching nothing (min-like and prefix-like transports answer
not-transport), then a registered min-like client -/
def exProber : Conn Nat Nat := ⟨exCls, fun _ ts => ts, .ok, 1, [.data [7, 7, 7, 7], .eof]⟩
open CJ.Props.C04 in
def exClient : Conn Nat Nat := ⟨exCls, fun _ ts => ts, .ok, 1, [.data [1, 2], .data [3, 4, 50], .data [51]]⟩

/-- **Why the getter matters**: on a station whose getter hands out its own map, the client that is
recognised as first connection is not recognised after the prober — it is read until the deadline and
dropped; with the fresh getter it is recognised after the prober as well. -/
theorem shared_map_loses_client :
    (run .shared [0, 1, 2] [exClient]).map (·.1) =
      [[.setDeadline, .readData 2, .query 0 2 .tryAgain, .query 1 2 .tryAgain, .query 2 2 .tryAgain,
        .readData 3, .query 0 5 (.found 7 4), .clearDeadline, .markActive 7, .proxy 7 [50, 51], .ret]] ∧
    (run .shared [0, 1, 2] [exProber, exClient]).map (·.2) = [[2], [2]] ∧
    (∀ r, Act.markActive r ∉ ((run .shared [0, 1, 2] [exProber, exClient]).map (·.1)).flatten) ∧
    Act.markActive 7 ∈ ((run .fresh [0, 1, 2] [exProber, exClient]).map (·.1)).flatten := by
  refine ⟨by decide, by decide, ?_, by decide⟩
  intro r
  have h : ((run .shared [0, 1, 2] [exProber, exClient]).map (·.1)).flatten =
      [.setDeadline, .readData 4, .query 0 4 .notT, .query 1 4 .notT, .query 2 4 .tryAgain,
       .readEnd .eof, .ret,
       .setDeadline, .readData 2, .query 2 2 .tryAgain, .readData 3, .query 2 5 .tryAgain,
       .readData 1, .query 2 6 .tryAgain, .readEnd .deadline, .ret] := by decide
  rw [h]; simp

/-- the hypotheses of `recognised_after_any_history` are satisfiable: the min-like client after the prober -/
example : ∃ pre n, (run .fresh [0, 1, 2] ([exProber] ++ [exClient]))[1]? =
      some (pre ++ [.query 0 n (.found 7 4), .clearDeadline, .markActive 7, .proxy 7 ([50] ++ [51]), .ret], [0, 1, 2]) ∧
    ∀ a ∈ pre, a.passive = true := by
  have g : Genuine exClient.cls 0 7 4 ([1, 2, 3, 4] ++ [50]) := by
    have := CJ.Props.C04.tagAt_genuine [] [1, 2, 3, 4] [50] 7 0 CJ.Props.C04.exCls rfl
    simpa [exClient] using this
  have hgood : Good exClient.cls [0, 1, 2] 0 [1, 2, 3, 4, 50] := by
    refine ⟨by simp, ?_⟩
    intro t ht
    simp only [List.mem_cons, List.mem_nil_iff, or_false] at ht
    rcases ht with rfl | rfl | rfl
    · exact Or.inl rfl
    · refine Or.inr ?_
      intro n
      rcases n with _ | _ | _ | _ | _ | n <;> simp [exClient, CJ.Props.C04.exCls, CJ.Props.C04.tagAt]
    · refine Or.inr ?_
      intro n
      rcases n with _ | _ | _ | _ | _ | n <;> simp [exClient, CJ.Props.C04.exCls, CJ.Props.C04.tailCls]
  have := recognised_after_any_history [0, 1, 2] [exProber] exClient (by intro i ts t; simp [exClient]) 0 7 4
    [1, 2, 3, 4, 50] g hgood (by omega) (by simp) rfl (by simp [exClient]) [[1, 2], [3, 4, 50]] rfl [.data [51]] rfl
  simpa [dataOf] using this

/-! ## segments, the receive queue and `Read(buf[:])` -/

theorem drain_flatten (cap : Nat) (hcap : 0 < cap) :
    ∀ fuel (q : Bytes), q.length ≤ fuel → (drain cap fuel q).flatten = q := by
  intro fuel
  induction fuel with
  | zero => intro q h; have : q = [] := List.length_eq_zero_iff.mp (by omega); subst this; rfl
  | succ fuel ih =>
    intro q h
    unfold drain
    split
    · rename_i he; simp at he; subst he; rfl
    · rename_i he
      have hq : 0 < q.length := by
        cases q with
        | nil => simp at he
        | cons _ _ => simp
      rw [List.flatten_cons, ih (q.drop cap) (by rw [List.length_drop]; omega), List.take_append_drop]

/-- **Nothing is lost, duplicated or reordered between the wire and `received`**: whatever the
interleaving of arriving segments and `Read` calls, the read results concatenate to what was queued
followed by the segments. -/
theorem kreads_flatten (cap : Nat) (hcap : 0 < cap) (s : List Net) :
    ∀ q, (kreads cap q s).flatten = q ++ segsOf s := by
  induction s with
  | nil => intro q; simp [kreads, segsOf, drain_flatten cap hcap q.length q (Nat.le_refl _)]
  | cons e s ih =>
    intro q
    cases e with
    | seg bs => simp [kreads, segsOf, ih]
    | read =>
      unfold kreads
      split
      · simp [segsOf, ih]
      · rw [List.flatten_cons, ih, ← List.append_assoc, List.take_append_drop]; rfl

theorem drain_bounded (cap : Nat) :
    ∀ fuel (q : Bytes), ∀ r ∈ drain cap fuel q, r.length ≤ cap := by
  intro fuel
  induction fuel with
  | zero => intro q r hr; simp [drain] at hr
  | succ fuel ih =>
    intro q r hr
    unfold drain at hr
    split at hr
    · simp at hr
    · rcases List.mem_cons.mp hr with rfl | hr
      · rw [List.length_take]; omega
      · exact ih _ r hr

/-- every `Read` result fits the buffer -/
theorem kreads_bounded (cap : Nat) (s : List Net) :
    ∀ q, ∀ r ∈ kreads cap q s, r.length ≤ cap := by
  induction s with
  | nil => intro q r hr; exact drain_bounded cap _ _ r hr
  | cons e s ih =>
    intro q r hr
    cases e with
    | seg bs => exact ih _ r hr
    | read =>
      unfold kreads at hr
      split at hr
      · exact ih _ r hr
      · rcases List.mem_cons.mp hr with rfl | hr
        · rw [List.length_take]; omega
        · exact ih _ r hr

/-- the read buffer of the source under check has room, and the loop body is the one the model
mirrors: exhaustion check, one `Read` into the whole buffer, return on error, append exactly the `n`
bytes read, offer the buffer to every remaining candidate — and nothing else that branches or touches
the buffer, the connection or the candidates (a shortcut that skips the offering for some reads would
show up as `.unknown`). -/
theorem read_loop_offers_every_read :
    0 < CJ.Gen.ConnCandidates.readBufLen ∧
    CJ.Gen.ConnCandidates.readLoopBody.filter (· != .other) = canonicalReadLoop := by decide

/-- **Any segmentation, any pacing.**  The client's stream `S` arrives as any sequence of TCP segments,
interleaved in any way with the handler's `Read` calls (a slow handler sees segments coalesced, a
segment larger than the buffer is split): the station finds the registration, marks it used and proxies
exactly `S.drop k` followed by what arrives later. -/
theorem recognised_any_segments_any_pacing (cls : T → Bytes → Verdict R) (sched : Nat → List T → List T)
    (hs : SchedOk sched) (t0 : T) (r : R) (k : Nat) (S : Bytes)
    (g : Genuine cls t0 r k S) (ts : List T) (hgood : Good cls ts t0 S)
    (hk0 : 0 < k) (hkS : k ≤ S.length) (count : Nat) (hc : 1 ≤ count)
    (net : List Net) (hnet : segsOf net = S) (rest : List Ev) :
    ∃ pre n, handler cls sched .ok count ts
        ((kreads CJ.Gen.ConnCandidates.readBufLen [] net).map Ev.data ++ rest) =
        pre ++ [.query t0 n (.found r k), .clearDeadline, .markActive r,
                .proxy r (S.drop k ++ dataOf rest), .ret] ∧
      ∀ a ∈ pre, a.passive = true :=
  CJ.Props.C04.segmentation_invariant cls sched hs t0 r k S g ts hgood hk0 hkS count hc _
    (by rw [kreads_flatten _ read_loop_offers_every_read.1, hnet]; rfl) rest

/-- two segments, the handler reads only after both arrived, buffer of 4 bytes: the reads are
`[1,2,3,4]`, `[5,6]`; a handler that reads in between sees `[1,2,3]`, `[4,5,6]` -/
example : kreads 4 [] [.seg [1, 2, 3], .seg [4, 5, 6], .read] = [[1, 2, 3, 4], [5, 6]] ∧
    kreads 4 [] [.read, .seg [1, 2, 3], .read, .seg [4, 5, 6]] = [[1, 2, 3], [4, 5, 6]] := by decide

end CJ.Props.C04Station
