import CJ.Model.ProxyRelay
import CJ.Lemmas.HalfPipe
import CJ.Props.C05
/-!
# C05 — `Proxy` with the PROXY-protocol line inside the model

`CJ.ProxyRelay.run` computes the outcome of the header step from the flag and the client's peer-address text
(`CJ.ProxyHeader.headerLine`) and hands it to the statement interpreter of `Proxy` (`CJ.HalfPipe.execP` over the
regenerated skeleton, `CJ.Props.C05.proxy_skeleton_matches`).  The theorems are over **every** address text, dial
outcome and pair of fault scripts.
-/
namespace CJ.Props.C05Compose
open CJ.HalfPipe CJ.ProxyHeader CJ.ProxyRelay CJ.NetAddr

theorem toProxyIn_header_false (a : In) :
    (toProxyIn a).header = some false ↔ (a.flag = true ∧ headerLine a.addr = none) := by
  unfold toProxyIn headerStep
  cases a.flag <;> cases headerLine a.addr <;> simp

/-- **No line, no relay.**  With the flag set and an address the line cannot be formed from (empty, or refused by
`net.SplitHostPort`), a session whose dial succeeded sends the covert nothing, starts neither direction, leaves
the session gauge alone, closes the covert connection (the deferred `Close`) and returns; the client connection is
left to the caller. -/
theorem no_line_no_relay (a : In) (hd : a.dialErr = none) (hf : a.flag = true) (hl : headerLine a.addr = none) :
    (run a).covertGot = [] ∧ (run a).p.started = false ∧ (run a).p.returned = true ∧
    (run a).p.covertCloses = 1 ∧ (run a).p.clientCloses = 0 ∧
    (run a).p.gaugeAdds = 0 ∧ (run a).p.printed = 0 := by
  have hh := (toProxyIn_header_false a).2 ⟨hf, hl⟩
  rcases proxy_cases (toProxyIn a) with ⟨e, he, _⟩ | ⟨e, t, he, _⟩ | ⟨_, _, hp⟩ | ⟨_, hne, _⟩
  · simp [toProxyIn, hd] at he
  · simp [toProxyIn, hd] at he
  · simp [ProxyRelay.run, hp, PState.finish]
  · exact absurd hh hne

/-- **The covert receives exactly the line, then the upload.**  When the dial succeeded and the header step does
not refuse, both directions run, and the bytes written to the covert connection are `headerBytes` (the line of
`headerLine` with the flag, nothing without it) followed by what the upload direction delivered — a prefix of the
client's stream (`delivered_is_prefix`), all of it up to the first fault (`delivered_complete_until_fault`). -/
theorem covert_gets_line_then_upload (a : In) (hd : a.dialErr = none)
    (hok : ¬ (a.flag = true ∧ headerLine a.addr = none)) :
    (run a).p.started = true ∧
    (run a).covertGot = headerBytes a.flag a.addr ++ (halfPipe true {} a.up).delivered ∧
    some (run a).covertGot = covertStream a.flag a.addr (halfPipe true {} a.up).delivered ∧
    (halfPipe true {} a.up).delivered <+: allBytes a.up.reads ∧
    (run a).p.bytesUp = (halfPipe true {} a.up).delivered.length := by
  have hne : (toProxyIn a).header ≠ some false := fun h => hok ((toProxyIn_header_false a).1 h)
  rcases proxy_cases (toProxyIn a) with ⟨e, he, _⟩ | ⟨e, t, he, _⟩ | ⟨_, hh, _⟩ | ⟨_, _, hp⟩
  · simp [toProxyIn, hd] at he
  · simp [toProxyIn, hd] at he
  · exact absurd hh hne
  · have hu : (proxy (toProxyIn a)).upOut = some (halfPipe true {} a.up) := by rw [hp]; rfl
    have hdn : (proxy (toProxyIn a)).downOut =
        some (halfPipe false (halfPipe true {} a.up).stats a.down) := by rw [hp]; rfl
    have hg : (run a).covertGot = headerBytes a.flag a.addr ++ (halfPipe true {} a.up).delivered := by
      simp [ProxyRelay.run, hu]
    refine ⟨by simp [ProxyRelay.run, hp, PState.finish], hg, ?_, CJ.Props.C05.delivered_is_prefix true {} a.up,
      (CJ.Props.C05.proxy_counts_equal_delivered (toProxyIn a) _ _ hu hdn).1⟩
    rw [hg]
    unfold headerBytes covertStream lineBytes
    cases hf : a.flag with
    | false => simp
    | true =>
      cases hl : headerLine a.addr with
      | none => exact absurd ⟨hf, hl⟩ hok
      | some l => simp

/-- **A failed dial sends nothing** and starts nothing, whatever the flag and the address. -/
theorem dial_failure_sends_nothing (a : In) (e : Err) (hd : a.dialErr = some e) :
    (run a).covertGot = [] ∧ (run a).p.started = false ∧ (run a).p.clientCloses = 0 := by
  rcases proxy_cases (toProxyIn a) with ⟨e', he, hs, _, _⟩ | ⟨e', t, _, _, _, hp⟩ | ⟨hn, _⟩ | ⟨hn, _⟩
  · have he' : e' = e := by simpa [toProxyIn, hd] using he.symm
    subst he'
    have : proxy (toProxyIn a) = ({ covertNil := true, dialStat := "" } : PState).finish false 0 true := by
      unfold proxy canonicalP
      cases hst : e'.stat with
      | none => simp [execP, toProxyIn, hd, hst]
      | some t => simp [hst] at hs; simp [execP, toProxyIn, hd, hst, hs]
    simp [ProxyRelay.run, this, PState.finish]
  · simp [ProxyRelay.run, hp, PState.finish]
  · simp [toProxyIn, hd] at hn
  · simp [toProxyIn, hd] at hn

/-- **When a relay starts**: exactly when the dial succeeded and the header step does not refuse — the flag is off
or the address yields a line (`CJ.Props.C05Header.header_fails_iff` says which addresses do). -/
theorem relay_starts_iff (a : In) :
    (run a).p.started = true ↔ (a.dialErr = none ∧ ¬ (a.flag = true ∧ headerLine a.addr = none)) := by
  constructor
  · intro hs
    cases hd : a.dialErr with
    | some e => have := (dial_failure_sends_nothing a e hd).2.1; rw [this] at hs; cases hs
    | none =>
      refine ⟨rfl, fun ⟨hf, hl⟩ => ?_⟩
      have := (no_line_no_relay a hd hf hl).2.1; rw [this] at hs; cases hs
  · rintro ⟨hd, hok⟩; exact (covert_gets_line_then_upload a hd hok).1

/-- without the flag the address text is irrelevant -/
theorem flag_off_ignores_address (a : In) (addr' : Str) (hf : a.flag = false) :
    (run { a with addr := addr' }).covertGot = (run a).covertGot ∧ (run { a with addr := addr' }).p = (run a).p := by
  obtain ⟨d, f, ad, u, dn⟩ := a
  simp only at hf
  subst hf
  simp [ProxyRelay.run, toProxyIn, headerStep, headerBytes]

/-! non-vacuity -/
def exIn (flag : Bool) (addr : String) : In :=
  { dialErr := none, flag := flag, addr := addr.toList, up := CJ.Props.C05.ex1, down := CJ.Props.C05.ex2 }

example : (run (exIn true "192.0.2.10:5000")).covertGot =
    lineBytes "PROXY TCP4 192.0.2.10 127.0.0.1 5000 1234\r\n".toList ++ [104, 101, 108, 108, 111, 32, 119, 111, 114, 108, 100] := by
  decide
example : (run (exIn true "not-an-address")).covertGot = [] ∧ (run (exIn true "not-an-address")).p.started = false := by decide
example : (run (exIn false "not-an-address")).p.started = true := by decide
example : ¬ ((exIn true "[2001:db8::1]:443").flag = true ∧ headerLine (exIn true "[2001:db8::1]:443").addr = none) := by decide

end CJ.Props.C05Compose
