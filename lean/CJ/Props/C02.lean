import CJ.Model.WrapReg
import CJ.Gen.PrefixTable
import CJ.Gen.Obfs4Consts
import CJ.Props.C08
import CJ.Gen.ExpiryShape
import CJ.Model.TimeoutKey
import CJ.Gen.TimeoutKey
/-!
# C02 — only proof of a validated registration's secret on that phantom opens a tunnel

Property theorems only.  "Proves knowledge of the secret" is the structural statement that the
presented bytes (min), the revealed window (prefix) or the located mark (obfs4) equal the
identifier / mark derived from that registration's secret; unforgeability of HMAC is outside the
model (hypotheses `NoTagCollision`-style are explicit where used).
-/
open Std

namespace CJ.Props.C02
open CJ.Wrap CJ.Registry

theorem findReg_some {regs : List RegView} {id : String} {r : RegView} (h : findReg regs id = some r) :
    r ∈ regs ∧ r.ident = id := by
  unfold findReg at h
  have h1 := List.mem_of_find?_eq_some h
  have h2 := List.find?_some h
  exact ⟨h1, by simpa using h2⟩

/-! ## soundness of each classifier: a match names a visible registration whose identifier was presented -/

/-- min: matched ⇒ at least 32 bytes were seen, the first 32 are the identifier of a registration
visible on this phantom, and exactly those 32 bytes are consumed -/
theorem min_match_sound (regs : List RegView) (d : Bytes) (rid n : Nat)
    (h : wrapMin regs d = .found rid n) :
    ∃ r ∈ regs, r.rid = rid ∧ r.ident = toHex (d.take 32) ∧ n = 32 ∧ 32 ≤ d.length := by
  unfold wrapMin at h
  split at h
  · cases h
  · rename_i hl
    split at h
    · rename_i r hr
      obtain ⟨hm, hi⟩ := findReg_some hr
      simp only [Verdict.found.injEq] at h
      exact ⟨r, hm, h.1, hi, h.2.symm, by simp [minTagLen] at hl; omega⟩
    · cases h

/-- prefix, one loop iteration -/
theorem prefixIter_found (reveal : Bytes → Option String) (regs : List RegView) (d : Bytes) (st : PLoop)
    (e : PrefixEntry) (rid n : Nat) (h : prefixIter reveal regs d st e = .inl (.found rid n)) :
    ∃ r ∈ regs, r.rid = rid ∧ reveal (window d e.offset) = some r.ident ∧ r.transport = 4 ∧
      r.prefixParam = some (some e.id) ∧ staticOk e d = true ∧ e.maxLen ≤ d.length ∧
      e.offset + 64 ≤ d.length ∧ n = e.offset + 64 := by
  unfold prefixIter at h
  split at h; · cases h
  rename_i hs
  split at h; · cases h
  split at h; · cases h
  split at h; · cases h
  rename_i hmax
  split at h; · cases h
  rename_i hoff
  split at h
  · cases h
  · rename_i id hrev
    split at h
    · cases h
    · rename_i r hr
      obtain ⟨hm, hi⟩ := findReg_some hr
      split at h; · cases h
      rename_i htr
      split at h; · cases h
      rename_i hpp
      simp only [Sum.inl.injEq, Verdict.found.injEq] at h
      refine ⟨r, hm, h.1, by rw [hrev, hi], by simpa using htr, by simpa using hpp, by simpa using hs,
        by omega, by simp [prefixTagLen] at hoff; omega, by simp [prefixTagLen] at h; omega⟩

theorem prefixLoop_found (reveal : Bytes → Option String) (regs : List RegView) (d : Bytes)
    (table : List PrefixEntry) (st : PLoop) (rid n : Nat)
    (h : prefixLoop reveal regs d st table = .found rid n) :
    ∃ e ∈ table, ∃ r ∈ regs, r.rid = rid ∧ reveal (window d e.offset) = some r.ident ∧ r.transport = 4 ∧
      r.prefixParam = some (some e.id) ∧ staticOk e d = true ∧ e.maxLen ≤ d.length ∧
      e.offset + 64 ≤ d.length ∧ n = e.offset + 64 := by
  induction table generalizing st with
  | nil =>
    simp only [prefixLoop] at h
    split at h; · cases h
    split at h <;> cases h
  | cons e es ih =>
    simp only [prefixLoop] at h
    split at h
    · rename_i v hv
      subst h
      obtain ⟨r, hr⟩ := prefixIter_found reveal regs d st e rid n hv
      exact ⟨e, List.mem_cons_self .., r, hr⟩
    · rename_i st' _
      obtain ⟨e', he', rest⟩ := ih st' h
      exact ⟨e', List.mem_cons_of_mem _ he', rest⟩

/-- prefix: matched ⇒ for some supported prefix whose static bytes lead the stream, the 64-byte
window at its offset reveals (under a station key) the identifier of a registration visible on this
phantom, that registration is a PREFIX registration and registered exactly THIS prefix id; offset +
tag are consumed.  Holds for every iteration order of the prefix table (`table` is arbitrary). -/
theorem prefix_match_sound (table : List PrefixEntry) (reveal : Bytes → Option String)
    (regs : List RegView) (d : Bytes) (rid n : Nat) (h : wrapPrefix table reveal regs d = .found rid n) :
    ∃ e ∈ table, ∃ r ∈ regs, r.rid = rid ∧ reveal (window d e.offset) = some r.ident ∧ r.transport = 4 ∧
      r.prefixParam = some (some e.id) ∧ staticOk e d = true ∧ e.maxLen ≤ d.length ∧
      e.offset + 64 ≤ d.length ∧ n = e.offset + 64 := by
  unfold wrapPrefix at h
  split at h
  · cases h
  · exact prefixLoop_found reveal regs d table {} rid n h

/-- obfs4: matched ⇒ the registration is visible on this phantom, has an obfs4 identifier, and its
mark (an HMAC keyed by its node id and public key) was located in the stream -/
theorem obfs4_match_sound (marks : List Nat) (regs : List RegView) (d : Bytes) (rid n : Nat)
    (h : wrapObfs4 marks regs d = .found rid n) :
    ∃ r ∈ regs, r.rid = rid ∧ rid ∈ marks ∧ r.ident.length = 104 ∧ 64 ≤ d.length := by
  unfold wrapObfs4 at h
  split at h
  · cases h
  · rename_i hl
    split at h
    · rename_i r hr
      have h1 := List.mem_of_find?_eq_some hr
      have h2 := List.find?_some hr
      simp only [Verdict.found.injEq] at h
      obtain ⟨hm, hf⟩ := List.mem_filter.mp h1
      refine ⟨r, hm, h.1, ?_, by simpa [obfs4IdentHexLen] using hf, by simp [obfs4MinHandshake] at hl; omega⟩
      rw [← h.1]; simpa using h2
    · split at h <;> cases h

/-! ## cross-prefix, cross-transport, absent parameters -/

/-- a flight for one prefix is never accepted for a registration of another prefix, of no prefix
(absent or nil parameters), or of another transport -/
theorem cross_prefix_rejected (table : List PrefixEntry) (reveal : Bytes → Option String)
    (regs : List RegView) (d : Bytes) (rid n : Nat) (h : wrapPrefix table reveal regs d = .found rid n) :
    ∀ r ∈ regs, r.rid = rid → (∀ r' ∈ regs, r'.rid = rid → r' = r) →
      r.transport = 4 ∧ ∃ e ∈ table, r.prefixParam = some (some e.id) ∧ n = e.offset + 64 := by
  intro r hr hrid huniq
  obtain ⟨e, he, r', hr', hrid', _, htr, hpp, _, _, _, hn⟩ := prefix_match_sound table reveal regs d rid n h
  have := huniq r' hr' hrid'
  subst this
  exact ⟨htr, e, he, hpp, hn⟩

/-! ## the registry side: visible = tracked ∧ valid ∧ on this phantom -/

theorem mem_views {s : St} {p : String} {info} {r : RegView} (h : r ∈ views s p info) :
    ∃ reg, s.decoys[(p, r.ident)]? = some reg ∧ reg.valid = true ∧ r.transport = reg.transport ∧
      r.rid = (info (p, r.ident)).2 := by
  unfold views at h
  simp only [List.mem_map, List.mem_filter] at h
  obtain ⟨⟨⟨p', i⟩, reg⟩, ⟨hm, hf⟩, rfl⟩ := h
  simp only [Bool.and_eq_true, beq_iff_eq] at hf
  obtain ⟨rfl, hv⟩ := hf
  exact ⟨reg, HashMap.mem_toList_iff_getElem?_eq_some.mp hm, hv, rfl, rfl⟩

/-- **Only a validated, currently tracked registration of the connection's own phantom can be
matched** — by any of the three transports, in any registry state. -/
theorem match_requires_valid_tracked (s : St) (p : String) (info) (d : Bytes) (rid n : Nat)
    (table : List PrefixEntry) (reveal : Bytes → Option String) (marks : List Nat)
    (h : wrapMin (views s p info) d = .found rid n ∨
         wrapPrefix table reveal (views s p info) d = .found rid n ∨
         wrapObfs4 marks (views s p info) d = .found rid n) :
    ∃ ident reg, s.decoys[(p, ident)]? = some reg ∧ reg.valid = true ∧ (info (p, ident)).2 = rid := by
  rcases h with h | h | h
  · obtain ⟨r, hr, hrid, _⟩ := min_match_sound _ d rid n h
    obtain ⟨reg, h1, h2, _, h4⟩ := mem_views hr
    exact ⟨r.ident, reg, h1, h2, by rw [← h4, hrid]⟩
  · obtain ⟨_, _, r, hr, hrid, _⟩ := prefix_match_sound table reveal _ d rid n h
    obtain ⟨reg, h1, h2, _, h4⟩ := mem_views hr
    exact ⟨r.ident, reg, h1, h2, by rw [← h4, hrid]⟩
  · obtain ⟨r, hr, hrid, _⟩ := obfs4_match_sound marks _ d rid n h
    obtain ⟨reg, h1, h2, _, h4⟩ := mem_views hr
    exact ⟨r.ident, reg, h1, h2, by rw [← h4, hrid]⟩

/-- an identifier that is not tracked under THIS phantom is not among the visible registrations —
whatever is tracked, valid and unexpired under other phantoms -/
theorem not_tracked_here_invisible (s : St) (p i : String) (info)
    (h : s.decoys.contains (p, i) = false) : ∀ r ∈ views s p info, r.ident ≠ i := by
  intro r hr e
  obtain ⟨reg, h1, _⟩ := mem_views hr
  rw [e] at h1
  rw [contains_of_getElem? _ _ _ h1] at h; cases h

/-- **Cross-phantom replay is rejected** (min): a stream whose first 32 bytes are the identifier of a
registration that is tracked under another phantom only — a genuine flight replayed against the
wrong phantom — is not accepted on a connection to `p`, in any registry state. -/
theorem cross_phantom_rejected (s : St) (p : String) (info) (d : Bytes)
    (h : s.decoys.contains (p, toHex (d.take 32)) = false) :
    ∀ rid n, wrapMin (views s p info) d ≠ .found rid n := by
  intro rid n hf
  obtain ⟨r, hr, _, hi, _⟩ := min_match_sound _ d rid n hf
  exact not_tracked_here_invisible s p _ info h r hr hi

/-- a tracked but not yet validated registration is invisible -/
theorem unvalidated_rejected (s : St) (p i : String) (info) (reg : Reg)
    (h : s.decoys[(p, i)]? = some reg) (hv : reg.valid = false) :
    ∀ r ∈ views s p info, r.ident ≠ i := by
  intro r hr e
  obtain ⟨reg', h1, h2, _⟩ := mem_views hr
  rw [e, h] at h1; cases h1; rw [hv] at h2; cases h2

/-- an expired registration is invisible after the sweep, for every history (C08) -/
theorem expired_rejected (c : Cfg) (s : St) (hr : C08.Reach c s) (now : Nat) (p : String) (info)
    (r : RegView) (h : r ∈ views (sweep c now s).1 p info) :
    ∃ t, (sweep c now s).1.timeouts[(p, r.ident)]? = some t ∧ C08.alive c now t := by
  obtain ⟨reg, h1, _⟩ := mem_views h
  have hc := contains_of_getElem? _ _ _ h1
  rw [C08.no_residue c s hr now (p, r.ident), HashMap.contains_eq_isSome_getElem?] at hc
  cases ht : (sweep c now s).1.timeouts[(p, r.ident)]? with
  | none => rw [ht] at hc; cases hc
  | some t => exact ⟨t, rfl, C08.never_kept c s hr now (p, r.ident) t ht⟩

/-- identifiers are the keys of the per-phantom map, so two visible registrations with the same
identifier are the same map entry (key uniqueness; "matched to exactly that registration" is
`min_matches_exactly_presented` / `prefixK_matches_exactly_revealed` below) -/
theorem views_ident_unique (s : St) (p : String) (info) (r1 r2 : RegView)
    (h1 : r1 ∈ views s p info) (h2 : r2 ∈ views s p info) (he : r1.ident = r2.ident) : r1 = r2 := by
  obtain ⟨reg1, a1, _, t1, i1⟩ := mem_views h1
  obtain ⟨reg2, a2, _, t2, i2⟩ := mem_views h2
  rw [he] at a1 i1; rw [a1] at a2; cases a2
  unfold views at h1 h2
  simp only [List.mem_map, List.mem_filter] at h1 h2
  obtain ⟨⟨k1, g1⟩, ⟨m1, _⟩, rfl⟩ := h1
  obtain ⟨⟨k2, g2⟩, ⟨m2, f2⟩, rfl⟩ := h2
  simp only at he
  have hk1 := HashMap.mem_toList_iff_getElem?_eq_some.mp m1
  have hk2 := HashMap.mem_toList_iff_getElem?_eq_some.mp m2
  rename_i f1
  simp only [Bool.and_eq_true, beq_iff_eq] at f1 f2
  have : k1 = k2 := Prod.ext (by rw [f1.1, f2.1]) he
  subst this
  rw [hk1] at hk2; cases hk2; rfl

/-! ## objects that lived before, duplicate deliveries (extended histories of C08) -/

/-- **An object that is tracked (again) is not visible until it is validated** — whatever `Valid` flag it
carries when it is handed to `Track`, e.g. `true` from an earlier lifetime that a sweep has ended: no
transport is shown it, so no flight is matched to it. -/
theorem redelivered_object_invisible (c : Cfg) (x : XSt) (p i : String) (tr now : Nat) (prior : Bool) (info)
    (hen : c.enabled.contains tr = true) (hnew : x.b.st.decoys[(p, i)]? = none) :
    ∀ r ∈ views (xstep c x (.trackObj (p, i) tr now prior)).1.b.st p info, r.ident ≠ i :=
  unvalidated_rejected _ p i info ⟨tr, false, 1⟩
    (C08.retracked_starts_unvalidated c x (p, i) tr now prior hen hnew).1 rfl

/-- the delivery of a registration: validated or only tracked, the object carrying any `Valid` flag -/
def delivery (validate : Bool) (k : Key) (tr now : Nat) (prior : Bool) : XOp :=
  if validate then .registerObj k tr now prior else .trackObj k tr now prior

/-- **A duplicate delivery does not renew a registration**: after any (extended) history in which the
registration `(p, i)` is tracked with timeout record `t` — the record of its FIRST delivery
(`C08.refines_spec`) — let it be delivered again at any time, with any transport number, validated or
not, by any object; if `t` does not satisfy the age rule at `now`, then after the sweep at `now` no
transport is shown the registration: a flight aimed at it is not accepted, however recent the
duplicate. -/
theorem duplicate_does_not_renew (c : Cfg) (xops : List XOp) (p i : String) (t : TO)
    (validate : Bool) (tr' now' : Nat) (prior : Bool) (now : Nat) (info)
    (ht : (xrun c xops).b.st.timeouts[(p, i)]? = some t) (hexp : ¬ C08.alive c now t) :
    ∀ r ∈ views (sweep c now (xrun c (xops ++ [delivery validate (p, i) tr' now' prior])).b.st).1 p info,
      r.ident ≠ i := by
  have hi : Inv (xrun c xops).b.st := C08.reach_inv (C08.x_reach c xops)
  have hd : (xrun c xops).b.st.decoys[(p, i)]? ≠ none := by
    intro e
    rw [(inv_none_iff _ hi (p, i)).mp e] at ht; cases ht
  have ht' : (xrun c (xops ++ [delivery validate (p, i) tr' now' prior])).b.st.timeouts[(p, i)]? = some t := by
    have hrun : xrun c (xops ++ [delivery validate (p, i) tr' now' prior]) =
        (xstep c (xrun c xops) (delivery validate (p, i) tr' now' prior)).1 := by
      simp [xrun, List.foldl_append]
    rw [hrun]
    cases validate with
    | true =>
      show (register c (xrun c xops).b.st (p, i) tr' now').1.timeouts[(p, i)]? = some t
      rw [register_timeouts_get]; simp [hd, ht]
    | false =>
      show (track c (xrun c xops).b.st (p, i) tr' now').1.timeouts[(p, i)]? = some t
      rw [track_timeouts_get]; simp [hd, ht]
  have hr' := C08.x_reach c (xops ++ [delivery validate (p, i) tr' now' prior])
  have hnt : (sweep c now (xrun c (xops ++ [delivery validate (p, i) tr' now' prior])).b.st).1.decoys.contains (p, i) = false := by
    cases hc : (sweep c now (xrun c (xops ++ [delivery validate (p, i) tr' now' prior])).b.st).1.decoys.contains (p, i) with
    | false => rfl
    | true =>
      obtain ⟨t', _, h2, ha⟩ := (C08.sweep_exact c _ hr' now (p, i)).mp hc
      rw [ht'] at h2; cases h2
      exact absurd ha hexp
  exact not_tracked_here_invisible _ p i info hnt

/-- non-vacuity: registered at 0, delivered again at 540 s, swept at 700 s — not visible -/
example : ∀ r ∈ views (sweep C08.cfg0 700 (xrun C08.cfg0 ([.base (.register ("10.0.0.1", "a") 0 0)] ++
    [delivery true ("10.0.0.1", "a") 0 540 true])).b.st).1 "10.0.0.1" (fun _ => (none, 0)), r.ident ≠ "a" :=
  duplicate_does_not_renew C08.cfg0 _ "10.0.0.1" "a" ⟨0, false⟩ true 0 540 true 700 _
    (by simp [xrun, xstep, bstep, register, C08.cfg0, xinit])
    (by unfold C08.alive; simp [C08.cfg0])
example : ∀ r ∈ views (xstep C08.cfg0 xinit (.trackObj ("10.0.0.1", "a") 0 5 true)).1.b.st "10.0.0.1"
    (fun _ => (none, 0)), r.ident ≠ "a" :=
  redelivered_object_invisible C08.cfg0 xinit "10.0.0.1" "a" 0 5 true _ (by decide) (by simp [xinit])

/-! ## a registration that carried tunnels; identifiers with any bytes -/

/-- **Having carried tunnels keeps no registration alive**: take any (extended) history — connections,
tunnels that were opened on registrations (`Proxy` entered: the registration's tunnel count is > 0 from
then on), tunnels that finished or are still open, duplicates, interrupted sweeps. If the record the
registration `(p, i)` has in the history WITH ALL TUNNEL OPERATIONS ERASED fails the age rule at `now`,
then after the sweep at `now` of the real history no transport is shown the registration: its genuine
first flight, replayed, opens no tunnel. -/
theorem tunnel_use_does_not_keep (c : Cfg) (xops : List XOp) (p i : String) (t : TO) (now : Nat) (info)
    (ht : (xrun c (xops.filter fun o => !o.isTunnel)).b.st.timeouts[(p, i)]? = some t)
    (hexp : ¬ C08.alive c now t) :
    ∀ r ∈ views (sweep c now (xrun c xops).b.st).1 p info, r.ident ≠ i := by
  rw [(C08.tunnels_have_no_say c xops).1] at ht
  have hr' := C08.x_reach c xops
  have hnt : (sweep c now (xrun c xops).b.st).1.decoys.contains (p, i) = false := by
    cases hc : (sweep c now (xrun c xops).b.st).1.decoys.contains (p, i) with
    | false => rfl
    | true =>
      obtain ⟨t', _, h2, ha⟩ := (C08.sweep_exact c _ hr' now (p, i)).mp hc
      rw [ht] at h2; cases h2
      exact absurd ha hexp
  exact not_tracked_here_invisible _ p i info hnt

/-- non-vacuity: registered at 0, a tunnel opened on it (still open), swept at 700 s — not visible -/
example : ∀ r ∈ views (sweep C08.cfg0 700 (xrun C08.cfg0 [.base (.register ("10.0.0.1", "a") 0 0),
    .tunnel ("10.0.0.1", "a")]).b.st).1 "10.0.0.1" (fun _ => (none, 0)), r.ident ≠ "a" :=
  tunnel_use_does_not_keep C08.cfg0 _ "10.0.0.1" "a" ⟨0, false⟩ 700 _
    (by simp [xrun, xstep, bstep, register, C08.cfg0, xinit, XOp.isTunnel])
    (by unfold C08.alive; simp [C08.cfg0])

open CJ.TimeoutKey in
/-- cutting a key at its first separator gives back the pair it was built from, whatever bytes the
identifier holds, as long as the phantom address is free of the separator -/
theorem splitFirst_timeoutIndex (p i : List Nat) (h : sep ∉ p) : splitFirst (timeoutIndex p i) = (p, i) := by
  induction p with
  | nil => simp [timeoutIndex, splitFirst]
  | cons b r ih =>
    have hb : b ≠ sep := fun e => h (by rw [e]; exact List.mem_cons_self)
    have hr : sep ∉ r := fun m => h (List.mem_cons_of_mem _ m)
    have ih' := ih hr
    simp only [timeoutIndex] at ih'
    simp [timeoutIndex, splitFirst, hb, ih']

open CJ.TimeoutKey in
/-- **The string key stands for the pair**: for phantom addresses free of the separator, two registrations
share a timeout key only if they share phantom AND identifier — for identifiers of any bytes, the separator
included. This is what lets the registry model key its maps by pairs. -/
theorem timeoutIndex_injective (p p' i i' : List Nat) (h : sep ∉ p) (h' : sep ∉ p')
    (e : timeoutIndex p i = timeoutIndex p' i') : p = p' ∧ i = i' := by
  have := congrArg splitFirst e
  rw [splitFirst_timeoutIndex _ _ h, splitFirst_timeoutIndex _ _ h'] at this
  exact Prod.mk.inj this

open CJ.TimeoutKey in
/-- cutting at the LAST separator is no inverse: an identifier that holds the separator is torn apart -/
example : splitLast (timeoutIndex [49] [2, sep, 3]) = ([49, sep, 2], [3]) := by decide

/-- the code's key function has the modelled shape (regenerated go/ast fact) -/
theorem timeout_key_shape :
    CJ.Gen.timeoutIndexOperands = ["param:0", "lit:|", "param:1"] ∧
    "|".toList.map Char.toNat = [CJ.TimeoutKey.sep] := by decide

/-- **Nothing takes a key apart**: `removeRegistration` reaches the registration through the pair stored in
the record it found under the key (`<record>.decoy`, `<record>.identifier`), `track` fills that pair from
the very values it builds the key and the `decoys` entry from, and `removeRegistration` calls nothing but
the lock, `isExpired`, `delete`, `len`, conversions and the statistics (regenerated go/ast facts). -/
theorem removal_goes_by_the_record :
    CJ.Gen.removalDecoysKeys =
      ["inner:" ++ CJ.Gen.removalRecordVar ++ ".identifier", "outer:" ++ CJ.Gen.removalRecordVar ++ ".decoy"] ∧
    CJ.Gen.recordKeyFieldInits = [("decoy", "phantomAddr"), ("identifier", "identifier")] ∧
    CJ.Gen.trackKeyUses = ["key:timeoutIndex(phantomAddr, identifier)", "store:phantomAddr,identifier"] ∧
    CJ.Gen.removalCalls = ["Stat", "Stat().ExpireReg", "delete", "expiredRegObj.PhantomIp.To4",
      "expiredRegObj.RegistrationSource.String", "expiredRegObj.Transport.String", "int64", "len",
      "r.isExpired", "r.m.Lock", "r.m.Unlock", "time.Since", "uint"] := by decide

/-- the `Valid` flag — what makes a registration visible to connections — is cleared by `track` and set
by `register`, and written nowhere else in the package (regenerated go/ast fact): whatever flag a
delivered object carries is overwritten when it is stored, and only validation raises it -/
theorem valid_written_by_track_and_register_only :
    CJ.Gen.fieldWriters.filter (fun w => w.1 == "Valid") =
      [("Valid", "register", "assign = true"), ("Valid", "track", "assign = false")] := by
  decide +kernel

/-! ## several station keys: the prefix classifier as the code runs it -/

theorem getRegK_some {regs : List RegView} {ids : List String} {r : RegView} (h : getRegK regs ids = some r) :
    r ∈ regs ∧ r.ident ∈ ids := by
  unfold getRegK at h
  obtain ⟨id, hid, hf⟩ := List.exists_of_findSome?_eq_some h
  obtain ⟨hm, hi⟩ := findReg_some hf
  exact ⟨hm, by rw [hi]; exact hid⟩

theorem prefixIterK_found (reveals : Bytes → List String) (regs : List RegView) (d : Bytes) (st : PLoop)
    (e : PrefixEntry) (rid n : Nat) (h : prefixIterK reveals regs d st e = .inl (.found rid n)) :
    ∃ r ∈ regs, r.rid = rid ∧ r.ident ∈ reveals (window d e.offset) ∧ r.transport = 4 ∧
      r.prefixParam = some (some e.id) ∧ staticOk e d = true ∧ e.maxLen ≤ d.length ∧
      e.offset + 64 ≤ d.length ∧ n = e.offset + 64 := by
  unfold prefixIterK at h
  split at h; · cases h
  rename_i hs
  split at h; · cases h
  split at h; · cases h
  split at h; · cases h
  rename_i hmax
  split at h; · cases h
  rename_i hoff
  split at h
  · cases h
  · rename_i r hr
    obtain ⟨hm, hi⟩ := getRegK_some hr
    split at h; · cases h
    rename_i htr
    split at h; · cases h
    rename_i hpp
    simp only [Sum.inl.injEq, Verdict.found.injEq] at h
    refine ⟨r, hm, h.1, hi, by simpa using htr, by simpa using hpp, by simpa using hs,
      by omega, by simp [prefixTagLen] at hoff; omega, by simp [prefixTagLen] at h; omega⟩

theorem prefixLoopK_found (reveals : Bytes → List String) (regs : List RegView) (d : Bytes)
    (table : List PrefixEntry) (st : PLoop) (rid n : Nat)
    (h : prefixLoopK reveals regs d st table = .found rid n) :
    ∃ e ∈ table, ∃ r ∈ regs, r.rid = rid ∧ r.ident ∈ reveals (window d e.offset) ∧ r.transport = 4 ∧
      r.prefixParam = some (some e.id) ∧ staticOk e d = true ∧ e.maxLen ≤ d.length ∧
      e.offset + 64 ≤ d.length ∧ n = e.offset + 64 := by
  induction table generalizing st with
  | nil =>
    simp only [prefixLoopK] at h
    split at h; · cases h
    split at h <;> cases h
  | cons e es ih =>
    simp only [prefixLoopK] at h
    split at h
    · rename_i v hv
      subst h
      obtain ⟨r, hr⟩ := prefixIterK_found reveals regs d st e rid n hv
      exact ⟨e, List.mem_cons_self .., r, hr⟩
    · rename_i st' _
      obtain ⟨e', he', rest⟩ := ih st' h
      exact ⟨e', List.mem_cons_of_mem _ he', rest⟩

/-- prefix with any number of station keys: matched ⇒ for some supported prefix whose static bytes
lead the stream, SOME station key reveals from the 64-byte window at its offset the identifier of a
registration visible on this phantom; that registration is a PREFIX registration and registered
exactly THIS prefix id.  For every iteration order of the table and every key order. -/
theorem prefixK_match_sound (table : List PrefixEntry) (reveals : Bytes → List String)
    (regs : List RegView) (d : Bytes) (rid n : Nat) (h : wrapPrefixK table reveals regs d = .found rid n) :
    ∃ e ∈ table, ∃ r ∈ regs, r.rid = rid ∧ r.ident ∈ reveals (window d e.offset) ∧ r.transport = 4 ∧
      r.prefixParam = some (some e.id) ∧ staticOk e d = true ∧ e.maxLen ≤ d.length ∧
      e.offset + 64 ≤ d.length ∧ n = e.offset + 64 := by
  unfold wrapPrefixK at h
  split at h
  · cases h
  · exact prefixLoopK_found reveals regs d table {} rid n h

/-- with one key the several-key classifier is the one-key classifier (which C03 / C04 build on) -/
theorem wrapPrefixK_single (table : List PrefixEntry) (reveal : Bytes → Option String)
    (regs : List RegView) (d : Bytes) :
    wrapPrefixK table (fun w => (reveal w).toList) regs d = wrapPrefix table reveal regs d := by
  have hget : ∀ w, getRegK regs ((reveal w).toList) = (reveal w).bind (findReg regs) := by
    intro w
    cases reveal w with
    | none => rfl
    | some id => simp [getRegK]
  have hiter : ∀ st e, prefixIterK (fun w => (reveal w).toList) regs d st e = prefixIter reveal regs d st e := by
    intro st e
    unfold prefixIterK prefixIter
    simp only [hget]
    cases hr : reveal (window d e.offset) with
    | none => simp
    | some id => simp only [Option.bind_some]
  have hloop : ∀ st, prefixLoopK (fun w => (reveal w).toList) regs d st table = prefixLoop reveal regs d st table := by
    induction table with
    | nil => intro st; rfl
    | cons e es ih =>
      intro st
      simp only [prefixLoopK, prefixLoop, hiter]
      cases prefixIter reveal regs d st e with
      | inl v => rfl
      | inr st' => exact ih st'
  unfold wrapPrefixK wrapPrefix
  split
  · rfl
  · exact hloop {}

theorem prefixIterK_no_panic (reveals : Bytes → List String) (regs : List RegView) (d : Bytes) (st : PLoop)
    (e : PrefixEntry) (hwf : e.offset + prefixTagLen ≤ max e.minLen e.maxLen) :
    prefixIterK reveals regs d st e ≠ .inl .panic := by
  unfold prefixIterK
  split; · simp
  split; · simp
  rename_i hmin
  split; · simp
  split; · simp
  rename_i hmax
  split
  · rename_i hoff
    exfalso
    have : max e.minLen e.maxLen ≤ d.length := by
      simp only [Nat.not_lt] at hmin hmax
      exact Nat.max_le.mpr ⟨hmin, hmax⟩
    omega
  · split
    · simp
    · split
      · simp
      · split <;> simp

/-! ## cross-transport: identifiers are per (secret, transport)

`IdentOf sec tr` is the identifier (hex text) the transport `tr` derives from the shared secret
`sec`; `NoTagCollision` — the HMAC idealisation, a HYPOTHESIS, not an axiom — says that distinct
(secret, transport) pairs have distinct identifiers.  `Honest` says that the visible registrations
carry the identifiers of their own secret and transport (`secOf rid` is the secret of registration
`rid`), which is how `track` stores them (`t.GetIdentifier(d)`). -/

def NoTagCollision (IdentOf : Nat → Nat → String) : Prop :=
  ∀ s t s' t', IdentOf s t = IdentOf s' t' → s = s' ∧ t = t'

def Honest (IdentOf : Nat → Nat → String) (secOf : Nat → Nat) (regs : List RegView) : Prop :=
  ∀ r ∈ regs, r.ident = IdentOf (secOf r.rid) r.transport

/-- min: matched to EXACTLY the registration whose identifier was presented: if the first 32 bytes
are the identifier of (secret `s`, transport `t`), the matched registration has secret `s` and
transport `t`.  (READING DECISION, pinned by the harness: min does not look at `t` — someone who
knows the secret of a prefix registration and presents its raw identifier to min is matched to that
prefix registration.  That is a crafted stream by a holder of the secret, not a genuine flight
produced for another transport: genuine prefix / obfs4 flights never start with a raw identifier.) -/
theorem min_matches_exactly_presented (IdentOf : Nat → Nat → String) (secOf : Nat → Nat)
    (hnc : NoTagCollision IdentOf) (regs : List RegView) (hh : Honest IdentOf secOf regs)
    (d : Bytes) (s t rid n : Nat) (hd : toHex (d.take 32) = IdentOf s t)
    (h : wrapMin regs d = .found rid n) :
    ∃ r ∈ regs, r.rid = rid ∧ secOf rid = s ∧ r.transport = t := by
  obtain ⟨r, hr, hrid, hi, _⟩ := min_match_sound regs d rid n h
  have := hh r hr
  rw [hi, hd] at this
  obtain ⟨h1, h2⟩ := hnc _ _ _ _ this
  exact ⟨r, hr, hrid, by rw [← hrid]; exact h1.symm, h2.symm⟩

/-- prefix: matched to exactly the registration one of whose identifiers was revealed, and that
identifier is the PREFIX identifier of its secret -/
theorem prefixK_matches_exactly_revealed (IdentOf : Nat → Nat → String) (secOf : Nat → Nat)
    (regs : List RegView) (hh : Honest IdentOf secOf regs)
    (table : List PrefixEntry) (reveals : Bytes → List String) (d : Bytes) (rid n : Nat)
    (h : wrapPrefixK table reveals regs d = .found rid n) :
    ∃ e ∈ table, IdentOf (secOf rid) 4 ∈ reveals (window d e.offset) ∧ n = e.offset + 64 := by
  obtain ⟨e, he, r, hr, hrid, hrev, htr, _, _, _, _, hn⟩ := prefixK_match_sound table reveals regs d rid n h
  refine ⟨e, he, ?_, hn⟩
  have := hh r hr
  rw [htr, hrid] at this
  rw [← this]; exact hrev

/-- **Cross-transport flights are rejected by the prefix classifier**: if every identifier that any
station key reveals from any candidate window is an identifier of a transport other than prefix
(a tag built from a min / obfs4 / DTLS registration's identifier — whoever built it) or of no
visible registration at all, nothing is accepted. -/
theorem cross_transport_rejected (IdentOf : Nat → Nat → String) (secOf : Nat → Nat)
    (hnc : NoTagCollision IdentOf) (regs : List RegView) (hh : Honest IdentOf secOf regs)
    (table : List PrefixEntry) (reveals : Bytes → List String) (d : Bytes)
    (hx : ∀ e ∈ table, ∀ id ∈ reveals (window d e.offset),
      (∃ s t, id = IdentOf s t ∧ t ≠ 4) ∨ ∀ r ∈ regs, r.ident ≠ id) :
    ∀ rid n, wrapPrefixK table reveals regs d ≠ .found rid n := by
  intro rid n hf
  obtain ⟨e, he, r, hr, _, hrev, htr, _⟩ := prefixK_match_sound table reveals regs d rid n hf
  rcases hx e he r.ident hrev with ⟨s, t, hid, ht⟩ | hno
  · have := hh r hr
    rw [hid] at this
    obtain ⟨_, h2⟩ := hnc _ _ _ _ this
    exact ht (by rw [h2, htr])
  · exact hno r hr rfl

/-- obfs4 selects candidates by identifier length; under the idealisation that only obfs4
identifiers have that length the matched registration IS an obfs4 registration -/
theorem obfs4_match_is_obfs4 (IdentOf : Nat → Nat → String) (secOf : Nat → Nat)
    (hlen : ∀ s t, (IdentOf s t).length = 104 → t = 2)
    (regs : List RegView) (hh : Honest IdentOf secOf regs) (marks : List Nat) (d : Bytes) (rid n : Nat)
    (h : wrapObfs4 marks regs d = .found rid n) :
    ∃ r ∈ regs, r.rid = rid ∧ r.transport = 2 ∧ rid ∈ marks := by
  obtain ⟨r, hr, hrid, hm, hl, _⟩ := obfs4_match_sound marks regs d rid n h
  refine ⟨r, hr, hrid, ?_, hm⟩
  have := hh r hr
  rw [this] at hl
  exact hlen _ _ hl

/-- cross-phantom for prefix and obfs4: nothing that is revealed / marked only for registrations that
are not tracked under this phantom is accepted -/
theorem cross_phantom_rejected_prefix (s : St) (p : String) (info) (table : List PrefixEntry)
    (reveals : Bytes → List String) (d : Bytes)
    (h : ∀ e ∈ table, ∀ id ∈ reveals (window d e.offset), s.decoys.contains (p, id) = false) :
    ∀ rid n, wrapPrefixK table reveals (views s p info) d ≠ .found rid n := by
  intro rid n hf
  obtain ⟨e, he, r, hr, _, hrev, _⟩ := prefixK_match_sound table reveals _ d rid n hf
  exact not_tracked_here_invisible s p _ info (h e he r.ident hrev) r hr rfl

theorem cross_phantom_rejected_obfs4 (s : St) (p : String) (info) (marks : List Nat) (d : Bytes)
    (h : ∀ r ∈ views s p info, r.rid ∉ marks) :
    ∀ rid n, wrapObfs4 marks (views s p info) d ≠ .found rid n := by
  intro rid n hf
  obtain ⟨r, hr, hrid, hm, _⟩ := obfs4_match_sound marks _ d rid n hf
  exact h r hr (by rw [hrid]; exact hm)

/-- the length constants of the obfs4 classifier model are the code's (regenerated each run) -/
theorem obfs4_consts_pinned :
    CJ.Gen.Obfs4.clientMinHandshake = obfs4MinHandshake ∧ CJ.Gen.Obfs4.maxHandshake = obfs4MaxHandshake ∧
    2 * CJ.Gen.Obfs4.identLen = obfs4IdentHexLen ∧
    CJ.Gen.Obfs4.clientMinHandshake = CJ.Gen.Obfs4.representativeLen + CJ.Gen.Obfs4.markLen + CJ.Gen.Obfs4.macLen := by
  decide

/-! ## altered tags -/

/-- min: a stream whose first 32 bytes are not the identifier of a visible registration is never
accepted — in particular a genuine flight altered anywhere in the tag, unless the altered tag
collides with another registered identifier (excluded by HMAC unforgeability, a hypothesis). -/
theorem min_altered_rejected (regs : List RegView) (d : Bytes)
    (h : ∀ r ∈ regs, r.ident ≠ toHex (d.take 32)) : ∀ rid n, wrapMin regs d ≠ .found rid n := by
  intro rid n hf
  obtain ⟨r, hr, _, hi, _⟩ := min_match_sound regs d rid n hf
  exact h r hr hi

/-- prefix: if no window reveals a visible identifier, nothing is accepted -/
theorem prefix_altered_rejected (table : List PrefixEntry) (reveal : Bytes → Option String)
    (regs : List RegView) (d : Bytes)
    (h : ∀ e ∈ table, ∀ r ∈ regs, reveal (window d e.offset) ≠ some r.ident) :
    ∀ rid n, wrapPrefix table reveal regs d ≠ .found rid n := by
  intro rid n hf
  obtain ⟨e, he, r, hr, _, hrev, _⟩ := prefix_match_sound table reveal regs d rid n hf
  exact h e he r hr hrev

/-- FULL-STRENGTH reading of "altered anywhere in the tag": whatever the reveal function, a stream
that differs from an accepted one inside the tag window of the matched prefix is not accepted. -/
def altered_anywhere_rejected_full : Prop :=
  ∀ (e : PrefixEntry) (reveal : Bytes → Option String) (regs : List RegView) (d d' : Bytes) (rid n : Nat),
    wrapPrefix [e] reveal regs d = .found rid n → window d e.offset ≠ window d' e.offset →
    d.length = d'.length → ∀ rid' n', wrapPrefix [e] reveal regs d' ≠ .found rid' n'

def e0 : PrefixEntry := { id := 0, static := [], offset := 0, minLen := 64, maxLen := 64 }
def w0 : Bytes := List.replicate 64 0
def w1 : Bytes := w0.set 31 0x80
/-- a reveal function that, like the real one, ignores the two high bits of byte 31 of the
Elligator representative (the client randomises them, the station masks them) -/
def revealMasked : Bytes → Option String := fun w =>
  if w.set 31 ((w.getD 31 0) &&& 0x3f) == w0 then some "aa" else none
def r0 : RegView := { ident := "aa", transport := 4, prefixParam := some (some 0), rid := 1 }

/-- The full-strength statement is FALSE of the real design (recorded finding
`C02:altered-elligator-pad-bits-accepted`): a flight altered only in the two pad bits is accepted.
The witness is replayed against the Go code on every run (harness corpus). -/
theorem altered_anywhere_rejected_full_refuted : ¬ altered_anywhere_rejected_full := by
  intro h
  have := h e0 revealMasked [r0] w0 w1 1 64 (by decide) (by decide) (by decide) 1 64
  exact this (by decide)

/-- What does hold (`_partial`): if the reveal function is injective on windows — true of the real
obfuscator except for exactly those two pad bits — then two streams accepted for the same
registration under the same prefix carry the same tag window: an alteration inside it is rejected. -/
theorem altered_rejected_partial (e : PrefixEntry) (reveal : Bytes → Option String) (regs : List RegView)
    (d d' : Bytes) (rid n rid' n' : Nat)
    (hinj : ∀ w w' id, reveal w = some id → reveal w' = some id → w = w')
    (huniq : ∀ r ∈ regs, ∀ r' ∈ regs, r.rid = r'.rid → r = r')
    (h : wrapPrefix [e] reveal regs d = .found rid n) (h' : wrapPrefix [e] reveal regs d' = .found rid' n')
    (hsame : rid = rid') : window d e.offset = window d' e.offset := by
  obtain ⟨e1, he1, r, hr, hrid, hrev, _⟩ := prefix_match_sound [e] reveal regs d rid n h
  obtain ⟨e2, he2, r', hr', hrid', hrev', _⟩ := prefix_match_sound [e] reveal regs d' rid' n' h'
  simp only [List.mem_singleton] at he1 he2
  subst he1 he2
  have : r = r' := huniq r hr r' hr' (by rw [hrid, hrid', hsame])
  subst this
  exact hinj _ _ _ hrev hrev'

/-! ## the generated prefix table: slices stay in bounds (also used by C11) -/

/-- every supported prefix leaves room for the whole tag before its decision length -/
theorem prefix_table_wf : ∀ e ∈ CJ.Gen.prefixTable,
    e.offset + CJ.Gen.prefixTagLen ≤ max e.minLen e.maxLen ∧ e.static.length ≤ e.offset := by
  decide

theorem gen_tag_len : CJ.Gen.prefixTagLen = prefixTagLen := by decide

/-- with such a table the tag slice is never taken out of range -/
theorem prefixIter_no_panic (reveal : Bytes → Option String) (regs : List RegView) (d : Bytes) (st : PLoop)
    (e : PrefixEntry) (hwf : e.offset + prefixTagLen ≤ max e.minLen e.maxLen) :
    prefixIter reveal regs d st e ≠ .inl .panic := by
  unfold prefixIter
  split; · simp
  split; · simp
  rename_i hmin
  split; · simp
  split; · simp
  rename_i hmax
  split
  · rename_i hoff
    exfalso
    have : max e.minLen e.maxLen ≤ d.length := by
      simp only [Nat.not_lt] at hmin hmax
      exact Nat.max_le.mpr ⟨hmin, hmax⟩
    omega
  · split
    · simp
    · split
      · simp
      · split
        · simp
        · split <;> simp

theorem prefixLoop_no_panic (reveal : Bytes → Option String) (regs : List RegView) (d : Bytes)
    (table : List PrefixEntry) (st : PLoop)
    (hwf : ∀ e ∈ table, e.offset + prefixTagLen ≤ max e.minLen e.maxLen) :
    prefixLoop reveal regs d st table ≠ .panic := by
  induction table generalizing st with
  | nil =>
    simp only [prefixLoop]
    split; · simp
    split <;> simp
  | cons e es ih =>
    simp only [prefixLoop]
    split
    · rename_i v hv
      intro hp; subst hp
      exact prefixIter_no_panic reveal regs d st e (hwf e (List.mem_cons_self ..)) hv
    · exact ih _ (fun e' he' => hwf e' (List.mem_cons_of_mem _ he'))

/-- the prefix classifier never slices out of range on the table the code ships, for any input -/
theorem prefix_no_panic (reveal : Bytes → Option String) (regs : List RegView) (d : Bytes) :
    wrapPrefix CJ.Gen.prefixTable reveal regs d ≠ .panic := by
  unfold wrapPrefix
  split
  · simp
  · apply prefixLoop_no_panic
    intro e he
    have := (prefix_table_wf e he).1
    rw [gen_tag_len] at this
    exact this

theorem prefixLoopK_no_panic (reveals : Bytes → List String) (regs : List RegView) (d : Bytes)
    (table : List PrefixEntry) (st : PLoop)
    (hwf : ∀ e ∈ table, e.offset + prefixTagLen ≤ max e.minLen e.maxLen) :
    prefixLoopK reveals regs d st table ≠ .panic := by
  induction table generalizing st with
  | nil =>
    simp only [prefixLoopK]
    split; · simp
    split <;> simp
  | cons e es ih =>
    simp only [prefixLoopK]
    split
    · rename_i v hv
      intro hp; subst hp
      exact prefixIterK_no_panic reveals regs d st e (hwf e (List.mem_cons_self ..)) hv
    · exact ih _ (fun e' he' => hwf e' (List.mem_cons_of_mem _ he'))

/-- … with any number of station keys -/
theorem prefixK_no_panic (reveals : Bytes → List String) (regs : List RegView) (d : Bytes) :
    wrapPrefixK CJ.Gen.prefixTable reveals regs d ≠ .panic := by
  unfold wrapPrefixK
  split
  · simp
  · apply prefixLoopK_no_panic
    intro e he
    have := (prefix_table_wf e he).1
    rw [gen_tag_len] at this
    exact this

/-! ## non-vacuity -/

def rv0 : RegView := { ident := toHex (List.replicate 32 7), transport := 1, prefixParam := none, rid := 5 }
example : wrapMin [rv0] (List.replicate 40 7) = .found 5 32 := by decide
example : wrapMin [rv0] (List.replicate 31 7) = .tryAgain := by decide

-- several keys: the first key reveals an unregistered identifier, the second the registered one
def rk : RegView := { ident := "bb", transport := 4, prefixParam := some (some 0), rid := 7 }
def rm1 : RegView := { ident := "cc", transport := 1, prefixParam := none, rid := 8 }
example : wrapPrefixK [e0] (fun _ => ["zz", "bb"]) [rk] w0 = .found 7 64 := by decide
-- a tag built from a min registration's identifier is refused with the transport error
example : wrapPrefixK [e0] (fun _ => ["cc"]) [rk, rm1] w0 = .errIncorrectTransport := by decide
-- NoTagCollision / Honest are satisfiable: identifiers that spell out (secret, transport) in unary
theorem rep_inj (s t s' t' : Nat)
    (h : List.replicate s 'x' ++ 'y' :: List.replicate t 'x' = List.replicate s' 'x' ++ 'y' :: List.replicate t' 'x') :
    s = s' ∧ t = t' := by
  induction s generalizing s' with
  | zero =>
    cases s' with
    | zero => simp at h; exact ⟨rfl, h⟩
    | succ n => simp [List.replicate_succ] at h
  | succ n ih =>
    cases s' with
    | zero => simp [List.replicate_succ] at h
    | succ m =>
      simp only [List.replicate_succ, List.cons_append, List.cons.injEq, true_and] at h
      obtain ⟨h1, h2⟩ := ih m h
      exact ⟨by omega, h2⟩

def unaryIdent (s t : Nat) : String := String.ofList (List.replicate s 'x' ++ 'y' :: List.replicate t 'x')

example : NoTagCollision unaryIdent := by
  intro s t s' t' h
  exact rep_inj s t s' t' (String.ofList_injective h)
example : Honest unaryIdent (fun rid => rid) [{ ident := unaryIdent 3 4, transport := 4, prefixParam := none, rid := 3 }] := by
  intro r hr
  simp only [List.mem_singleton] at hr
  subst hr; rfl

end CJ.Props.C02
