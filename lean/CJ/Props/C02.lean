import CJ.Model.WrapReg
import CJ.Gen.PrefixTable
import CJ.Props.C08
/-!
# C02 — only proof of a validated registration's secret on that phantom opens a tunnel

Property theorems only.  "Proves knowledge of the secret" is the structural statement that the
presented bytes (min), the revealed window (prefix) or the located mark (obfs4) equal the
identifier / mark derived from that registration's secret; unforgeability of HMAC is outside the
model (hypotheses `NoTagCollision`-style are explicit where used).
-/
open Std

namespace CJ.Props.C02
open CJ.Wrap CJ.Registry

theorem findReg_some {regs : List RegView} {id : String} {r : RegView} (h : findReg regs id = some r) :
    r ∈ regs ∧ r.ident = id := by
  unfold findReg at h
  have h1 := List.mem_of_find?_eq_some h
  have h2 := List.find?_some h
  exact ⟨h1, by simpa using h2⟩

/-! ## soundness of each classifier: a match names a visible registration whose identifier was presented -/

/-- min: matched ⇒ at least 32 bytes were seen, the first 32 are the identifier of a registration
visible on this phantom, and exactly those 32 bytes are consumed -/
theorem min_match_sound (regs : List RegView) (d : Bytes) (rid n : Nat)
    (h : wrapMin regs d = .found rid n) :
    ∃ r ∈ regs, r.rid = rid ∧ r.ident = toHex (d.take 32) ∧ n = 32 ∧ 32 ≤ d.length := by
  unfold wrapMin at h
  split at h
  · cases h
  · rename_i hl
    split at h
    · rename_i r hr
      obtain ⟨hm, hi⟩ := findReg_some hr
      simp only [Verdict.found.injEq] at h
      exact ⟨r, hm, h.1, hi, h.2.symm, by simp [minTagLen] at hl; omega⟩
    · cases h

/-- prefix, one loop iteration -/
theorem prefixIter_found (reveal : Bytes → Option String) (regs : List RegView) (d : Bytes) (st : PLoop)
    (e : PrefixEntry) (rid n : Nat) (h : prefixIter reveal regs d st e = .inl (.found rid n)) :
    ∃ r ∈ regs, r.rid = rid ∧ reveal (window d e.offset) = some r.ident ∧ r.transport = 4 ∧
      r.prefixParam = some (some e.id) ∧ staticOk e d = true ∧ e.maxLen ≤ d.length ∧
      e.offset + 64 ≤ d.length ∧ n = e.offset + 64 := by
  unfold prefixIter at h
  split at h; · cases h
  rename_i hs
  split at h; · cases h
  split at h; · cases h
  split at h; · cases h
  rename_i hmax
  split at h; · cases h
  rename_i hoff
  split at h
  · cases h
  · rename_i id hrev
    split at h
    · cases h
    · rename_i r hr
      obtain ⟨hm, hi⟩ := findReg_some hr
      split at h; · cases h
      rename_i htr
      split at h; · cases h
      rename_i hpp
      simp only [Sum.inl.injEq, Verdict.found.injEq] at h
      refine ⟨r, hm, h.1, by rw [hrev, hi], by simpa using htr, by simpa using hpp, by simpa using hs,
        by omega, by simp [prefixTagLen] at hoff; omega, by simp [prefixTagLen] at h; omega⟩

theorem prefixLoop_found (reveal : Bytes → Option String) (regs : List RegView) (d : Bytes)
    (table : List PrefixEntry) (st : PLoop) (rid n : Nat)
    (h : prefixLoop reveal regs d st table = .found rid n) :
    ∃ e ∈ table, ∃ r ∈ regs, r.rid = rid ∧ reveal (window d e.offset) = some r.ident ∧ r.transport = 4 ∧
      r.prefixParam = some (some e.id) ∧ staticOk e d = true ∧ e.maxLen ≤ d.length ∧
      e.offset + 64 ≤ d.length ∧ n = e.offset + 64 := by
  induction table generalizing st with
  | nil =>
    simp only [prefixLoop] at h
    split at h; · cases h
    split at h <;> cases h
  | cons e es ih =>
    simp only [prefixLoop] at h
    split at h
    · rename_i v hv
      subst h
      obtain ⟨r, hr⟩ := prefixIter_found reveal regs d st e rid n hv
      exact ⟨e, List.mem_cons_self .., r, hr⟩
    · rename_i st' _
      obtain ⟨e', he', rest⟩ := ih st' h
      exact ⟨e', List.mem_cons_of_mem _ he', rest⟩

/-- prefix: matched ⇒ for some supported prefix whose static bytes lead the stream, the 64-byte
window at its offset reveals (under a station key) the identifier of a registration visible on this
phantom, that registration is a PREFIX registration and registered exactly THIS prefix id; offset +
tag are consumed.  Holds for every iteration order of the prefix table (`table` is arbitrary). -/
theorem prefix_match_sound (table : List PrefixEntry) (reveal : Bytes → Option String)
    (regs : List RegView) (d : Bytes) (rid n : Nat) (h : wrapPrefix table reveal regs d = .found rid n) :
    ∃ e ∈ table, ∃ r ∈ regs, r.rid = rid ∧ reveal (window d e.offset) = some r.ident ∧ r.transport = 4 ∧
      r.prefixParam = some (some e.id) ∧ staticOk e d = true ∧ e.maxLen ≤ d.length ∧
      e.offset + 64 ≤ d.length ∧ n = e.offset + 64 := by
  unfold wrapPrefix at h
  split at h
  · cases h
  · exact prefixLoop_found reveal regs d table {} rid n h

/-- obfs4: matched ⇒ the registration is visible on this phantom, has an obfs4 identifier, and its
mark (an HMAC keyed by its node id and public key) was located in the stream -/
theorem obfs4_match_sound (marks : List Nat) (regs : List RegView) (d : Bytes) (rid n : Nat)
    (h : wrapObfs4 marks regs d = .found rid n) :
    ∃ r ∈ regs, r.rid = rid ∧ rid ∈ marks ∧ r.ident.length = 104 ∧ 64 ≤ d.length := by
  unfold wrapObfs4 at h
  split at h
  · cases h
  · rename_i hl
    split at h
    · rename_i r hr
      have h1 := List.mem_of_find?_eq_some hr
      have h2 := List.find?_some hr
      simp only [Verdict.found.injEq] at h
      obtain ⟨hm, hf⟩ := List.mem_filter.mp h1
      refine ⟨r, hm, h.1, ?_, by simpa [obfs4IdentHexLen] using hf, by simp [obfs4MinHandshake] at hl; omega⟩
      rw [← h.1]; simpa using h2
    · split at h <;> cases h

/-! ## cross-prefix, cross-transport, absent parameters -/

/-- a flight for one prefix is never accepted for a registration of another prefix, of no prefix
(absent or nil parameters), or of another transport -/
theorem cross_prefix_rejected (table : List PrefixEntry) (reveal : Bytes → Option String)
    (regs : List RegView) (d : Bytes) (rid n : Nat) (h : wrapPrefix table reveal regs d = .found rid n) :
    ∀ r ∈ regs, r.rid = rid → (∀ r' ∈ regs, r'.rid = rid → r' = r) →
      r.transport = 4 ∧ ∃ e ∈ table, r.prefixParam = some (some e.id) ∧ n = e.offset + 64 := by
  intro r hr hrid huniq
  obtain ⟨e, he, r', hr', hrid', _, htr, hpp, _, _, _, hn⟩ := prefix_match_sound table reveal regs d rid n h
  have := huniq r' hr' hrid'
  subst this
  exact ⟨htr, e, he, hpp, hn⟩

/-! ## the registry side: visible = tracked ∧ valid ∧ on this phantom -/

theorem mem_views {s : St} {p : String} {info} {r : RegView} (h : r ∈ views s p info) :
    ∃ reg, s.decoys[(p, r.ident)]? = some reg ∧ reg.valid = true ∧ r.transport = reg.transport ∧
      r.rid = (info (p, r.ident)).2 := by
  unfold views at h
  simp only [List.mem_map, List.mem_filter] at h
  obtain ⟨⟨⟨p', i⟩, reg⟩, ⟨hm, hf⟩, rfl⟩ := h
  simp only [Bool.and_eq_true, beq_iff_eq] at hf
  obtain ⟨rfl, hv⟩ := hf
  exact ⟨reg, HashMap.mem_toList_iff_getElem?_eq_some.mp hm, hv, rfl, rfl⟩

/-- **Only a validated, currently tracked registration of the connection's own phantom can be
matched** — by any of the three transports, in any registry state. -/
theorem match_requires_valid_tracked (s : St) (p : String) (info) (d : Bytes) (rid n : Nat)
    (table : List PrefixEntry) (reveal : Bytes → Option String) (marks : List Nat)
    (h : wrapMin (views s p info) d = .found rid n ∨
         wrapPrefix table reveal (views s p info) d = .found rid n ∨
         wrapObfs4 marks (views s p info) d = .found rid n) :
    ∃ ident reg, s.decoys[(p, ident)]? = some reg ∧ reg.valid = true ∧ (info (p, ident)).2 = rid := by
  rcases h with h | h | h
  · obtain ⟨r, hr, hrid, _⟩ := min_match_sound _ d rid n h
    obtain ⟨reg, h1, h2, _, h4⟩ := mem_views hr
    exact ⟨r.ident, reg, h1, h2, by rw [← h4, hrid]⟩
  · obtain ⟨_, _, r, hr, hrid, _⟩ := prefix_match_sound table reveal _ d rid n h
    obtain ⟨reg, h1, h2, _, h4⟩ := mem_views hr
    exact ⟨r.ident, reg, h1, h2, by rw [← h4, hrid]⟩
  · obtain ⟨r, hr, hrid, _⟩ := obfs4_match_sound marks _ d rid n h
    obtain ⟨reg, h1, h2, _, h4⟩ := mem_views hr
    exact ⟨r.ident, reg, h1, h2, by rw [← h4, hrid]⟩

/-- registrations of another phantom are invisible: nothing tracked only under `p' ≠ p` can be matched
on a connection to `p` -/
theorem cross_phantom_rejected (s : St) (p : String) (info) (r : RegView) (h : r ∈ views s p info) :
    s.decoys.contains (p, r.ident) = true := by
  obtain ⟨reg, h1, _⟩ := mem_views h
  exact contains_of_getElem? _ _ _ h1

/-- a tracked but not yet validated registration is invisible -/
theorem unvalidated_rejected (s : St) (p i : String) (info) (reg : Reg)
    (h : s.decoys[(p, i)]? = some reg) (hv : reg.valid = false) :
    ∀ r ∈ views s p info, r.ident ≠ i := by
  intro r hr e
  obtain ⟨reg', h1, h2, _⟩ := mem_views hr
  rw [e, h] at h1; cases h1; rw [hv] at h2; cases h2

/-- an expired registration is invisible after the sweep, for every history (C08) -/
theorem expired_rejected (c : Cfg) (s : St) (hr : C08.Reach c s) (now : Nat) (p : String) (info)
    (r : RegView) (h : r ∈ views (sweep c now s).1 p info) :
    ∃ t, (sweep c now s).1.timeouts[(p, r.ident)]? = some t ∧ C08.alive c now t := by
  obtain ⟨reg, h1, _⟩ := mem_views h
  have hc := contains_of_getElem? _ _ _ h1
  rw [C08.no_residue c s hr now (p, r.ident), HashMap.contains_eq_isSome_getElem?] at hc
  cases ht : (sweep c now s).1.timeouts[(p, r.ident)]? with
  | none => rw [ht] at hc; cases hc
  | some t => exact ⟨t, rfl, C08.never_kept c s hr now (p, r.ident) t ht⟩

/-- matched to exactly that registration: identifiers are the keys of the per-phantom map, so two
visible registrations with the same identifier are the same map entry -/
theorem match_unique (s : St) (p : String) (info) (r1 r2 : RegView)
    (h1 : r1 ∈ views s p info) (h2 : r2 ∈ views s p info) (he : r1.ident = r2.ident) : r1 = r2 := by
  obtain ⟨reg1, a1, _, t1, i1⟩ := mem_views h1
  obtain ⟨reg2, a2, _, t2, i2⟩ := mem_views h2
  rw [he] at a1 i1; rw [a1] at a2; cases a2
  unfold views at h1 h2
  simp only [List.mem_map, List.mem_filter] at h1 h2
  obtain ⟨⟨k1, g1⟩, ⟨m1, _⟩, rfl⟩ := h1
  obtain ⟨⟨k2, g2⟩, ⟨m2, f2⟩, rfl⟩ := h2
  simp only at he
  have hk1 := HashMap.mem_toList_iff_getElem?_eq_some.mp m1
  have hk2 := HashMap.mem_toList_iff_getElem?_eq_some.mp m2
  rename_i f1
  simp only [Bool.and_eq_true, beq_iff_eq] at f1 f2
  have : k1 = k2 := Prod.ext (by rw [f1.1, f2.1]) he
  subst this
  rw [hk1] at hk2; cases hk2; rfl

/-! ## altered tags -/

/-- min: a stream whose first 32 bytes are not the identifier of a visible registration is never
accepted — in particular a genuine flight altered anywhere in the tag, unless the altered tag
collides with another registered identifier (excluded by HMAC unforgeability, a hypothesis). -/
theorem min_altered_rejected (regs : List RegView) (d : Bytes)
    (h : ∀ r ∈ regs, r.ident ≠ toHex (d.take 32)) : ∀ rid n, wrapMin regs d ≠ .found rid n := by
  intro rid n hf
  obtain ⟨r, hr, _, hi, _⟩ := min_match_sound regs d rid n hf
  exact h r hr hi

/-- prefix: if no window reveals a visible identifier, nothing is accepted -/
theorem prefix_altered_rejected (table : List PrefixEntry) (reveal : Bytes → Option String)
    (regs : List RegView) (d : Bytes)
    (h : ∀ e ∈ table, ∀ r ∈ regs, reveal (window d e.offset) ≠ some r.ident) :
    ∀ rid n, wrapPrefix table reveal regs d ≠ .found rid n := by
  intro rid n hf
  obtain ⟨e, he, r, hr, _, hrev, _⟩ := prefix_match_sound table reveal regs d rid n hf
  exact h e he r hr hrev

/-- FULL-STRENGTH reading of "altered anywhere in the tag": whatever the reveal function, a stream
that differs from an accepted one inside the tag window of the matched prefix is not accepted. -/
def altered_anywhere_rejected_full : Prop :=
  ∀ (e : PrefixEntry) (reveal : Bytes → Option String) (regs : List RegView) (d d' : Bytes) (rid n : Nat),
    wrapPrefix [e] reveal regs d = .found rid n → window d e.offset ≠ window d' e.offset →
    d.length = d'.length → ∀ rid' n', wrapPrefix [e] reveal regs d' ≠ .found rid' n'

def e0 : PrefixEntry := { id := 0, static := [], offset := 0, minLen := 64, maxLen := 64 }
def w0 : Bytes := List.replicate 64 0
def w1 : Bytes := w0.set 31 0x80
/-- a reveal function that, like the real one, ignores the two high bits of byte 31 of the
Elligator representative (the client randomises them, the station masks them) -/
def revealMasked : Bytes → Option String := fun w =>
  if w.set 31 ((w.getD 31 0) &&& 0x3f) == w0 then some "aa" else none
def r0 : RegView := { ident := "aa", transport := 4, prefixParam := some (some 0), rid := 1 }

/-- The full-strength statement is FALSE of the real design (recorded finding
`C02:altered-elligator-pad-bits-accepted`): a flight altered only in the two pad bits is accepted.
The witness is replayed against the Go code on every run (harness corpus). -/
theorem altered_anywhere_rejected_full_refuted : ¬ altered_anywhere_rejected_full := by
  intro h
  have := h e0 revealMasked [r0] w0 w1 1 64 (by decide) (by decide) (by decide) 1 64
  exact this (by decide)

/-- What does hold (`_partial`): if the reveal function is injective on windows — true of the real
obfuscator except for exactly those two pad bits — then two streams accepted for the same
registration under the same prefix carry the same tag window: an alteration inside it is rejected. -/
theorem altered_rejected_partial (e : PrefixEntry) (reveal : Bytes → Option String) (regs : List RegView)
    (d d' : Bytes) (rid n rid' n' : Nat)
    (hinj : ∀ w w' id, reveal w = some id → reveal w' = some id → w = w')
    (huniq : ∀ r ∈ regs, ∀ r' ∈ regs, r.rid = r'.rid → r = r')
    (h : wrapPrefix [e] reveal regs d = .found rid n) (h' : wrapPrefix [e] reveal regs d' = .found rid' n')
    (hsame : rid = rid') : window d e.offset = window d' e.offset := by
  obtain ⟨e1, he1, r, hr, hrid, hrev, _⟩ := prefix_match_sound [e] reveal regs d rid n h
  obtain ⟨e2, he2, r', hr', hrid', hrev', _⟩ := prefix_match_sound [e] reveal regs d' rid' n' h'
  simp only [List.mem_singleton] at he1 he2
  subst he1 he2
  have : r = r' := huniq r hr r' hr' (by rw [hrid, hrid', hsame])
  subst this
  exact hinj _ _ _ hrev hrev'

/-! ## the generated prefix table: slices stay in bounds (also used by C11) -/

/-- every supported prefix leaves room for the whole tag before its decision length -/
theorem prefix_table_wf : ∀ e ∈ CJ.Gen.prefixTable,
    e.offset + CJ.Gen.prefixTagLen ≤ max e.minLen e.maxLen ∧ e.static.length ≤ e.offset := by
  decide

theorem gen_tag_len : CJ.Gen.prefixTagLen = prefixTagLen := by decide

/-- with such a table the tag slice is never taken out of range -/
theorem prefixIter_no_panic (reveal : Bytes → Option String) (regs : List RegView) (d : Bytes) (st : PLoop)
    (e : PrefixEntry) (hwf : e.offset + prefixTagLen ≤ max e.minLen e.maxLen) :
    prefixIter reveal regs d st e ≠ .inl .panic := by
  unfold prefixIter
  split; · simp
  split; · simp
  rename_i hmin
  split; · simp
  split; · simp
  rename_i hmax
  split
  · rename_i hoff
    exfalso
    have : max e.minLen e.maxLen ≤ d.length := by
      simp only [Nat.not_lt] at hmin hmax
      exact Nat.max_le.mpr ⟨hmin, hmax⟩
    omega
  · split
    · simp
    · split
      · simp
      · split
        · simp
        · split <;> simp

theorem prefixLoop_no_panic (reveal : Bytes → Option String) (regs : List RegView) (d : Bytes)
    (table : List PrefixEntry) (st : PLoop)
    (hwf : ∀ e ∈ table, e.offset + prefixTagLen ≤ max e.minLen e.maxLen) :
    prefixLoop reveal regs d st table ≠ .panic := by
  induction table generalizing st with
  | nil =>
    simp only [prefixLoop]
    split; · simp
    split <;> simp
  | cons e es ih =>
    simp only [prefixLoop]
    split
    · rename_i v hv
      intro hp; subst hp
      exact prefixIter_no_panic reveal regs d st e (hwf e (List.mem_cons_self ..)) hv
    · exact ih _ (fun e' he' => hwf e' (List.mem_cons_of_mem _ he'))

/-- the prefix classifier never slices out of range on the table the code ships, for any input -/
theorem prefix_no_panic (reveal : Bytes → Option String) (regs : List RegView) (d : Bytes) :
    wrapPrefix CJ.Gen.prefixTable reveal regs d ≠ .panic := by
  unfold wrapPrefix
  split
  · simp
  · apply prefixLoop_no_panic
    intro e he
    have := (prefix_table_wf e he).1
    rw [gen_tag_len] at this
    exact this

/-! ## non-vacuity -/

def rv0 : RegView := { ident := toHex (List.replicate 32 7), transport := 1, prefixParam := none, rid := 5 }
example : wrapMin [rv0] (List.replicate 40 7) = .found 5 32 := by decide
example : wrapMin [rv0] (List.replicate 31 7) = .tryAgain := by decide

end CJ.Props.C02
