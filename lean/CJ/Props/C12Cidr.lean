import CJ.Props.C12
import CJ.Lemmas.OverrideCidr
/-!
# C12 — "taken from the override subnets configured for that transport", over the configured TEXT

The operator configures text (`cidr = "…"` of `[[override_subnet]]`); `Ipnet.UnmarshalText` decodes it and
`getRandUint32IPv4` adds a random offset below the host count to the decoded base.  The theorems here are about
`CJ.OverrideCidr.entry` (text → the entry of the registrar model, mirroring `net.ParseCIDR`, `IPMask.Size`,
`ipv4ToUint32`) against `CJ.OverrideCidr.written` (the address and prefix length as written, no masking):
for every text, however it is spelled (host bits set, IPv4-mapped, `/32`, leading zeros in the prefix length),
a substituted phantom has the same `k`-bit prefix as the written address.
-/
namespace CJ.Props.C12Cidr
open CJ.NetAddr CJ.Registrar CJ.OverrideCidr CJ.Props.C12

/-- **The decoded entry is the network of the text**: if the text designates IPv4 addresses (`written s =
(A, k)`: address as written, `k` host bits), the decoder accepts it, and the entry the registrar draws from has
the written address with its `k` host bits cleared as base and `2^k` hosts. -/
theorem configured_text_entry (s : Str) (A k : Nat) (hw : written s = some (A, k)) (w p : Nat)
    (pf : Option (Int × String × Int)) (l : TLabel) :
    ∃ sub, entry s w p pf l = some sub ∧ sub.isV4 = true ∧ sub.base = A / 2 ^ k * 2 ^ k ∧ sub.hosts = 2 ^ k ∧
      sub.weight = w ∧ sub.port = p ∧ sub.pfx = pf ∧ sub.label = l := by
  obtain ⟨hk, he⟩ := written_entry s A k hw w p pf l
  refine ⟨_, he, rfl, rfl, ?_, rfl, rfl, rfl, rfl⟩
  simp only [Subnet.hosts]
  congr 1; omega

/-- **An entry decoded from text satisfies the hypothesis of `substitute_in_configured_subnet`** (`Subnet.wf`:
the base is aligned to the network size) — whatever host bits the text carries. -/
theorem text_entry_wf (s : Str) (w p : Nat) (pf : Option (Int × String × Int)) (l : TLabel) (sub : Subnet) (A k : Nat)
    (hw : written s = some (A, k)) (he : entry s w p pf l = some sub) : sub.wf := by
  obtain ⟨sub', he', _, hb, hh, _⟩ := configured_text_entry s A k hw w p pf l
  rw [he] at he'; cases he'
  intro _
  rw [hb, hh]; exact Nat.mul_mod_left _ _

/-- **The substitution arithmetic stays inside the configured text**: `getRandUint32IPv4` on the entry
decoded from `s`, for every host draw, yields an address with the same `k`-bit prefix as the address written
in `s`. -/
theorem substitute_in_written_subnet (s : Str) (w p : Nat) (pf : Option (Int × String × Int)) (l : TLabel) (sub : Subnet)
    (A k : Nat) (hw : written s = some (A, k)) (he : entry s w p pf l = some sub) (d ip : Nat)
    (hr : randAddr sub d = some ip) : InWritten s ip := by
  obtain ⟨sub', he', hv, hb, hh, _⟩ := configured_text_entry s A k hw w p pf l
  rw [he] at he'; cases he'
  refine ⟨A, k, hw, ?_⟩
  simp only [randAddr, hv, if_true, Option.some.injEq] at hr
  subst hr
  rw [hb, hh]
  have hpos : 0 < 2 ^ k := Nat.pos_of_ne_zero (by simp)
  rw [Nat.add_comm, Nat.add_mul_div_right _ _ hpos, Nat.div_eq_of_lt (Nat.mod_lt _ hpos), Nat.zero_add]

/-- membership in the decoded entry is membership in the written network -/
theorem contains_iff_written (s : Str) (w p : Nat) (pf : Option (Int × String × Int)) (l : TLabel) (sub : Subnet) (A k : Nat)
    (hw : written s = some (A, k)) (he : entry s w p pf l = some sub) (x : Nat) :
    sub.contains x = true ↔ x / 2 ^ k = A / 2 ^ k := by
  obtain ⟨sub', he', hv, hb, hh, _⟩ := configured_text_entry s A k hw w p pf l
  rw [he] at he'; cases he'
  have hpos : 0 < 2 ^ k := Nat.pos_of_ne_zero (by simp)
  simp [Subnet.contains, hv, hb, hh, Nat.mul_div_cancel _ hpos]

/-- a configuration all of whose override subnets were decoded from texts designating IPv4 addresses -/
def FromText (cfg : Cfg) (text : Subnet → Str) : Prop :=
  ∀ sub ∈ cfg.minSubnets ++ cfg.prefixSubnets,
    (∃ A k, written (text sub) = some (A, k)) ∧ entry (text sub) sub.weight sub.port sub.pfx sub.label = some sub

/-- **A substituted phantom lies in an override subnet as configured in the file**: for a configuration
decoded from text, whenever the IPv4 phantom in the response is not the selector's, there is a weighted subnet
of the registration's transport whose *text* contains the phantom (prefix arithmetic on the written address). -/
theorem substitute_in_configured_text (cfg : Cfg) (text : Subnet → Str) (hcfg : FromText cfg text)
    (req : Req) (ext : Ext) (m : Nat) (a : Option String) (c : Resp) (f : Fwd)
    (h : registerBidirectional W cfg req ext m a = .ok c f) (hne : c.v4 ≠ selected4 req ext) :
    ∃ x sub, c.v4 = some x ∧ sub ∈ subnetsFor cfg req ∧ 0 < sub.weight ∧ InWritten (text sub) x := by
  have hwf : ∀ s ∈ cfg.minSubnets ++ cfg.prefixSubnets, s.wf := fun s hs => by
    obtain ⟨⟨A, k, hw⟩, he⟩ := hcfg s hs
    exact text_entry_wf _ _ _ _ _ _ A k hw he
  obtain ⟨x, sub, hx, hs, hwt, hc⟩ := substitute_in_configured_subnet cfg req ext m a c f hwf h hne
  have hmem : sub ∈ cfg.minSubnets ++ cfg.prefixSubnets := by
    unfold subnetsFor at hs
    split at hs
    · exact List.mem_append_left _ hs
    · split at hs
      · exact List.mem_append_right _ hs
      · cases hs
  obtain ⟨⟨A, k, hw⟩, he⟩ := hcfg sub hmem
  exact ⟨x, sub, hx, hs, hwt, A, k, hw, (contains_iff_written _ _ _ _ _ _ A k hw he x).mp hc⟩

/-- **32 host bits** (`0.0.0.0/0`, `x/0`, `::ffff:x/96`): the entry has `2^32` hosts — a count that does not fit the
`uint32` the unrepaired `getRandUint32IPv4` kept it in (it wrapped to 0 and `crypto/rand.Int` panicked) — the draw is
never refused, and as a 32-bit number the substituted address is the host draw itself: every IPv4 address can be
handed out, none is invented by a wrap-around.  (`substitute_in_written_subnet` and `contains_iff_written` hold for
this case too: they never assumed `k < 32`.) -/
theorem full_range_substitute (s : Str) (w p : Nat) (pf : Option (Int × String × Int)) (l : TLabel) (sub : Subnet)
    (A : Nat) (hw : written s = some (A, 32)) (he : entry s w p pf l = some sub) (d : Nat) :
    sub.hosts = 2 ^ 32 ∧ ∃ ip, randAddr sub d = some ip ∧ ip % 2 ^ 32 = d % 2 ^ 32 := by
  obtain ⟨sub', he', hv, hb, hh, _⟩ := configured_text_entry s A 32 hw w p pf l
  rw [he] at he'; cases he'
  refine ⟨hh, sub.base + d % sub.hosts, by simp [randAddr, hv], ?_⟩
  rw [hb, hh, Nat.mul_comm, Nat.mul_add_mod, Nat.mod_mod]

example : written "10.1.2.3/0".toList = some (167838211, 32) := by decide +kernel
example : written "::ffff:10.1.2.3/96".toList = some (167838211, 32) := by decide +kernel
example : entry "10.1.2.3/0".toList 1 443 none .unset =
    some { isV4 := true, base := 0, ones := 0, weight := 1, port := 443 } := by decide +kernel
example : entry "::ffff:10.1.2.3/96".toList 1 443 none .unset =
    some { isV4 := true, base := 0, ones := 0, weight := 1, port := 443 } := by decide +kernel

/-! ### the hypotheses are satisfiable, and the masking is what the theorems rest on -/

/-- `203.0.113.200/24` (host bits set): decoded to the network `203.0.113.0`, 256 hosts -/
example : entry "203.0.113.200/24".toList 1 443 none .unset =
    some { isV4 := true, base := 3405803776, ones := 24, weight := 1, port := 443 } := by decide +kernel
example : written "203.0.113.200/24".toList = some (3405803976, 8) := by decide +kernel
/-- IPv4-mapped spelling of the same network -/
example : written "::ffff:203.0.113.200/120".toList = some (3405803976, 8) := by decide +kernel
example : entry "::ffff:203.0.113.200/120".toList 1 443 none .unset =
    some { isV4 := true, base := 3405803776, ones := 24, weight := 1, port := 443 } := by decide +kernel
example : written "10.4.4.4/32".toList = some (168035332, 0) := by decide +kernel
/-- refused texts designate nothing -/
example : written "203.000.113.0/24".toList = none ∧ entry "203.000.113.0/24".toList 1 0 none .unset = none := by decide +kernel

/-- **Without the masking the statement is false**: an entry that keeps the written address as base (what a
decoder without `Masked()` / `IP.Mask` hands to `getRandUint32IPv4`) substitutes `203.0.114.44` for the host
draw 100 — outside `203.0.113.200/24` as written. -/
theorem unmasked_base_escapes :
    ∃ (s : Str) (A k d ip : Nat), written s = some (A, k) ∧
      randAddr { isV4 := true, base := A, ones := 32 - k, weight := 1 } d = some ip ∧ ip / 2 ^ k ≠ A / 2 ^ k :=
  ⟨"203.0.113.200/24".toList, 3405803976, 8, 100, 3405804076, by decide +kernel, by decide +kernel, by decide +kernel⟩

end CJ.Props.C12Cidr
