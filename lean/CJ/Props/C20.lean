import CJ.Lemmas.AtomicStore
/-!
# C20 — the client's stored ClientConf is replaced atomically

Property theorems only.  A run is any list of events: calls of a setter (`begin`) and the
environment's answers to the system calls of the store in progress (`sys`), so every failure can be
injected before every step; a crash or kill is "the run stops here", hence every theorem is stated
for the state after **every** event list (every prefix of every run is itself a run).

Operating-system assumptions (not proved): `rename(2)` is atomic, and the file content a reader sees
after the process was killed is what the answered `write` calls put there (no power loss).
-/
namespace CJ.Props.C20
open CJ.AtomicStore

variable {Conf : Type}

/-- the temporary name of every store in the run differs from the target's name -/
def TmpOK (target : Path) : Ev Conf → Prop
  | .begin _ _ tmp => tmp ≠ target
  | .sys _ => True

/-- the invariant of all reachable states -/
def Inv (target : Path) (s : St Conf) : Prop :=
  match s.task with
  | some t => t.tmp ≠ target ∧ ∃ buf, s.cur = some buf ∧ PcOK buf s.prev s.fs t.tmp target t.pc ∧ isRet t.pc = none
  | none => s.fs target = s.prev ∨ ∃ buf, s.cur = some buf ∧ s.fs target = some buf

theorem inv_init (mem : Conf) (fs : FS) (target : Path) : Inv target (init mem fs target) := by
  simp [Inv, init]

theorem inv_step (marshal : Conf → Option Bytes) (target : Path) (s : St Conf) (e : Ev Conf)
    (he : TmpOK target e) (h : Inv target s) : Inv target (step marshal target s e) := by
  cases e with
  | «begin» rb c tmp =>
    unfold step
    cases ht : s.task with
    | some t => simp only; exact h
    | none =>
      simp only
      cases hm : marshal c with
      | none => simp [Inv]
      | some buf =>
        simp only [Inv]
        exact ⟨he, buf, rfl, ⟨rfl, rfl⟩, rfl⟩
  | sys r =>
    unfold step
    cases ht : s.task with
    | none => simp only; exact h
    | some t =>
      simp only
      unfold Inv at h
      rw [ht] at h
      obtain ⟨hne, buf, hcur, hok, _⟩ := h
      cases hn : next target t.tmp s.fs t.pc r with
      | none => simp only [Inv, ht]; exact ⟨hne, buf, hcur, hok, by assumption⟩
      | some pf =>
        obtain ⟨pc', fs'⟩ := pf
        have hok' := next_ok hne hok hn
        simp only
        cases hr : isRet pc' with
        | some err =>
          simp only [Inv]
          rcases hok'.target with h1 | h1
          · exact Or.inl h1
          · exact Or.inr ⟨buf, hcur, h1⟩
        | none =>
          simp only [Inv]
          exact ⟨hne, buf, hcur, hok', hr⟩

theorem inv_run (marshal : Conf → Option Bytes) (target : Path) (evs : List (Ev Conf)) (s : St Conf)
    (he : ∀ e ∈ evs, TmpOK target e) (h : Inv target s) : Inv target (run marshal target evs s) := by
  induction evs generalizing s with
  | nil => exact h
  | cons e es ih =>
    exact ih _ (fun e' h' => he e' (List.mem_cons_of_mem _ h'))
      (inv_step marshal target s e (he e List.mem_cons_self) h)

/-- **Old or new at every instant.**  After *any* list of setter calls and answered system calls
(any sequence of stores, any injected failures, stopped anywhere), the target file holds either the
content it had when the current (or most recent) store began, or the complete marshalled bytes of the
configuration that store is writing — never a prefix, never a mixture. -/
theorem target_old_or_new (marshal : Conf → Option Bytes) (target : Path) (mem : Conf) (fs : FS)
    (evs : List (Ev Conf)) (he : ∀ e ∈ evs, TmpOK target e) :
    let s := run marshal target evs (init mem fs target)
    s.fs target = s.prev ∨ ∃ buf, s.cur = some buf ∧ s.fs target = some buf := by
  intro s
  have h : Inv target s := inv_run marshal target evs _ he (inv_init mem fs target)
  unfold Inv at h
  cases ht : s.task with
  | none => rw [ht] at h; exact h
  | some t =>
    rw [ht] at h
    obtain ⟨_, buf, hcur, hok, _⟩ := h
    rcases hok.target with h1 | h1
    · exact Or.inl h1
    · exact Or.inr ⟨buf, hcur, h1⟩

/-- while a store has not returned, the target is still exactly what it was when the store began -/
theorem target_untouched_until_rename (marshal : Conf → Option Bytes) (target : Path) (mem : Conf) (fs : FS)
    (evs : List (Ev Conf)) (he : ∀ e ∈ evs, TmpOK target e) :
    let s := run marshal target evs (init mem fs target)
    s.task.isSome → s.fs target = s.prev := by
  intro s hs
  have h : Inv target s := inv_run marshal target evs _ he (inv_init mem fs target)
  unfold Inv at h
  cases ht : s.task with
  | none => rw [ht] at hs; cases hs
  | some t =>
    rw [ht] at h
    obtain ⟨_, buf, _, hok, hr⟩ := h
    exact hok.target_running hr

/-- the ghost fields mean what they say: `cur` is always the marshalled form of some configuration
that a setter was called with (or nothing), for every run -/
theorem cur_is_marshalled (marshal : Conf → Option Bytes) (target : Path) (evs : List (Ev Conf)) (s : St Conf)
    (hs : ∀ b, s.cur = some b → ∃ c, marshal c = some b) :
    ∀ b, (run marshal target evs s).cur = some b → ∃ c, marshal c = some b := by
  induction evs generalizing s with
  | nil => exact hs
  | cons e es ih =>
    apply ih
    intro b hb
    cases e with
    | «begin» rb c tmp =>
      unfold step at hb
      cases ht : s.task with
      | some t => rw [ht] at hb; exact hs b hb
      | none =>
        rw [ht] at hb
        simp only at hb
        cases hm : marshal c with
        | none => rw [hm] at hb; simp at hb
        | some buf =>
          rw [hm] at hb; simp only [Option.some.injEq] at hb
          exact ⟨c, by rw [hm, hb]⟩
    | sys r =>
      unfold step at hb
      cases ht : s.task with
      | none => rw [ht] at hb; exact hs b hb
      | some t =>
        rw [ht] at hb
        simp only at hb
        cases hn : next target t.tmp s.fs t.pc r with
        | none => rw [hn] at hb; exact hs b hb
        | some pf =>
          obtain ⟨pc', fs'⟩ := pf
          rw [hn] at hb
          simp only at hb
          cases hr : isRet pc' with
          | some err => rw [hr] at hb; exact hs b hb
          | none => rw [hr] at hb; exact hs b hb

/-- **Always parseable.**  Let `P` be any predicate on file contents that holds of the initial target
file and of every successfully marshalled configuration (e.g. "absent, or parses back to a
configuration").  Then `P` holds of the target file at every instant of every run: a truncated or
mixed file never exists. -/
theorem target_always_wellformed (marshal : Conf → Option Bytes) (target : Path) (P : Option Bytes → Prop)
    (hP : ∀ c b, marshal c = some b → P (some b))
    (mem : Conf) (fs : FS) (h0 : P (fs target))
    (evs : List (Ev Conf)) (he : ∀ e ∈ evs, TmpOK target e) :
    P ((run marshal target evs (init mem fs target)).fs target) := by
  -- strengthen: P holds of the target and of `prev`, along the run
  suffices h : ∀ (evs : List (Ev Conf)) (s : St Conf), (∀ e ∈ evs, TmpOK target e) → Inv target s →
      P s.prev → (∀ b, s.cur = some b → ∃ c, marshal c = some b) → P (s.fs target) →
      P ((run marshal target evs s).fs target) by
    exact h evs _ he (inv_init mem fs target) h0 (by simp [init]) h0
  intro evs
  induction evs with
  | nil => intro s _ _ _ _ ht; exact ht
  | cons e es ih =>
    intro s he hi hprev hcur _
    have hi' := inv_step marshal target s e (he e List.mem_cons_self) hi
    have hcur' : ∀ b, (step marshal target s e).cur = some b → ∃ c, marshal c = some b :=
      cur_is_marshalled marshal target [e] s hcur
    have hprev' : P (step marshal target s e).prev := by
      cases e with
      | «begin» rb c tmp =>
        unfold step
        cases ht : s.task with
        | some t => simpa using hprev
        | none =>
          simp only
          cases hm : marshal c <;> simpa
      | sys r =>
        unfold step
        cases ht : s.task with
        | none => simpa using hprev
        | some t =>
          simp only
          cases hn : next target t.tmp s.fs t.pc r with
          | none => simpa using hprev
          | some pf =>
            obtain ⟨pc', fs'⟩ := pf
            simp only
            cases hr : isRet pc' <;> simpa using hprev
    have htgt' : P ((step marshal target s e).fs target) := by
      -- from the invariant: the target is `prev` or `cur`
      have := hi'
      unfold Inv at this
      cases ht : (step marshal target s e).task with
      | none =>
        rw [ht] at this
        rcases this with h1 | ⟨buf, hc, h1⟩
        · rw [h1]; exact hprev'
        · rw [h1]; obtain ⟨c, hc'⟩ := hcur' buf hc; exact hP c buf hc'
      | some t =>
        rw [ht] at this
        obtain ⟨_, buf, hc, hok, _⟩ := this
        rcases hok.target with h1 | h1
        · rw [h1]; exact hprev'
        · rw [h1]; obtain ⟨c, hc'⟩ := hcur' buf hc; exact hP c buf hc'
    exact ih _ (fun e' h' => he e' (List.mem_cons_of_mem _ h')) hi' hprev' hcur' htgt'

/-! ### one store, from call to return: memory and disk -/

/-- state of one store of `c` (called with `rollback = rb`, temporary name `tmp`) that began in the
idle state `s0` -/
def Rel (marshal : Conf → Option Bytes) (target : Path) (s0 : St Conf) (rb : Bool) (c : Conf) (tmp : Path)
    (s : St Conf) : Prop :=
  match s.task with
  | some t => t.orig = s0.mem ∧ t.rollback = rb ∧ t.tmp = tmp ∧ s.mem = c ∧
      ∃ buf, marshal c = some buf ∧ PcOK buf (s0.fs target) s.fs tmp target t.pc ∧ isRet t.pc = none
  | none => ∃ err, s.lastErr = some err ∧ s.mem = memAfter err rb s0.mem c ∧
      (err = true → s.fs target = s0.fs target) ∧
      (err = false → ∃ buf, marshal c = some buf ∧ s.fs target = some buf)

theorem rel_begin (marshal : Conf → Option Bytes) (target : Path) (s0 : St Conf) (h0 : s0.task = none)
    (rb : Bool) (c : Conf) (tmp : Path) :
    Rel marshal target s0 rb c tmp (step marshal target s0 (.begin rb c tmp)) := by
  unfold step
  rw [h0]
  simp only
  cases hm : marshal c with
  | none =>
    exact ⟨true, rfl, rfl, fun _ => rfl, fun h => by cases h⟩
  | some buf =>
    exact ⟨rfl, rfl, rfl, rfl, buf, hm, ⟨rfl, rfl⟩, rfl⟩

theorem rel_sys (marshal : Conf → Option Bytes) (target : Path) (s0 : St Conf)
    (rb : Bool) (c : Conf) (tmp : Path) (hne : tmp ≠ target) (s : St Conf) (r : Res)
    (h : Rel marshal target s0 rb c tmp s) : Rel marshal target s0 rb c tmp (step marshal target s (.sys r)) := by
  unfold step
  cases ht : s.task with
  | none => simp only; exact h
  | some t =>
    simp only
    unfold Rel at h
    rw [ht] at h
    obtain ⟨horig, hrb, htmp, hmem, buf, hm, hok, hr0⟩ := h
    cases hn : next target t.tmp s.fs t.pc r with
    | none => simp only [Rel, ht]; exact ⟨horig, hrb, htmp, hmem, buf, hm, hok, hr0⟩
    | some pf =>
      obtain ⟨pc', fs'⟩ := pf
      rw [htmp] at hn
      have hok' := next_ok hne hok hn
      simp only
      cases hr : isRet pc' with
      | some err =>
        simp only [Rel]
        refine ⟨err, rfl, by rw [hrb, horig, hmem], ?_, ?_⟩
        · intro he; subst he
          cases pc' <;> simp [isRet] at hr
          subst hr; exact hok'
        · intro he; subst he
          cases pc' <;> simp [isRet] at hr
          subst hr; exact ⟨buf, hm, hok'⟩
      | none =>
        simp only [Rel]
        exact ⟨horig, hrb, htmp, hmem, buf, hm, hok', hr⟩

theorem rel_run (marshal : Conf → Option Bytes) (target : Path) (s0 : St Conf)
    (rb : Bool) (c : Conf) (tmp : Path) (hne : tmp ≠ target) (rs : List Res) (s : St Conf)
    (h : Rel marshal target s0 rb c tmp s) :
    Rel marshal target s0 rb c tmp (run marshal target (rs.map .sys) s) := by
  induction rs generalizing s with
  | nil => exact h
  | cons r rs ih => exact ih _ (rel_sys marshal target s0 rb c tmp hne s r h)

/-- **A failed replacement keeps the previous configuration in memory (and on disk).**  `SetClientConf(c)`
called in any idle state, the environment answering its system calls in any way: if the call has
returned an error, `a.config` is the configuration from before the call and the target file is
untouched. -/
theorem failure_keeps_old_in_memory (marshal : Conf → Option Bytes) (target : Path) (s0 : St Conf)
    (h0 : s0.task = none) (c : Conf) (tmp : Path) (hne : tmp ≠ target) (rs : List Res) :
    let s := run marshal target (.begin true c tmp :: rs.map .sys) s0
    s.task = none → s.lastErr = some true → s.mem = s0.mem ∧ s.fs target = s0.fs target := by
  intro s ht he
  have h : Rel marshal target s0 true c tmp s :=
    rel_run marshal target s0 true c tmp hne rs _ (rel_begin marshal target s0 h0 true c tmp)
  unfold Rel at h
  rw [ht] at h
  obtain ⟨err, herr, hmem, hf, _⟩ := h
  rw [he] at herr
  cases herr
  exact ⟨by simpa [memAfter] using hmem, hf rfl⟩

/-- a store that returned success installed the new configuration in memory and the target file holds
exactly its marshalled bytes (for both kinds of setter) -/
theorem success_installs_new (marshal : Conf → Option Bytes) (target : Path) (s0 : St Conf)
    (h0 : s0.task = none) (rb : Bool) (c : Conf) (tmp : Path) (hne : tmp ≠ target) (rs : List Res) :
    let s := run marshal target (.begin rb c tmp :: rs.map .sys) s0
    s.task = none → s.lastErr = some false → s.mem = c ∧ ∃ buf, marshal c = some buf ∧ s.fs target = some buf := by
  intro s ht he
  have h : Rel marshal target s0 rb c tmp s :=
    rel_run marshal target s0 rb c tmp hne rs _ (rel_begin marshal target s0 h0 rb c tmp)
  unfold Rel at h
  rw [ht] at h
  obtain ⟨err, herr, hmem, _, hs⟩ := h
  rw [he] at herr
  cases herr
  exact ⟨by simpa [memAfter] using hmem, hs rfl⟩

/-- a failed store of either kind leaves the target file untouched; the in-place setters keep their
modification in memory (the property asks for the roll-back only for the whole-configuration replacement) -/
theorem failure_keeps_old_on_disk (marshal : Conf → Option Bytes) (target : Path) (s0 : St Conf)
    (h0 : s0.task = none) (rb : Bool) (c : Conf) (tmp : Path) (hne : tmp ≠ target) (rs : List Res) :
    let s := run marshal target (.begin rb c tmp :: rs.map .sys) s0
    s.task = none → s.lastErr = some true → s.fs target = s0.fs target ∧ s.mem = (if rb then s0.mem else c) := by
  intro s ht he
  have h : Rel marshal target s0 rb c tmp s :=
    rel_run marshal target s0 rb c tmp hne rs _ (rel_begin marshal target s0 h0 rb c tmp)
  unfold Rel at h
  rw [ht] at h
  obtain ⟨err, herr, hmem, hf, _⟩ := h
  rw [he] at herr
  cases herr
  refine ⟨hf rfl, ?_⟩
  cases rb <;> simpa [memAfter] using hmem

/-- one event changes no path other than the temporary file of the store in progress and the target -/
theorem step_frame (marshal : Conf → Option Bytes) (target : Path) (s : St Conf) (e : Ev Conf) (p : Path)
    (hp : p ≠ target) (htask : ∀ t, s.task = some t → t.tmp ≠ p)
    (hev : ∀ rb c tmp, e = Ev.begin rb c tmp → tmp ≠ p) :
    (step marshal target s e).fs p = s.fs p ∧
      ∀ t, (step marshal target s e).task = some t → t.tmp ≠ p := by
  cases e with
  | «begin» rb c tmp =>
    cases ht : s.task with
    | some t =>
      have : step marshal target s (.begin rb c tmp) = s := by simp [step, ht]
      rw [this]; exact ⟨rfl, htask⟩
    | none =>
      cases hm : marshal c with
      | none =>
        have : (step marshal target s (.begin rb c tmp)).fs = s.fs ∧
            (step marshal target s (.begin rb c tmp)).task = none := by simp [step, ht, hm]
        rw [this.1, this.2]
        exact ⟨rfl, fun t h => by cases h⟩
      | some buf =>
        have : (step marshal target s (.begin rb c tmp)).fs = s.fs ∧
            (step marshal target s (.begin rb c tmp)).task = some ⟨s.mem, rb, tmp, .openTmp buf⟩ := by
          simp [step, ht, hm]
        rw [this.1, this.2]
        refine ⟨rfl, ?_⟩
        intro t h
        simp only [Option.some.injEq] at h
        subst h
        exact hev rb c tmp rfl
  | sys r =>
    cases ht : s.task with
    | none =>
      have : step marshal target s (.sys r) = s := by simp [step, ht]
      rw [this]; exact ⟨rfl, htask⟩
    | some t =>
      have htp := htask t ht
      cases hn : next target t.tmp s.fs t.pc r with
      | none =>
        have : step marshal target s (.sys r) = s := by simp [step, ht, hn]
        rw [this]; exact ⟨rfl, htask⟩
      | some pf =>
        obtain ⟨pc', fs'⟩ := pf
        have hfr := next_frame hn p hp (fun e => htp e.symm)
        cases hr : isRet pc' with
        | some err =>
          have : (step marshal target s (.sys r)).fs = fs' ∧
              (step marshal target s (.sys r)).task = none := by simp [step, ht, hn, hr]
          rw [this.1, this.2]
          exact ⟨hfr, fun t h => by cases h⟩
        | none =>
          have : (step marshal target s (.sys r)).fs = fs' ∧
              (step marshal target s (.sys r)).task = some { t with pc := pc' } := by simp [step, ht, hn, hr]
          rw [this.1, this.2]
          refine ⟨hfr, ?_⟩
          intro t' h
          simp only [Option.some.injEq] at h
          subst h
          exact htp

/-- a run touches no path other than its temporary files and the target -/
theorem other_files_untouched (marshal : Conf → Option Bytes) (target : Path) (evs : List (Ev Conf))
    (s : St Conf) (p : Path) (hp : p ≠ target)
    (htask : ∀ t, s.task = some t → t.tmp ≠ p)
    (hev : ∀ rb c tmp, Ev.begin rb c tmp ∈ evs → tmp ≠ p) :
    (run marshal target evs s).fs p = s.fs p := by
  induction evs generalizing s with
  | nil => rfl
  | cons e es ih =>
    have key := step_frame marshal target s e p hp htask
      (fun rb c tmp h => hev rb c tmp (by rw [h]; exact List.mem_cons_self))
    show (run marshal target es (step marshal target s e)).fs p = s.fs p
    rw [ih _ key.2 (fun rb c tmp h => hev rb c tmp (List.mem_cons_of_mem _ h)), key.1]

/-! ### several stores at once (no mutual exclusion assumed) -/

/-- a `begin` uses a temporary name that differs from the target and from the temporary name of every
store that has not returned yet (62⁵ random names; a name may be reused once its store is over) -/
def CEvOK (target : Path) (s : CSt) : CEv → Prop
  | .begin _ _ tmp => tmp ≠ target ∧ ∀ j t, s.tasks j = some t → isRet t.pc = none → t.tmp ≠ tmp
  | .sys _ _ => True

def CRunOK (target : Path) : CSt → List CEv → Prop
  | _, [] => True
  | s, e :: es => CEvOK target s e ∧ CRunOK target (cstep target s e) es

structure CInv (target : Path) (init : Option Bytes) (s : CSt) : Prop where
  ne : ∀ i t, s.tasks i = some t → t.tmp ≠ target
  distinct : ∀ i j ti tj, s.tasks i = some ti → s.tasks j = some tj → i ≠ j →
    isRet ti.pc = none → isRet tj.pc = none → ti.tmp ≠ tj.tmp
  ok : ∀ i t, s.tasks i = some t → TaskOK target s.fs t
  mem : ∀ i t, s.tasks i = some t → t.buf ∈ s.begun
  tgt : s.fs target = init ∨ ∃ b ∈ s.begun, s.fs target = some b

theorem cinv_init (target : Path) (fs0 : FS) : CInv target (fs0 target) { fs := fs0 } := by
  refine ⟨?_, ?_, ?_, ?_, Or.inl rfl⟩
  · intro i t h; simp at h
  · intro i j ti tj h; simp at h
  · intro i t h; simp at h
  · intro i t h; simp at h

theorem cinv_step (target : Path) (init : Option Bytes) (s : CSt) (e : CEv)
    (he : CEvOK target s e) (h : CInv target init s) : CInv target init (cstep target s e) := by
  cases e with
  | «begin» i buf tmp =>
    obtain ⟨hne, hfree⟩ := he
    unfold cstep
    simp only
    split
    · exact h
    · rename_i hnone
      have key : ∀ j u, (if j = i then some (⟨tmp, buf, .openTmp buf⟩ : CTask) else s.tasks j) = some u →
          (j = i ∧ u = ⟨tmp, buf, .openTmp buf⟩) ∨ (j ≠ i ∧ s.tasks j = some u) := by
        intro j u hj
        by_cases hji : j = i
        · simp only [hji, if_true, Option.some.injEq] at hj
          exact Or.inl ⟨hji, hj.symm⟩
        · simp only [hji, if_false] at hj
          exact Or.inr ⟨hji, hj⟩
      refine ⟨?_, ?_, ?_, ?_, ?_⟩
      · intro j u hj
        rcases key j u hj with ⟨_, rfl⟩ | ⟨_, hj'⟩
        · exact hne
        · exact h.ne j u hj'
      · intro a b ta tb ha hb hab hra hrb
        rcases key a ta ha with ⟨hai, rfl⟩ | ⟨hai, ha'⟩
        · rcases key b tb hb with ⟨hbi, rfl⟩ | ⟨_, hb'⟩
          · exact absurd (hai.trans hbi.symm) hab
          · exact fun heq => hfree b tb hb' hrb heq.symm
        · rcases key b tb hb with ⟨_, rfl⟩ | ⟨_, hb'⟩
          · exact hfree a ta ha' hra
          · exact h.distinct a b ta tb ha' hb' hab hra hrb
      · intro j u hj
        rcases key j u hj with ⟨_, rfl⟩ | ⟨_, hj'⟩
        · intro _
          exact ⟨rfl, rfl⟩
        · exact h.ok j u hj'
      · intro j u hj
        rcases key j u hj with ⟨_, rfl⟩ | ⟨_, hj'⟩
        · exact List.mem_cons_self
        · exact List.mem_cons_of_mem _ (h.mem j u hj')
      · rcases h.tgt with h1 | ⟨b, hb, h1⟩
        · exact Or.inl h1
        · exact Or.inr ⟨b, List.mem_cons_of_mem _ hb, h1⟩
  | sys i r =>
    unfold cstep
    simp only
    cases ht : s.tasks i with
    | none => simp only; exact h
    | some t =>
      simp only
      cases hn : next target t.tmp s.fs t.pc r with
      | none => simp only; exact h
      | some pf =>
        obtain ⟨pc', fs'⟩ := pf
        simp only
        have hne := h.ne i t ht
        obtain ⟨hok', htg⟩ := TaskOK.act hne (h.ok i t ht) hn
        have hlive : isRet t.pc = none := by
          cases hp : t.pc with
          | ret e => rw [hp] at hn; cases r <;> simp [next] at hn
          | _ => rfl
        have key : ∀ j u, (if j = i then some ({ t with pc := pc' } : CTask) else s.tasks j) = some u →
            (j = i ∧ u = { t with pc := pc' }) ∨ (j ≠ i ∧ s.tasks j = some u) := by
          intro j u hj
          by_cases hji : j = i
          · simp only [hji, if_true, Option.some.injEq] at hj
            exact Or.inl ⟨hji, hj.symm⟩
          · simp only [hji, if_false] at hj
            exact Or.inr ⟨hji, hj⟩
        refine ⟨?_, ?_, ?_, ?_, ?_⟩
        · intro j u hj
          rcases key j u hj with ⟨_, rfl⟩ | ⟨_, hj'⟩
          · exact hne
          · exact h.ne j u hj'
        · intro a b ta tb ha hb hab hra hrb
          rcases key a ta ha with ⟨hai, rfl⟩ | ⟨hai, ha'⟩
          · rcases key b tb hb with ⟨hbi, rfl⟩ | ⟨hbi, hb'⟩
            · exact absurd (hai.trans hbi.symm) hab
            · exact h.distinct i b t tb ht hb' (fun e => hbi e.symm) hlive hrb
          · rcases key b tb hb with ⟨_, rfl⟩ | ⟨_, hb'⟩
            · exact h.distinct a i ta t ha' ht hai hra hlive
            · exact h.distinct a b ta tb ha' hb' hab hra hrb
        · intro j u hj
          rcases key j u hj with ⟨_, rfl⟩ | ⟨hji, hj'⟩
          · exact hok'
          · -- another store: its temporary file is not touched by this call
            intro hru
            have hd : u.tmp ≠ t.tmp := h.distinct j i u t hj' ht hji hru hlive
            have hf : fs' u.tmp = s.fs u.tmp := next_frame hn u.tmp (h.ne j u hj') hd
            exact (h.ok j u hj').congr hf hru
        · intro j u hj
          rcases key j u hj with ⟨_, rfl⟩ | ⟨_, hj'⟩
          · exact h.mem i t ht
          · exact h.mem j u hj'
        · show fs' target = init ∨ ∃ b ∈ s.begun, fs' target = some b
          rcases htg with h1 | h1
          · rw [h1]; exact h.tgt
          · exact Or.inr ⟨t.buf, h.mem i t ht, h1⟩

theorem cinv_run (target : Path) (init : Option Bytes) (evs : List CEv) (s0 : CSt)
    (hr : CRunOK target s0 evs) (hi : CInv target init s0) : CInv target init (crun target evs s0) := by
  induction evs generalizing s0 with
  | nil => exact hi
  | cons e es ih => exact ih _ hr.2 (cinv_step target init s0 e hr.1 hi)

/-- **Old or new without mutual exclusion.**  Any number of stores interleave their system calls
arbitrarily (several goroutines without the struct mutex, several client processes on one assets
directory), every call may fail, the run may stop anywhere.  As long as stores that are in progress
at the same time use different temporary names, the target file holds at every instant either its
initial content or the *complete* marshalled bytes of one of the stores begun so far — never a
prefix, never a mixture.  (Which complete configuration wins is decided by the order of the renames.) -/
theorem concurrent_target_complete (target : Path) (fs0 : FS) (evs : List CEv)
    (hev : CRunOK target { fs := fs0 } evs) :
    let s := crun target evs { fs := fs0 }
    s.fs target = fs0 target ∨ ∃ b ∈ s.begun, s.fs target = some b :=
  (cinv_run target (fs0 target) evs { fs := fs0 } hev (cinv_init target fs0)).tgt

/-- non-vacuity: two stores interleaved call by call; the second rename wins, the first store's bytes
were complete in between -/
example :
    let evs : List CEv := [.begin 0 [1, 1] "d/.c.aaaaa.tmp", .begin 1 [2, 2, 2] "d/.c.bbbbb.tmp",
      .sys 0 .ok, .sys 1 .ok, .sys 0 (.wrote 1), .sys 1 (.wrote 3), .sys 0 (.wrote 1), .sys 1 .ok,
      .sys 0 .ok, .sys 0 .ok]
    (crun "d/c" evs { fs := fun _ => none }).fs "d/c" = some [1, 1] ∧
    (crun "d/c" (evs ++ [.sys 1 .ok]) { fs := fun _ => none }).fs "d/c" = some [2, 2, 2] := by
  decide

/-! ### the temporary file's name -/

/-- `.<name>.<5 random characters>.tmp` in the same directory is never the target's own name -/
theorem tmp_name_ne_target (dir name rnd : String) :
    dir ++ "/." ++ name ++ "." ++ rnd ++ ".tmp" ≠ dir ++ "/" ++ name := by
  intro h
  have := congrArg String.length h
  simp only [String.length_append] at this
  have h1 : "/.".length = 2 := by decide
  have h2 : "/".length = 1 := by decide
  have h3 : ".".length = 1 := by decide
  have h4 : ".tmp".length = 4 := by decide
  omega

/-- side theorem: the alphabet index computed by `getRandInt(0, 61)` is in range for every `int64`
except the minimum value -/
theorem tmp_index_in_range (v : Int) (hlo : -(2 : Int) ^ 63 < v) (hhi : v < (2 : Int) ^ 63) :
    0 ≤ randIndex v ∧ randIndex v < 62 := by
  unfold randIndex
  simp only
  have hnn : 0 ≤ (if v < 0 then int64Wrap (v * -1) else v) := by
    split
    · unfold int64Wrap; omega
    · omega
  exact ⟨Int.tmod_nonneg _ hnn, Int.tmod_lt_of_pos _ (by decide)⟩

/-- … and out of range (a negative index, i.e. a Go panic) at exactly the minimum `int64`:
probability 2⁻⁶⁴ per character; recorded as a note, not a finding against C20 -/
theorem tmp_index_min_int64 : randIndex (-(2 : Int) ^ 63) = -8 := by decide

/-! ### non-vacuity -/

def target0 : Path := "d/ClientConf"
def tmp0 : Path := "d/.ClientConf.abcde.tmp"
def fs0 : FS := fun p => if p = target0 then some [1, 2, 3] else none
def marshal0 : Nat → Option Bytes := fun n => if n = 0 then none else some (List.replicate n 7)

/-- a store interrupted after a partial write: target still old, temporary file partial -/
example :
    let s := run marshal0 target0 [.begin true 5 tmp0, .sys .ok, .sys (.wrote 2)] (init 1 fs0 target0)
    s.fs target0 = some [1, 2, 3] ∧ s.fs tmp0 = some [7, 7] ∧ s.task.isSome := by
  decide

/-- a complete store -/
example :
    let s := run marshal0 target0 [.begin true 5 tmp0, .sys .ok, .sys (.wrote 2), .sys (.wrote 3), .sys .ok, .sys .ok]
      (init 1 fs0 target0)
    s.fs target0 = some [7, 7, 7, 7, 7] ∧ s.fs tmp0 = none ∧ s.task.isNone ∧ s.lastErr = some false ∧ s.mem = 5 := by
  decide

/-- a failed write (disk full after two bytes): rolled back, target untouched -/
example :
    let s := run marshal0 target0 [.begin true 5 tmp0, .sys .ok, .sys (.wrote 2), .sys .fail, .sys .ok]
      (init 1 fs0 target0)
    s.fs target0 = some [1, 2, 3] ∧ s.task.isNone ∧ s.lastErr = some true ∧ s.mem = 1 := by
  decide

example : ∀ e ∈ [Ev.begin true 5 tmp0, .sys .ok, .sys (.wrote 2)], TmpOK target0 e := by
  intro e he
  simp only [List.mem_cons, List.mem_nil_iff, or_false] at he
  rcases he with rfl | rfl | rfl <;> simp [TmpOK, tmp0, target0]

end CJ.Props.C20
