import CJ.Model.ProxyHeader
import CJ.Lemmas.HalfPipe
/-!
# C05 — the PROXY-protocol line in front of the upload

`Proxy` (with the registration's `ProxyHeader` flag) writes one line to the covert before the relay starts;
what the covert receives is that line followed by the upload (`CJ.Props.C05.delivered_is_prefix` …).  The
theorems here are about the line itself, for **every** peer-address text: when nothing is written, that the
line carries nothing but the address's own host and port, and that it is exactly one line.
-/
namespace CJ.Props.C05Header
open CJ.NetAddr CJ.ProxyHeader

/-- **When nothing is written**: the header is refused exactly for the empty address and for the texts
`net.SplitHostPort` rejects (no port, too many colons, unbalanced brackets); `Proxy` then starts no relay. -/
theorem header_fails_iff (addr : Str) :
    headerLine addr = none ↔ addr = [] ∨ splitHostPort addr = none := by
  unfold headerLine
  cases addr with
  | nil => simp
  | cons c cs =>
    cases h : splitHostPort (c :: cs) with
    | none => simp
    | some hp => obtain ⟨a, b⟩ := hp; simp

/-- **Shape**: a line that is written is `PROXY TCP4|TCP6 <host> 127.0.0.1 <port> 1234\r\n` with the host and
port `net.SplitHostPort` finds in the address. -/
theorem header_shape (addr l : Str) (h : headerLine addr = some l) :
    ∃ host port, splitHostPort addr = some (host, port) ∧ l = render addr host port := by
  unfold headerLine at h
  split at h
  · cases h
  · split at h
    · cases h
    · rename_i hh pp heq
      exact ⟨hh, pp, heq, by simpa using h.symm⟩

theorem split_parts_infix (addr h p : Str) (hs : splitHostPort addr = some (h, p)) :
    h <:+: addr ∧ p <:+: addr := by
  unfold splitHostPort at hs
  split at hs
  · cases hs
  · rename_i i _
    split at hs
    · split at hs
      · cases hs
      · rename_i e _
        split at hs
        · cases hs
        · split at hs
          · split at hs
            · cases hs
            · split at hs
              · cases hs
              · simp only [Option.some.injEq, Prod.mk.injEq] at hs
                obtain ⟨rfl, rfl⟩ := hs
                exact ⟨(List.drop_suffix _ _).isInfix.trans (List.take_prefix _ _).isInfix,
                  (List.drop_suffix _ _).isInfix⟩
          · cases hs
    · simp only at hs
      split at hs
      · cases hs
      · split at hs
        · cases hs
        · split at hs
          · cases hs
          · simp only [Option.some.injEq, Prod.mk.injEq] at hs
            obtain ⟨rfl, rfl⟩ := hs
            exact ⟨(List.take_prefix _ _).isInfix, (List.drop_suffix _ _).isInfix⟩

theorem count_proto (addr : Str) (c : Char) (h1 : c = '\n' ∨ c = '\r') : (proto addr).count c = 0 := by
  unfold proto
  rcases h1 with rfl | rfl <;> split <;> decide

theorem render_count (addr h p : Str) (c : Char) (hc : c = '\n' ∨ c = '\r') (hh : c ∉ h) (hp : c ∉ p) :
    (render addr h p).count c = 1 := by
  have e1 : h.count c = 0 := List.count_eq_zero_of_not_mem hh
  have e2 : p.count c = 0 := List.count_eq_zero_of_not_mem hp
  have e3 := count_proto addr c hc
  have e4 : pfx.count c = 0 := by rcases hc with rfl | rfl <;> decide
  have e5 : mid.count c = 0 := by rcases hc with rfl | rfl <;> decide
  have e6 : sfx.count c = 1 := by rcases hc with rfl | rfl <;> decide
  have e7 : (' ' == c) = false := by rcases hc with rfl | rfl <;> decide
  simp [render, List.count_append, List.count_cons, e1, e2, e3, e4, e5, e6, e7]

/-- **Nothing invented**: host and port of the line are contiguous pieces of the peer address. -/
theorem header_parts_from_address (addr l : Str) (h : headerLine addr = some l) :
    ∃ host port, l = render addr host port ∧ host <:+: addr ∧ port <:+: addr := by
  obtain ⟨host, port, hs, hl⟩ := header_shape addr l h
  exact ⟨host, port, hl, split_parts_infix addr host port hs⟩

/-- **Exactly one line**: for an address text without CR and LF (every `net.Addr.String()` of a TCP peer) the
line contains one CR and one LF — the terminator — whatever else the address contains: the covert's parser
cannot be made to see a second header line or an early end of the header. -/
theorem header_single_line (addr l : Str) (h : headerLine addr = some l)
    (hn : '\n' ∉ addr) (hr : '\r' ∉ addr) :
    l.count '\n' = 1 ∧ l.count '\r' = 1 ∧ ['\r', '\n'] <:+ l := by
  obtain ⟨host, port, hl, hh, hp⟩ := header_parts_from_address addr l h
  subst hl
  refine ⟨render_count addr host port '\n' (Or.inl rfl) (fun m => hn (hh.subset m)) (fun m => hn (hp.subset m)),
    render_count addr host port '\r' (Or.inr rfl) (fun m => hr (hh.subset m)) (fun m => hr (hp.subset m)), ?_⟩
  refine ⟨pfx ++ proto addr ++ ' ' :: host ++ mid ++ port ++ " 1234".toList, ?_⟩
  simp [render, sfx]

/-- the stream the covert is sent: without the flag the upload alone; with it the line, then the upload —
or no relay at all when the line cannot be formed -/
theorem covert_stream_line_then_upload (addr : Str) (up : List UInt8) :
    covertStream false addr up = some up ∧
    (∀ l, headerLine addr = some l →
      covertStream true addr up = some (l.map (fun c => UInt8.ofNat c.toNat) ++ up)) ∧
    (headerLine addr = none → covertStream true addr up = none) := by
  refine ⟨rfl, fun l hl => by simp [covertStream, hl], fun hn => by simp [covertStream, hn]⟩

/-! examples: the hypotheses are satisfiable, the corner cases as the standard library has them -/
example : headerLine "192.0.2.10:5000".toList = some "PROXY TCP4 192.0.2.10 127.0.0.1 5000 1234\r\n".toList := by decide
example : headerLine "[2001:db8::1]:443".toList = some "PROXY TCP6 2001:db8::1 127.0.0.1 443 1234\r\n".toList := by decide
/-- an IPv4-mapped IPv6 peer is announced as TCP4 with an IPv6 host text (as written) -/
example : headerLine "[::ffff:192.0.2.1]:80".toList = some "PROXY TCP4 ::ffff:192.0.2.1 127.0.0.1 80 1234\r\n".toList := by decide
example : headerLine "2001:db8::1:443".toList = none := by decide
example : headerLine "not-an-address".toList = none := by decide
example : headerLine [] = none := by decide

end CJ.Props.C05Header
