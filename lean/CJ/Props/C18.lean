import CJ.Lemmas.Liveness
import CJ.Lemmas.LivenessX
/-!
# C18 — cached liveness verdicts are never stale or flipped, and the cache is bounded

Property theorems only.  A *history* is any list of operations (`query now addr probeAnswer`,
`clear now`) applied to the tester that `liveness.New` builds for a configuration; `probes cfg ops` is the
log of the probes that were actually sent during the history (newest first).  Nothing bounds the length
of the history, the number of addresses, the capacities or the times.

Boundary instant: the code serves on `age < lifetime` and cleans up on `age > lifetime`; the theorems
keep exactly that strictness (the property's "less than the configured lifetime").
-/
open Std

namespace CJ.Props.C18
open CJ.Liveness

/-- the probes sent during a history that starts from `New(cfg)`: (time, address, verdict), newest first -/
def probes (cfg : Config) (ops : List Op) : List Probe := logFrom (new cfg).1 [] ops

/-- the most recent measurement of address `a` during the history -/
def lastMeasured (cfg : Config) (ops : List Op) (a : String) : Option (Int × Bool) := lastOf (probes cfg ops) a

/-- operation times never go backwards -/
def Chronological (ops : List Op) : Prop := ops.Pairwise (fun x y => x.time ≤ y.time)

/-- the answer of the query that follows the history -/
def answer (cfg : Config) (ops : List Op) (now : Int) (a : String) (p : Bool) : Out :=
  (step (run cfg ops) (.query now a p)).2

/-- **Served only if fresh** (any history, chronological or not): a verdict answered from the cache was
measured for that address, with that verdict, less than that verdict's configured lifetime ago. -/
theorem served_only_if_fresh (cfg : Config) (ops : List Op) (now : Int) (a : String) (p v : Bool)
    (h : answer cfg ops now a p = .cached v) :
    ∃ d tm, cfg.dur v = .ok d ∧ (tm, a, v) ∈ probes cfg ops ∧ now - tm < d := by
  have sp := query_spec (run cfg ops) now a p
  obtain ⟨tm, e, h1, h2, h3⟩ := sp.cached v h
  exact ⟨e, tm, run_lifetime cfg ops v e h2, minv_run ops _ [] (new_minv cfg) v a tm h1, h3⟩

/-- **The served verdict is the measured one** (never flipped): in a chronological history a verdict
answered from the cache is the verdict of the *most recent* probe of that address, and that probe is
younger than the verdict's lifetime. -/
theorem served_verdict_was_measured (cfg : Config) (ops : List Op) (now : Int) (a : String) (p v : Bool)
    (hc : Chronological (ops ++ [.query now a p]))
    (h : answer cfg ops now a p = .cached v) :
    ∃ d tm, cfg.dur v = .ok d ∧ lastMeasured cfg ops a = some (tm, v) ∧ tm ≤ now ∧ now - tm < d := by
  obtain ⟨T0, hm, hend⟩ := mono_of_chronological ops _ hc
  simp only [Op.time] at hend
  have sp := query_spec (run cfg ops) now a p
  obtain ⟨tm, e, h1, h2, h3⟩ := sp.cached v h
  obtain ⟨hle, hent⟩ := ginv_run ops _ [] T0 (new_ginv cfg T0) hm
  obtain ⟨tl, vl, hl, hcase⟩ := hent v a tm h1
  have htl : tl ≤ now := by
    have := hle _ (lastOf_mem _ _ _ _ hl)
    simp only at this; omega
  rcases hcase with ⟨rfl, rfl⟩ | hexp
  · exact ⟨e, tm, run_lifetime cfg ops vl e h2, hl, htl, h3⟩
  · have := hexp e h2
    omega

/-- **Otherwise probed**: when no measurement of the address is younger than its verdict's lifetime, the
phantom is probed again (the probe function is called and its verdict returned). -/
theorem otherwise_probed (cfg : Config) (ops : List Op) (now : Int) (a : String) (p : Bool)
    (hstale : ∀ tm v d, (tm, a, v) ∈ probes cfg ops → cfg.dur v = .ok d → now - tm ≥ d) :
    answer cfg ops now a p = .probed p := by
  rcases (query_spec (run cfg ops) now a p).shape with ⟨v, hv⟩ | hp
  · obtain ⟨d, tm, h1, h2, h3⟩ := served_only_if_fresh cfg ops now a p v hv
    have := hstale tm v d h2 h1
    omega
  · exact hp

/-- chronological form: if the most recent measurement of the address is older than (or exactly as old as)
its verdict's lifetime — or there is none — the phantom is probed. -/
theorem otherwise_probed_last (cfg : Config) (ops : List Op) (now : Int) (a : String) (p : Bool)
    (hc : Chronological (ops ++ [.query now a p]))
    (hstale : ∀ tm v d, lastMeasured cfg ops a = some (tm, v) → cfg.dur v = .ok d → now - tm ≥ d) :
    answer cfg ops now a p = .probed p := by
  rcases (query_spec (run cfg ops) now a p).shape with ⟨v, hv⟩ | hp
  · obtain ⟨d, tm, h1, h2, _, h3⟩ := served_verdict_was_measured cfg ops now a p v hc hv
    have := hstale tm v d h2 h1
    omega
  · exact hp

/-- every answer is either a cache hit or the verdict of exactly one probe -/
theorem answer_shape (cfg : Config) (ops : List Op) (now : Int) (a : String) (p : Bool) :
    (∃ v, answer cfg ops now a p = .cached v) ∨ answer cfg ops now a p = .probed p :=
  (query_spec (run cfg ops) now a p).shape

/-- **Which cache `Init` builds**: the cache of verdict `v` exists exactly when that verdict's lifetime is
configured (and the configuration loads), its lifetime is the configured one, and it is an LRU exactly
when *that verdict's* capacity is non-zero. -/
theorem kind_by_own_capacity (cfg : Config) (ops : List Op) (v : Bool) (c : Cache)
    (h : (run cfg ops).cacheFor v = some c) :
    cfg.dur v = .ok c.exp ∧ c.bound = boundFor (cfg.cap v) := by
  have hr := run_tinv ops (new cfg).1 (new_tinv cfg)
  have hb := hr.2 v
  have he := run_expOf ops (new cfg).1 v
  unfold Tester.boundOf at hb
  unfold Tester.expOf at he
  unfold run at h
  rw [h] at hb he
  cases h0 : (new cfg).1.cacheFor v with
  | none => rw [h0] at hb; cases hb
  | some c0 =>
    rw [h0] at hb he
    simp only [Option.map_some, Option.some.injEq] at hb he
    have f := new_facts cfg v c0 h0
    rw [he, hb]
    exact ⟨f.1, f.2.2.1⟩

theorem cache_exists (cfg : Config) (v : Bool) (d : Int) (hd : cfg.dur v = .ok d) (hok : (new cfg).2 = none)
    (ops : List Op) : ∃ c, (run cfg ops).cacheFor v = some c := by
  obtain ⟨c0, h0⟩ := new_cacheFor_some cfg v d hd hok
  have hb := (run_tinv ops (new cfg).1 (new_tinv cfg)).2 v
  unfold Tester.boundOf at hb
  rw [h0] at hb
  unfold run
  cases h : (runFrom (new cfg).1 ops).cacheFor v with
  | none => rw [h] at hb; cases hb
  | some c => exact ⟨c, rfl⟩

/-- **Bounded**: with a capacity `n > 0` configured for a verdict, that verdict's cache never holds more
than `n` entries — at every operation boundary of every history. -/
theorem lru_bounded (cfg : Config) (ops : List Op) (v : Bool) (n : Nat) (hcap : cfg.cap v = (n : Int))
    (hpos : 0 < n) (c : Cache) (h : (run cfg ops).cacheFor v = some c) : c.len ≤ n := by
  have hwf : c.WF := (run_tinv ops (new cfg).1 (new_tinv cfg)).1 v c h
  apply wf_len_le c n hwf
  rw [(kind_by_own_capacity cfg ops v c h).2, hcap]
  unfold boundFor
  have h1 : ¬ ((n : Int) = 0) := by omega
  have h2 : ¬ ((n : Int) ≤ 0) := by omega
  simp only [h1, h2, if_false, Int.toNat_natCast]

/-- a negative capacity falls back to the library default size -/
theorem lru_bounded_default (cfg : Config) (ops : List Op) (v : Bool) (hcap : cfg.cap v < 0)
    (c : Cache) (h : (run cfg ops).cacheFor v = some c) : c.len ≤ defaultSizeLRU := by
  have hwf : c.WF := (run_tinv ops (new cfg).1 (new_tinv cfg)).1 v c h
  apply wf_len_le c _ hwf
  rw [(kind_by_own_capacity cfg ops v c h).2]
  unfold boundFor
  have h1 : ¬ (cfg.cap v = 0) := by omega
  have h2 : cfg.cap v ≤ 0 := by omega
  simp only [h1, h2, if_false, if_true]

/-- mid-operation: between writing the verdict map and adding the key to the recency list (the two
critical sections of `lruCache.Add`) the map holds at most one entry more than the capacity. -/
theorem lru_bounded_mid_add (e : Int) (m : VMap) (l : LRU) (k : String) (now : Int)
    (h : (Cache.lru e m l).WF) : (m.insert k now).size ≤ l.size + 1 := by
  have h1 := h.size; have h2 := h.le
  rw [HashMap.size_insert]
  split <;> omega

/-- **Bounded under concurrency** (step-level model: any number of threads, any interleaving of the
critical sections of `Add`, `Lookup`, `ClearExpired` and the deferred evict callbacks): the verdict map
never holds more than capacity + (threads currently between two of their critical sections) entries. -/
theorem lru_bounded_inflight (exp : Int) (size nthreads : Nat) (hpos : 0 < size) (sched : List (Nat × Call)) :
    (crun (cinit exp size nthreads) sched).m.size ≤ size + inflight (crun (cinit exp size nthreads) sched) := by
  have := cinv_size _ (cinv_run sched _ (cinv_init exp size nthreads hpos))
  rw [crun_size] at this
  exact this

/-- … and at most `capacity + nthreads` whatever the threads are doing; exactly the capacity bound
whenever no thread is inside an operation. -/
theorem lru_bounded_quiescent (exp : Int) (size nthreads : Nat) (hpos : 0 < size) (sched : List (Nat × Call))
    (hq : inflight (crun (cinit exp size nthreads) sched) = 0) :
    (crun (cinit exp size nthreads) sched).m.size ≤ size := by
  have := lru_bounded_inflight exp size nthreads hpos sched
  omega

/-- **Evicted or expired entries are never served**: if verdict `v`'s cache has no entry for the address
(never stored, evicted by the LRU, removed by the clean-up) or the entry's age has reached the lifetime,
the query is not answered from that cache. -/
theorem evicted_or_expired_never_served (cfg : Config) (ops : List Op) (now : Int) (a : String) (p v : Bool)
    (h : ∀ c tm, (run cfg ops).cacheFor v = some c → c.vmap[a]? = some tm → now - tm ≥ c.exp) :
    answer cfg ops now a p ≠ .cached v := by
  intro hc
  obtain ⟨tm, e, h1, h2, h3⟩ := (query_spec (run cfg ops) now a p).cached v hc
  unfold Tester.timeOf at h1
  unfold Tester.expOf at h2
  cases hcf : (run cfg ops).cacheFor v with
  | none => rw [hcf] at h1; cases h1
  | some c =>
    rw [hcf] at h1 h2
    simp only [Option.bind_some, Option.map_some, Option.some.injEq] at h1 h2
    have := h c tm hcf h1
    omega

/-- the events of a history that starts from `New(cfg)`, newest first: every measurement handed to a
cache and every entry that left a cache (by LRU eviction, by the clean-up, by anything else) -/
def events (cfg : Config) (ops : List Op) : List Ev := evlogFrom (new cfg).1 [] ops

/-- **Evicted or cleaned-up entries are never served** (history form): if the newest event about address
`a` in verdict `v`'s cache is that its entry left the cache — it was evicted by the LRU or removed by the
clean-up somewhere in the history and `a` was not measured with verdict `v` since — the query is not
answered from that cache. -/
theorem removed_never_served (cfg : Config) (ops : List Op) (now : Int) (a : String) (p v : Bool)
    (h : lastEv (events cfg ops) a v = some (.removed a v)) :
    answer cfg ops now a p ≠ .cached v := by
  intro hc
  obtain ⟨tm, _, h1, _, _⟩ := (query_spec (run cfg ops) now a p).cached v hc
  obtain ⟨ts, hs⟩ := einv_run ops (new cfg).1 [] (new_einv cfg) v a tm h1
  unfold events at h
  rw [hs] at h
  cases h

/-- the `removed` events are exactly the disappearances: an entry that exists after a history and not after
one more operation is logged as removed by that operation, and it is then the newest event about it -/
theorem every_removal_is_logged (cfg : Config) (ops : List Op) (o : Op) (v : Bool) (a : String) (tm : Int)
    (hb : (run cfg ops).timeOf v a = some tm) (ha : (run cfg (ops ++ [o])).timeOf v a = none) :
    lastEv (events cfg (ops ++ [o])) a v = some (.removed a v) := by
  unfold events
  rw [evlogFrom_snoc]
  apply lastEv_removed_of_step
  apply disappearance_logged _ o v a tm hb
  unfold run at ha
  rw [runFrom_append] at ha
  exact ha

/-- **… until the address is measured again**: once the entry of (a, v) has left the cache (or never
existed), any continuation of the history in which no probe of `a` answers `v` leaves it absent, and the
query is not answered from verdict `v`'s cache — whatever else is queried, evicted or cleaned meanwhile. -/
theorem removed_stays_unserved (cfg : Config) (ops1 ops2 : List Op) (now : Int) (a : String) (p v : Bool)
    (habs : (run cfg ops1).timeOf v a = none)
    (hquiet : ∀ tm, (tm, a, v) ∉ logFrom (run cfg ops1) [] ops2) :
    answer cfg (ops1 ++ ops2) now a p ≠ .cached v := by
  intro hc
  obtain ⟨tm, _, h1, _, _⟩ := (query_spec (run cfg (ops1 ++ ops2)) now a p).cached v hc
  have := absent_run ops2 (run cfg ops1) v a habs hquiet
  unfold run at h1 this
  rw [runFrom_append, this] at h1
  cases h1

/-- an eviction really removes the entry: the key handed to the evict callback is afterwards in neither
the verdict map nor the recency list. -/
theorem evicted_is_absent (e : Int) (m : VMap) (l : LRU) (k old : String) (now : Int)
    (h : (Cache.lru e m l).WF) (hev : (l.add k).2 = some old) :
    ((Cache.lru e m l).add now k).vmap[old]? = none ∧ old ∉ (l.add k).1.items := by
  have hinv := lruinv_add m l k now h
  have hnot : old ∉ (l.add k).1.items := by
    have hnd := h.nodup
    unfold LRU.add at hev ⊢
    by_cases hk : l.items.contains k = true
    · simp only [hk, if_true] at hev; cases hev
    · have hk' : k ∉ l.items := by simpa using hk
      simp only [hk, Bool.false_eq_true, if_false] at hev ⊢
      by_cases hov : (l.items ++ [k]).length > l.size
      · simp only [hov, if_true] at hev ⊢
        cases hit : l.items with
        | nil =>
          rw [hit] at hov
          have := h.pos
          simp only [List.nil_append, List.length_singleton] at hov; omega
        | cons o r =>
          rw [hit] at hev hnd hk'
          simp only [List.cons_append, Option.some.injEq] at hev ⊢
          subst hev
          rw [List.nodup_cons] at hnd
          simp only [List.mem_append, List.mem_singleton, not_or]
          exact ⟨hnd.1, fun e => hk' (by rw [e]; exact List.mem_cons_self ..)⟩
      · simp only [hov, if_false] at hev; cases hev
  refine ⟨?_, hnot⟩
  have hc : ((Cache.lru e m l).add now k).vmap.contains old = false := by
    cases hcc : ((Cache.lru e m l).add now k).vmap.contains old with
    | false => rfl
    | true => exact absurd ((hinv.same old).mp hcc) hnot
  rw [HashMap.contains_eq_isSome_getElem?] at hc
  cases hg : ((Cache.lru e m l).add now k).vmap[old]? with
  | none => rfl
  | some t => rw [hg] at hc; cases hc

/-- the clean-up is exact: after `ClearExpiredCache` at `now`, an entry is still stored iff it was stored
and its age is at most the lifetime. -/
theorem cleanup_exact (cfg : Config) (ops : List Op) (now : Int) (v : Bool) (c : Cache) (a : String) (tm : Int)
    (h : (run cfg ops).cacheFor v = some c) :
    (clear (run cfg ops) now).timeOf v a = some tm ↔ c.vmap[a]? = some tm ∧ now - tm ≤ c.exp := by
  have hwf : c.WF := (run_tinv ops (new cfg).1 (new_tinv cfg)).1 v c h
  have : (clear (run cfg ops) now).timeOf v a = (c.clearExpired now).vmap[a]? := by
    cases hr : run cfg ops with
    | uncached => rw [hr] at h; cases h
    | cached live nonLive =>
      rw [hr] at h
      cases v
      · simp only [Tester.cacheFor, Bool.false_eq_true, if_false] at h
        subst h
        simp [clear, Tester.timeOf, Tester.cacheFor]
      · simp only [Tester.cacheFor, if_true] at h
        subst h
        simp [clear, Tester.timeOf, Tester.cacheFor]
  rw [this]
  exact clearExpired_exact c now a tm hwf

/-! ### non-vacuity: concrete histories that meet the hypotheses -/

def cfg0 : Config := { durLive := .ok 7200, capLive := 2, durNonLive := .ok 3600, capNonLive := 1 }
def hist0 : List Op := [.query 10 "a" true, .query 20 "b" false, .query 30 "a" false]

example : Chronological (hist0 ++ [.query 40 "a" false]) := by
  simp [Chronological, hist0, Op.time]
-- the history really reaches a cache hit, and the hit is the measured verdict
example : answer cfg0 hist0 40 "a" false = .cached true := by
  simp [answer, run, runFrom, hist0, cfg0, step, query, new, initCached, lookupOpt, addOpt, Cache.lookup,
    Cache.add, LRU.add, newLRUCache, onEvict]
example : lastMeasured cfg0 hist0 "a" = some (10, true) := by
  simp [lastMeasured, lastOf, probes, logFrom, probeOf, hist0, cfg0, step, query, new, initCached, lookupOpt,
    addOpt, Cache.lookup, Cache.add, LRU.add, newLRUCache, onEvict]
-- … and a stale entry is probed again
example : answer cfg0 hist0 7300 "a" false = .probed false := by
  simp [answer, run, runFrom, hist0, cfg0, step, query, new, initCached, lookupOpt, addOpt, Cache.lookup,
    Cache.add, LRU.add, newLRUCache, onEvict]
-- the bounded caches exist
example : ∃ c, (run cfg0 hist0).cacheFor false = some c := cache_exists cfg0 false 3600 rfl (by decide) hist0
-- an eviction happens in a concrete LRU
example : ((LRU.mk 1 ["b"]).add "c").2 = some "b" := by decide

-- a history in which the LRU (capacity 1) evicts "a" when "b" is stored: the eviction is the newest event
-- about ("a", live), so `removed_never_served` applies …
def cfg1 : Config := { durLive := .ok 7200, capLive := 1, durNonLive := .unset, capNonLive := 0 }
example : lastEv (events cfg1 [.query 10 "a" true, .query 20 "b" true]) "a" true = some (.removed "a" true) := by
  apply every_removal_is_logged cfg1 [.query 10 "a" true] (.query 20 "b" true) true "a" 10
  · simp [run, runFrom, cfg1, step, query, new, initCached, lookupOpt, addOpt, Cache.lookup, Cache.add, LRU.add,
      newLRUCache, onEvict, Tester.timeOf, Tester.cacheFor, Cache.vmap]
  · simp [run, runFrom, cfg1, step, query, new, initCached, lookupOpt, addOpt, Cache.lookup, Cache.add, LRU.add,
      newLRUCache, onEvict, Tester.timeOf, Tester.cacheFor, Cache.vmap]
-- … and the evicted address, although measured only 20 ns ago, is probed again
example : answer cfg1 [.query 10 "a" true, .query 20 "b" true] 30 "a" false = .probed false := by
  simp [answer, run, runFrom, cfg1, step, query, new, initCached, lookupOpt, addOpt, Cache.lookup, Cache.add,
    LRU.add, newLRUCache, onEvict]
-- the clean-up logs what it removes as well
example : lastEv (events cfg0 [.query 10 "a" true, .clear 8000]) "a" true = some (.removed "a" true) := by
  apply every_removal_is_logged cfg0 [.query 10 "a" true] (.clear 8000) true "a" 10
  · simp [run, runFrom, cfg0, step, query, new, initCached, lookupOpt, addOpt, Cache.lookup, Cache.add, LRU.add,
      newLRUCache, onEvict, Tester.timeOf, Tester.cacheFor, Cache.vmap]
  · have h := (cleanup_exact cfg0 [.query 10 "a" true] 8000 true
        (Cache.lru 7200 (({} : VMap).insert "a" 10) { size := 2, items := ["a"] }) "a" 10
        (by simp [run, runFrom, cfg0, step, query, new, initCached, lookupOpt, addOpt, Cache.lookup, Cache.add,
              LRU.add, newLRUCache, onEvict, Tester.cacheFor]))
    cases hx : (run cfg0 ([.query 10 "a" true] ++ [.clear 8000])).timeOf true "a" with
    | none => rfl
    | some t =>
      exfalso
      have e : run cfg0 ([Op.query 10 "a" true] ++ [.clear 8000]) = clear (run cfg0 [.query 10 "a" true]) 8000 := rfl
      rw [e] at hx
      have hsub := clear_timeOf _ _ _ _ _ hx
      have ht : t = 10 := by
        simp [run, runFrom, cfg0, step, query, new, initCached, lookupOpt, addOpt, Cache.lookup, Cache.add, LRU.add,
          newLRUCache, onEvict, Tester.timeOf, Tester.cacheFor, Cache.vmap] at hsub
        exact hsub.symm
      subst ht
      have := (h.mp hx).2
      simp [Cache.exp] at this

/-! ### the probe result as a pair `(bool, error)`

The probe function is injectable and returns a boolean *and* an error.  The verdict is the boolean; the
error may be anything (`nil`, `NotLive`, a wrapped `NotLive`, `ErrLiveHost`, a dial or scanner failure, a
context error).  Histories below are lists of `XOp`: every query carries the whole pair a probe would
return.  `probesX` is the log of the pairs the probe really returned. -/

def probesX (cfg : Config) (ops : List XOp) : List XProbe := logXFrom (new cfg).1 [] ops

/-- the most recent measurement of address `a`: time and the pair the probe returned -/
def lastMeasuredX (cfg : Config) (ops : List XOp) (a : String) : Option (Int × Measured) := lastOfX (probesX cfg ops) a

def ChronologicalX (ops : List XOp) : Prop := ops.Pairwise (fun x y => x.time ≤ y.time)

/-- the answer of the query that follows the history -/
def answerX (cfg : Config) (ops : List XOp) (now : Int) (a : String) (r : Measured) : XOut :=
  (stepX (runX cfg ops) (.query now a r)).2

theorem answerX_forget (cfg : Config) (ops : List XOp) (now : Int) (a : String) (r : Measured) :
    (answerX cfg ops now a r).forget = answer cfg (ops.map XOp.forget) now a r.live := by
  unfold answerX answer
  rw [runX_forget]
  exact queryX_snd _ now a r

theorem chronological_forget (ops : List XOp) (h : ChronologicalX ops) : Chronological (ops.map XOp.forget) := by
  unfold Chronological
  rw [List.pairwise_map]
  simp only [XOp.forget_time]
  exact h

theorem lastMeasured_forget (cfg : Config) (ops : List XOp) (a : String) :
    lastMeasured cfg (ops.map XOp.forget) a = (lastMeasuredX cfg ops a).map (fun p => (p.1, p.2.live)) := by
  unfold lastMeasured lastMeasuredX probes probesX
  have h := logXFrom_forget ops (new cfg).1 []
  simp only [List.map_nil] at h
  rw [← h]
  exact lastOf_forget _ a

/-- **The store reads the boolean only**: which cache a fresh measurement is filed in does not depend on the
error that came with it … -/
theorem store_reads_boolean_only (live nonLive : Option Cache) (now : Int) (a : String) (v : Bool) (e e' : ProbeErr) :
    store live nonLive now a ⟨v, e⟩ = store live nonLive now a ⟨v, e'⟩ := rfl

/-- … and a measurement never touches the cache of the *other* boolean, whatever its error: `(false, e)`
leaves the live cache as it is, `(true, e)` leaves the non-live cache as it is. -/
theorem store_leaves_other_cache (live nonLive : Option Cache) (now : Int) (a : String) (e : ProbeErr) :
    (store live nonLive now a ⟨false, e⟩).1 = live ∧ (store live nonLive now a ⟨true, e⟩).2 = nonLive :=
  ⟨rfl, rfl⟩

/-- every answer is a cache hit or the pair that exactly one probe returned, handed back unaltered -/
theorem probe_result_returned_unaltered (cfg : Config) (ops : List XOp) (now : Int) (a : String) (r : Measured) :
    (∃ v, answerX cfg ops now a r = .cached v) ∨ answerX cfg ops now a r = .probed r :=
  queryX_shape _ now a r

/-- the log holds what the probes returned: an entry of the pair log belongs to a query of the history that
carried that very pair -/
theorem logged_pair_was_returned (cfg : Config) (ops : List XOp) (p : XProbe) (h : p ∈ probesX cfg ops) :
    XOp.query p.1 p.2.1 p.2.2 ∈ ops := by
  unfold probesX at h
  suffices H : ∀ (ops : List XOp) (t : Tester) (acc : List XProbe), p ∈ logXFrom t acc ops →
      p ∈ acc ∨ XOp.query p.1 p.2.1 p.2.2 ∈ ops by
    rcases H ops _ [] h with h | h
    · cases h
    · exact h
  intro ops
  induction ops with
  | nil => intro t acc h; exact Or.inl h
  | cons o os ih =>
    intro t acc h
    rcases ih (stepX t o).1 (probeOfX t o ++ acc) h with h | h
    · rcases List.mem_append.mp h with h | h
      · right
        rw [← probeOfX_mem t o p h]
        exact List.mem_cons_self ..
      · exact Or.inl h
    · exact Or.inr (List.mem_cons_of_mem _ h)

/-- **The served verdict equals the measured boolean, for every error component**: in a chronological
history of pairs, a verdict `v` answered from the cache is the boolean of the *most recent* pair the probe
returned for that address - whichever error `e` that pair carried - and that measurement is younger than
verdict `v`'s lifetime.  (No hypothesis on `e`: `nil`, `NotLive`, wrapped, `ErrLiveHost`, any other error,
a context error.) -/
theorem served_verdict_equals_measured_boolean (cfg : Config) (ops : List XOp) (now : Int) (a : String)
    (r : Measured) (v : Bool)
    (hc : ChronologicalX (ops ++ [.query now a r]))
    (h : answerX cfg ops now a r = .cached v) :
    ∃ d tm e, cfg.dur v = .ok d ∧ lastMeasuredX cfg ops a = some (tm, ⟨v, e⟩) ∧ tm ≤ now ∧ now - tm < d := by
  have h0 : answer cfg (ops.map XOp.forget) now a r.live = .cached v := by
    rw [← answerX_forget, h]; rfl
  have hc0 : Chronological (ops.map XOp.forget ++ [.query now a r.live]) := by
    have := chronological_forget _ hc
    simpa only [List.map_append, List.map_cons, List.map_nil, XOp.forget] using this
  obtain ⟨d, tm, h1, h2, h3, h4⟩ := served_verdict_was_measured cfg _ now a r.live v hc0 h0
  rw [lastMeasured_forget] at h2
  cases hl : lastMeasuredX cfg ops a with
  | none => rw [hl] at h2; cases h2
  | some p =>
    rw [hl] at h2
    obtain ⟨tp, ⟨vp, ep⟩⟩ := p
    simp only [Option.map_some, Option.some.injEq, Prod.mk.injEq] at h2
    obtain ⟨rfl, rfl⟩ := h2
    exact ⟨d, tp, ep, h1, rfl, h3, h4⟩

/-- in particular a cache hit never contradicts the most recent pair: if the probe last returned
`(b, e)` for the address, no later query is answered `¬b` from the cache -/
theorem served_never_flipped (cfg : Config) (ops : List XOp) (now : Int) (a : String) (r : Measured)
    (tm : Int) (b : Bool) (e : ProbeErr)
    (hc : ChronologicalX (ops ++ [.query now a r]))
    (hl : lastMeasuredX cfg ops a = some (tm, ⟨b, e⟩)) :
    answerX cfg ops now a r ≠ .cached (!b) := by
  intro h
  obtain ⟨_, tm', e', _, h2, _, _⟩ := served_verdict_equals_measured_boolean cfg ops now a r (!b) hc h
  rw [hl] at h2
  simp only [Option.some.injEq, Prod.mk.injEq, Measured.mk.injEq] at h2
  cases b <;> simp at h2

/-- **Never-cached kinds stay uncached**: a verdict whose lifetime is not configured is never answered from
the cache, after any history of pairs (live-only configuration: no `(false, ErrCachedPhantom)`; non-live-only:
no `(true, ErrCachedPhantom)`) … -/
theorem unconfigured_verdict_never_served (cfg : Config) (ops : List XOp) (now : Int) (a : String) (r : Measured)
    (v : Bool) (hv : ∀ d, cfg.dur v ≠ .ok d) : answerX cfg ops now a r ≠ .cached v := by
  intro h
  have h0 : answer cfg (ops.map XOp.forget) now a r.live = .cached v := by
    rw [← answerX_forget, h]; rfl
  obtain ⟨d, _, h1, _, _⟩ := served_only_if_fresh cfg _ now a r.live v h0
  exact hv d h1

/-- … and an address whose most recent measurement `(b, e)` has a boolean that is not cached in this
configuration is probed again by the next query, whatever `e` was. -/
theorem unconfigured_kind_probed_again (cfg : Config) (ops : List XOp) (now : Int) (a : String) (r : Measured)
    (tm : Int) (b : Bool) (e : ProbeErr)
    (hc : ChronologicalX (ops ++ [.query now a r]))
    (hl : lastMeasuredX cfg ops a = some (tm, ⟨b, e⟩)) (hb : ∀ d, cfg.dur b ≠ .ok d) :
    answerX cfg ops now a r = .probed r := by
  rcases probe_result_returned_unaltered cfg ops now a r with ⟨v, hv⟩ | hp
  · exfalso
    obtain ⟨d, tm', e', h1, h2, _, _⟩ := served_verdict_equals_measured_boolean cfg ops now a r v hc hv
    rw [hl] at h2
    simp only [Option.some.injEq, Prod.mk.injEq, Measured.mk.injEq] at h2
    obtain ⟨_, rfl, _⟩ := h2
    exact hb d h1
  · exact hp

/-- two histories that differ only in the error components of the probe results leave the tester in the
same state and get the same kind of answer -/
theorem error_component_irrelevant (cfg : Config) (ops ops' : List XOp) (h : ops.map XOp.forget = ops'.map XOp.forget) :
    runX cfg ops = runX cfg ops' := by
  rw [runX_forget, runX_forget, h]

-- non-vacuity: a non-live verdict that came with another error is cached as non-live and served as such;
-- in a live-only configuration it is probed again
def cfg2 : Config := { durLive := .ok 7200, capLive := 0, durNonLive := .ok 3600, capNonLive := 0 }
def cfg3 : Config := { durLive := .ok 7200, capLive := 0, durNonLive := .unset, capNonLive := 0 }
example : answerX cfg2 [.query 10 "a" ⟨false, .other⟩] 20 "a" ⟨true, .liveHost⟩ = .cached false := by
  simp [answerX, runX, runXFrom, stepX, queryX, store, cfg2, new, initCached, lookupOpt, addOpt, Cache.lookup,
    Cache.add, newMapCache]
example : lastMeasuredX cfg2 [.query 10 "a" ⟨false, .other⟩] "a" = some (10, ⟨false, .other⟩) := by
  simp [lastMeasuredX, lastOfX, probesX, logXFrom, probeOfX, queryX, store, cfg2, new, initCached,
    lookupOpt, addOpt, Cache.lookup, Cache.add, newMapCache]
example : answerX cfg3 [.query 10 "a" ⟨false, .nil⟩] 20 "a" ⟨false, .ctxCanceled⟩ = .probed ⟨false, .ctxCanceled⟩ := by
  simp [answerX, runX, runXFrom, stepX, queryX, store, cfg3, new, initCached, lookupOpt, addOpt, Cache.lookup,
    Cache.add, newMapCache]

end CJ.Props.C18
