import CJ.Gen.C06DialSites
/-!
# C06 — which strings reach a dial, across the package border

`CJ.Covert.World.proxyDial` dials the `Covert` field of the stored registration object and nothing else.  The
extracted step order (`CJ/Gen/C06Ingest.lean`) is a fact about package lib; the wrapping transports are served
from `cmd/application` (`handleNewTCPConn → cj.Proxy`).  `CJ/Gen/C06DialSites.lean` is read off the non-test
sources of cmd/application, pkg/station/lib and every transport directory on every run; the theorem below is the
tie between the model's single dial site and those sources.
-/
namespace CJ.Props.C06Sites
open CJ.Gen.C06DialSites

def hasPrefix (p s : String) : Bool := p.toList.isPrefixOf s.toList

/-- a dial site that is not a covert dial: client-side code (a method of a `ClientTransport`), or the UDP
dial-back of a connecting transport to the *client's* address -/
def clientFacing (s : Site) : Bool :=
  s.recv == "ClientTransport" ||
  (hasPrefix "pkg/transports/connecting/" s.dir && s.args.head? == some "\"udp\"" && s.addrRoot == "clientAddr")

/-- the covert dial as the model has it: in `Proxy` of package lib, `net.Dial("tcp", reg.Covert)` where `reg`
is a parameter of `Proxy` that is never assigned in it -/
def covertDial (s : Site) : Bool :=
  s.dir == "pkg/station/lib" && s.fn == "Proxy" && s.recv == "" && s.callee == "net.Dial" &&
  s.args == ["\"tcp\"", "reg.Covert"] && s.addrRoot == "reg" && s.addrRootKind == "param"

/-- the registration handed to `Proxy` is a never-assigned parameter of the caller, or a local whose every
assignment is a type assertion on what a transport's `WrapConnection` returned -/
def proxyArgOk (c : String × String × String × String) : Bool :=
  c.2.2.2 == "param" ||
  (c.2.2.2 == "local" &&
    (regFlows.filter (fun f => f.1 == c.1 && f.2.1 == c.2.1)).all
      (fun f => (f.2.2.1 == "assign" && hasPrefix "wrappedReg.(" f.2.2.2) || (f.2.2.1 == "source" && f.2.2.2 == "WrapConnection")) &&
    (regFlows.any (fun f => f.1 == c.1 && f.2.1 == c.2.1 && f.2.2.1 == "source")))

/-- No string but the `Covert` field of the registration object reaches a station-side dial: every `Dial*`
call of the connection path is the covert dial of `Proxy` or client-facing; there is exactly one covert dial;
every caller of `Proxy` (inside and outside package lib) hands it a registration object it did not build itself;
and a `Covert` field is written in package lib only — by `NewRegistration` (the client's string) and by
`ingestRegistration` (the admitted literal). -/
theorem only_checked_covert_reaches_a_dial :
    (dialSites.all (fun s => covertDial s || clientFacing s)) = true ∧
    (dialSites.filter covertDial).length = 1 ∧
    (dialSites.all (fun s => !(covertDial s && clientFacing s))) = true ∧
    proxyCalls ≠ [] ∧ (proxyCalls.all proxyArgOk) = true ∧
    (proxyCalls.any (fun c => c.1 == "cmd/application")) = true ∧
    (covertWrites.all (fun w => w.1 == "pkg/station/lib" &&
        ((w.2.1 == "ingestRegistration" && w.2.2 == "covert") ||
         (w.2.1 == "NewRegistration" && w.2.2 == "c2s.GetCovertAddress()")))) = true ∧
    (covertWrites.filter (fun w => w.2.1 == "ingestRegistration")).length = 1 := by
  decide

/-- the predicates are not vacuous: a `Proxy` that dialed another string, or a caller that built its own
registration, is rejected by them -/
example : covertDial ⟨"pkg/station/lib", "Proxy", "", "net.Dial", ["\"tcp\"", "reg.Mask"], "reg", "param"⟩ = false := by decide
example : clientFacing ⟨"cmd/application", "handleNewTCPConn", "", "net.Dial", ["\"tcp\"", "addr"], "addr", "local"⟩ = false := by decide

end CJ.Props.C06Sites
