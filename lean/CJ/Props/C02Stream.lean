import CJ.Model.WrapStream
import CJ.Props.C02
/-!
# C02 — what a match consumes, what the tunnel is handed, where the obfs4 mark must sit

Property theorems over `CJ.WrapStream`: the proving bytes are taken exactly once and never handed on;
the connection given to the tunnel (`PrependToConn`) returns, for reads of ANY sizes, exactly the rest
of the buffer followed by the socket's bytes — none twice, none lost, none out of order, `io.EOF` only
after the last one; an obfs4 match needs the registration's mark in the 16 bytes that end 16 bytes
before the end of the (at most 8192 byte long) buffer, at or after offset 109.
-/
namespace CJ.Props.C02
open CJ.Wrap CJ.WrapStream

/-! ## the socket script and one read -/

theorem sockRead_conserves (s : Sock) (n : Nat) :
    (sockRead s n).1.data ++ (sockRead s n).2.chunks.flatten = s.chunks.flatten := by
  unfold sockRead
  split
  · rename_i h; simp [h]
  · rename_i c cs h
    split
    · simp [h]
    · split
      · simp [h, ← List.append_assoc]
      · simp [h]

theorem sockRead_eof_drained (s : Sock) (n : Nat) (h : (sockRead s n).1.err = .eof) :
    (sockRead s n).2.chunks.flatten = [] := by
  unfold sockRead at h ⊢
  split
  · rename_i h0; simp [h0]
  · rename_i c cs h0
    split
    · rename_i hn; simp [h0, hn] at h
    · split
      · rename_i h1 h2; simp [h0, h1, h2] at h
      · rename_i h1 h2
        simp only [h0, h1, h2, if_false] at h
        by_cases hc : cs.isEmpty = true
        · have : cs = [] := by simpa using hc
          simp [this]
        · simp [hc] at h

/-- one read: what it returns followed by what is still to come is what was to come before it -/
theorem read_conserves (m : MR) (n : Nat) :
    (mrRead m n).1.data ++ pending (mrRead m n).2 = pending m := by
  unfold mrRead
  split
  · rename_i h
    have hb : m.bufDone = false := by
      cases hbd : m.bufDone <;> simp [hbd] at h ⊢
    simp [pending, hb, ← List.append_assoc]
  · rename_i h
    have hfront : (if m.bufDone = true then [] else m.rem) = ([] : Bytes) := by
      cases hbd : m.bufDone
      · simp [hbd] at h
        simp [h.1]
      · simp
    split
    · rename_i hsd
      simp [pending, hsd, hfront]
    · rename_i hsd
      have hsd' : m.sockDone = false := by simpa using hsd
      have hc := sockRead_conserves m.sock n
      split
      · rename_i he
        have hd := sockRead_eof_drained m.sock n he
        rw [hd, List.append_nil] at hc
        simp [pending, hsd', hfront, hc]
      · simp [pending, hsd', hfront, hc]

/-- `io.EOF` is reported only when nothing is left -/
theorem eof_only_when_drained (m : MR) (n : Nat) (h : (mrRead m n).1.err = .eof) :
    pending (mrRead m n).2 = [] := by
  unfold mrRead at h ⊢
  split
  · rename_i h0; simp [h0] at h
  · rename_i h0
    split
    · rename_i h1; simp [pending, h1]
    · rename_i h1
      split
      · simp [pending]
      · rename_i h2
        simp [h0, h1, h2] at h

/-- a read with room for at least one byte makes progress while anything is left (sockets that
answer `(0, nil)` excluded: every scripted chunk is non-empty) -/
theorem read_progress (m : MR) (n : Nat) (hn : 0 < n) (hne : ∀ c ∈ m.sock.chunks, c ≠ [])
    (hp : pending m ≠ []) : (mrRead m n).1.data ≠ [] := by
  unfold mrRead
  have hn0 : (n == 0) = false := by simp; omega
  split
  · rename_i h
    simp only [hn0, Bool.or_false, Bool.and_eq_true, Bool.not_eq_true'] at h
    have hr : m.rem ≠ [] := by
      intro hh; simp [hh] at h
    simp only
    cases hrem : m.rem with
    | nil => exact absurd hrem hr
    | cons a as =>
      cases n with
      | zero => omega
      | succ k => simp
  · rename_i h
    have hfront : (if m.bufDone = true then [] else m.rem) = ([] : Bytes) := by
      cases hbd : m.bufDone
      · simp [hbd, hn0] at h
        simp [h]
      · simp
    split
    · rename_i hsd
      simp [pending, hsd, hfront] at hp
    · rename_i hsd
      have hsd' : m.sockDone = false := by simpa using hsd
      have hdata : (sockRead m.sock n).1.data ≠ [] := by
        unfold sockRead
        cases hch : m.sock.chunks with
        | nil => simp [pending, hsd', hfront, hch] at hp
        | cons c cs =>
          have hc : c ≠ [] := hne c (by simp [hch])
          simp only
          split
          · omega
          · split
            · cases c with
              | nil => exact absurd rfl hc
              | cons a as =>
                cases n with
                | zero => omega
                | succ k => simp
            · exact hc
      split <;> exact hdata

/-! ## runs of reads of any sizes -/

/-- **nothing twice, nothing lost, nothing reordered**: after any sequence of reads, what was returned
followed by what is still to come is the rest of the buffer followed by the socket's bytes -/
theorem reads_conserve (m : MR) (sizes : List Nat) :
    delivered (runReads m sizes).1 ++ pending (runReads m sizes).2 = pending m := by
  induction sizes generalizing m with
  | nil => simp [runReads, delivered]
  | cons n ns ih =>
    have h1 := read_conserves m n
    have h2 := ih (mrRead m n).2
    simp only [runReads, delivered, List.map_cons, List.flatten_cons] at h2 ⊢
    rw [List.append_assoc]
    rw [h2, h1]

/-- what any run of reads returned is an initial piece of `remainder ++ socket` -/
theorem delivered_is_prefix (rem : Bytes) (s : Sock) (sizes : List Nat) :
    delivered (runReads (prepend rem s) sizes).1 <+: rem ++ s.chunks.flatten := by
  have h := reads_conserve (prepend rem s) sizes
  simp only [pending, prepend] at h
  exact ⟨_, h⟩

theorem runReads_append (m : MR) (a b : List Nat) :
    (runReads m (a ++ b)).1 = (runReads m a).1 ++ (runReads (runReads m a).2 b).1 ∧
    (runReads m (a ++ b)).2 = (runReads (runReads m a).2 b).2 := by
  induction a generalizing m with
  | nil => simp [runReads]
  | cons n ns ih =>
    have := ih (mrRead m n).2
    simp only [List.cons_append, runReads]
    exact ⟨by rw [this.1], this.2⟩

/-- a run whose last read reported `io.EOF` has returned exactly `remainder ++ socket` -/
theorem drained_run_is_exact (rem : Bytes) (s : Sock) (sizes : List Nat) (n : Nat)
    (h : (mrRead (runReads (prepend rem s) sizes).2 n).1.err = .eof) :
    delivered (runReads (prepend rem s) (sizes ++ [n])).1 = rem ++ s.chunks.flatten := by
  have hc := reads_conserve (prepend rem s) (sizes ++ [n])
  have ha := runReads_append (prepend rem s) sizes [n]
  have hd := eof_only_when_drained _ n h
  have h2 : (runReads (prepend rem s) (sizes ++ [n])).2 = (mrRead (runReads (prepend rem s) sizes).2 n).2 := by
    rw [ha.2]; simp [runReads]
  rw [h2, hd, List.append_nil] at hc
  simpa [pending, prepend] using hc

/-! ## what a match consumes and hands on -/

/-- min: the 32 proving bytes are taken, the tunnel reads everything after them and then the socket -/
theorem min_hands_on_rest (regs : List RegView) (d : Bytes) (rid n : Nat) (s : Sock)
    (h : wrapMin regs d = .found rid n) :
    d.take 32 ++ handedOn (wrapMin regs d) d = d ∧
    pending (prepend (handedOn (wrapMin regs d) d) s) = d.drop 32 ++ s.chunks.flatten := by
  obtain ⟨_, _, _, _, hn, _⟩ := min_match_sound regs d rid n h
  subst hn
  simp [h, handedOn, pending, prepend]

/-- prefix (any number of station keys): static prefix and tag are taken, nothing of them is handed on,
everything after the tag is -/
theorem prefix_hands_on_rest (table : List PrefixEntry) (reveals : Bytes → List String)
    (regs : List RegView) (d : Bytes) (rid n : Nat) (s : Sock)
    (h : wrapPrefixK table reveals regs d = .found rid n) :
    ∃ e ∈ table, n = e.offset + 64 ∧ n ≤ d.length ∧
      d.take e.offset ++ window d e.offset ++ handedOn (wrapPrefixK table reveals regs d) d = d ∧
      pending (prepend (handedOn (wrapPrefixK table reveals regs d) d) s) = d.drop (e.offset + 64) ++ s.chunks.flatten := by
  obtain ⟨e, he, _, _, _, _, _, _, _, _, hlen, hn⟩ := prefixK_match_sound table reveals regs d rid n h
  refine ⟨e, he, hn, by omega, ?_, ?_⟩
  · subst hn
    simp only [h, handedOn, window, prefixTagLen]
    rw [← List.drop_drop, List.append_assoc, List.take_append_drop, List.take_append_drop]
  · subst hn
    simp [h, handedOn, pending, prepend]

/-- the whole picture for a matched min / prefix connection: whatever sizes the tunnel reads with,
consumed ++ returned ++ still-to-come = first bytes ++ socket -/
theorem matched_stream_exact (v : Verdict) (d : Bytes) (rid n : Nat) (s : Sock) (sizes : List Nat)
    (hv : v = .found rid n) :
    d.take n ++ (delivered (runReads (prepend (handedOn v d) s) sizes).1 ++
      pending (runReads (prepend (handedOn v d) s) sizes).2) = d ++ s.chunks.flatten := by
  rw [reads_conserve]
  subst hv
  simp [handedOn, pending, prepend, ← List.append_assoc]

theorem obfs4_found_consumes_nothing (marks : List Nat) (regs : List RegView) (d : Bytes) (rid n : Nat)
    (h : wrapObfs4 marks regs d = .found rid n) : n = 0 := by
  unfold wrapObfs4 at h
  split at h
  · cases h
  · split at h
    · simp only [Verdict.found.injEq] at h; exact h.2.symm
    · split at h <;> cases h

/-- obfs4 hands the library the untouched buffer (its handshake needs the whole first flight) -/
theorem obfs4_hands_on_everything (marks : List Nat) (regs : List RegView) (d : Bytes) (rid n : Nat)
    (h : wrapObfs4 marks regs d = .found rid n) : handedOn (wrapObfs4 marks regs d) d = d := by
  have := obfs4_found_consumes_nothing marks regs d rid n h
  subst this
  simp [h, handedOn]

/-! ## obfs4: the mark's place -/

/-- a located mark sits in the 16 bytes that end `MacLength` before the end of the searched part
(the buffer cut at `maxPos`), not before `startPos`, and equals the mark -/
theorem mark_found_at_tail (mark buf : Bytes) (s mx pos : Nat) (h : findMarkTail mark buf s mx = .at pos) :
    mark.length = 16 ∧ pos + 32 = min buf.length mx ∧ s ≤ pos ∧ (buf.drop pos).take 16 = mark := by
  unfold findMarkTail at h
  split at h; · cases h
  rename_i hl
  split at h; · cases h
  split at h; · cases h
  split at h
  · rename_i h1 h2 h3
    simp only [MarkRes.at.injEq] at h
    simp only [markLen, macLen] at hl h2 h3 h
    refine ⟨by omega, by omega, by omega, ?_⟩
    rw [← h]; exact h3
  · cases h

/-- the only bytes consulted: two buffers of the same length that agree on the 16-byte window
give the same answer for the same mark -/
theorem mark_search_reads_only_the_window (mark b1 b2 : Bytes) (s mx : Nat) (hl : b1.length = b2.length)
    (hw : (b1.drop (min b1.length mx - (markLen + macLen))).take markLen =
          (b2.drop (min b1.length mx - (markLen + macLen))).take markLen) :
    findMarkTail mark b1 s mx = findMarkTail mark b2 s mx := by
  simp only [findMarkTail, ← hl, hw]

/-- an altered mark is not located: if the window differs from the mark the search fails -/
theorem mark_altered_rejected (mark buf : Bytes) (s mx : Nat)
    (hne : (buf.drop (min buf.length mx - 32)).take 16 ≠ mark) :
    ∀ pos, findMarkTail mark buf s mx ≠ .at pos := by
  intro pos h
  obtain ⟨_, hp, _, hw⟩ := mark_found_at_tail mark buf s mx pos h
  have : pos = min buf.length mx - 32 := by omega
  rw [this] at hw
  exact hne hw

/-- a buffer that is too short to hold padding, mark and MAC after the representative has no mark -/
theorem mark_needs_141_bytes (mark buf : Bytes) (mx pos : Nat)
    (h : findMarkTail mark buf obfs4SearchFrom mx = .at pos) : 141 ≤ buf.length ∧ 141 ≤ mx := by
  obtain ⟨_, hp, hs, _⟩ := mark_found_at_tail mark buf _ mx pos h
  simp only [obfs4SearchFrom] at hs
  omega

theorem located_sound (markOf : Nat → Bytes → Option Bytes) (regs : List RegView) (d : Bytes) (rid : Nat)
    (h : rid ∈ located markOf regs d) :
    ∃ r ∈ regs, r.rid = rid ∧ ∃ mk pos, markOf rid (d.take 32) = some mk ∧
      findMarkTail mk d obfs4SearchFrom obfs4MaxHandshake = .at pos := by
  unfold located at h
  rw [List.mem_filterMap] at h
  obtain ⟨r, hr, hm⟩ := h
  split at hm
  · rename_i mk hmk
    split at hm
    · rename_i pos hpos
      simp only [Option.some.injEq] at hm
      subst hm
      exact ⟨r, hr, rfl, mk, pos, hmk, hpos⟩
    · cases hm
  · cases hm

/-- **obfs4 with the search inside the model**: a match names a visible registration with an
obfs4-shaped identifier whose own mark (over the representative = the first 32 bytes) sits in the
window that ends 16 bytes before the end of the first `min len 8192` bytes; the buffer holds at
least 141 bytes; nothing is consumed -/
theorem obfs4M_match_sound (markOf : Nat → Bytes → Option Bytes) (regs : List RegView) (d : Bytes)
    (rid n : Nat) (h : wrapObfs4M markOf regs d = .found rid n) :
    ∃ r ∈ regs, r.rid = rid ∧ r.ident.length = 104 ∧ n = 0 ∧ 141 ≤ d.length ∧
      ∃ mk, markOf rid (d.take 32) = some mk ∧ mk.length = 16 ∧
        (d.drop (min d.length 8192 - 32)).take 16 = mk := by
  unfold wrapObfs4M at h
  obtain ⟨r, hr, hrid, hmem, hlen, _⟩ := obfs4_match_sound _ regs d rid n h
  obtain ⟨_, _, _, mk, pos, hmk, hpos⟩ := located_sound markOf regs d rid hmem
  obtain ⟨hl16, hp, _, hw⟩ := mark_found_at_tail mk d _ _ pos hpos
  have h141 := mark_needs_141_bytes mk d _ pos hpos
  have hn : n = 0 := obfs4_found_consumes_nothing _ regs d rid n h
  refine ⟨r, hr, hrid, hlen, hn, h141.1, mk, hmk, hl16, ?_⟩
  simp only [obfs4MaxHandshake] at hp
  have : pos = min d.length 8192 - 32 := by omega
  rw [← this]; exact hw

/-- an obfs4 flight altered inside the mark window (same representative) is not matched to the
registration whose mark it carried -/
theorem obfs4M_altered_mark_rejected (markOf : Nat → Bytes → Option Bytes) (regs : List RegView) (d : Bytes)
    (rid n : Nat) (mk : Bytes) (hmk : markOf rid (d.take 32) = some mk)
    (halt : (d.drop (min d.length 8192 - 32)).take 16 ≠ mk) :
    wrapObfs4M markOf regs d ≠ .found rid n := by
  intro h
  obtain ⟨_, _, _, _, _, _, mk', hmk', _, hw⟩ := obfs4M_match_sound markOf regs d rid n h
  rw [hmk] at hmk'
  cases hmk'
  exact halt hw

/-- the search offset and the cut-off are the code's constants -/
theorem obfs4_search_consts_pinned :
    CJ.Gen.Obfs4.markSearchFrom = obfs4SearchFrom ∧ CJ.Gen.Obfs4.maxHandshake = obfs4MaxHandshake ∧
    CJ.Gen.Obfs4.markLen = CJ.WrapStream.markLen ∧ CJ.Gen.Obfs4.macLen = CJ.WrapStream.macLen ∧
    CJ.Gen.Obfs4.representativeLen = 32 := by
  decide

/-! ## the hypotheses are satisfiable -/

example : ∃ m n, 0 < n ∧ (∀ c ∈ m.sock.chunks, c ≠ []) ∧ pending m ≠ [] :=
  ⟨prepend [1] ⟨[[2]], false, false⟩, 1, by decide, by decide, by decide⟩

example : ∃ rem s sizes n, (mrRead (runReads (prepend rem s) sizes).2 n).1.err = .eof :=
  ⟨[1, 2], ⟨[[3]], false, false⟩, [1, 5, 5], 5, by decide⟩

example : ∃ mark buf s mx pos, findMarkTail mark buf s mx = .at pos :=
  ⟨List.replicate 16 7, List.replicate 32 7, 0, 100, 0, by decide⟩

set_option maxRecDepth 8000 in
example : ∃ mark buf pos, findMarkTail mark buf obfs4SearchFrom obfs4MaxHandshake = .at pos :=
  ⟨List.replicate 16 7, List.replicate 141 7, 109, by decide⟩

example : ∃ mark buf : Bytes, (buf.drop (min buf.length 8192 - 32)).take 16 ≠ mark :=
  ⟨[1], [], by decide⟩

end CJ.Props.C02
