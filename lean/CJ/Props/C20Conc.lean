import CJ.Model.AssetsConc
/-!
# C20 — the mutex discipline of `assets` (regenerated table) and concurrent callers

Part 1: facts of `CJ.Gen.assetsLockTable`, closed by `decide` — they fail to compile when the source changes shape.
Part 2: the transition system of concurrent callers at critical-section granularity.
-/
namespace CJ.Props.C20Conc
open CJ.AssetsLocks CJ.AssetsConc CJ.Gen

/-! ## Part 1 — the lock table -/

theorem mutex_is_embedded : assetsMutexEmbedded = true := by decide

/-- every function that takes the mutex: lock and unlock balanced (deferred or paired), no `go` statement, every read
    of `config` / `path` under a side of the mutex, every write / mutation under the write side -/
theorem lockers_guarded : lockersGuarded assetsLockTable = true := by decide

/-- the functions that write `config` / the file without taking the mutex are exactly the two helpers -/
theorem writing_helpers_exact : writingHelpers assetsLockTable = ["readConfigs", "saveClientConf"] := by decide

/-- … and every function other than the constructor calls them with the write side held -/
theorem writing_helpers_called_under_write_lock : writingHelpersCalledUnderW assetsLockTable = true := by decide

/-- the constructor runs only inside the `sync.Once` -/
theorem constructor_only_under_once : constructorOnlyUnderOnce assetsLockTable = true := by decide

/-- the functions that *read* `config` without the mutex are exactly the four the source documents as not
    goroutine-safe (outside C20: level_note); a fifth one does not compile -/
theorem unlocked_readers_exact :
    readingHelpers assetsLockTable = ["GetAllDecoys", "GetClientConfPtr", "GetV4Decoys", "GetV6Decoys"] := by decide

/-- the five setters: one write-side critical section holding the swap / mutation *and* the store -/
theorem setters_one_section :
    ∀ m ∈ ["SetClientConf", "SetGeneration", "SetPubkey", "SetDecoys", "SetPhantomSubnets"],
      shapeOfMethod assetsLockTable m = some Shape.oneSection := by decide

/-- the store itself: marshal, write the temporary file, rename — nothing else touches the file system -/
theorem store_steps : extCalls assetsLockTable "saveClientConf" = ["proto.Marshal", "os.WriteFile", "os.Rename"] := by decide

/-- `AssetsSetDir`: the path switch and the load sit in one write-side section -/
theorem setdir_one_section :
    (rowOf assetsLockTable "AssetsSetDir").map (fun r => scan accessNeed (r.2.2.drop 1) .none false) = some true := by decide

/-- the locking getters: one read-side section, reads only -/
theorem locking_readers_exact :
    lockingReaders assetsLockTable = ["GetAssetsDir", "GetConjurePubkey", "GetDNSRegConf", "GetDecoy", "GetDecoyAddress",
      "GetGeneration", "GetPhantomSubnets", "GetPubkey", "GetV6Decoy", "IsDecoyInList"] := by decide

/-! ## Part 2 — concurrent callers -/

/-- the shape the model uses for the real setters is the one read off the source -/
def realShape : Option Shape := shapeOfMethod assetsLockTable "SetClientConf"

theorem realShape_eq : realShape = some Shape.oneSection := by decide

variable {α : Type}

/-- a caller under the `oneSection` shape: not started (whole program ahead, fresh locals) or finished -/
def Fresh (t : Thr α) : Prop := (t.todo = prog .oneSection t.call ∧ t.loc = {} ∧ t.started = false) ∨ t.todo = []

theorem start_fresh (cs : List (Call α)) : ∀ t ∈ start .oneSection cs, Fresh t := by
  intro t ht
  simp only [start, List.mem_map] at ht
  obtain ⟨c, _, rfl⟩ := ht
  exact Or.inl ⟨rfl, rfl, rfl⟩

/-- one section of the `oneSection` program does to memory and file what the sequential call does -/
theorem section_sem (c : Call α) (s : Shared α) :
    ∃ sec, prog .oneSection c = [sec] ∧ (sec s {}).1 = callStep s c := by
  cases c with
  | setConf c ok => cases ok <;> exact ⟨_, rfl, rfl⟩
  | inPlace f ok => cases ok <;> exact ⟨_, rfl, rfl⟩
  | read => exact ⟨_, rfl, rfl⟩

theorem fresh_set {ts : List (Thr α)} (h : ∀ t ∈ ts, Fresh t) (i : Nat) (c : Call α) (l : Local α) :
    ∀ t ∈ ts.set i ⟨c, [], l, true⟩, Fresh t := by
  intro t ht
  rcases List.mem_or_eq_of_mem_set ht with h' | h'
  · exact h t h'
  · subst h'; exact Or.inr rfl

/-- **Serialisability.**  Callers whose programs are single critical sections: whatever the schedule, memory and file
    end as if the calls had run one after the other in the order in which their sections ran. -/
theorem run_serial (ts : List (Thr α)) (h : ∀ t ∈ ts, Fresh t) (s : Shared α) (sched : List Nat) :
    (run s ts sched).sh = (run s ts sched).log.foldl callStep s := by
  induction sched generalizing s ts with
  | nil => rfl
  | cons i is ih =>
    unfold run
    split
    · rename_i c sec rest l st hget
      have hmem : (⟨c, sec :: rest, l, st⟩ : Thr α) ∈ ts := List.mem_of_getElem? hget
      rcases h _ hmem with ⟨htodo, hloc, hst⟩ | hdone
      · simp only at htodo hloc hst
        obtain ⟨sec', hp, hs⟩ := section_sem c s
        rw [hp] at htodo
        injection htodo with h1 h2
        subst h1; subst h2; subst hloc; subst hst
        have := ih (ts.set i ⟨c, [], (sec s {}).2, true⟩) (fresh_set h i c _) (sec s {}).1
        simp only [Bool.false_eq_true, ↓reduceIte, List.foldl_cons]
        rw [this, hs]
      · simp at hdone
    · exact ih ts h s

/-- the same for the real setters: the shape comes from the regenerated table -/
theorem real_calls_serial (cs : List (Call α)) (sh : Shape) (hsh : realShape = some sh) (s : Shared α) (sched : List Nat) :
    (run s (start sh cs) sched).sh = (run s (start sh cs) sched).log.foldl callStep s := by
  rw [realShape_eq] at hsh
  injection hsh with hsh
  subst hsh
  exact run_serial _ (start_fresh cs) s sched

/-- in a serial order, the last call that changed anything being a successful store, memory = file = what it stored -/
theorem last_store_wins (s : Shared α) (pre post : List (Call α)) (c : α) (hq : ∀ q ∈ post, quietCall q = true) :
    (pre ++ Call.setConf c true :: post).foldl callStep s = ⟨c, c⟩ := by
  rw [List.foldl_append, List.foldl_cons]
  generalize (List.foldl callStep s pre) = s0
  show List.foldl callStep ⟨c, c⟩ post = ⟨c, c⟩
  induction post with
  | nil => rfl
  | cons q qs ih =>
    have hq1 := hq q (List.mem_cons_self ..)
    have : callStep ⟨c, c⟩ q = ⟨c, c⟩ := by
      cases q with
      | setConf c' ok => cases ok <;> simp_all [quietCall, callStep]
      | inPlace f ok => simp [quietCall] at hq1
      | read => rfl
    rw [List.foldl_cons, this]
    exact ih (fun q hq' => hq q (List.mem_cons_of_mem _ hq'))

/-- the in-place setters: after a successful one, memory = file -/
theorem inplace_ok_syncs (s : Shared α) (pre post : List (Call α)) (f : α → α) (hq : ∀ q ∈ post, quietCall q = true) :
    let r := (pre ++ Call.inPlace f true :: post).foldl callStep s
    r.mem = r.file := by
  intro r
  have : r = ⟨f (List.foldl callStep s pre).mem, f (List.foldl callStep s pre).mem⟩ := by
    show (pre ++ Call.inPlace f true :: post).foldl callStep s = _
    rw [List.foldl_append, List.foldl_cons]
    generalize (List.foldl callStep s pre) = s0
    show List.foldl callStep ⟨f s0.mem, f s0.mem⟩ post = _
    generalize f s0.mem = v
    induction post with
    | nil => rfl
    | cons q qs ih =>
      have hq1 := hq q (List.mem_cons_self ..)
      have : callStep ⟨v, v⟩ q = ⟨v, v⟩ := by
        cases q with
        | setConf c' ok => cases ok <;> simp_all [quietCall, callStep]
        | inPlace f ok => simp [quietCall] at hq1
        | read => rfl
      rw [List.foldl_cons, this]
      exact ih (fun q hq' => hq q (List.mem_cons_of_mem _ hq'))
  rw [this]

/-- a call is *legitimate* for a predicate on configurations: what it installs for good satisfies it.  The argument
    of a store that fails is not constrained. -/
def Legit (P : α → Prop) : Call α → Prop
  | .setConf c true => P c
  | .setConf _ false => True
  | .inPlace f _ => ∀ v, P v → P (f v)
  | .read => True

/-- **No reader sees a rolled-back configuration.**  Take for `P` "is not the configuration a failed SetClientConf
    tried to install": memory satisfies `P` between any two sections and every value a reader got satisfies it. -/
theorem readers_see_only_legit (P : α → Prop) (ts : List (Thr α)) (h : ∀ t ∈ ts, Fresh t)
    (hl : ∀ t ∈ ts, Legit P t.call) (hseen : ∀ t ∈ ts, ∀ v ∈ t.loc.seen, P v)
    (s : Shared α) (hs : P s.mem) (sched : List Nat) :
    P (run s ts sched).sh.mem ∧ ∀ t ∈ (run s ts sched).ts, ∀ v ∈ t.loc.seen, P v := by
  induction sched generalizing s ts with
  | nil => exact ⟨hs, hseen⟩
  | cons i is ih =>
    unfold run
    split
    · rename_i c sec rest l st hget
      have hmem : (⟨c, sec :: rest, l, st⟩ : Thr α) ∈ ts := List.mem_of_getElem? hget
      have hlc := hl _ hmem
      simp only at hlc
      rcases h _ hmem with ⟨htodo, hloc, hst⟩ | hdone
      · simp only at htodo hloc hst
        subst hloc
        have key : P (sec s {}).1.mem ∧ ∀ v ∈ (sec s {}).2.seen, P v ∧ rest = [] := by
          cases c with
          | setConf c ok =>
            cases ok <;> (injection htodo with h1 h2; subst h1; subst h2)
            · exact ⟨hs, by simp [andThen, capSwap, storeMem, rollback]⟩
            · exact ⟨hlc, by simp [andThen, capSwap, storeMem, rollback]⟩
          | inPlace f ok =>
            cases ok <;> (injection htodo with h1 h2; subst h1; subst h2)
            · exact ⟨hlc _ hs, by simp [andThen, mutate, storeMem]⟩
            · exact ⟨hlc _ hs, by simp [andThen, mutate, storeMem]⟩
          | read =>
            injection htodo with h1 h2; subst h1; subst h2
            exact ⟨hs, by simp [readSec]; exact hs⟩
        have hrest : rest = [] := by
          cases c with
          | setConf c ok => cases ok <;> (injection htodo with _ h2)
          | inPlace f ok => cases ok <;> (injection htodo with _ h2)
          | read => injection htodo with _ h2
        subst hrest
        have hres := ih (ts.set i ⟨c, [], (sec s {}).2, true⟩) (fresh_set h i c _)
          (by
            intro t ht
            rcases List.mem_or_eq_of_mem_set ht with h' | h'
            · exact hl t h'
            · subst h'; exact hlc)
          (by
            intro t ht
            rcases List.mem_or_eq_of_mem_set ht with h' | h'
            · exact hseen t h'
            · subst h'; intro v hv; exact (key.2 v hv).1)
          (sec s {}).1 key.1
        cases st <;> exact hres
      · simp at hdone
    · exact ih ts h hl hseen s hs

/-! ## The shape the theorems exclude (seed C20-10: store outside the lock, stale roll-back) -/

/-- configurations are numbers; memory and file start at 100.  Caller 0: `SetClientConf(200)` whose store fails;
    caller 1: `SetClientConf(300)`, succeeds.  Schedule: 0 swaps, 1 runs whole, 0 stores (fails) and rolls back. -/
def staleDemo : Out Nat :=
  run ⟨100, 100⟩ (start .storeOutside [Call.setConf 200 false, Call.setConf 300 true]) [0, 1, 1, 1, 0, 0]

/-- under `storeOutside` the failed caller restores the configuration from before *both* stores: memory 100, file 300
    — no serial order of the two calls ends there (both give 300 / 300) -/
theorem storeOutside_not_serial :
    staleDemo.sh = ⟨100, 300⟩ ∧
    [Call.setConf 200 false, Call.setConf 300 true].foldl callStep (⟨100, 100⟩ : Shared Nat) = ⟨300, 300⟩ ∧
    [Call.setConf 300 true, Call.setConf 200 false].foldl callStep (⟨100, 100⟩ : Shared Nat) = ⟨300, 300⟩ := by
  decide

/-- … and a reader scheduled between the swap and the roll-back sees the configuration that is rolled back -/
theorem storeOutside_reader_sees_rolled_back :
    ((run ⟨100, 100⟩ (start .storeOutside [Call.setConf 200 false, Call.read]) [0, 1, 0, 0]).ts.map (·.loc.seen)) = [[], [200]] := by
  decide

/-- the same two schedules under the real shape -/
example : (run ⟨100, 100⟩ (start .oneSection [Call.setConf 200 false, Call.setConf 300 true]) [0, 1, 1, 1, 0, 0]).sh = ⟨300, 300⟩ := by decide
example : ((run ⟨100, 100⟩ (start .oneSection [Call.setConf 200 false, Call.read]) [0, 1, 0, 0]).ts.map (·.loc.seen)) = [[], [100]] := by decide

/-- hypotheses of `readers_see_only_legit` are satisfiable: `P` = "is not 200" -/
example : ∀ t ∈ start .oneSection [Call.setConf 200 false, Call.setConf 300 true, (Call.read : Call Nat)],
    Legit (· ≠ 200) t.call := by
  intro t ht
  simp only [start, List.map_cons, List.map_nil, List.mem_cons, List.not_mem_nil, or_false] at ht
  rcases ht with rfl | rfl | rfl <;> simp [Legit]

end CJ.Props.C20Conc
