import CJ.Model.CloseLinger
import CJ.Gen.RelayClose
/-!
# C04 — the tail of a transfer survives the tear-down

"Every application byte the client sends … reaches the covert destination exactly once and in order, and
the covert's reply reaches the client likewise."  C05 proves that the relay *writes* every byte it read
before a direction ends (`delivered_complete_until_fault`); a written byte is in the send queue of the
socket, and the direction's tear-down closes that socket immediately afterwards.  Whether the queue is
delivered or thrown away is decided by the linger value the close path sets (`CJ/Model/CloseLinger.lean`,
an assumption about the operating system).  The values used on the relay path are regenerated from the
source on every run (`CJ.Gen.closeLingerCalls`).
-/
namespace CJ.Props.C04Close
open CJ.CloseLinger

/-- **A close that does not abort delivers the queue**: with any linger value but zero (or none set), the
peer has received everything that was written — what it had taken before plus the whole queue — when it
sees the end of the stream, and the end is an orderly EOF. -/
theorem graceful_close_delivers_all (l : Option Int) (h : l ≠ some 0) (s : Sock) :
    closeWith l s = (s.received ++ s.queued, .eof) := by
  simp [closeWith, h]

/-- stated on the stream: if the relay wrote `w` (and the peer has taken some prefix of it so far), the
peer ends up with exactly `w` -/
theorem written_is_received (l : Option Int) (h : l ≠ some 0) (w taken rest : Bytes) (hw : w = taken ++ rest) :
    (closeWith l ⟨taken, rest⟩).1 = w := by
  rw [graceful_close_delivers_all l h, hw]

/-- **The requirement is real**: with a zero linger the close aborts — whatever was still queued is lost
(the peer is left with a strict prefix of what was written) and the stream ends with a reset. -/
theorem abortive_close_loses_tail (s : Sock) (h : s.queued ≠ []) :
    (closeWith (some 0) s).1 = s.received ∧ (closeWith (some 0) s).2 = .rst ∧
      (closeWith (some 0) s).1 ≠ s.received ++ s.queued ∧
      (closeWith (some 0) s).1.length < (s.received ++ s.queued).length := by
  refine ⟨rfl, rfl, ?_, ?_⟩
  · intro he
    have : s.received ++ [] = s.received ++ s.queued := by simpa [closeWith] using he
    exact h (List.append_cancel_left this).symm
  · have : 0 < s.queued.length := List.length_pos_iff.mpr h
    simp [closeWith]; omega

/-- a positive linger bounds the time `Close` itself may block by that many seconds; none or a negative
one does not block at all -/
theorem close_wait_bounded (l : Option Int) (drain : Nat) :
    (∀ n : Nat, l = some (n : Int) → closeBlocks l drain ≤ n) ∧
    ((l = none ∨ ∃ n : Nat, l = some (Int.negSucc n)) → closeBlocks l drain = 0) := by
  refine ⟨?_, ?_⟩
  · intro n h; subst h; simp only [closeBlocks]; exact Nat.min_le_left _ _
  · rintro (h | ⟨n, h⟩) <;> subst h <;> rfl

/-- **Source fact**: every `SetLinger` call on the relay path of the tree under check has an integer
constant argument, and it is positive … -/
theorem source_linger_positive : CJ.Gen.closeLingerCalls.all (fun c => lingerPositive c.2) = true := by decide

/-- … so no close on the relay path aborts: for each of them, whatever the state of the socket, everything
written reaches the peer before the end of its stream. -/
theorem source_close_delivers_tail (c : String × Option Int) (hc : c ∈ CJ.Gen.closeLingerCalls) (s : Sock) :
    closeWith c.2 s = (s.received ++ s.queued, .eof) := by
  have h := List.all_eq_true.mp source_linger_positive c hc
  apply graceful_close_delivers_all
  intro h0
  rw [h0] at h
  exact absurd h (by decide)

/-- the relay's own close path is among them (the fact is about the code that tears a tunnel down, not
about an empty list) -/
theorem source_close_path_listed : CJ.Gen.closeLingerCalls.any (fun c => c.1 == "proxies.go:halfPipe") = true := by
  decide

/-- non-vacuity: 64 KiB written, 4 KiB taken — a linger of 10 s delivers the rest, a linger of 0 does not -/
example : (closeWith (some 10) ⟨[1, 2], [3, 4, 5]⟩).1 = [1, 2, 3, 4, 5] ∧
    closeWith (some 0) ⟨[1, 2], [3, 4, 5]⟩ = ([1, 2], .rst) := by decide

end CJ.Props.C04Close
