import CJ.Props.C06V6

/-!
# C06: towards `ParseIP ∘ IP.String` on IPv6 texts with `::`

The group loop over "groups, then `::`, then the rest of the text".
-/

namespace CJ.Props.C06V6Ell
open CJ.NetAddr CJ.Props.C06V6

/-- the group loop reads the groups in front of a `::`, records the ellipsis position, and either stops (nothing
behind the `::`) or goes on with the text behind it -/
theorem v6Loop_groups_ell : ∀ (hs : List Nat) (fuel : Nat) (ip : List Nat) (r2 : Str), hs ≠ [] →
    (∀ h ∈ hs, h < 65536) → hs.length ≤ fuel → ip.length + 2 * hs.length ≤ 16 →
    v6Loop fuel (intercalate ':' (hs.map fmtHex) ++ ':' :: ':' :: r2) ip none =
      if r2.isEmpty then some ([], ip ++ bytes hs, some (ip ++ bytes hs).length)
      else v6Loop (fuel - hs.length) r2 (ip ++ bytes hs) (some (ip ++ bytes hs).length)
  | [], _, _, _, hne, _, _, _ => absurd rfl hne
  | [h], fuel, ip, r2, _, hb, hf, hl => by
    have hh := hb h (by simp)
    cases fuel with
    | zero => simp at hf
    | succ f =>
      have g := hexGroup_fmtHex h hh (':' :: ':' :: r2) (noHexHead_colon _)
      simp only [List.length_cons, List.length_nil] at hl
      simp only [List.map, intercalate]
      rw [v6Loop, if_neg (by omega), g]
      simp [fmtHex_len_ne h hh, bytes]
  | h :: h2 :: t, fuel, ip, r2, _, hb, hf, hl => by
    have hh := hb h (by simp)
    cases fuel with
    | zero => simp at hf
    | succ f =>
      simp only [List.length_cons] at hl hf
      have ih := v6Loop_groups_ell (h2 :: t) f (ip ++ [h / 256, h % 256]) r2 (by simp)
        (fun z hz => hb z (List.mem_cons_of_mem _ hz)) (by simp only [List.length_cons]; omega)
        (by simp only [List.length_append, List.length_cons, List.length_nil]; omega)
      obtain ⟨k, r, hk, e2⟩ := fmtHex_head h2 (hb h2 (by simp))
      have hX : ∃ r', intercalate ':' ((h2 :: t).map fmtHex) ++ ':' :: ':' :: r2 = hexDigit k :: r' := by
        cases t with
        | nil => exact ⟨r ++ ':' :: ':' :: r2, by simp [intercalate, e2]⟩
        | cons h3 t' =>
          exact ⟨r ++ ':' :: (intercalate ':' ((h3 :: t').map fmtHex) ++ ':' :: ':' :: r2), by
            simp [intercalate, e2]⟩
      obtain ⟨r', hX⟩ := hX
      have eT : intercalate ':' ((h :: h2 :: t).map fmtHex) ++ ':' :: ':' :: r2 =
          fmtHex h ++ ':' :: (intercalate ':' ((h2 :: t).map fmtHex) ++ ':' :: ':' :: r2) := by
        simp [intercalate]
      rw [eT]
      have ef : f + 1 - (t.length + 1 + 1) = f - (t.length + 1) := by omega
      simp only [List.length_cons, ef]
      simp only [List.length_cons] at ih
      generalize intercalate ':' ((h2 :: t).map fmtHex) ++ ':' :: ':' :: r2 = X at *
      have g := hexGroup_fmtHex h hh (':' :: X) (noHexHead_colon _)
      rw [v6Loop, if_neg (by omega), g]
      simp [fmtHex_len_ne h hh]
      split
      · cases hX
      · exact absurd (List.cons.inj hX).1.symm (hexDigit_ne_colon k hk)
      · rw [ih]
        simp [bytes]

theorem bytes_length : ∀ hs : List Nat, (bytes hs).length = 2 * hs.length
  | [] => rfl
  | h :: t => by simp only [bytes, List.length_cons, bytes_length t]; omega

/-- `parseIPv6` on a text "groups, then `::`, end of text" (the zero run at the end, e.g. `1:2:3:4:5:6::`):
the groups' bytes, padded with zeros to 16 -/
theorem parseIPv6_run_at_end (hs : List Nat) (hne : hs ≠ []) (hb : ∀ h ∈ hs, h < 65536) (hlen : hs.length < 8) :
    parseIPv6 (intercalate ':' (hs.map fmtHex) ++ [':', ':']) =
      some (bytes hs ++ List.replicate (16 - 2 * hs.length) 0, []) := by
  have V := v6Loop_groups_ell hs 8 [] [] hne hb (by omega) (by simp only [List.length_nil]; omega)
  simp only [List.isEmpty_nil, if_true, List.nil_append] at V
  have A : (intercalate ':' (hs.map fmtHex) ++ [':', ':']).all okv = true := by
    rw [List.all_append, intercalate_all okv ':' (by decide) _ (by
      intro x hx
      rcases List.mem_map.1 hx with ⟨o, ho, rfl⟩
      exact fmtHex_okv o (hb o ho))]
    rfl
  have P : '%' ∉ intercalate ':' (hs.map fmtHex) ++ [':', ':'] :=
    fun m => absurd (List.all_eq_true.1 A _ m) (by decide)
  have H : ∃ k r', k < 16 ∧ intercalate ':' (hs.map fmtHex) ++ [':', ':'] = hexDigit k :: r' := by
    cases hs with
    | nil => exact absurd rfl hne
    | cons h0 t =>
      obtain ⟨k, r, hk, e0⟩ := fmtHex_head h0 (hb h0 (by simp))
      cases t with
      | nil => exact ⟨k, r ++ [':', ':'], hk, by simp [intercalate, e0]⟩
      | cons h1 t' =>
        exact ⟨k, r ++ ':' :: intercalate ':' ((h1 :: t').map fmtHex) ++ [':', ':'], hk, by
          simp [intercalate, e0]⟩
  obtain ⟨k, r', hk, H⟩ := H
  have BL := bytes_length hs
  have hlt : (bytes hs).length < 16 := by omega
  have h16 : 16 - (bytes hs).length = 16 - 2 * hs.length := by omega
  generalize intercalate ':' (hs.map fmtHex) ++ [':', ':'] = T at *
  subst H
  simp only [parseIPv6, cut_none '%' _ P]
  rw [V]
  simp [hlt, h16]
  split
  · rename_i heq
    exact absurd (List.cons.inj heq).1 (hexDigit_ne_colon k hk)
  · rfl

example : parseIPv6 "1:2:3:4:5:6::".toList = some ([0,1,0,2,0,3,0,4,0,5,0,6,0,0,0,0], []) :=
  parseIPv6_run_at_end [1, 2, 3, 4, 5, 6] (by decide) (by decide) (by decide)

/-- `ParseIP` on a text "groups, then `::`, end of text" -/
theorem parseIP_run_at_end (hs : List Nat) (hne : hs ≠ []) (hb : ∀ h ∈ hs, h < 65536) (hlen : hs.length < 8) :
    parseIP (intercalate ':' (hs.map fmtHex) ++ [':', ':']) =
      some (bytes hs ++ List.replicate (16 - 2 * hs.length) 0) := by
  have A : (intercalate ':' (hs.map fmtHex) ++ [':', ':']).all okv = true := by
    rw [List.all_append, intercalate_all okv ':' (by decide) _ (by
      intro x hx
      rcases List.mem_map.1 hx with ⟨o, ho, rfl⟩
      exact fmtHex_okv o (hb o ho))]
    rfl
  have M : ':' ∈ intercalate ':' (hs.map fmtHex) ++ [':', ':'] := by simp
  unfold parseIP parseAddr
  rw [find_colon _ A M]
  simp only [parseIPv6_run_at_end hs hne hb hlen]
  simp [Addr.zone, Addr.as16]

example : parseIP "1:2:3:4:5:6::".toList = some [0,1,0,2,0,3,0,4,0,5,0,6,0,0,0,0] :=
  parseIP_run_at_end [1, 2, 3, 4, 5, 6] (by decide) (by decide) (by decide)

theorem bytes_append : ∀ a b : List Nat, bytes (a ++ b) = bytes a ++ bytes b
  | [], b => rfl
  | h :: t, b => by simp [bytes, bytes_append t b]

theorem bytes_replicate_zero : ∀ n : Nat, bytes (List.replicate n 0) = List.replicate (2 * n) 0
  | 0 => rfl
  | n + 1 => by
    have : 2 * (n + 1) = 2 * n + 1 + 1 := by omega
    rw [this]
    simp [List.replicate_succ, bytes, bytes_replicate_zero n]

/-- `ParseIP(ip.String()) = ip` for the 16-byte addresses whose zero run is at the END of the text and not at
its start (`a:…:b::`): one of the four `::` cases -/
theorem parseIP_fmtIPv6_run_at_end (ip : List Nat) (hl : ip.length = 16) (hb : ∀ x ∈ ip, x < 256) (zs zl : Nat)
    (hbr : bestRun (groups ip) = (zs, zl)) (hz : zl ≠ 0) (h0 : 0 < zs) (he : zs + zl = 8) :
    parseIP (fmtIPv6 ip) = some ip := by
  have G := groups_lt ip hb
  have GL : (groups ip).length = 8 := by rw [groups_length, hl]
  have BG := bytes_groups ip (by rw [hl]) hb
  have hT : fmtIPv6 ip = intercalate ':' (((groups ip).take zs).map fmtHex) ++ [':', ':'] := by
    unfold fmtIPv6
    dsimp only
    rw [hbr]
    dsimp only
    have hd : (groups ip).drop (zs + zl) = [] := by rw [he]; exact List.drop_eq_nil_of_le (by omega)
    have hzb : (zl == 0) = false := by simp [hz]
    simp only [hd, hzb]
    simp [intercalate]
  have inv := bestRun_inv (groups ip)
  rw [hbr] at inv
  rcases inv with i0 | ⟨i1, _⟩
  · exact absurd i0 hz
  · simp only at i1
    have zt := zeroRun_take ((groups ip).drop zs)
    rw [← i1] at zt
    have hdl : ((groups ip).drop zs).length = zl := by rw [List.length_drop, GL]; omega
    have hdrop : (groups ip).drop zs = List.replicate zl 0 := by
      rw [← zt.1, List.take_of_length_le (by omega)]
    have hsplit : bytes ((groups ip).take zs) ++ List.replicate (2 * zl) 0 = ip := by
      rw [← bytes_replicate_zero, ← hdrop, ← bytes_append, List.take_append_drop, BG]
    have htl : ((groups ip).take zs).length = zs := by rw [List.length_take, GL]; omega
    rw [hT, parseIP_run_at_end _ (by intro e; rw [e] at htl; simp at htl; omega)
      (fun h hh => G h (List.mem_of_mem_take hh)) (by omega)]
    rw [htl, show 16 - 2 * zs = 2 * zl by omega, hsplit]

example : parseIP (fmtIPv6 [0,1,0,2,0,3,0,4,0,5,0,6,0,0,0,0]) = some [0,1,0,2,0,3,0,4,0,5,0,6,0,0,0,0] :=
  parseIP_fmtIPv6_run_at_end _ (by decide) (by decide) 6 2 (by decide) (by decide) (by decide) (by decide)

end CJ.Props.C06V6Ell
