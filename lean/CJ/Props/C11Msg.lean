import CJ.Model.IngressMsg
import CJ.Lemmas.Ingress
import CJ.Props.C11
/-!
# C11 — the three message entry points at field level

Theorems about `CJ/Model/IngressMsg.lean`: for EVERY message (any secret, any address of any length, any
registration response, any answer of the components that are parameters) `processC2SWrapper`,
`processBdReq` and `parseRegMessage` neither panic nor hang, under hypotheses that are shown satisfiable and
shown needed; the field-level models refine the decision models of `CJ/Model/Ingress.lean` (so the theorems of
`CJ/Props/C11.lean` speak about what the `ingress|c2sw`, `ingress|bdreq` and `ingress|zmq` lines compare); and
what comes out is well-formed: a forwarded secret is never shorter than the bound, a registration that
`parseRegMessage` returns has a phantom of IP length whose family fits the client's, and a port below 2^16.
-/
namespace CJ.Props.C11Msg
open CJ.Codec CJ.Ingress CJ.IngressMsg

/-! ## `processC2SWrapper` -/

/-- no wrapper, no secret, no client address, any channel, failing marshals: no panic - provided the signing
key of an authenticated processor has the length `ed25519.Sign` insists on -/
theorem c2sw_no_panic (w : Option Wrapper) (clientAddr : Option Bytes) (regMethod : Nat) (auth : Bool)
    (keyLen : Nat) (rrOk mOk : Bool) (hk : auth = true → keyLen = 64) :
    (IngressMsg.processC2SWrapper w clientAddr regMethod auth keyLen rrOk mOk).Safe := by
  unfold IngressMsg.processC2SWrapper
  cases w with
  | none => exact .ok _
  | some w =>
    simp only
    split
    · exact .ok _
    · cases auth
      · cases mOk <;> simp [Outcome.bind, Outcome.Safe]
      · have := hk rfl
        subst this
        cases w.hasResponse <;> cases rrOk <;> cases mOk <;> simp [sign, Outcome.bind, Outcome.Safe]

/-- the hypothesis is satisfiable: the harness's processor (a key made by `ed25519.NewKeyFromSeed`) -/
example : (true = true → (64 : Nat) = 64) := fun _ => rfl

/-- … and needed: a 32-byte key (what `privkey[:32]` in `newRegProcessor` lets through) panics on the first
request that carries a registration response -/
theorem c2sw_needs_key_length :
    IngressMsg.processC2SWrapper (some ⟨List.replicate 8 0, 0, none, true, true⟩) none 2 true 32 true true
      = .panic "ed25519: bad private key length" := by
  simp [IngressMsg.processC2SWrapper, minSecret, sign, Outcome.bind]

/-- the field-level model takes the exit the decision model says (`CJ.Ingress.processC2SWrapper`, the subject of
`C11.processC2SWrapper_no_panic`): forwarded exactly when the wrapper is there, the secret is long enough and
both marshals succeed -/
theorem c2sw_refines (w : Option Wrapper) (clientAddr : Option Bytes) (regMethod : Nat) (auth : Bool)
    (rrOk mOk : Bool) :
    (∃ f, IngressMsg.processC2SWrapper w clientAddr regMethod auth 64 rrOk mOk = .ok (.ok f)) ↔
      Ingress.processC2SWrapper w.isSome (match w with | some w => w.secret.length | none => 0)
        (mOk && (!(auth && (match w with | some w => w.hasResponse | none => false)) || rrOk)) = .ok true := by
  unfold IngressMsg.processC2SWrapper Ingress.processC2SWrapper
  cases w with
  | none => simp
  | some w =>
    simp only [Option.isSome_some, Bool.not_true, Bool.false_eq_true, if_false]
    by_cases hs : w.secret.length < 8
    · simp [hs, minSecret]
    · cases auth <;> cases w.hasResponse <;> cases rrOk <;> cases mOk <;>
        simp [hs, minSecret, sign, Outcome.bind]

/-- what is forwarded: the client's secret, unchanged and at least `RegIDLen/2` bytes; the sub-messages the client
sent; a source that is the wrapper's unless that is `Unspecified`; a signature exactly when the processor is
authenticated and there is a response -/
theorem c2sw_forward (w : Wrapper) (clientAddr : Option Bytes) (regMethod : Nat) (auth : Bool) (keyLen : Nat)
    (rrOk mOk : Bool) (f : Forward)
    (h : IngressMsg.processC2SWrapper (some w) clientAddr regMethod auth keyLen rrOk mOk = .ok (.ok f)) :
    f.secret = w.secret ∧ minSecret ≤ f.secret.length ∧ f.hasPayload = w.hasPayload ∧ f.hasResponse = w.hasResponse ∧
      f.source = (if w.source = 0 then regMethod else w.source) ∧ f.signed = (auth && w.hasResponse) ∧
      (f.addr = clientAddr ∨ f.addr = w.addr) := by
  unfold IngressMsg.processC2SWrapper at h
  simp only at h
  split at h
  · cases h
  · rename_i hs
    have hlen : minSecret ≤ w.secret.length := by omega
    by_cases hkl : keyLen = 64 <;>
    cases auth <;> cases hr : w.hasResponse <;> cases rrOk <;> cases mOk <;>
      simp [hr, hkl, sign, Outcome.bind] at h <;>
      (try (subst h; exact ⟨rfl, hlen, rfl, by simp, rfl, by simp, by dsimp only; split <;> simp⟩))

/-- the address that is forwarded is never nil when the front end knows the client's address -/
theorem c2sw_forward_addr (w : Wrapper) (ca : Bytes) (regMethod : Nat) (auth : Bool) (keyLen : Nat)
    (rrOk mOk : Bool) (f : Forward)
    (h : IngressMsg.processC2SWrapper (some w) (some ca) regMethod auth keyLen rrOk mOk = .ok (.ok f)) :
    f.addr.isSome = true := by
  unfold IngressMsg.processC2SWrapper at h
  simp only at h
  split at h
  · cases h
  · by_cases hkl : keyLen = 64 <;>
    cases auth <;> cases hr : w.hasResponse <;> cases rrOk <;> cases mOk <;>
      simp [hr, hkl, sign, Outcome.bind] at h <;>
      (try (subst h; cases ha : w.addr <;> simp <;> (try (split <;> simp))))

/-! ## `processBdReq` -/

/-- the model with addresses takes the exit of the decision model (`CJ.Ingress.processBdReq`, the subject of
`C11.processBdReq_no_panic` and `C11.processBdReq_no_panic_c14`), panic for panic -/
theorem bdreq_refines (r : BdReq) :
    (match processBdReqAddrs r with
      | .ok x => Outcome.ok (toResult x)
      | .err e => .err e
      | .panic s => .panic s
      | .hang => .hang) = processBdReq r := by
  unfold processBdReqAddrs processBdReq
  cases r.hasPayload <;> cases r.keysOk <;> simp [toResult]
  cases r.v4 <;> simp [Outcome.bind]
  · cases r.v6 <;> cases r.select6 <;> cases r.transportKnown <;> cases r.paramsOk <;> cases r.overrideOk <;>
      cases r.dstPortOk <;> simp [toResult]
  · cases r.select4 with
    | none => simp [toResult]
    | some ip =>
      simp only
      cases beUint32 (to4 ip) <;> simp [Outcome.bind, toResult]
      cases r.v6 <;> cases r.select6 <;> cases r.transportKnown <;> cases r.paramsOk <;> cases r.overrideOk <;>
        cases r.dstPortOk <;> simp [toResult]

/-- hence: under the selector contract nothing panics, for every request -/
theorem bdreq_no_panic (r : BdReq) (h4 : ∀ ip, r.select4 = some ip → (to4 ip).isSome = true) :
    (processBdReqAddrs r).Safe := by
  have hs := CJ.Props.C11Msg.bdreq_refines r
  have hsafe : (processBdReq r).Safe := CJ.Props.C11.processBdReq_no_panic r h4
  rw [← hs] at hsafe
  cases hp : processBdReqAddrs r <;> simp [hp, Outcome.Safe] at hsafe ⊢

example : ∀ ip, (⟨true, true, true, true, some [10, 1, 2, 3], some [1], true, true, true, true⟩ : BdReq).select4 = some ip →
    (to4 ip).isSome = true := by
  intro ip h; cases h; decide

/-! ## `parseRegMessage` -/

theorem newReg_safe (m : ZMsg) (v6 : Bool) (built : Option Reg) (geo : Bool) (hp : m.hasPayload = true) :
    (IngressMsg.newRegistrationC2SWrapper m v6 built geo).Safe := by
  unfold IngressMsg.newRegistrationC2SWrapper
  split
  · exact .ok _
  · cases m.resp <;> simp [hp, Outcome.bind] <;> repeat (first | exact .ok _ | split)

/-- `parseRegMessage`: for every message whose getters are consistent with its payload, every pair of family
switches, whatever `NewRegistration` and the GeoIP database answer - no panic -/
theorem zmq_no_panic (um : Bool) (m : ZMsg) (hc : m.consistent) (e4 e6 : Bool) (b4 b6 : Option Reg) (geo : Bool) :
    (IngressMsg.parseRegMessage um m e4 e6 b4 b6 geo).Safe := by
  unfold IngressMsg.parseRegMessage
  split
  · exact .ok _
  · simp only
    have hpay : m.v4Support = true ∨ m.v6Support = true → m.hasPayload = true := by
      intro h
      cases hh : m.hasPayload with
      | true => rfl
      | false => have := hc hh; rcases h with h | h <;> simp [this] at h
    apply Outcome.Safe.bind
    · split
      · rename_i h
        exact Outcome.Safe.bind (newReg_safe m false b4 geo (hpay (.inl h.1))) (fun _ => .ok _)
      · exact .ok _
    · intro r4
      apply Outcome.Safe.bind
      · split
        · rename_i h
          exact Outcome.Safe.bind (newReg_safe m true b6 geo (hpay (.inr h.1))) (fun _ => .ok _)
        · exact .ok _
      · intro r6
        repeat (first | exact .ok _ | split)

/-- consistency is satisfiable (any message with a payload; the empty message) … -/
example : (⟨false, false, false, false, none, true, none⟩ : ZMsg).consistent := by intro _; exact ⟨rfl, rfl⟩

/-- … and needed: a message WITHOUT payload whose getters claimed IPv4 support would reach the write through the
nil payload (`c2s.TransportParams = rr.GetTransportParams()`) -/
theorem zmq_needs_consistency :
    IngressMsg.parseRegMessage true ⟨false, true, false, false, some [10, 0, 0, 1], true, some ⟨none, true, none, none⟩⟩
      true true none none true = .panic "nil pointer dereference" := by
  simp [IngressMsg.parseRegMessage, IngressMsg.newRegistrationC2SWrapper, ZMsg.client, isV4, to4, Outcome.bind]

/-- what a registration that `NewRegistrationC2SWrapper` returns looks like, whatever the response asked for: the
phantom has IP length (given that the selector's own phantoms have), an IPv4 phantom goes with an IPv4 client, the
client address has IP length, an overriding address is of the family the registration is built for, and the port
fits 16 bits (given that the derived port does) -/
theorem newReg_wellformed (m : ZMsg) (v6 : Bool) (built : Option Reg) (geo : Bool) (reg : Reg)
    (hb : ∀ b, built = some b → isIPLen b.phantom = true ∧ b.port < 65536)
    (h : IngressMsg.newRegistrationC2SWrapper m v6 built geo = .ok (some reg)) :
    isIPLen reg.phantom = true ∧ reg.port < 65536 ∧ isIPLen m.client = true ∧
      (isV4 reg.phantom = true → isV4 m.client = true) ∧ geo = true ∧ m.keysOk = true ∧
      (∀ o, ipOverride m v6 = some o → reg.phantom = o ∧ isV4 o = !v6) := by
  unfold IngressMsg.newRegistrationC2SWrapper at h
  cases hk : m.keysOk
  · simp [hk] at h
  · have hwrite : ∀ (o : Outcome Unit) (f : Unit → Outcome (Option Reg)), o.bind f = .ok (some reg) → f () = .ok (some reg) := by
      intro o f ho; cases o <;> simp [Outcome.bind] at ho; exact ho
    simp only [hk, Bool.not_true, Bool.false_eq_true, if_false] at h
    have h := hwrite _ _ h
    cases hbu : built with
    | none => simp [hbu] at h
    | some b =>
      obtain ⟨hbl, hbp⟩ := hb b hbu
      simp only [hbu] at h
      cases ho : ipOverride m v6 with
      | none =>
        simp only [ho] at h
        split at h
        · cases h
        · split at h
          · cases h
          · split at h
            · cases h
            · rename_i h1 h2 h3
              simp only [Outcome.ok.injEq, Option.some.injEq] at h
              subst h
              refine ⟨hbl, ?_, by simpa using h1, ?_, by simpa using h3, rfl, by intro o ho'; cases ho'⟩
              · dsimp only; split <;> first | exact Nat.mod_lt _ (by decide) | omega
              · intro hv; cases hc : isV4 m.client <;> simp [hv, hc] at h2 ⊢
      | some o =>
        simp only [ho] at h
        by_cases hov : (!isIPLen o) = true ∨ ((!isV4 o) != v6) = true
        · rw [if_pos hov] at h; simp at h
        · simp only [hov, if_false] at h
          split at h
          · cases h
          · split at h
            · cases h
            · split at h
              · cases h
              · rename_i h1 h2 h3
                simp only [Outcome.ok.injEq, Option.some.injEq] at h
                subst h
                simp only [not_or, Bool.not_eq_true] at hov
                refine ⟨by simpa using hov.1, ?_, by simpa using h1, ?_, by simpa using h3, rfl, ?_⟩
                · dsimp only; split <;> first | exact Nat.mod_lt _ (by decide) | omega
                · intro hv; cases hc : isV4 m.client <;> simp [hv, hc] at h2 ⊢
                · intro o' ho'; cases ho'
                  refine ⟨rfl, ?_⟩
                  have := hov.2
                  cases hvo : isV4 o <;> cases v6 <;> simp [hvo] at this ⊢

example : ∀ b, (some ⟨[10, 0, 0, 1], 443⟩ : Option Reg) = some b → isIPLen b.phantom = true ∧ b.port < 65536 := by
  intro b h; cases h; decide

/-- at most one registration per family, IPv4 first; an error only when nothing was built and a family failed -/
theorem zmq_at_most_two (um : Bool) (m : ZMsg) (e4 e6 : Bool) (b4 b6 : Option Reg) (geo : Bool) (l : List Reg)
    (h : IngressMsg.parseRegMessage um m e4 e6 b4 b6 geo = .ok (some l)) : l.length ≤ 2 := by
  unfold IngressMsg.parseRegMessage at h
  split at h
  · cases h
  · simp only at h
    generalize (if m.v4Support = true ∧ e4 = true ∧ isV4 m.client = true then
      (IngressMsg.newRegistrationC2SWrapper m false b4 geo).bind fun r => Outcome.ok (some r) else Outcome.ok none) = o4 at h
    generalize (if m.v6Support = true ∧ e6 = true then
      (IngressMsg.newRegistrationC2SWrapper m true b6 geo).bind fun r => Outcome.ok (some r) else Outcome.ok none) = o6 at h
    cases o4 <;> simp [Outcome.bind] at h
    cases o6 <;> simp [Outcome.bind] at h
    rename_i r4 r6
    rcases r4 with _ | _ | _ <;> rcases r6 with _ | _ | _ <;> simp at h <;> (try (subst h; simp))

end CJ.Props.C11Msg
