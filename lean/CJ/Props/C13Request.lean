import CJ.Lemmas.BdReq
/-!
# C13, the request path beyond the locks: every request gets one definite answer, built from one selector

Model: `CJ/Model/BdReq.lean` (the API registrar's handlers in front of `RegisterBidirectional` /
`RegisterUnidirectional`).  The lock-level theorems of `CJ/Props/C13.lean` say that no request blocks while the
configuration is reloaded; the theorems here say what a request that does not block is answered:

* one HTTP status from a fixed set, a success status iff the registration was published to the stations;
* a body iff the status is 200, with an address for exactly the families the client asked for - an error in
  either family leaves no partial response and nothing published;
* all addresses of a response, and all selections made for it, come from the selector that was installed when
  the request took its snapshot, whatever reloads install afterwards (for every `Timeline`); re-reading the
  installed selector per selection can mix two subnet sets in one response (`reread_mixes_subnet_sets`);
* every processor error maps to exactly one status, 400 or 500, never to a success status;
* an outdated client is answered from the server's ClientConf generation and is sent that ClientConf.
-/
namespace CJ.Props.C13Request
open CJ.BdReq

/-- Every error the processor can return maps to 400 or 500 - never to a success status - on both entry points. -/
theorem error_status_definite (e : PErr) :
    (errStatus e = 400 ∨ errStatus e = 500) ∧ errStatus e ≠ 200 ∧ errStatus e ≠ 204 ∧
    errStatusUni e = 500 := by
  cases e <;> simp [errStatus, errStatusUni]

/-- Which errors are the client's to repair (400): a wrapper without payload and the three legacy selection
corner cases ("bad seed"); everything else is a 500. -/
theorem error_status_partition (e : PErr) :
    errStatus e = 400 ↔ e ∈ [PErr.noBody, .legacyMissing, .legacyV0, .legacyAddrSel] := by
  cases e <;> simp [errStatus]

/-- Every request ends in one status of a fixed set (for every server state, timeline of reloads and request). -/
theorem every_request_answered (cc : Option Nat) (tl : Timeline) (r : Req) :
    (api cc tl r).status ∈ [200, 204, 400, 405, 500] := by
  cases hb : r.bidi <;> cases hf : front r <;> simp [api, apiBd, apiBdWith, apiUni, refuse, hb, hf]
  · cases hu : (procUni r).res <;> simp [errStatusUni]
  · rcases front_cases r _ hf with h | h <;> simp [h]
  · cases hp : r.payload <;> simp
    cases ho : (procBdWith snapshotPick tl r (effGen cc r.gen)).res <;> simp
    rename_i e; rcases errStatus_cases e with h | h <;> simp [h]
  · rcases front_cases r _ hf with h | h <;> simp [h]

/-- The success status (200 bidirectional, 204 unidirectional) is given iff the registration was published to the
stations: no success without a registration, no registration that is then reported as a failure. -/
theorem success_iff_registered (cc : Option Nat) (tl : Timeline) (r : Req) :
    (api cc tl r).status = okStatus r ↔ (api cc tl r).sent = true := by
  cases hb : r.bidi <;> cases hf : front r <;> simp [api, apiBd, apiBdWith, apiUni, refuse, okStatus, hb, hf]
  · unfold procUni; cases hu : tailUni r <;> simp [errStatusUni]
  · rcases front_cases r _ hf with h | h <;> simp [h]
  · cases hp : r.payload <;> simp
    have hs := procBd_sent_iff snapshotPick tl r (effGen cc r.gen)
    cases ho : (procBdWith snapshotPick tl r (effGen cc r.gen)).res
    · rename_i e
      have : (procBdWith snapshotPick tl r (effGen cc r.gen)).sent = false := by
        cases hsent : (procBdWith snapshotPick tl r (effGen cc r.gen)).sent
        · rfl
        · obtain ⟨resp, hr⟩ := hs.mp hsent; rw [ho] at hr; cases hr
      simp [this]; rcases errStatus_cases e with h | h <;> simp [h]
    · simp; exact hs.mpr ⟨_, ho⟩
  · rcases front_cases r _ hf with h | h <;> simp [h]

/-- No partial response: there is a body iff the request is bidirectional and the status is 200. -/
theorem body_iff_ok (cc : Option Nat) (tl : Timeline) (r : Req) :
    (api cc tl r).body.isSome = true ↔ (r.bidi = true ∧ (api cc tl r).status = 200) := by
  cases hb : r.bidi <;> cases hf : front r <;> simp [api, apiBd, apiBdWith, apiUni, refuse, hb, hf]
  · cases hu : (procUni r).res <;> simp
  · cases hp : r.payload <;> simp
    cases ho : (procBdWith snapshotPick tl r (effGen cc r.gen)).res <;> simp
    rename_i e; rcases errStatus_cases e with h | h <;> simp [h]
  · rcases front_cases r _ hf with h | h <;> simp [h]

/-- A response carries an address for exactly the families the client supports. -/
theorem response_complete {cc : Option Nat} {tl : Timeline} {r : Req} {resp : Resp}
    (h : (apiBd cc tl r).body = some resp) : resp.v4.isSome = r.v4 ∧ resp.v6.isSome = r.v6 := by
  revert h
  cases hf : front r <;> simp [apiBd, apiBdWith, refuse, hf]
  cases hp : r.payload <;> simp
  cases ho : (procBdWith snapshotPick tl r (effGen cc r.gen)).res <;> simp
  rename_i p; intro h; subst h
  obtain ⟨_, h4, h6, _, _⟩ := procBd_ok_shape ho
  exact ⟨(selFam_shape h4).1, (selFam_shape h6).1⟩

/-- Old or new in full, per response: every address of a response is taken from the selector installed when the
snapshot was taken - whatever selectors the reloads running next to the request install later (`tl` arbitrary). -/
theorem response_from_one_snapshot {cc : Option Nat} {tl : Timeline} {r : Req} {resp : Resp}
    (h : (apiBd cc tl r).body = some resp) :
    (∀ v, resp.v4 = some v → v = tl.atSnap.ver) ∧ (∀ v, resp.v6 = some v → v = tl.atSnap.ver) := by
  revert h
  cases hf : front r <;> simp [apiBd, apiBdWith, refuse, hf]
  cases hp : r.payload <;> simp
  cases ho : (procBdWith snapshotPick tl r (effGen cc r.gen)).res <;> simp
  rename_i p; intro h; subst h
  obtain ⟨_, h4, h6, _, _⟩ := procBd_ok_shape ho
  exact ⟨fun v hv => ((selFam_shape h4).2 v hv).1, fun v hv => ((selFam_shape h6).2 v hv).1⟩

/-- A dual-stack request that is answered gets both addresses, both from the snapshot. -/
theorem dual_stack_both_from_snapshot {cc : Option Nat} {tl : Timeline} {r : Req}
    (h4 : r.v4 = true) (h6 : r.v6 = true) (hok : (apiBd cc tl r).status = 200) :
    ∃ resp, (apiBd cc tl r).body = some resp ∧ resp.v4 = some tl.atSnap.ver ∧ resp.v6 = some tl.atSnap.ver := by
  have hb := (body_iff_ok cc tl { r with bidi := true }).mpr
  have hapi : api cc tl { r with bidi := true } = apiBd cc tl r := by
    simp [api, apiBd, apiBdWith, front, procBdWith, tail]
  rw [hapi] at hb
  have hsome := hb ⟨rfl, hok⟩
  cases hbody : (apiBd cc tl r).body with
  | none => rw [hbody] at hsome; cases hsome
  | some resp =>
    refine ⟨resp, rfl, ?_, ?_⟩
    · have hc := (response_complete hbody).1; rw [h4] at hc
      cases hv : resp.v4 with
      | none => rw [hv] at hc; cases hc
      | some v => rw [(response_from_one_snapshot hbody).1 v hv]
    · have hc := (response_complete hbody).2; rw [h6] at hc
      cases hv : resp.v6 with
      | none => rw [hv] at hc; cases hc
      | some v => rw [(response_from_one_snapshot hbody).2 v hv]

example : ∃ cc tl r, r.v4 = true ∧ r.v6 = true ∧ (apiBd cc tl r).status = 200 :=
  ⟨some 5, ⟨⟨1, [5]⟩, ⟨2, [5]⟩, ⟨3, []⟩⟩,
   ⟨true, true, true, 40, true, true, 3, true, true, .ok, .ok, true, true, 32, true⟩, by decide⟩

/-- Every selection a request performs - answered or not - asks the snapshot, with the one generation the handler
settled on (the server's for an outdated client). -/
theorem selections_on_snapshot (cc : Option Nat) (tl : Timeline) (r : Req) :
    ∀ a ∈ (apiBd cc tl r).asked, a.ver = tl.atSnap.ver ∧ a.gen = effGen cc r.gen := by
  cases hf : front r <;> simp [apiBd, apiBdWith, refuse, hf]
  cases hp : r.payload <;> simp
  have ha := procBd_asked snapshotPick tl r (effGen cc r.gen)
  cases ho : (procBdWith snapshotPick tl r (effGen cc r.gen)).res <;> simp <;>
  · intro a hm; have := ha a hm; simp [snapshotPick] at this; exact ⟨this.2, this.1⟩

/-- The variant that reads the installed selector again for each selection answers a dual-stack request with
addresses of two different subnet sets when a reload lands between the selections. -/
theorem reread_mixes_subnet_sets :
    ∃ cc tl r resp, (apiBdWith rereadPick cc tl r).body = some resp ∧ resp.v4 = some 1 ∧ resp.v6 = some 2 :=
  ⟨none, ⟨⟨1, [5]⟩, ⟨1, [5]⟩, ⟨2, [5]⟩⟩,
   ⟨true, true, true, 40, true, true, 5, true, true, .ok, .ok, true, true, 32, true⟩, ⟨some 1, some 2, none⟩,
   by decide⟩

/-- An error in either family (or anywhere later) leaves no partial response and publishes nothing: whenever the
status is not the success status there is no body and no registration went to the stations. -/
theorem failure_leaves_nothing (cc : Option Nat) (tl : Timeline) (r : Req)
    (h : (api cc tl r).status ≠ okStatus r) : (api cc tl r).body = none ∧ (api cc tl r).sent = false := by
  constructor
  · cases hbody : (api cc tl r).body with
    | none => rfl
    | some x =>
      have := (body_iff_ok cc tl r).mp (by rw [hbody]; rfl)
      exact absurd (by rw [this.2]; simp [okStatus, this.1]) h
  · cases hs : (api cc tl r).sent with
    | false => rfl
    | true => exact absurd ((success_iff_registered cc tl r).mpr hs) h

example : ∃ cc tl r, (api cc tl r).status ≠ okStatus r :=
  ⟨none, ⟨⟨1, [5]⟩, ⟨1, [5]⟩, ⟨2, [5]⟩⟩,
   ⟨true, true, true, 40, true, true, 5, true, true, .ok, .err .legacyV0, true, true, 32, true⟩, by decide⟩

/-- A failing selection in the second family of a dual-stack request: the first family's address is dropped, the
status is the one of that error. -/
theorem second_family_error_refuses (cc : Option Nat) (tl : Timeline) (r : Req) (e : PErr) (x : Option Nat)
    (hf : front r = none) (hp : r.payload = true)
    (h4 : selFam r.v4 tl.atSnap (effGen cc r.gen) r.sel4 = .ok x)
    (h6 : selFam r.v6 tl.atSnap (effGen cc r.gen) r.sel6 = .error e) :
    (apiBd cc tl r).status = errStatus e ∧ (apiBd cc tl r).body = none ∧ (apiBd cc tl r).sent = false := by
  simp [apiBd, apiBdWith, procBdWith, snapshotPick, hf, hp, h4, h6]

example : ∃ (cc : Option Nat) (tl : Timeline) (r : Req) (e : PErr) (x : Option Nat), front r = none ∧ r.payload = true ∧
    selFam r.v4 tl.atSnap (effGen cc r.gen) r.sel4 = .ok x ∧
    selFam r.v6 tl.atSnap (effGen cc r.gen) r.sel6 = .error e :=
  ⟨none, ⟨⟨1, [5]⟩, ⟨1, [5]⟩, ⟨2, [5]⟩⟩,
   ⟨true, true, true, 40, true, true, 5, true, true, .ok, .err .legacyV0, true, true, 32, true⟩, .legacyV0, some 1,
   by decide, rfl, by simp [selFam, select, effGen, outdated], by simp [selFam, select, effGen, outdated]⟩

/-- Exactly when a bidirectional request is answered: it passes the front checks, has a payload, the snapshot
knows the generation the handler settled on and the selection succeeds for every family asked for, the transport
is known and accepts the parameters, the secret is long enough and the send succeeds.  Nothing about the selectors
installed later enters: a request that is answered with no reload running is answered with any number of them. -/
theorem answered_iff (cc : Option Nat) (tl : Timeline) (r : Req) :
    (apiBd cc tl r).status = 200 ↔
      (front r = none ∧ r.payload = true ∧
       (∃ x, selFam r.v4 tl.atSnap (effGen cc r.gen) r.sel4 = .ok x) ∧
       (∃ x, selFam r.v6 tl.atSnap (effGen cc r.gen) r.sel6 = .ok x) ∧ tail r = none) := by
  cases hf : front r <;> simp [apiBd, apiBdWith, refuse, hf]
  · cases hp : r.payload <;> simp [procBdWith, snapshotPick, hp]
    cases h4 : selFam r.v4 tl.atSnap (effGen cc r.gen) r.sel4 <;> simp
    · rename_i e; rcases errStatus_cases e with h | h <;> simp [h]
    · cases h6 : selFam r.v6 tl.atSnap (effGen cc r.gen) r.sel6 <;> simp
      · rename_i e; rcases errStatus_cases e with h | h <;> simp [h]
      · cases ht : tail r <;> simp
        rename_i e; rcases errStatus_cases e with h | h <;> simp [h]
  · rcases front_cases r _ hf with h | h <;> simp [h]

/-- The answer does not depend on what reloads install after the snapshot. -/
theorem later_reloads_do_not_matter (cc : Option Nat) (s a b a' b' : Snap) (r : Req) :
    api cc ⟨s, a, b⟩ r = api cc ⟨s, a', b'⟩ r := by
  simp [api, apiBd, apiBdWith, procBdWith, snapshotPick]

/-- An outdated client (generation below the server's ClientConf) is answered from the server's generation and is
sent the server's ClientConf; a current client keeps its generation and gets none. -/
theorem outdated_client_updated {cc : Option Nat} {tl : Timeline} {r : Req} {resp : Resp}
    (h : (apiBd cc tl r).body = some resp) :
    resp.cc = outdated cc r.gen ∧ ∀ a ∈ (apiBd cc tl r).asked, a.gen = effGen cc r.gen := by
  refine ⟨?_, fun a ha => (selections_on_snapshot cc tl r a ha).2⟩
  revert h
  cases hf : front r <;> simp [apiBd, apiBdWith, refuse, hf]
  cases hp : r.payload <;> simp
  cases ho : (procBdWith snapshotPick tl r (effGen cc r.gen)).res <;> simp
  intro h; subst h; rfl

theorem effGen_outdated (g gen : Nat) (h : gen < g) : outdated (some g) gen = some g ∧ effGen (some g) gen = g := by
  have : ¬ gen ≥ g := by omega
  simp [effGen, outdated, this]

theorem effGen_current (cc : Option Nat) (gen : Nat) (h : ∀ g, cc = some g → g ≤ gen) :
    outdated cc gen = none ∧ effGen cc gen = gen := by
  cases cc with
  | none => simp [effGen, outdated]
  | some g => have := h g rfl; simp [effGen, outdated, this]

end CJ.Props.C13Request
