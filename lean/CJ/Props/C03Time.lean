import CJ.Props.C03
import CJ.Lemmas.ConnTimed
import CJ.Gen.ConnTiming
/-!
# C03 — the clock: when an unauthenticated connection is given back

`CJ.ConnTimed.thandler` is the handler with its timing decisions (`CJ/Model/ConnTimed.lean`): the draw of
the classification timeout, the deadline armed before the first read, which of the peer's actions a read
still returns, the sleep after a transport error, and the time at which the handler returns.

* `timed_refines_untimed` — on the clock the handler performs the actions of `CJ.ConnHandler.handler` on
  what the connection presents before the deadline (`present`), so every theorem of `CJ.Props.C03` applies
  to peers of any pacing;
* `probe_closes_at_drawn_deadline`, `probe_close_time_independent_of_content` — for a probe whose peer does
  not end the connection itself, the handler returns exactly at the drawn deadline: whatever was sent, in
  whatever segments, at whatever pace, whichever transports are enabled and however many registrations
  the phantom has;
* `no_close_before_deadline_unless_peer_ends` — in *every* run that ends with the handler returning (probe
  or not, the sleep path included) the return is not before the deadline, unless the peer ended the
  connection (or a read failed) by then;
* `timeout_in_range` — 5 s ≤ timeout < 10 s for every value `rand.Int63n(5000)` can return;
* `timing_constants_match_code`, `source_arms_once_before_blocking` — the regenerated source facts the
  model's shape leans on.
-/
namespace CJ.Props.C03
open CJ.ConnHandler CJ.ConnTimed

variable {T R : Type}

/-- every value of `rand.Int63n(5000)` gives a timeout of at least 5 s and less than 10 s -/
theorem timeout_in_range (draw : Nat) (h : draw < drawBound) :
    5000 ≤ timeoutMs draw ∧ timeoutMs draw < 10000 := by
  simp only [timeoutMs, drawBase, drawBound] at *
  omega

/-- **On the clock the handler is the handler on what the connection presents before the deadline**
(up to the proxy's view of the stream after a match, when the deadline is cleared). -/
theorem timed_refines_untimed (cls : T → Bytes → Verdict R) (sched : Nat → List T → List T) (t0 draw : Nat)
    (geo : Geo) (count : Nat) (ts : List T) (s : List TEv) :
    (thandler cls sched t0 draw geo count ts s).1.map forget
      = (handler cls sched geo count ts (present (t0 + timeoutMs draw) t0 s)).map forget :=
  thandler_fst cls sched t0 draw geo count ts s

private theorem map_forget_eq {l l' : List (Act T R)} (h : l.map forget = l'.map forget)
    (hp : ∀ a ∈ l', ∀ r s, a ≠ .proxy r s) : l = l' := by
  induction l generalizing l' with
  | nil => cases l' with
    | nil => rfl
    | cons b l' => simp at h
  | cons a l ih =>
    cases l' with
    | nil => simp at h
    | cons b l' =>
      simp only [List.map_cons, List.cons.injEq] at h
      have hb : ∀ r s, b ≠ .proxy r s := hp b (List.mem_cons_self ..)
      have hab : a = b := by
        cases a <;> cases b <;> simp_all [forget]
      rw [hab, ih h.2 (fun a ha => hp a (List.mem_cons_of_mem _ ha))]

/-- for a probe (nothing it gets through before the deadline matches) the actions are exactly those of
the untimed handler on the presented script … -/
theorem probe_trace_on_clock (cls : T → Bytes → Verdict R) (sched : Nat → List T → List T)
    (hs : SchedOk sched) (t0 draw count : Nat) (ts : List T) (s : List TEv)
    (hn : NoMatch cls ts (present (t0 + timeoutMs draw) t0 s)) :
    (thandler cls sched t0 draw .ok count ts s).1
      = handler cls sched .ok count ts (present (t0 + timeoutMs draw) t0 s) := by
  apply map_forget_eq (timed_refines_untimed cls sched t0 draw .ok count ts s)
  intro a ha r st hpr
  rcases probe_only_reads cls sched hs count ts _ hn a ha with h | ⟨e, h⟩ | h <;> (subst hpr; cases h)

/-- … so what the prober sees is: the deadline armed, every segment that arrives before it read, and the
return after the first read that reports the deadline or the peer's own ending. -/
theorem probe_view_on_clock (cls : T → Bytes → Verdict R) (sched : Nat → List T → List T)
    (hs : SchedOk sched) (t0 draw count : Nat) (ts : List T) (s : List TEv)
    (hn : NoMatch cls ts (present (t0 + timeoutMs draw) t0 s)) :
    connView (thandler cls sched t0 draw .ok count ts s).1 =
      .setDeadline :: ((readsOf (present (t0 + timeoutMs draw) t0 s)).map .readData ++
        [.readEnd (endOf (present (t0 + timeoutMs draw) t0 s)), .ret]) := by
  rw [probe_trace_on_clock cls sched hs t0 draw count ts s hn]
  exact probe_view cls sched hs count ts _ hn

/-- **The observable close time of a probe is the drawn deadline.**  The peer only sends (any content,
any segmentation, any pacing — also nothing at all, also segments that arrive after the deadline), nothing
it gets through before the deadline presents a valid tag: the handler returns at `t0 + timeoutMs draw`,
for any transports, any iteration order and any number of registrations on the phantom. -/
theorem probe_closes_at_drawn_deadline (cls : T → Bytes → Verdict R) (sched : Nat → List T → List T)
    (hs : SchedOk sched) (t0 draw count : Nat) (ts : List T) (s : List TEv)
    (hn : NoMatch cls ts (present (t0 + timeoutMs draw) t0 s)) (ho : OnlyData s) :
    (thandler cls sched t0 draw .ok count ts s).2 = .closed (t0 + timeoutMs draw) := by
  have htr := probe_trace_on_clock cls sched hs t0 draw count ts s hn
  have hle : t0 ≤ t0 + timeoutMs draw := Nat.le_add_right ..
  unfold thandler at htr ⊢
  by_cases h : count < 1
  · simp only [h, if_true]
    exact tdiscard_end_only_data _ s t0 hle ho
  · simp only [h, if_false] at htr ⊢
    rcases tloop_end_only_data cls sched _ s 0 t0 ts [] hle ho with h1 | ⟨t, _, h2⟩
    · exact h1
    · exfalso
      have hmem : Act.clearDeadline ∈
          handler cls sched .ok count ts (present (t0 + timeoutMs draw) t0 s) := by
        rw [← htr]; exact List.mem_cons_of_mem _ h2
      rcases probe_only_reads cls sched hs count ts _ hn _ hmem with h | ⟨e, h⟩ | h <;> cases h

/-- **…independent of what was sent and of the registrations.**  Two probes that meet the same draw are
given back at the same instant, whatever each of them sent and whatever the station holds for the phantoms
they went to. -/
theorem probe_close_time_independent_of_content
    (cls cls' : T → Bytes → Verdict R) (sched sched' : Nat → List T → List T)
    (hs : SchedOk sched) (hs' : SchedOk sched') (t0 draw count count' : Nat) (ts ts' : List T)
    (s s' : List TEv)
    (hn : NoMatch cls ts (present (t0 + timeoutMs draw) t0 s)) (ho : OnlyData s)
    (hn' : NoMatch cls' ts' (present (t0 + timeoutMs draw) t0 s')) (ho' : OnlyData s') :
    (thandler cls sched t0 draw .ok count ts s).2 = (thandler cls' sched' t0 draw .ok count' ts' s').2 := by
  rw [probe_closes_at_drawn_deadline cls sched hs t0 draw count ts s hn ho,
    probe_closes_at_drawn_deadline cls' sched' hs' t0 draw count' ts' s' hn' ho']

/-- **No return before the deadline unless the peer ended the connection** — in every run, probe or not
(the sleep after a transport error included): if the handler returns at `t`, then `t` is not before the
drawn deadline, or by `t` the peer had ended the connection itself (EOF, reset) or a read had failed. -/
theorem no_close_before_deadline_unless_peer_ends (cls : T → Bytes → Verdict R)
    (sched : Nat → List T → List T) (t0 draw count : Nat) (ts : List T) (s : List TEv) (t : Nat)
    (h : (thandler cls sched t0 draw .ok count ts s).2 = .closed t) :
    t0 + timeoutMs draw ≤ t ∨ ∃ e ∈ s, Terminal e ∧ e.t ≤ t := by
  unfold thandler at h
  by_cases hc : count < 1
  · simp only [hc, if_true] at h
    exact tdiscard_no_early _ s t0 t h
  · simp only [hc, if_false] at h
    exact tloop_no_early cls sched _ s 0 t0 ts [] t h

/-! ## Tie to the source (regenerated on every run: `CJ/Gen/ConnTiming.lean`) -/

/-- the draw is `rand.Int63n(5000) + 5000` in units of `time.Millisecond`; `ms`, `timeout` and `deadline`
are each assigned exactly once, `deadline := time.Now().Add(timeout)` -/
theorem timing_constants_match_code :
    CJ.Gen.ConnTiming.drawBound = drawBound ∧ CJ.Gen.ConnTiming.drawBase = drawBase ∧
    CJ.Gen.ConnTiming.msAssigns.length = 1 ∧
    CJ.Gen.ConnTiming.timeoutAssigns = ["time.Duration(ms) * time.Millisecond"] ∧
    CJ.Gen.ConnTiming.deadlineAssigns = ["time.Now().Add(timeout)"] := by decide

/-- the handler arms the drawn deadline before any call that blocks on the connection, arms nothing
else (the only other `SetDeadline` clears it, after every blocking call of the classification), and the
one `time.Sleep` sleeps until that same deadline -/
theorem source_arms_once_before_blocking :
    CJ.Gen.ConnTiming.armArgs = ["deadline", "time.Time{}"] ∧
    CJ.Gen.ConnTiming.timingOrder.head? = some "arm" ∧
    CJ.Gen.ConnTiming.timingOrder.getLast? = some "disarm" ∧
    (CJ.Gen.ConnTiming.timingOrder.filter (· == "arm")).length = 1 ∧
    (CJ.Gen.ConnTiming.timingOrder.filter (· == "disarm")).length = 1 ∧
    (∀ a ∈ CJ.Gen.ConnTiming.sleepArgs, a = "time.Until(deadline)") ∧
    "read" ∈ CJ.Gen.ConnTiming.timingOrder ∧ "copy" ∈ CJ.Gen.ConnTiming.timingOrder := by decide

/-! ## Non-vacuity -/

/-- a prober that sends three tag bytes at once, a wrong fourth after 3 s, garbage after 7.2 s and more
after 12 s; the draw is 1234, so the deadline is at 6.234 s: two reads, then the deadline -/
def exTimedProbe : List TEv :=
  [⟨0, .data [1, 2, 3]⟩, ⟨3000, .data [9]⟩, ⟨7200, .data [5, 5, 5]⟩, ⟨12000, .data [6]⟩]

example : present (0 + timeoutMs 1234) 0 exTimedProbe = [.data [1, 2, 3], .data [9], .deadline] := by decide

example : OnlyData exTimedProbe := by
  intro e he
  simp only [exTimedProbe, List.mem_cons, List.mem_nil_iff, or_false] at he
  rcases he with rfl | rfl | rfl | rfl <;> exact ⟨_, rfl⟩

example : thandler exCls (fun _ ts => ts) 0 1234 .ok 2 [0, 1] exTimedProbe =
    ([.setDeadline, .readData 3, .query 0 3 .tryAgain, .query 1 3 .tryAgain,
      .readData 1, .query 0 4 .notT, .query 1 4 .tryAgain, .readEnd .deadline, .ret], .closed 6234) := by decide

/-- the same draw against a phantom without registrations and a silent peer: the same instant -/
example : (thandler exCls (fun _ ts => ts) 0 1234 .ok 0 [0, 1] []).2 = .closed 6234 := by decide

/-- a peer that resets after 2 s is given back then (its own doing), a transport error sleeps to the deadline -/
example : (thandler exCls (fun _ ts => ts) 0 1234 .ok 2 [0, 1] [⟨0, .data [1]⟩, ⟨2000, .reset⟩]).2 = .closed 2000 := by
  decide
example : (thandler (fun (_ : Nat) (_ : Bytes) => (Verdict.err : Verdict Nat)) (fun _ ts => ts) 0 1234 .ok 1 [0]
    [⟨100, .data [1]⟩]).2 = .closed 6234 := by decide

end CJ.Props.C03
