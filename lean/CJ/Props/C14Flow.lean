import CJ.Model.PhantomFlow
import CJ.Gen.C14Flow
/-!
# C14 — the flag that reaches the port decision is the selected phantom's

`CJ.Props.C14Port` proves "a port other than 443 only if the selected subnet allows it" for
`PhantomPort.newRegistration`, where the flag argument of `getPhantomDstPort` *is* the selected address's
flag.  Two things tie that to the code: the source fact below (every call of `getPhantomDstPort` passes
`<v>.SupportRandomPort()` of the one value assigned from `rm.Selector().Select(…)` in the same function,
and that value's `IP()` is the registration's address), and the `flow|` line, which drives the real
`NewRegistration` against `PhantomFlow.newRegistration`.
-/
namespace CJ.Props.C14Flow
open CJ.Phantom CJ.PhantomPort CJ.PhantomFlow

/-- **Read off the source on every run**: `getPhantomDstPort` has at least one call site, is never used
as a value, and at every call site the fifth argument is `v.SupportRandomPort()` where `v` is assigned
exactly once in the function, by `rm.Selector().Select(…)`, never written otherwise (no second
assignment, no `&v`), and `*v.IP()` is what the registration keeps as its phantom address. -/
theorem flag_flows_from_selection :
    CJ.Gen.C14Flow.sites ≠ [] ∧ CJ.Gen.C14Flow.otherRefs = 0 ∧ 1 ≤ CJ.Gen.C14Flow.files ∧
    CJ.Gen.C14Flow.sites.all (fun s =>
      s.nargs == 5 && s.arg5 == s.recv ++ ".SupportRandomPort()" && s.recvAssigns == 1 &&
      s.recvOtherWrites == 0 && s.recvFrom == "rm.Selector().Select" &&
      s.phantomIp == "*" ++ s.recv ++ ".IP()") = true := by decide

/-- the registration's address is the selected one, and its port leaves 443 only with the flag of that
address — for every answer of the selection and of the transport -/
theorem flow_port_needs_flag (minVer : Nat) (sel : Option Addr) (tp : Tp) (ver : Nat) (r : Reg)
    (h : PhantomFlow.newRegistration minVer sel tp ver = .ok r) :
    sel = some r.addr ∧ (r.port ≠ 443 → r.addr.randPort = true ∧ minVer ≤ ver) := by
  unfold PhantomFlow.newRegistration at h
  cases sel with
  | none => cases h
  | some a =>
    cases tp with
    | unregistered => cases h
    | paramsErr => cases h
    | ans t =>
      simp only [getPhantomDstPort] at h
      by_cases hc : ver < minVer ∨ a.randPort = false
      · simp only [hc, ↓reduceIte] at h
        cases h
        exact ⟨rfl, fun hp => (hp rfl).elim⟩
      · simp only [hc, ↓reduceIte] at h
        have hf : a.randPort = true := by
          cases hr : a.randPort
          · exact (hc (Or.inr hr)).elim
          · rfl
        have hv : minVer ≤ ver := by
          apply Nat.le_of_not_lt; intro hl; exact hc (Or.inl hl)
        cases t with
        | port p => cases h; exact ⟨rfl, fun _ => ⟨hf, hv⟩⟩
        | err => cases h

/-- the flow is `PhantomPort.finishRegistration` wherever the parameters parse: the end-to-end theorems of
`C14Port` (over `stationSelect`) speak about the same function the `flow|` line drives -/
theorem flow_is_finishRegistration (minVer : Nat) (a : Addr) (t : TOut) (ver : Nat) (r : Reg) :
    PhantomFlow.newRegistration minVer (some a) (.ans t) ver = .ok r ↔
      finishRegistration minVer (some t) ver (.ok a) = .ok r := by
  unfold PhantomFlow.newRegistration finishRegistration
  simp only
  generalize getPhantomDstPort minVer (some t) ver a.randPort = q
  cases q <;> simp

example : ∃ r, PhantomFlow.newRegistration 3 (some ⟨[10, 0, 0, 1], true⟩) (.ans (.port 8443)) 3 = .ok r := ⟨_, rfl⟩

end CJ.Props.C14Flow
