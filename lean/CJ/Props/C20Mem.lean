import CJ.Model.AssetsMem
import CJ.Props.C20
/-!
# C20, the in-memory side — whole histories of calls of the asset store

`CJ.Props.C20` proves the store system call by system call.  Here a history is any list of *calls*
(`SetClientConf`, the four in-place setters, `initAssets`, `AssetsSetDir`, readers, the caller mutating an
object it still holds, somebody else replacing the file), every store succeeding or failing as the
environment decides.  Statements:

* a failed `SetClientConf` changes nothing at all: pointer, objects, files, path (`setconf_failure_restores_everything`);
* a store that reports success leaves memory and file in agreement, whatever happened before
  (`store_ok_syncs`); a load that reports success too (`load_ok_syncs`);
* agreement is kept by every call except the ones listed in `quiet` (`sync_preserved`, `history_sync`);
* for histories of whole-configuration replacements: after **any** history the pointer in memory is the
  argument of the last `SetClientConf` that returned nil, the object still has the content it was
  passed with, and the file decodes to exactly that (`whole_conf_history`);
* the two outcomes of `save` are the two return states of the system-call model
  (`save_outcomes_are_atomic_store_outcomes`).
-/
namespace CJ.Props.C20Mem
open CJ.AssetsMem

/-- memory and file agree: the file of `a.path` decodes to the configuration `a.config` points to
(the empty configuration for a nil pointer) -/
def Sync (s : St) : Prop := ∃ c, stored s = some c ∧ decode (s.disk s.path) = some c

/-- no dangling pointer -/
def WF (s : St) : Prop := ∀ p, s.cfg = some p → p < s.heap.length

/-! ### `saveClientConf` -/

theorem save_err {s s' : St} {io : Bool} (h : save s io = some (s', true)) : s' = s := by
  unfold save at h
  split at h
  · cases h
  · split at h
    · simp at h; exact h.symm
    · split at h
      · simp at h; exact h.symm
      · simp at h

theorem save_ok {s s' : St} {io : Bool} (h : save s io = some (s', false)) :
    ∃ c, stored s = some c ∧ c.restOK = true ∧ io = true ∧
      s' = { s with disk := upd s.disk s.path (.data c) } := by
  unfold save at h
  split at h
  · cases h
  · rename_i c hc
    split at h
    · simp at h
    · rename_i h1
      split at h
      · simp at h
      · rename_i h2
        simp at h
        exact ⟨c, hc, by simpa using h1, by simpa using h2, h.symm⟩

theorem save_ok_sync {s s' : St} {io : Bool} (h : save s io = some (s', false)) : Sync s' := by
  obtain ⟨c, hc, _, _, rfl⟩ := save_ok h
  refine ⟨c, ?_, ?_⟩
  · simpa [stored] using hc
  · simp [upd, decode]

/-! ### `SetClientConf` -/

theorem setConf_cases {s s' : St} {p : Option Nat} {io : Bool} {r : Res}
    (h : setConf s p io = some (s', r)) :
    (r = .err ∧ s' = s) ∨
    (r = .ok ∧ s'.cfg = p ∧ s'.heap = s.heap ∧ s'.path = s.path ∧ Sync s') := by
  unfold setConf at h
  cases hp : ptrOK s p with
  | false => simp [hp] at h
  | true =>
    simp only [hp, if_true] at h
    cases hs : save { s with cfg := p } io with
    | none => simp [hs] at h
    | some q =>
      obtain ⟨s1, e⟩ := q
      cases e with
      | true =>
        have := save_err hs
        subst this
        simp [hs] at h
        exact Or.inl ⟨h.2.symm, h.1.symm⟩
      | false =>
        simp [hs] at h
        obtain ⟨h1, hr⟩ := h
        subst h1
        obtain ⟨c, _, _, _, heq⟩ := save_ok hs
        refine Or.inr ⟨hr.symm, ?_, ?_, ?_, save_ok_sync hs⟩ <;> rw [heq]

/-- **A failed replacement of the whole ClientConf changes nothing**: the pointer in memory is the
previous one, no object was modified, no file of any directory was touched, the path is the same. -/
theorem setconf_failure_restores_everything (s s' : St) (p : Option Nat) (io : Bool)
    (h : step s (.setConf p io) = some (s', .err)) : s' = s := by
  rcases setConf_cases (show setConf s p io = some (s', .err) from h) with ⟨_, b⟩ | ⟨a, _⟩
  · exact b
  · cases a

/-- `SetClientConf` never panics; it either fails and changes nothing, or succeeds, and then `a.config` is the
argument, no object was modified, and memory and file agree -/
theorem setconf_all_or_nothing (s s' : St) (p : Option Nat) (io : Bool) (r : Res)
    (h : step s (.setConf p io) = some (s', r)) :
    (r = .err ∧ s' = s) ∨
    (r = .ok ∧ s'.cfg = p ∧ s'.heap = s.heap ∧ s'.path = s.path ∧ Sync s') :=
  setConf_cases (show setConf s p io = some (s', r) from h)

/-! ### the in-place setters -/

theorem inPlace_cases {s s' : St} {f : Conf → Conf} {io : Bool} {r : Res}
    (h : inPlace s f io = some (s', r)) :
    (r = .panic ∧ s' = s ∧ s.cfg = none) ∨ (r = .ok ∧ Sync s') ∨
    (r = .err ∧ s'.cfg = s.cfg ∧ s'.disk = s.disk ∧ s'.path = s.path) := by
  unfold inPlace at h
  cases hc : s.cfg with
  | none =>
    simp [hc] at h
    exact Or.inl ⟨h.2.symm, h.1.symm, rfl⟩
  | some p =>
    simp only [hc] at h
    cases hg : s.heap[p]? with
    | none => simp [hg] at h
    | some c =>
      simp only [hg] at h
      cases hs : save { s with heap := s.heap.set p (f c) } io with
      | none => simp only [hc] at hs; simp [hs] at h
      | some q =>
        obtain ⟨s1, e⟩ := q
        have hs0 := hs
        simp only [hc] at hs
        simp [hs] at h
        obtain ⟨h1, hr⟩ := h
        subst h1
        cases e with
        | false => exact Or.inr (Or.inl ⟨hr.symm, save_ok_sync hs0⟩)
        | true =>
          have := save_err hs0
          subst this
          exact Or.inr (Or.inr ⟨hr.symm, hc, rfl, rfl⟩)

def isInPlace : Ev → Bool
  | .setGen _ _ | .setPub _ _ | .setDecoys _ _ | .setSubnets _ _ => true
  | _ => false

def isStore : Ev → Bool
  | .setConf _ _ => true
  | e => isInPlace e

theorem inPlace_weaken {s s' : St} {f : Conf → Conf} {io : Bool} {r : Res}
    (h : inPlace s f io = some (s', r)) :
    (r = .panic ∧ s' = s) ∨ (r = .ok ∧ Sync s') ∨ r = .err := by
  rcases inPlace_cases h with ⟨a, b, _⟩ | ⟨a, b⟩ | ⟨a, _⟩
  · exact Or.inl ⟨a, b⟩
  · exact Or.inr (Or.inl ⟨a, b⟩)
  · exact Or.inr (Or.inr a)

theorem inPlace_step {s s' : St} {e : Ev} {r : Res} (he : isInPlace e = true) (h : step s e = some (s', r)) :
    (r = .panic ∧ s' = s) ∨ (r = .ok ∧ Sync s') ∨ r = .err := by
  cases e <;> simp [isInPlace] at he
  case setGen g io => exact inPlace_weaken (show inPlace s _ io = some (s', r) from h)
  case setPub k io => exact inPlace_weaken (show inPlace s _ io = some (s', r) from h)
  case setDecoys ds io => exact inPlace_weaken (show inPlace s _ io = some (s', r) from h)
  case setSubnets t io =>
    have h : setSubnets s t io = some (s', r) := h
    unfold setSubnets at h
    cases hc : s.cfg with
    | some p => simp only [hc] at h; exact inPlace_weaken h
    | none =>
      simp only [hc] at h
      rcases inPlace_cases h with ⟨_, _, c⟩ | ⟨a, b⟩ | ⟨a, _⟩
      · simp at c
      · exact Or.inr (Or.inl ⟨a, b⟩)
      · exact Or.inr (Or.inr a)

/-- **A store that reports success leaves memory and file in agreement — from any state**, whatever failed
or was tampered with before (every setter, including `SetClientConf(nil)`). -/
theorem store_ok_syncs (s s' : St) (e : Ev) (he : isStore e = true) (h : step s e = some (s', .ok)) : Sync s' := by
  cases hi : isInPlace e with
  | true =>
    rcases inPlace_step hi h with ⟨a, _⟩ | ⟨_, b⟩ | a
    · cases a
    · exact b
    · cases a
  | false =>
    cases e <;> simp [isStore, isInPlace] at he hi
    case setConf p io =>
      rcases setconf_all_or_nothing s s' p io .ok h with ⟨a, _⟩ | ⟨_, _, _, _, b⟩
      · cases a
      · exact b

/-! ### the load path -/

theorem load_ok {s s' : St} (h : load s = (s', false)) : Sync s' ∧ s'.path = s.path ∧ s'.disk = s.disk := by
  unfold load at h
  cases hd : decode (s.disk s.path) with
  | none => simp [hd] at h
  | some c =>
    simp [hd] at h
    subst h
    exact ⟨⟨c, by simp [stored], hd⟩, rfl, rfl⟩

theorem load_err {s s' : St} (h : load s = (s', true)) : s' = s ∧ decode (s.disk s.path) = none := by
  unfold load at h
  cases hd : decode (s.disk s.path) with
  | none => simp [hd] at h; exact ⟨h.symm, rfl⟩
  | some c => simp [hd] at h

theorem resOf_ok {e : Bool} (h : resOf e = .ok) : e = false := by cases e <;> simp [resOf] at h ⊢
theorem resOf_err {e : Bool} (h : resOf e = .err) : e = true := by cases e <;> simp [resOf] at h ⊢

theorem setDir_cases {s s' : St} {d : Nat} {ex : Bool} {r : Res} (h : setDir s d ex = (s', r)) :
    (d = s.path ∧ s' = s ∧ r = .ok) ∨ (d ≠ s.path ∧ ex = false ∧ s' = s ∧ r = .err) ∨
    (d ≠ s.path ∧ ex = true ∧ ∃ e, load { s with path := d } = (s', e) ∧ r = resOf e) := by
  unfold setDir at h
  by_cases hd : d = s.path
  · simp only [hd, if_true, Prod.mk.injEq] at h
    exact Or.inl ⟨hd, h.1.symm, h.2.symm⟩
  · simp only [hd, if_false] at h
    cases ex with
    | false =>
      simp at h
      exact Or.inr (Or.inl ⟨hd, rfl, h.1.symm, h.2.symm⟩)
    | true =>
      simp at h
      exact Or.inr (Or.inr ⟨hd, rfl, _, Prod.ext h.1 rfl, h.2.symm⟩)

/-- a load that reports success (`initAssets`, `AssetsSetDir` to another directory) leaves memory equal to
what the file of the new path decodes to -/
theorem load_ok_syncs (s s' : St) :
    (∀ d dflt, step s (.init d dflt) = some (s', .ok) → Sync s' ∧ s'.path = d) ∧
    (∀ d ex, d ≠ s.path → step s (.setDir d ex) = some (s', .ok) → Sync s' ∧ s'.path = d) := by
  constructor
  · intro d dflt h
    have h : initAssets s d dflt = (s', .ok) := Option.some.inj h
    unfold initAssets at h
    simp only [Prod.mk.injEq] at h
    obtain ⟨h1, h2⟩ := h
    have hl : load { s with heap := s.heap ++ [dflt], cfg := some s.heap.length, path := d } = (s', false) :=
      Prod.ext h1 (resOf_ok h2)
    obtain ⟨a, b, _⟩ := load_ok hl
    exact ⟨a, b⟩
  · intro d ex hd h
    have h : setDir s d ex = (s', .ok) := Option.some.inj h
    rcases setDir_cases h with ⟨a, _⟩ | ⟨_, _, _, a⟩ | ⟨_, _, e, hl, hr⟩
    · exact absurd a hd
    · cases a
    · have := resOf_ok hr.symm
      subst this
      obtain ⟨a, b, _⟩ := load_ok hl
      exact ⟨a, b⟩

/-- a missing, unreadable or unparsable file never replaces the configuration in memory: after a failed
`initAssets` the built-in default is in effect, after a failed `AssetsSetDir` the previous configuration —
and no file was touched (but `AssetsSetDir` has switched `path` when the directory exists) -/
theorem load_failure_keeps_memory (s s' : St) :
    (∀ d dflt, step s (.init d dflt) = some (s', .err) →
      stored s' = some dflt ∧ s'.disk = s.disk ∧ decode (s.disk d) = none) ∧
    (∀ d ex, step s (.setDir d ex) = some (s', .err) →
      s'.cfg = s.cfg ∧ s'.heap = s.heap ∧ s'.disk = s.disk ∧ (ex = false → s' = s)) := by
  constructor
  · intro d dflt h
    have h : initAssets s d dflt = (s', .err) := Option.some.inj h
    unfold initAssets at h
    simp only [Prod.mk.injEq] at h
    obtain ⟨h1, h2⟩ := h
    have hl : load { s with heap := s.heap ++ [dflt], cfg := some s.heap.length, path := d } = (s', true) :=
      Prod.ext h1 (resOf_err h2)
    obtain ⟨a, b⟩ := load_err hl
    subst a
    exact ⟨by simp [stored], rfl, b⟩
  · intro d ex h
    have h : setDir s d ex = (s', .err) := Option.some.inj h
    rcases setDir_cases h with ⟨_, _, a⟩ | ⟨_, _, a, _⟩ | ⟨_, hex, e, hl, hr⟩
    · cases a
    · subst a; exact ⟨rfl, rfl, rfl, fun _ => rfl⟩
    · have := resOf_err hr.symm
      subst this
      obtain ⟨a, _⟩ := load_err hl
      subst a
      refine ⟨rfl, rfl, rfl, ?_⟩
      intro hf
      rw [hf] at hex
      cases hex

/-- readers change nothing -/
theorem readers_change_nothing (s s' : St) (r : Reader) (v : Res) (h : step s (.read r) = some (s', v)) : s' = s := by
  have h : readStep s r = some (s', v) := h
  unfold readStep at h
  cases hr : readerRes s r with
  | none => simp [hr] at h
  | some x => simp [hr] at h; exact h.1.symm

/-! ### agreement along histories -/

/-- the calls that can leave memory and file in disagreement — everything else keeps agreement:
a failed in-place setter (no roll-back: the property asks for it only for the whole configuration), the caller
mutating the object in effect, somebody replacing the file of the current path, a failed load after the
path was switched, a failed `initAssets` -/
def quiet (s : St) (e : Ev) (r : Res) : Bool :=
  match e with
  | .alloc _ | .setConf _ _ | .read _ => true
  | .setGen _ _ | .setPub _ _ | .setDecoys _ _ | .setSubnets _ _ => r != .err
  | .mutate p _ => s.cfg != some p
  | .tamper d _ => d != s.path
  | .setDir _ ex => r == .ok || !ex
  | .init _ _ => r == .ok

theorem stored_append {s : St} {c x : Conf} (h : stored s = some c) :
    stored { s with heap := s.heap ++ [x] } = some c := by
  unfold stored at *
  cases hc : s.cfg with
  | none => simpa [hc] using h
  | some p =>
    simp only [hc] at h ⊢
    have hp : p < s.heap.length := (List.getElem?_eq_some_iff.mp h).1
    rw [List.getElem?_append_left hp]
    exact h

theorem sync_preserved (s s' : St) (e : Ev) (r : Res) (hs : Sync s)
    (h : step s e = some (s', r)) (hq : quiet s e r = true) : Sync s' := by
  cases he : isInPlace e with
  | true =>
    rcases inPlace_step he h with ⟨_, b⟩ | ⟨_, b⟩ | a
    · subst b; exact hs
    · exact b
    · subst a
      cases e <;> simp [isInPlace] at he <;> simp [quiet] at hq
  | false =>
    cases e <;> simp [isInPlace] at he
    case alloc c =>
      simp only [step, Option.some.injEq, Prod.mk.injEq] at h
      obtain ⟨h1, _⟩ := h
      subst h1
      obtain ⟨c0, h1, h2⟩ := hs
      exact ⟨c0, stored_append h1, h2⟩
    case setConf p io =>
      rcases setconf_all_or_nothing s s' p io r h with ⟨_, b⟩ | ⟨_, _, _, _, b⟩
      · subst b; exact hs
      · exact b
    case mutate p g =>
      simp only [quiet, bne_iff_ne, ne_eq] at hq
      have h : mutate s p g = some (s', r) := h
      unfold mutate at h
      cases hg : s.heap[p]? with
      | none => simp [hg] at h
      | some c =>
        simp only [hg, Option.some.injEq, Prod.mk.injEq] at h
        obtain ⟨h1, _⟩ := h
        subst h1
        obtain ⟨c0, h1, h2⟩ := hs
        refine ⟨c0, ?_, h2⟩
        unfold stored at *
        cases hcfg : s.cfg with
        | none => simpa [hcfg] using h1
        | some q =>
          simp only [hcfg] at h1 ⊢
          have hne : p ≠ q := fun e => hq (by rw [hcfg, e])
          rw [List.getElem?_set_ne hne]
          exact h1
    case setDir d ex =>
      have h' : setDir s d ex = (s', r) := Option.some.inj h
      rcases setDir_cases h' with ⟨_, a, _⟩ | ⟨_, _, a, _⟩ | ⟨hd, hex, e, hl, hr⟩
      · subst a; exact hs
      · subst a; exact hs
      · cases e with
        | false => exact (load_ok hl).1
        | true =>
          subst hr hex
          simp [quiet, resOf] at hq
    case init d dflt =>
      simp only [quiet, beq_iff_eq] at hq
      subst hq
      exact ((load_ok_syncs s s').1 d dflt h).1
    case tamper d f =>
      simp only [quiet, bne_iff_ne, ne_eq] at hq
      simp only [step, Option.some.injEq, Prod.mk.injEq] at h
      obtain ⟨h1, _⟩ := h
      subst h1
      obtain ⟨c0, h1, h2⟩ := hs
      refine ⟨c0, h1, ?_⟩
      have hne : ¬ s.path = d := fun e => hq e.symm
      simpa [upd, hne] using h2
    case read rd =>
      have := readers_change_nothing s s' rd r h
      subst this; exact hs

/-- every call of the history was one of the agreement-keeping kinds (computed along the run) -/
def allQuiet (s : St) : List Ev → Bool
  | [] => true
  | e :: es =>
    match step s e with
    | none => false
    | some (s', r) => quiet s e r && allQuiet s' es

/-- **Memory = file after any history of agreement-keeping calls**, however many of its stores failed -/
theorem history_sync (evs : List Ev) (s s' : St) (rs : List Res) (hs : Sync s)
    (hq : allQuiet s evs = true) (h : run s evs = some (s', rs)) : Sync s' := by
  induction evs generalizing s rs with
  | nil => simp [run] at h; obtain ⟨h1, _⟩ := h; subst h1; exact hs
  | cons e es ih =>
    simp only [run] at h
    simp only [allQuiet] at hq
    cases hst : step s e with
    | none => simp [hst] at h
    | some q =>
      obtain ⟨s1, r⟩ := q
      simp only [hst, Bool.and_eq_true] at h hq
      cases hr : run s1 es with
      | none => simp [hr] at h
      | some q2 =>
        obtain ⟨s2, rs2⟩ := q2
        simp only [hr, Option.some.injEq, Prod.mk.injEq] at h
        obtain ⟨h1, _⟩ := h
        subst h1
        exact ih s1 rs2 (sync_preserved s s1 e r hs hst hq.1) hq.2 hr

/-! ### histories of whole-configuration replacements -/

def gentle : Ev → Bool
  | .alloc _ | .setConf _ _ | .read _ => true
  | _ => false

/-- the pointer in memory after one call of a whole-configuration history -/
def pick (p0 : Option Nat) : Ev → Res → Option Nat
  | .setConf p _, .ok => p
  | _, _ => p0

/-- the argument of the last `SetClientConf` that returned nil (the pointer at the start if there is none) -/
def lastGood (p0 : Option Nat) : List Ev → List Res → Option Nat
  | e :: es, r :: rs => lastGood (pick p0 e r) es rs
  | _, _ => p0

theorem gentle_step {s s' : St} {e : Ev} {r : Res} (hg : gentle e = true) (h : step s e = some (s', r)) :
    s'.cfg = pick s.cfg e r ∧
    (∀ (q : Nat) (c : Conf), s.heap[q]? = some c → s'.heap[q]? = some c) ∧ s'.path = s.path := by
  cases e with
  | alloc c =>
    simp only [step, Option.some.injEq, Prod.mk.injEq] at h
    obtain ⟨h1, _⟩ := h
    subst h1
    refine ⟨rfl, ?_, rfl⟩
    intro q c0 hq
    have hp : q < s.heap.length := (List.getElem?_eq_some_iff.mp hq).1
    simp only [List.getElem?_append_left hp]
    exact hq
  | setConf p io =>
    rcases setconf_all_or_nothing s s' p io r h with ⟨a, b⟩ | ⟨a, b, c, d, _⟩
    · subst a b
      refine ⟨rfl, ?_, rfl⟩
      intro q c0 hq; exact hq
    · subst a
      refine ⟨b, ?_, d⟩
      intro q c0 hq; rw [c]; exact hq
  | read rd =>
    have := readers_change_nothing s s' rd r h
    subst this
    refine ⟨by cases r <;> rfl, ?_, rfl⟩
    intro q c0 hq; exact hq
  | setGen _ _ => simp [gentle] at hg
  | setPub _ _ => simp [gentle] at hg
  | setDecoys _ _ => simp [gentle] at hg
  | setSubnets _ _ => simp [gentle] at hg
  | mutate _ _ => simp [gentle] at hg
  | setDir _ _ => simp [gentle] at hg
  | init _ _ => simp [gentle] at hg
  | tamper _ _ => simp [gentle] at hg

/-- **After any history of whole-configuration replacements** (any number of them failing, at any step,
interleaved with readers and with the caller building new objects): the pointer in memory is the argument of the
last `SetClientConf` that returned nil, every object still has the content it was built with, the path is
unchanged, and the file decodes to exactly the configuration in memory. -/
theorem whole_conf_history (evs : List Ev) (s s' : St) (rs : List Res) (hs : Sync s)
    (hg : ∀ e ∈ evs, gentle e = true) (h : run s evs = some (s', rs)) :
    Sync s' ∧ s'.cfg = lastGood s.cfg evs rs ∧ s'.path = s.path ∧
      (∀ (q : Nat) (c : Conf), s.heap[q]? = some c → s'.heap[q]? = some c) := by
  induction evs generalizing s rs with
  | nil =>
    simp [run] at h
    obtain ⟨h1, h2⟩ := h
    subst h1 h2
    refine ⟨hs, rfl, rfl, ?_⟩
    intro q c0 hq; exact hq
  | cons e es ih =>
    simp only [run] at h
    cases hst : step s e with
    | none => simp [hst] at h
    | some q =>
      obtain ⟨s1, r⟩ := q
      simp only [hst] at h
      cases hr : run s1 es with
      | none => simp [hr] at h
      | some q2 =>
        obtain ⟨s2, rs2⟩ := q2
        simp only [hr, Option.some.injEq, Prod.mk.injEq] at h
        obtain ⟨h1, h2⟩ := h
        subst h1 h2
        have hge := hg e List.mem_cons_self
        have hq : quiet s e r = true := by cases e <;> simp [gentle] at hge <;> rfl
        obtain ⟨g1, g2, g3⟩ := gentle_step hge hst
        obtain ⟨i1, i2, i3, i4⟩ := ih s1 rs2 (sync_preserved s s1 e r hs hst hq)
          (fun e' h' => hg e' (List.mem_cons_of_mem _ h')) hr
        refine ⟨i1, ?_, by rw [i3, g3], ?_⟩
        · rw [i2, g1]
          rfl
        · intro q c0 hq; exact i4 q c0 (g2 q c0 hq)

/-! ### the link to the system-call model -/

/-- `save` has two outcomes: error and the file untouched, or nil and the file holding the marshalled
configuration.  These are the only two states in which the system-call model of `saveClientConf` returns, for
every sequence of answers of the environment. -/
theorem save_outcomes_are_atomic_store_outcomes {Conf : Type} (marshal : Conf → Option CJ.AtomicStore.Bytes)
    (target : CJ.AtomicStore.Path) (s0 : CJ.AtomicStore.St Conf) (h0 : s0.task = none) (rb : Bool) (c : Conf)
    (tmp : CJ.AtomicStore.Path) (hne : tmp ≠ target) (rs : List CJ.AtomicStore.Res) :
    let s := CJ.AtomicStore.run marshal target (.begin rb c tmp :: rs.map .sys) s0
    s.task = none →
      (s.lastErr = some true ∧ s.fs target = s0.fs target) ∨
      (s.lastErr = some false ∧ ∃ buf, marshal c = some buf ∧ s.fs target = some buf) := by
  intro s ht
  have h : CJ.Props.C20.Rel marshal target s0 rb c tmp s :=
    CJ.Props.C20.rel_run marshal target s0 rb c tmp hne rs _ (CJ.Props.C20.rel_begin marshal target s0 h0 rb c tmp)
  unfold CJ.Props.C20.Rel at h
  rw [ht] at h
  obtain ⟨err, herr, _, hf, hs⟩ := h
  cases err
  · exact Or.inr ⟨herr, hs rfl⟩
  · exact Or.inl ⟨herr, hf rfl⟩

/-! ### non-vacuity -/

def c1 : Conf := ⟨some 1, none, none, none, "a", true⟩
def c2 : Conf := ⟨some 2, none, none, none, "b", true⟩
def st0 : St := { heap := [c1], cfg := some 0, path := 0, disk := fun _ => .data c1 }

example : Sync st0 := ⟨c1, rfl, rfl⟩

example : ∀ e ∈ [Ev.alloc c2, .setConf (some 1) false, .read .getGen, .setConf (some 1) true], gentle e = true := by
  intro e he
  simp only [List.mem_cons, List.mem_nil_iff, or_false] at he
  rcases he with rfl | rfl | rfl | rfl <;> rfl

/-- a failed replacement followed by a successful one: results and pointer as stated -/
example :
    (run st0 [.alloc c2, .setConf (some 1) false, .read .getGen, .setConf (some 1) true]).map
      (fun r => (r.1.cfg, r.2)) = some (some 1, [.ok, .err, .val "1", .ok]) := by
  decide

/-- `quiet` is needed: a failed `SetGeneration` leaves the new generation in memory and the old one in the file -/
example :
    (run st0 [.setGen 7 false]).map (fun r => (stored r.1, decode (r.1.disk r.1.path), r.2)) =
      some (some { c1 with gen := some 7 }, some c1, [.err]) := by
  decide

end CJ.Props.C20Mem
