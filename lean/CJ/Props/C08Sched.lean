import CJ.Model.SweepLoop
import CJ.Props.C08Index
import CJ.Gen.SweepTicker
import CJ.Gen.TimeoutKey
import CJ.Gen.TimeoutUses
/-!
# C08 — the sweep is scheduled, and the timeout map is only reached the two ways the index model has

1. Regenerated go/ast facts (`go/extract/timeoutkey`, `go/extract/timeoutuses`) with `decide` theorems: every
   indexing of `decoysTimeouts` is by a `timeoutIndex(…)` call or by an index a sweep collected from the map
   itself; `removeRegistration` reaches the registration through the record's own fields — the premises of
   `CJ.RegistryIndex` (`kremove`) and of `record_under_its_own_index`.
2. The ticker loop of `main` composed with the string-indexed registry (`CJ.SweepLoop`): every run of the
   loop is a registry history with a sweep at `t0 + n·p` for each firing before the cancellation, so a record
   that is past its lifetime at `T` is gone by `T + p`: nothing stays longer than lifetime + period.
-/
namespace CJ.Props.C08Sched
open CJ.Registry CJ.RegistryIndex CJ.SweepLoop CJ.Props.C08 CJ.Props.C08Index

/-! ### facts about the source -/

/-- **every index into `decoysTimeouts` is a `timeoutIndex(…)` call or a collected index**: `track` stores and
`markActive` loads under `timeoutIndex(·,·)`; `removeRegistration` loads and deletes under its (never
re-assigned) parameter; its only caller passes the loop variable of a `range` over the result of
`getExpiredRegistrations()`, which appends nothing but the keys it ranges over in the map; the only other
mention of the map is `len` -/
theorem timeout_map_reached_by_index_fn_or_collected_index :
    CJ.Gen.TimeoutUses.indexings =
      ["markActive:load:timeoutIndex", "removeRegistration:delete:param:0",
       "removeRegistration:load:param:0", "track:store:timeoutIndex"] ∧
    CJ.Gen.TimeoutUses.removalArgs = ["removeOldRegistrations:collected"] ∧
    CJ.Gen.TimeoutUses.ranges =
      ["getExpiredRegistrations:append=key:to=expiredRegTimeoutIndices:ret=expiredRegTimeoutIndices:appendsOutside=0"] ∧
    CJ.Gen.TimeoutUses.otherMentions = ["totalTimeouts:len"] := by decide

/-- **`removeRegistration` goes by the record's own fields** (premise of `record_under_its_own_index`): the
registration it deletes is `decoys[<record>.decoy][<record>.identifier]` of the record found under the index,
and `track` fills those two fields from the very values it passes to `timeoutIndex` and stores under -/
theorem removal_follows_the_record_it_found :
    CJ.Gen.removalDecoysKeys =
      ["inner:" ++ CJ.Gen.removalRecordVar ++ ".identifier", "outer:" ++ CJ.Gen.removalRecordVar ++ ".decoy"] ∧
    CJ.Gen.recordKeyFieldInits = [("decoy", "phantomAddr"), ("identifier", "identifier")] ∧
    CJ.Gen.trackKeyUses = ["key:timeoutIndex(phantomAddr, identifier)", "store:phantomAddr,identifier"] ∧
    CJ.Gen.timeoutIndexOperands = ["param:0", "lit:|", "param:1"] ∧
    "|".toList.map Char.toNat = [CJ.RegistryIndex.sep] := by decide

/-! ### the ticker loop -/

theorem krun_cons (c : Cfg) (o : KOp) (l : List KOp) (s : KSt) :
    krun c (o :: l) s = krun c l (kstep c s o).1 := rfl

/-- **every run of the sweep goroutine is a registry history**: operations as they come, a sweep at
`t0 + n·p` for the `n`-th firing while the loop runs, nothing for a firing after the cancellation -/
theorem loop_is_a_history (c : Cfg) (t0 p : Nat) (evs : List Ev) (s : LSt) :
    (lrun c t0 p evs s).reg = krun c (hist t0 p evs s.fired s.running) s.reg ∧
    ((lrun c t0 p evs s).running = true → s.running = true) := by
  induction evs generalizing s with
  | nil => exact ⟨rfl, id⟩
  | cons e es ih =>
    obtain ⟨reg, fired, running⟩ := s
    cases e with
    | op o =>
      have := ih ⟨(kstep c reg o).1, fired, running⟩
      simpa [lrun, lstep, hist, krun_cons] using this
    | cancel =>
      have := ih ⟨reg, fired, false⟩
      refine ⟨by simpa [lrun, lstep, hist] using this.1, fun h => ?_⟩
      have h' := this.2 (by simpa [lrun, lstep] using h)
      cases h'
    | fire =>
      cases running with
      | false =>
        have := ih ⟨reg, fired, false⟩
        simpa [lrun, lstep, hist] using this
      | true =>
        have := ih ⟨(ksweep c (tickTime t0 p (fired + 1)) reg).1, fired + 1, true⟩
        have hk : (kstep c reg (.sweep (tickTime t0 p (fired + 1)))).1 =
            (ksweep c (tickTime t0 p (fired + 1)) reg).1 := rfl
        refine ⟨?_, fun _ => rfl⟩
        simpa [lrun, lstep, hist, krun_cons, hk] using this.1

theorem hist_sepFree (t0 p : Nat) (evs : List Ev) (n : Nat) (r : Bool)
    (hs : ∀ o, Ev.op o ∈ evs → o.sepFree) : ∀ op ∈ hist t0 p evs n r, op.sepFree := by
  induction evs generalizing n r with
  | nil => intro op h; cases h
  | cons e es ih =>
    have hs' : ∀ o, Ev.op o ∈ es → o.sepFree := fun o h => hs o (List.mem_cons_of_mem _ h)
    cases e with
    | op o =>
      intro op h
      simp only [hist, List.mem_cons] at h
      rcases h with rfl | h
      · exact hs _ List.mem_cons_self
      · exact ih n r hs' op h
    | cancel => intro op h; exact ih n false hs' op (by simpa [hist] using h)
    | fire =>
      cases r with
      | false => intro op h; exact ih n false hs' op (by simpa [hist] using h)
      | true =>
        intro op h
        simp only [hist, List.mem_cons] at h
        rcases h with rfl | h
        · trivial
        · exact ih (n + 1) true hs' op h

/-- a ticker of period `p > 0` created at `t0` fires in every half-open window `(T, T + p]` after `t0` -/
theorem tick_within_period (t0 p T : Nat) (hp : 0 < p) (h : t0 ≤ T) :
    ∃ n, 0 < n ∧ T < tickTime t0 p n ∧ tickTime t0 p n ≤ T + p := by
  refine ⟨(T - t0) / p + 1, Nat.succ_pos _, ?_, ?_⟩ <;>
  · unfold tickTime
    have h1 := Nat.div_add_mod (T - t0) p
    have h2 := Nat.mod_lt (T - t0) hp
    have h3 : ((T - t0) / p + 1) * p = p * ((T - t0) / p) + p := by
      rw [Nat.add_mul, Nat.mul_comm, Nat.one_mul]
    omega

/-- a record that is past its lifetime stays past it (as long as it is the same record) -/
theorem alive_antitone (c : Cfg) (T τ : Nat) (t : TO) (h : T ≤ τ) (ha : alive c τ t) : alive c T t := by
  unfold alive at *
  exact ⟨by omega, ha.2.imp id (fun _ => by omega)⟩

theorem alive_iff_limit (c : Cfg) (now : Nat) (t : TO) : alive c now t ↔ now - t.time ≤ limit c t := by
  unfold alive limit
  cases hu : t.used <;> simp <;> omega

/-- **each firing of the running loop is an exact sweep at its own time**, after any events: the
registration `k` is tracked after the firing iff its record satisfied the age rule at `t0 + n·p` -/
theorem firing_sweeps_exactly (c : Cfg) (t0 p : Nat) (evs : List Ev) (hs : ∀ o, Ev.op o ∈ evs → o.sepFree)
    (hrun : (lrun c t0 p evs).running = true) (k : Key) (hk : sepFree k) :
    let s := lrun c t0 p evs
    let after := lstep c t0 p s .fire
    (after.reg.decoys.contains k = true ↔
      ∃ t, s.reg.timeouts[idx k]? = some t ∧ alive c (tickTime t0 p (s.fired + 1)) t.to) ∧
    after.reg.timeouts.contains (idx k) = after.reg.decoys.contains k := by
  intro s after
  have hh := (loop_is_a_history c t0 p evs {}).1
  have hx := indexed_sweep_exact c (hist t0 p evs 0 true) (hist_sepFree t0 p evs 0 true hs)
    (tickTime t0 p (s.fired + 1)) k hk
  have ha : after.reg = (ksweep c (tickTime t0 p (s.fired + 1)) s.reg).1 := by
    show (lstep c t0 p s .fire).reg = _
    simp [lstep, show s.running = true from hrun]
  have hs' : s.reg = krun c (hist t0 p evs 0 true) := hh
  rw [ha, hs']
  exact hx

/-- **A registration past its lifetime at `T` is gone by `T + p`; nothing stays longer than lifetime +
period.**  For a record `r` (creation time, used flag) whose lifetime ends at or after the ticker's start:
there is a firing `n` strictly after the end of the lifetime and at most `p` later such that, whatever
happened before it (any events without cancellation — registrations, duplicates, connections, earlier
firings), if the registration's record is then still `r` the firing removes registration and record. -/
theorem gone_within_a_period (c : Cfg) (t0 p : Nat) (hp : 0 < p) (r : TO) (h0 : t0 ≤ r.time + limit c r) :
    ∃ n, 0 < n ∧ r.time + limit c r < tickTime t0 p n ∧ tickTime t0 p n ≤ r.time + limit c r + p ∧
      ∀ evs : List Ev, (∀ o, Ev.op o ∈ evs → o.sepFree) → (lrun c t0 p evs).running = true →
        (lrun c t0 p evs).fired + 1 = n → ∀ k, sepFree k →
        (∀ t, (lrun c t0 p evs).reg.timeouts[idx k]? = some t → t.to = r) →
        (lstep c t0 p (lrun c t0 p evs) .fire).reg.decoys.contains k = false ∧
        (lstep c t0 p (lrun c t0 p evs) .fire).reg.timeouts.contains (idx k) = false := by
  obtain ⟨n, hn, h1, h2⟩ := tick_within_period t0 p (r.time + limit c r) hp h0
  refine ⟨n, hn, h1, h2, ?_⟩
  intro evs hs hrun hf k hk hrec
  obtain ⟨hx, hsz⟩ := firing_sweeps_exactly c t0 p evs hs hrun k hk
  have hno : (lstep c t0 p (lrun c t0 p evs) .fire).reg.decoys.contains k = false := by
    cases hc : (lstep c t0 p (lrun c t0 p evs) .fire).reg.decoys.contains k with
    | false => rfl
    | true =>
      obtain ⟨t, ht, ha⟩ := hx.mp hc
      rw [hrec t ht, hf, alive_iff_limit] at ha
      omega
  exact ⟨hno, by rw [hsz, hno]⟩

/-- once the context is cancelled the goroutine has returned: a firing sweeps nothing -/
theorem no_sweep_after_cancel (c : Cfg) (t0 p : Nat) (s : LSt) :
    lstep c t0 p (lstep c t0 p s .cancel) .fire = lstep c t0 p s .cancel := by
  simp [lstep]

/-- the loop the model mirrors is the one in `main`, and its period is positive (regenerated go/ast fact:
a goroutine of `main` with `time.NewTicker(<constant>)` and `for { select { case <-ticker.C: …
RemoveOldRegistrations() … } }`): the bound holds for the shipped station with `p` = that period -/
theorem shipped_sweep_bound (c : Cfg) (t0 : Nat) (r : TO) :
    ∀ pns ∈ CJ.Gen.sweepTickerPeriodsNs, 0 < pns / 1000000000 ∧
      (t0 ≤ r.time + limit c r →
        ∃ n, r.time + limit c r < tickTime t0 (pns / 1000000000) n ∧
          tickTime t0 (pns / 1000000000) n ≤ r.time + limit c r + pns / 1000000000) := by
  intro pns hmem
  have hpos : 0 < pns / 1000000000 := by
    have : ∀ q ∈ CJ.Gen.sweepTickerPeriodsNs, 0 < q / 1000000000 := by decide
    exact this pns hmem
  refine ⟨hpos, fun h0 => ?_⟩
  obtain ⟨n, _, h1, h2⟩ := tick_within_period t0 _ _ hpos h0
  exact ⟨n, h1, h2⟩

/-- the hypotheses are satisfiable: registered at 0 and never used (10 min), ticker of 180 s started at 5:
the lifetime ends after the start, the 4th firing (725 s) is the one in (600, 780], and a run with an
operation and three firings is still running with the 4th firing next -/
example : 5 ≤ (⟨0, false⟩ : TO).time + limit cfg0 ⟨0, false⟩ ∧
    600 < tickTime 5 180 4 ∧ tickTime 5 180 4 ≤ 600 + 180 := by decide

example : let evs := [Ev.op (.register ("10.0.0.1", "a|b") 0 0), .fire, .fire, .fire]
    (∀ o, Ev.op o ∈ evs → o.sepFree) ∧ (lrun cfg0 5 180 evs).running = true ∧
    (lrun cfg0 5 180 evs).fired + 1 = 4 := by
  refine ⟨?_, rfl, rfl⟩
  intro o h
  simp only [List.mem_cons, Ev.op.injEq, List.not_mem_nil, reduceCtorEq, or_false] at h
  subst h
  show sepFree ("10.0.0.1", "a|b")
  decide

end CJ.Props.C08Sched
