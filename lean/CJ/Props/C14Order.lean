import CJ.Lemmas.Phantom
/-!
# C14 — the weighted choice depends on the configured list of sets, and on nothing else

Both weighted choices (`getSubnetsHkdf`: `sort.Slice` by weight + subtraction scan; `getSubnetsVarint`:
weightedrand's `NewChooser`, the same sort + running totals) order the sets of a generation by weight
only.  The sort (`sortByWeight`, insertion sort as `sort.Slice` runs it for ≤ 12 elements) is shown to
be a *stable* sort: the result is a permutation of the configured list, ascending by weight, and sets
of equal weight keep the order in which the operator wrote them.  Consequences:

* the choice is a function of the configured **list** (`weighted_choice_fixed_by_list`): nothing but the
  order of writing breaks ties;
* if all weights differ, even that order is irrelevant (`weighted_choice_perm_invariant`);
* if two sets share a weight, presenting the same sets in another order changes which set a seed picks
  (`equal_weights_order_matters`) — a selector that rebuilds the list in an unspecified order (a Go map)
  is not a function of its inputs.
-/
namespace CJ.Props.C14Order
open CJ.Phantom

abbrev Asc (l : List Group) : Prop := l.Pairwise (fun a b => a.weight ≤ b.weight)

theorem insert_asc (x : Group) (l : List Group) (h : Asc l) : Asc (insertByWeight x l) := by
  induction l with
  | nil => simp [insertByWeight]
  | cons y ys ih =>
    simp only [insertByWeight]
    split
    · rename_i hlt
      have h := List.pairwise_cons.1 h
      refine List.pairwise_cons.2 ⟨?_, List.pairwise_cons.2 h⟩
      intro z hz
      rcases List.mem_cons.1 hz with rfl | hz
      · exact Nat.le_of_lt hlt
      · exact Nat.le_trans (Nat.le_of_lt hlt) (h.1 z hz)
    · rename_i hge
      have h := List.pairwise_cons.1 h
      refine List.pairwise_cons.2 ⟨?_, ih h.2⟩
      intro z hz
      rcases mem_insertByWeight.1 hz with rfl | hz
      · exact Nat.le_of_not_lt hge
      · exact h.1 z hz

theorem insert_perm (x : Group) (l : List Group) : (insertByWeight x l).Perm (x :: l) := by
  induction l with
  | nil => simp [insertByWeight]
  | cons y ys ih =>
    simp only [insertByWeight]
    split
    · exact List.Perm.refl _
    · exact ((List.Perm.cons y ih).trans (List.Perm.swap x y ys))

/-- inserting into an ascending list puts the new set *behind* the sets of its own weight -/
theorem insert_filter (w : Nat) (x : Group) (l : List Group) (h : Asc l) :
    (insertByWeight x l).filter (fun g => g.weight == w) =
      l.filter (fun g => g.weight == w) ++ (if x.weight == w then [x] else []) := by
  induction l with
  | nil => simp [insertByWeight, List.filter_cons]
  | cons y ys ih =>
    have h := List.pairwise_cons.1 h
    simp only [insertByWeight]
    split
    · rename_i hlt
      -- everything from `y` on is strictly heavier than `x`
      by_cases hxw : x.weight = w
      · have hy : ∀ z ∈ y :: ys, (z.weight == w) = false := by
          intro z hz
          have : y.weight ≤ z.weight := by
            rcases List.mem_cons.1 hz with rfl | hz
            · exact Nat.le_refl _
            · exact h.1 z hz
          simp only [beq_eq_false_iff_ne]; omega
        have hnil : (y :: ys).filter (fun g => g.weight == w) = [] :=
          List.filter_eq_nil_iff.2 (fun z hz => by simp [hy z hz])
        rw [List.filter_cons, hnil]
        simp [hxw]
      · have : (x.weight == w) = false := by simpa using hxw
        rw [List.filter_cons]; simp [this]
    · rw [List.filter_cons, ih h.2, List.filter_cons]
      split <;> simp

theorem foldl_asc (l acc : List Group) (h : Asc acc) :
    Asc (l.foldl (fun acc x => insertByWeight x acc) acc) := by
  induction l generalizing acc with
  | nil => exact h
  | cons x xs ih => exact ih _ (insert_asc x acc h)

theorem foldl_perm (l acc : List Group) :
    (l.foldl (fun acc x => insertByWeight x acc) acc).Perm (acc ++ l) := by
  induction l generalizing acc with
  | nil => simp
  | cons x xs ih =>
    refine (ih (insertByWeight x acc)).trans ?_
    refine ((insert_perm x acc).append_right xs).trans ?_
    simpa using (List.perm_middle (a := x) (l₁ := acc) (l₂ := xs)).symm

theorem foldl_filter (w : Nat) (l acc : List Group) (h : Asc acc) :
    (l.foldl (fun acc x => insertByWeight x acc) acc).filter (fun g => g.weight == w) =
      acc.filter (fun g => g.weight == w) ++ l.filter (fun g => g.weight == w) := by
  induction l generalizing acc with
  | nil => simp
  | cons x xs ih =>
    rw [List.foldl_cons, ih _ (insert_asc x acc h), insert_filter w x acc h, List.filter_cons]
    split <;> simp

/-- the sort puts the sets in ascending order of weight … -/
theorem sort_ascending (l : List Group) : Asc (sortByWeight l) :=
  foldl_asc l [] List.Pairwise.nil

/-- … loses and invents nothing … -/
theorem sort_perm (l : List Group) : (sortByWeight l).Perm l := by
  simpa [sortByWeight] using foldl_perm l []

/-- … and is **stable**: the sets of any one weight appear in the order of the configured list. -/
theorem sort_stable (l : List Group) (w : Nat) :
    (sortByWeight l).filter (fun g => g.weight == w) = l.filter (fun g => g.weight == w) := by
  simpa [sortByWeight] using foldl_filter w l [] List.Pairwise.nil

/-- two ascending lists with the same sets and the same order within every weight class are equal -/
theorem asc_eq_of_classes : ∀ (a b : List Group), Asc a → Asc b → a.Perm b →
    (∀ w, a.filter (fun g => g.weight == w) = b.filter (fun g => g.weight == w)) → a = b
  | [], b, _, _, hp, _ => (List.Perm.nil_eq hp)
  | x :: xs, [], _, _, hp, _ => absurd hp.symm (by simp)
  | x :: xs, y :: ys, ha, hb, hp, hc => by
    have ha := List.pairwise_cons.1 ha
    have hb := List.pairwise_cons.1 hb
    -- the heads have the same weight (each is minimal in the same multiset) …
    have hxy : x.weight = y.weight := by
      have h1 : y.weight ≤ x.weight := by
        have : x ∈ y :: ys := hp.subset (List.mem_cons_self ..)
        rcases List.mem_cons.1 this with rfl | h
        · exact Nat.le_refl _
        · exact hb.1 x h
      have h2 : x.weight ≤ y.weight := by
        have : y ∈ x :: xs := hp.symm.subset (List.mem_cons_self ..)
        rcases List.mem_cons.1 this with rfl | h
        · exact Nat.le_refl _
        · exact ha.1 y h
      omega
    -- … so they head the same class, hence are the same set
    have hh := hc x.weight
    rw [List.filter_cons, List.filter_cons] at hh
    simp only [beq_self_eq_true, if_true, hxy] at hh
    simp only [List.cons.injEq] at hh
    obtain ⟨rfl, _⟩ := hh
    congr 1
    refine asc_eq_of_classes xs ys ha.2 hb.2 ((List.perm_cons _).1 hp) ?_
    intro w
    have := hc w
    rw [List.filter_cons, List.filter_cons] at this
    split at this
    · exact (List.cons.inj this).2
    · exact this

/-- **The sorted list is determined by the sets and the order of writing within each weight.** -/
theorem sort_eq_of_same_classes (l₁ l₂ : List Group) (hp : l₁.Perm l₂)
    (hc : ∀ w, l₁.filter (fun g => g.weight == w) = l₂.filter (fun g => g.weight == w)) :
    sortByWeight l₁ = sortByWeight l₂ :=
  asc_eq_of_classes _ _ (sort_ascending l₁) (sort_ascending l₂)
    ((sort_perm l₁).trans (hp.trans (sort_perm l₂).symm))
    (fun w => by rw [sort_stable, sort_stable, hc w])

/-- a weight class of a list without repeated weights has at most one member, whatever the order -/
theorem class_of_nodup_weights (l₁ l₂ : List Group) (hp : l₁.Perm l₂)
    (hd : (l₁.map (·.weight)).Nodup) (w : Nat) :
    l₁.filter (fun g => g.weight == w) = l₂.filter (fun g => g.weight == w) := by
  induction hp with
  | nil => rfl
  | cons x _ ih =>
    rw [List.map_cons, List.nodup_cons] at hd
    rw [List.filter_cons, List.filter_cons, ih hd.2]
  | swap x y l =>
    simp only [List.map_cons, List.nodup_cons, List.mem_cons, not_or] at hd
    have hne : y.weight ≠ x.weight := hd.1.1
    simp only [List.filter_cons]
    by_cases hx : x.weight = w <;> by_cases hy : y.weight = w
    · exact absurd (hy.trans hx.symm) hne
    · simp [hx, hy]
    · simp [hx, hy]
    · simp [hx, hy]
  | trans h₁ _ ih₁ ih₂ =>
    rw [ih₁ hd, ih₂ ((h₁.map _).nodup_iff.1 hd)]

/-- **Distinct weights: the order of the configured list is irrelevant** for the HKDF choice … -/
theorem weighted_choice_perm_invariant (l₁ l₂ : List Group) (hp : l₁.Perm l₂)
    (hd : (l₁.map (·.weight)).Nodup) (rnd : Int) :
    pickSubtract (sortByWeight l₁) rnd = pickSubtract (sortByWeight l₂) rnd := by
  rw [sort_eq_of_same_classes l₁ l₂ hp (class_of_nodup_weights l₁ l₂ hp hd)]

/-- … and for the legacy choice (weightedrand's chooser is built from the sorted list alone) -/
theorem chooser_perm_invariant (l₁ l₂ : List Group) (hp : l₁.Perm l₂)
    (hd : (l₁.map (·.weight)).Nodup) : (newChooser l₁).isPanic = (newChooser l₂).isPanic ∧
      sortByWeight l₁ = sortByWeight l₂ := by
  have h := sort_eq_of_same_classes l₁ l₂ hp (class_of_nodup_weights l₁ l₂ hp hd)
  refine ⟨?_, h⟩
  unfold newChooser
  rw [h]

/-- **In general the choice is fixed by the list**: two presentations of a generation that list the
same sets and agree on the order of sets of equal weight pick the same set for every draw. -/
theorem weighted_choice_fixed_by_list (l₁ l₂ : List Group) (hp : l₁.Perm l₂)
    (hc : ∀ w, l₁.filter (fun g => g.weight == w) = l₂.filter (fun g => g.weight == w)) (rnd : Int) :
    pickSubtract (sortByWeight l₁) rnd = pickSubtract (sortByWeight l₂) rnd := by
  rw [sort_eq_of_same_classes l₁ l₂ hp hc]

/-! ## equal weights: the order of presentation decides -/

def setA : Group := ⟨5, true, false, [some ⟨true, 0x0a000000, 24, 32⟩]⟩
def setB : Group := ⟨5, false, false, [some ⟨true, 0x0b000000, 24, 32⟩]⟩

/-- **Equal weights: the same two sets presented in the other order give the other set** (and with it
another address and another port-randomisation grant) for the same draw: a selector whose list order
is not an input (e.g. rebuilt by ranging over a Go map) cannot be pure. -/
theorem equal_weights_order_matters :
    [setA, setB].Perm [setB, setA] ∧
      pickSubtract (sortByWeight [setA, setB]) 0 = some setA ∧
      pickSubtract (sortByWeight [setB, setA]) 0 = some setB ∧ setA.randPort ≠ setB.randPort := by
  refine ⟨List.Perm.swap .., by decide, by decide, by decide⟩

/-- hypotheses of the invariance theorems are satisfiable -/
example : ([⟨9, true, false, []⟩, ⟨1, false, false, []⟩] : List Group).map (·.weight) = [9, 1] ∧
    ([9, 1] : List Nat).Nodup := by decide

end CJ.Props.C14Order
