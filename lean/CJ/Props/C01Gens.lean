import CJ.Model.Generations
import CJ.Props.C01
/-!
# C01 — the station's table of generations

A client selects its phantom from the configuration of the ClientConf generation it holds; the station
must answer that generation with the same configuration, whatever else has been added to, removed from
or replaced in its table since.  Theorems about the table operations of
pkg/phantoms/station_phantoms.go (`CJ.Generations`, corresponded by the `gens|…` and `gensload|…`
lines), for every table, every history and every order in which the configuration file is read.
-/
namespace CJ.Props.C01Gens
open CJ.Phantom CJ.Port CJ.Derive CJ.Generations

variable {α : Type}

/-! ### reading after writing -/

theorem find_filter_other (m : GMap α) {g g' : Nat} (h : g' ≠ g) :
    (m.filter (fun p => !(p.1 == g))).find? (fun p => p.1 == g') = m.find? (fun p => p.1 == g') := by
  induction m with
  | nil => rfl
  | cons p rest ih =>
    by_cases hp : p.1 = g
    · have h1 : (p.1 == g') = false := by
        rw [hp]; exact beq_false_of_ne (fun e => h e.symm)
      rw [List.filter_cons, if_neg (by simp [hp])]
      simp only [List.find?_cons, h1]
      exact ih
    · have h2 : (p.1 == g) = false := beq_false_of_ne hp
      rw [List.filter_cons, if_pos (by simp [h2])]
      simp only [List.find?_cons, ih]

theorem get_set_same (m : GMap α) (g : Nat) (v : Option α) : lookup (assign m g v) g = v := by
  unfold lookup assign
  simp only [List.find?_cons, beq_self_eq_true]
  cases v <;> rfl

theorem get_set_other (m : GMap α) {g g' : Nat} (v : Option α) (h : g' ≠ g) :
    lookup (assign m g v) g' = lookup m g' := by
  unfold lookup assign
  have h1 : (g == g') = false := beq_false_of_ne (fun e => h e.symm)
  simp only [List.find?_cons, h1, find_filter_other m h]

theorem any_filter_other (m : GMap α) {g g' : Nat} (h : g ≠ g') :
    (m.filter (fun p => !(p.1 == g))).any (fun p => p.1 == g') = m.any (fun p => p.1 == g') := by
  induction m with
  | nil => rfl
  | cons p rest ih =>
    by_cases hp : p.1 = g
    · have h1 : (p.1 == g') = false := by rw [hp]; exact beq_false_of_ne h
      rw [List.filter_cons, if_neg (by simp [hp]), List.any_cons, h1, Bool.false_or, ih]
    · have h2 : (p.1 == g) = false := beq_false_of_ne hp
      rw [List.filter_cons, if_pos (by simp [h2]), List.any_cons, List.any_cons, ih]

theorem taken_set (m : GMap α) (g g' : Nat) (v : Option α) :
    taken (assign m g v) g' = (g == g' || taken m g') := by
  unfold taken assign
  simp only [List.any_cons]
  by_cases h : g = g'
  · subst h; simp
  · rw [any_filter_other m h]

/-! ### the next unused index -/

theorem foldl_max (m : GMap α) (acc : Nat) :
    acc ≤ m.foldl (fun a p => max a p.1) acc ∧ ∀ p ∈ m, p.1 ≤ m.foldl (fun a p => max a p.1) acc := by
  induction m generalizing acc with
  | nil => simp
  | cons q rest ih =>
    obtain ⟨h1, h2⟩ := ih (max acc q.1)
    simp only [List.foldl_cons]
    refine ⟨by omega, ?_⟩
    intro p hp
    rcases List.mem_cons.mp hp with rfl | hp
    · omega
    · exact h2 p hp

theorem taken_le_maxKey (m : GMap α) (g : Nat) (h : taken m g = true) : g ≤ maxKey m := by
  unfold taken at h
  obtain ⟨p, hp, he⟩ := List.any_eq_true.mp h
  have := (foldl_max m 0).2 p hp
  have : p.1 = g := by simpa using he
  unfold maxKey; omega

/-- the table has room for another index (`maxGen + 1` does not wrap) -/
def NoWrap (m : GMap α) : Prop := maxKey m + 1 < word

instance (m : GMap α) : Decidable (NoWrap m) := by unfold NoWrap; infer_instance

theorem newIndex_fresh (m : GMap α) (h : NoWrap m) : taken m (newIndex m) = false := by
  cases ht : taken m (newIndex m) with
  | false => rfl
  | true =>
    have := taken_le_maxKey m _ ht
    unfold newIndex at this
    rw [Nat.mod_eq_of_lt h] at this
    omega

/-! ### `AddGeneration` -/

/-- the index `AddGeneration` uses was not in use -/
theorem add_index_fresh (m : GMap α) (gen : Int) (c : α) (h : NoWrap m) : taken m (add m gen c).2 = false := by
  unfold add
  simp only
  split
  · exact newIndex_fresh m h
  · rename_i hn
    cases ht : taken m (toUint gen) with
    | false => rfl
    | true => exact absurd (Or.inr ht) hn

/-- … and answers the configuration that was added -/
theorem add_get_index (m : GMap α) (gen : Int) (c : α) : lookup (add m gen c).1 (add m gen c).2 = some c := by
  unfold add; exact get_set_same _ _ _

/-- **Adding never disturbs a published generation**: whatever index is asked for (taken, free, -1),
every generation that was in the table answers as before. -/
theorem add_preserves (m : GMap α) (gen : Int) (c : α) (h : NoWrap m) (g : Nat) (hg : taken m g = true) :
    lookup (add m gen c).1 g = lookup m g ∧ taken (add m gen c).1 g = true := by
  have hf := add_index_fresh m gen c h
  have hne : g ≠ (add m gen c).2 := fun e => by rw [← e, hg] at hf; cases hf
  constructor
  · show lookup (assign m (add m gen c).2 (some c)) g = lookup m g
    exact get_set_other m _ hne
  · show taken (assign m (add m gen c).2 (some c)) g = true
    rw [taken_set, hg, Bool.or_true]

theorem toUint_nat (k : Nat) (hk : k < word) : toUint (k : Int) = k := by
  have hw : word = 18446744073709551616 := rfl
  rw [hw] at hk
  unfold toUint; omega

/-- a free, non-negative index is the one used -/
theorem add_requested (m : GMap α) (k : Nat) (c : α) (hk : k < word) (hf : taken m k = false) :
    (add m (k : Int) c).2 = k ∧ lookup (add m (k : Int) c).1 k = some c := by
  have hi : (add m (k : Int) c).2 = k := by
    unfold add
    simp only [toUint_nat k hk, hf]
    have : ¬ ((k : Int) = -1 ∨ false = true) := by
      intro h; rcases h with h | h
      · omega
      · cases h
    simp only [this, ↓reduceIte]
  exact ⟨hi, by have := add_get_index m (k : Int) c; rwa [hi] at this⟩

/-! ### reading the configuration file -/

def keyOf (e : Int × α) : Int := e.1

/-- **The configuration file, in any order**: when the file's generation numbers are distinct
non-negative `uint`s, every generation of the file answers with its own configuration and nothing else
is in the table — whichever order the Go map iteration hands the entries over in (the statement holds
for every list, hence for every permutation of one). -/
theorem loadFrom_get (es : List (Nat × α)) (m : GMap α)
    (hd : (es.map (·.1)).Nodup) (hk : ∀ e ∈ es, e.1 < word) (hm : ∀ e ∈ es, taken m e.1 = false) (g : Nat) :
    lookup (loadFrom m (es.map fun e => ((e.1 : Int), e.2))) g =
      (match es.find? (fun e => e.1 == g) with | some e => some e.2 | none => lookup m g) ∧
    taken (loadFrom m (es.map fun e => ((e.1 : Int), e.2))) g = (taken m g || es.any (fun e => e.1 == g)) := by
  induction es generalizing m with
  | nil => simp [loadFrom]
  | cons e rest ih =>
    obtain ⟨k, c⟩ := e
    have hkk : k < word := hk (k, c) (by simp)
    have hfk : taken m k = false := hm (k, c) (by simp)
    obtain ⟨hi, hgk⟩ := add_requested m k c hkk hfk
    simp only [List.map_cons, List.nodup_cons] at hd
    have hm' : ∀ e ∈ rest, taken (add m (k : Int) c).1 e.1 = false := by
      intro e he
      show taken (assign m (add m (k : Int) c).2 (some c)) e.1 = false
      rw [taken_set, hi, hm e (by simp [he])]
      have : k ≠ e.1 := fun h => hd.1 (List.mem_map.mpr ⟨e, he, h.symm⟩)
      simp [this]
    obtain ⟨h1, h2⟩ := ih (add m (k : Int) c).1 hd.2 (fun e he => hk e (by simp [he])) hm'
    simp only [List.map_cons, loadFrom, List.find?_cons, List.any_cons]
    constructor
    · rw [h1]
      by_cases hg : k = g
      · subst hg
        have hnone : rest.find? (fun e => e.1 == k) = none := by
          rw [List.find?_eq_none]
          intro e he
          have : e.1 ≠ k := fun h => hd.1 (List.mem_map.mpr ⟨e, he, h⟩)
          simp [this]
        simp [hnone, hgk]
      · have hb : (k == g) = false := beq_false_of_ne hg
        simp only [hb]
        cases hf : rest.find? (fun e => e.1 == g) with
        | some e => rfl
        | none =>
          show lookup (assign m (add m (k : Int) c).2 (some c)) g = lookup m g
          rw [hi]; exact get_set_other m _ (fun e => hg e.symm)
    · rw [h2]
      show (taken (assign m (add m (k : Int) c).2 (some c)) g || _) = _
      rw [taken_set, hi]
      cases (k == g) <;> cases taken m g <;> simp

theorem load_get (es : List (Nat × α)) (hd : (es.map (·.1)).Nodup) (hk : ∀ e ∈ es, e.1 < word) (g : Nat) :
    lookup (load (es.map fun e => ((e.1 : Int), e.2))) g = (es.find? (fun e => e.1 == g)).map (·.2) := by
  have := (loadFrom_get es [] hd hk (fun _ _ => rfl) g).1
  unfold load
  rw [this]
  cases es.find? (fun e => e.1 == g) <;> rfl

/-! ### histories -/

/-- the operation leaves generation `g` alone -/
def spares (g : Nat) : Op α → Prop
  | .remove g' => g' ≠ g
  | .update g' _ => g' ≠ g
  | _ => True

/-- a history that never removes or replaces `g` and never exhausts the index space -/
def Quiet (g : Nat) : GMap α → List (Op α) → Prop
  | _, [] => True
  | m, op :: ops => NoWrap m ∧ spares g op ∧ Quiet g (step m op).1 ops

theorem step_preserves (m : GMap α) (op : Op α) (g : Nat) (hw : NoWrap m) (hs : spares g op)
    (hg : taken m g = true) : lookup (step m op).1 g = lookup m g ∧ taken (step m op).1 g = true := by
  cases op with
  | add gen c => exact add_preserves m gen c hw g hg
  | remove g' =>
    have : g ≠ g' := fun e => hs e.symm
    exact ⟨get_set_other m none this, by show taken (assign m g' none) g = true; rw [taken_set, hg, Bool.or_true]⟩
  | update g' c =>
    have : g ≠ g' := fun e => hs e.symm
    exact ⟨get_set_other m (some c) this, by show taken (assign m g' (some c)) g = true; rw [taken_set, hg, Bool.or_true]⟩
  | taken _ => exact ⟨rfl, hg⟩
  | get _ => exact ⟨rfl, hg⟩

/-- **A published generation keeps its configuration through every history** of additions (under any
requested index), removals and replacements of *other* generations, and queries. -/
theorem history_preserves (ops : List (Op α)) (m : GMap α) (g : Nat) (hg : taken m g = true)
    (hq : Quiet g m ops) : lookup (run m ops).1 g = lookup m g := by
  induction ops generalizing m with
  | nil => rfl
  | cons op rest ih =>
    obtain ⟨hw, hs, hq'⟩ := hq
    obtain ⟨h1, h2⟩ := step_preserves m op g hw hs hg
    show lookup (run (step m op).1 rest).1 g = lookup m g
    rw [ih (step m op).1 h2 hq', h1]

/-! ### the rendezvous -/

theorem lookup_toCfg (m : GMap GenCfg) (g : Nat) : (toCfg m).lookup g = lookup m g := by
  unfold Cfg.lookup lookup toCfg
  simp only
  cases m.find? (fun p => p.1 == g) with
  | none => rfl
  | some p => obtain ⟨k, v⟩ := p; cases v <;> rfl

/-- the station's derivation reads the table only at the registration's generation -/
theorem stationDerive_congr (c : Crypto) (k : Consts) (cfg cfg' : Cfg) (r : Reg)
    (h : cfg.lookup r.gen = cfg'.lookup r.gen) : stationDerive c k cfg r = stationDerive c k cfg' r := by
  unfold stationDerive stationSelect
  rw [h]

/-- **The rendezvous of a published generation survives the station's configuration history**: a
registration of generation `r.gen` derives the same seed, phantom, port and identifier before and after
any quiet history — so with `station_eq_client`, a client holding that generation keeps meeting the
station. -/
theorem rendezvous_survives_history (c : Crypto) (k : Consts) (m : GMap GenCfg) (ops : List (Op GenCfg)) (r : Reg)
    (hg : taken m r.gen = true) (hq : Quiet r.gen m ops) :
    stationDerive c k (toCfg (run m ops).1) r = stationDerive c k (toCfg m) r :=
  stationDerive_congr c k _ _ r (by rw [lookup_toCfg, lookup_toCfg, history_preserves ops m r.gen hg hq])

theorem keys_unique (es : List (Nat × α)) (hd : (es.map (·.1)).Nodup) {e e' : Nat × α}
    (he : e ∈ es) (he' : e' ∈ es) (hk : e.1 = e'.1) : e = e' := by
  induction es with
  | nil => cases he
  | cons x rest ih =>
    simp only [List.map_cons, List.nodup_cons] at hd
    rcases List.mem_cons.mp he with h1 | h1 <;> rcases List.mem_cons.mp he' with h2 | h2
    · rw [h1, h2]
    · subst h1; exact (hd.1 (List.mem_map.mpr ⟨e', h2, hk.symm⟩)).elim
    · subst h2; exact (hd.1 (List.mem_map.mpr ⟨e, h1, hk⟩)).elim
    · exact ih hd.2 h1 h2

/-- the table read from a configuration file with distinct generation numbers serves every generation
of the file with the file's configuration, in whatever order it was read -/
theorem file_order_irrelevant (es es' : List (Nat × GenCfg)) (hp : es.Perm es')
    (hd : (es.map (·.1)).Nodup) (hk : ∀ e ∈ es, e.1 < word) (g : Nat) :
    (toCfg (load (es.map fun e => ((e.1 : Int), e.2)))).lookup g =
    (toCfg (load (es'.map fun e => ((e.1 : Int), e.2)))).lookup g := by
  have hd' : (es'.map (·.1)).Nodup := (hp.map _).nodup_iff.mp hd
  have hk' : ∀ e ∈ es', e.1 < word := fun e he => hk e (hp.mem_iff.mpr he)
  rw [lookup_toCfg, lookup_toCfg, load_get es hd hk, load_get es' hd' hk']
  -- both sides are "the entry with key g", unique by `hd`
  cases h : es.find? (fun e => e.1 == g) with
  | none =>
    have : es'.find? (fun e => e.1 == g) = none := by
      rw [List.find?_eq_none] at h ⊢
      exact fun e he => h e (hp.mem_iff.mpr he)
    rw [this]
  | some e =>
    have hmem := List.mem_of_find?_eq_some h
    have hkey : e.1 = g := by simpa using List.find?_some h
    cases h' : es'.find? (fun e => e.1 == g) with
    | none =>
      rw [List.find?_eq_none] at h'
      exact absurd (by simp [hkey]) (h' e (hp.mem_iff.mp hmem))
    | some e' =>
      have hmem' := hp.mem_iff.mpr (List.mem_of_find?_eq_some h')
      have hkey' : e'.1 = g := by simpa using List.find?_some h'
      rw [keys_unique es hd hmem hmem' (by rw [hkey, hkey'])]

/-! ### non-vacuity -/

example : NoWrap ([(1, some 7), (957, none)] : GMap Nat) := by decide
example : (add ([(1, some 7), (957, none)] : GMap Nat) 1 8).2 = 958 := by decide
example : (add ([(1, some 7), (957, none)] : GMap Nat) (-1) 8).2 = 958 := by decide
example : (add ([(1, some 7)] : GMap Nat) 5 8).2 = 5 := by decide
example : Quiet 1 ([(1, some 7)] : GMap Nat) [.add 1 8, .remove 2, .add (-1) 9, .update 2 3] := by
  refine ⟨by decide, trivial, by decide, by simp [spares], by decide, trivial, by decide, by simp [spares], trivial⟩
example : lookup (run ([(1, some 7)] : GMap Nat) [.add 1 8, .remove 2, .add (-1) 9, .update 2 3]).1 1 = some 7 := by decide
example : ((([(1, 7), (2, 8)] : List (Nat × Nat)).map (·.1)).Nodup) := by decide

end CJ.Props.C01Gens
