import CJ.Model.ByteCounters
import CJ.Props.C05
/-!
# C05 — the process-wide byte counters equal what was delivered

For **every** history — any number of sessions, any interleaving of their chunks in both directions, epoch
boundaries anywhere — the counters of `Stat()` hold the sum over sessions of the bytes delivered in each direction
since the last boundary, and the closed epochs together with the current one hold everything ever delivered.
-/
namespace CJ.Props.C05Bytes
open CJ.ByteCounters

theorem get_add (c : Ctr) (u up : Bool) (n : Nat) :
    (c.add u n).get up = c.get up + (if u = up then n else 0) := by
  cases u <;> cases up <;> simp [Ctr.add, Ctr.get]

theorem runFrom_total (s : St) (evs : List Ev) (up : Bool) :
    (runFrom s evs).total up = s.total up + delivered up evs := by
  induction evs generalizing s with
  | nil => simp [runFrom, delivered]
  | cons e evs ih =>
    have : runFrom s (e :: evs) = runFrom (step s e) evs := rfl
    rw [this, ih]
    cases e with
    | chunk se u n =>
      simp only [step, St.total, delivered, List.map_cons, List.sum_cons, amt, get_add]
      omega
    | reset =>
      simp only [step, St.total, delivered, List.map_cons, List.sum_cons, amt, List.map_append, List.sum_append,
        List.map_nil, List.sum_nil]
      simp [Ctr.get]

theorem runFrom_cur (s : St) (evs : List Ev) (up : Bool) (h : noReset evs) :
    (runFrom s evs).cur.get up = s.cur.get up + delivered up evs ∧ (runFrom s evs).closed = s.closed := by
  induction evs generalizing s with
  | nil => simp [runFrom, delivered]
  | cons e evs ih =>
    have hr : runFrom s (e :: evs) = runFrom (step s e) evs := rfl
    have h' : noReset evs := fun x hx => h x (List.mem_cons_of_mem _ hx)
    rw [hr]
    obtain ⟨i1, i2⟩ := ih (step s e) h'
    cases e with
    | chunk se u n =>
      rw [i1, i2]
      simp only [step, delivered, List.map_cons, List.sum_cons, amt, get_add]
      exact ⟨by omega, trivial⟩
    | reset => exact absurd rfl (h .reset (List.mem_cons_self))

/-- **Closed epochs + the current one = everything delivered**, wherever the boundaries fall. -/
theorem total_equals_delivered (evs : List Ev) (up : Bool) : (run evs).total up = delivered up evs := by
  have := runFrom_total {} evs up
  simpa [run, St.total, Ctr.get] using this

/-- **Within an epoch the counter is the bytes delivered in it.** -/
theorem counter_equals_delivered (evs : List Ev) (up : Bool) (h : noReset evs) :
    (run evs).cur.get up = delivered up evs := by
  have := (runFrom_cur {} evs up h).1
  simpa [run, Ctr.get] using this

/-- after a boundary only what follows it counts: the counter is the bytes delivered since the last boundary -/
theorem counter_since_last_reset (pre post : List Ev) (up : Bool) (h : noReset post) :
    (run (pre ++ .reset :: post)).cur.get up = delivered up post := by
  have e : run (pre ++ .reset :: post) = runFrom (step (runFrom {} pre) .reset) post := by
    simp [run, runFrom, List.foldl_append]
  rw [e, (runFrom_cur _ post up h).1]
  simp [step, Ctr.get]

theorem sum_sessAmt (ss : List Nat) (up : Bool) (e : Ev) (hn : ss.Nodup) (hm : ∀ s, sessOf e = some s → s ∈ ss) :
    (ss.map (fun s => sessAmt s up e)).sum = amt up e := by
  cases e with
  | reset =>
    clear hn hm
    induction ss with
    | nil => rfl
    | cons a t ih => simpa [sessAmt, amt] using ih
  | chunk se u n =>
    have hmem : se ∈ ss := hm se rfl
    clear hm
    induction ss with
    | nil => cases hmem
    | cons a t ih =>
      have hn' := List.nodup_cons.1 hn
      simp only [List.map_cons, List.sum_cons]
      by_cases ha : se = a
      · subst ha
        have hz : (t.map (fun s => sessAmt s up (.chunk se u n))).sum = 0 := by
          have : ∀ s ∈ t, sessAmt s up (.chunk se u n) = 0 := by
            intro s hs
            have : se ≠ s := fun h => hn'.1 (h ▸ hs)
            simp [sessAmt, this]
          clear ih hn hn' hmem
          induction t with
          | nil => rfl
          | cons b t' ih' =>
            simp only [List.map_cons, List.sum_cons]
            rw [this b List.mem_cons_self, ih' (fun s hs => this s (List.mem_cons_of_mem _ hs))]
        rw [hz]; simp [sessAmt, amt]
      · have hmt : se ∈ t := by
          rcases List.mem_cons.1 hmem with h | h
          · exact absurd h ha
          · exact h
        rw [ih hn'.2 hmt]
        simp [sessAmt, ha]

/-- **Sum over sessions.**  The bytes delivered in a direction are the sum, over the sessions that took part, of
what each session delivered — so the counter of an epoch is the sum over sessions of their bytes in that epoch. -/
theorem delivered_is_sum_over_sessions (ss : List Nat) (evs : List Ev) (up : Bool) (hn : ss.Nodup)
    (hm : ∀ e ∈ evs, ∀ s, sessOf e = some s → s ∈ ss) :
    delivered up evs = (ss.map (fun s => sessDelivered s up evs)).sum := by
  induction evs with
  | nil =>
    simp only [delivered, sessDelivered, List.map_nil, List.sum_nil]
    clear hn hm
    induction ss with
    | nil => rfl
    | cons a t ih => simpa using ih
  | cons e evs ih =>
    have ih' := ih (fun x hx => hm x (List.mem_cons_of_mem _ hx))
    have h1 := sum_sessAmt ss up e hn (hm e List.mem_cons_self)
    have split : (ss.map (fun s => sessDelivered s up (e :: evs))).sum =
        (ss.map (fun s => sessAmt s up e)).sum + (ss.map (fun s => sessDelivered s up evs)).sum := by
      clear hn hm ih ih' h1
      induction ss with
      | nil => rfl
      | cons a t iht =>
        simp only [List.map_cons, List.sum_cons, iht]
        simp only [sessDelivered, List.map_cons, List.sum_cons]
        omega
    rw [split, h1, ← ih']
    simp [delivered]

/-- **Any interleaving.**  Two histories with the same events in any order (every schedule of the concurrent
directions and of the statistics loop) account for the same totals. -/
theorem interleaving_irrelevant (e1 e2 : List Ev) (up : Bool) (h : e1.Perm e2) :
    (run e1).total up = (run e2).total up := by
  rw [total_equals_delivered, total_equals_delivered]
  exact (h.map (amt up)).sum_nat

/-- … and within an epoch the counters themselves agree -/
theorem interleaving_irrelevant_in_epoch (e1 e2 : List Ev) (up : Bool) (h : e1.Perm e2) (hr : noReset e1) :
    (run e1).cur.get up = (run e2).cur.get up := by
  have hr2 : noReset e2 := fun x hx => hr x (h.mem_iff.2 hx)
  rw [counter_equals_delivered _ _ hr, counter_equals_delivered _ _ hr2]
  exact (h.map (amt up)).sum_nat

/-- **Chunking is irrelevant**: a `Write` that delivers `a + b` bytes counts as two that deliver `a` and `b`. -/
theorem chunking_irrelevant (pre post : List Ev) (s : Nat) (u up : Bool) (a b : Nat) :
    (run (pre ++ .chunk s u (a + b) :: post)).total up = (run (pre ++ .chunk s u a :: .chunk s u b :: post)).total up := by
  rw [total_equals_delivered, total_equals_delivered]
  simp only [delivered, List.map_append, List.map_cons, List.sum_append, List.sum_cons, amt]
  split <;> omega

/-- **Tie to the relay model**: a direction of the relay (`CJ.HalfPipe.halfPipe`, any fault script) contributes its
`counted`, which is the number of bytes it delivered (`CJ.Props.C05.stats_equal_delivered`). -/
theorem relay_direction_contributes_delivered (sess : Nat) (up : Bool) (st : CJ.HalfPipe.Stats) (sc : CJ.HalfPipe.Script) :
    (run [.chunk sess up (CJ.HalfPipe.halfPipe up st sc).counted]).cur.get up =
      (CJ.HalfPipe.halfPipe up st sc).delivered.length := by
  rw [counter_equals_delivered _ _ (by intro e he; simp at he; subst he; simp)]
  simp only [delivered, amt, List.map_cons, List.map_nil, List.sum_cons, List.sum_nil, if_true, Nat.add_zero]
  exact CJ.Props.C05.stats_equal_delivered up st sc

/-! non-vacuity -/
def exH : List Ev := [.chunk 0 true 5, .chunk 1 false 7, .chunk 1 true 2, .reset, .chunk 0 false 3, .chunk 1 true 4]
example : (run exH).cur = { up := 4, down := 3 } ∧ (run exH).closed = [{ up := 7, down := 7 }] := by decide
example : (run exH).total true = 11 ∧ (run exH).total false = 10 := by decide
example : [0, 1].Nodup ∧ ∀ e ∈ exH, ∀ s, sessOf e = some s → s ∈ [0, 1] := by decide
example : noReset [Ev.chunk 0 true 5, .chunk 1 false 7] := by
  intro e he; simp at he; rcases he with rfl | rfl <;> simp

end CJ.Props.C05Bytes
