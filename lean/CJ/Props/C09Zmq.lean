import CJ.Lemmas.ZmqMerge
/-! C09, the ZMQ front (`pkg/station/lib/zmq_proxy.go`): the merging proxy `proxyZMQ` and the receive loop of `RunZMQ`.
Every theorem quantifies over every action list (every schedule of arrivals, reader goroutines, forwarder, consumer,
cancellation, stats resets); disabled actions are stutter steps. -/
namespace CJ.Props.C09Zmq
open CJ.ZmqMerge

/-- For every schedule and every source i: what went out from i, then the frame reader i holds, then what is still unread
on i's socket, is exactly what arrived at i, in arrival order.  (Hence: no frame of i goes out twice, none overtakes
another of the same source, and the output is an interleaving of the per-source histories.) -/
theorem every_frame_forwarded_at_most_once_in_source_order (as : List Act) (i : Nat) :
    outOf (run init as) i ++ ((run init as).hand i).toList ++ (run init as).queue i = (run init as).hist i :=
  inv_run init as inv_init i

/-- the output has exactly one entry per completed hand-over to the forwarder -/
theorem out_length_is_forward_count (as : List Act) : (run init as).out.length = fwdCount init as := by
  simpa [init] using out_length_run init as

/-- every output frame arrived at the source it is attributed to -/
theorem nothing_invented (as : List Act) (fr : Frame) (h : fr ∈ (run init as).out) :
    fr.val ∈ (run init as).hist fr.src := by
  rw [← every_frame_forwarded_at_most_once_in_source_order as fr.src]
  refine List.mem_append_left _ (List.mem_append_left _ ?_)
  simp only [outOf, List.mem_map, List.mem_filter]
  exact ⟨fr, ⟨h, by simp⟩, rfl⟩

example : (⟨1, 7⟩ : Frame) ∈ (run init [.arrive 1 7, .read 1, .forward 1]).out := by decide

/-- at quiescence (nothing unread, nothing in a reader's hand) every frame that arrived at i went out exactly once, in order -/
theorem quiescent_all_forwarded (as : List Act) (i : Nat)
    (hq : (run init as).queue i = []) (hh : (run init as).hand i = none) :
    outOf (run init as) i = (run init as).hist i := by
  have := every_frame_forwarded_at_most_once_in_source_order as i
  simpa [hq, hh] using this

example : (run init [.arrive 0 5, .read 0, .forward 0]).queue 0 = [] ∧ (run init [.arrive 0 5, .read 0, .forward 0]).hand 0 = none := by
  decide

/-- progress, local form: while source i owes something, one of its two actions is enabled, lowers `pending` of i by one
and leaves every other source's queue and hand alone -/
theorem progress_step (s : St) (i : Nat) (h : 0 < pending s i) :
    ∃ a, (a = .read i ∨ a = .forward i) ∧ pending (step s a) i + 1 = pending s i ∧
      ∀ j, j ≠ i → (step s a).queue j = s.queue j ∧ (step s a).hand j = s.hand j := by
  cases hh : s.hand i with
  | some f =>
    refine ⟨.forward i, Or.inr rfl, ?_, fun j e => ?_⟩
    · simp [pending, step, hh]
    · simp [step, hh, upd_other _ _ _ _ e]
  | none =>
    cases hq : s.queue i with
    | nil => simp [pending, hh, hq] at h
    | cons f q =>
      refine ⟨.read i, Or.inl rfl, ?_, fun j e => ?_⟩
      · simp [pending, step, hh, hq]; omega
      · simp [step, hh, hq, upd_other _ _ _ _ e]

example : 0 < pending (run init [.arrive 2 9]) 2 := by decide

/-- progress, global form: from ANY reachable state a schedule of the reader / forwarder actions of bounded length
(`drainAll`, `2·|queue i| + 1` steps per source) empties every source below n, and then every frame that arrived at
such a source has been forwarded exactly once, in order: "every frame received from any source is forwarded exactly once" -/
theorem every_frame_forwarded_exactly_once_at_quiescence (as : List Act) (n i : Nat) (hi : i < n) :
    let s := run init as
    let s' := run init (as ++ drainAll s n)
    s'.queue i = [] ∧ s'.hand i = none ∧ outOf s' i = s'.hist i := by
  intro s s'
  have hs' : s' = run s (drainAll s n) := run_append init as _
  have sp := (drainAll_spec s n).1 i hi
  rw [← hs'] at sp
  refine ⟨sp.1, sp.2, ?_⟩
  have := every_frame_forwarded_at_most_once_in_source_order (as ++ drainAll s n) i
  change outOf s' i ++ (s'.hand i).toList ++ s'.queue i = s'.hist i at this
  simpa [sp.1, sp.2] using this

/-! ### RunZMQ -/

/-- the three counters are exact for every history: `zmqMessages` = frames received since the last `Reset`, `dropped` =
drops since the last `Reset`, `totalDropped` = all drops ever (= number of dropped frames); and delivered (taken ++ still in
regChan), dropped and lost-at-cancel (at most one frame, exactly one iff the loop returned) partition the received frames,
with the delivered ones in reception order -/
theorem zmq_counters_exact (c : Nat) (as : List RAct) :
    let s := rrun (initRun c) as
    s.zmqMessages = (sinceReset s.log).countP isGot ∧
    s.dropped = (sinceReset s.log).countP isDrop ∧
    s.totalDropped = s.log.countP isDrop ∧
    s.totalDropped = s.droppedFrames.length ∧
    List.Perm s.recvd (s.taken ++ s.chan ++ s.droppedFrames ++ s.lostFrames) ∧
    List.Sublist (s.taken ++ s.chan) s.recvd ∧
    s.lostFrames.length ≤ 1 ∧ (s.lostFrames.length = 1 ↔ s.returned = true) := by
  intro s
  have h := rinv_run (initRun c) as (rinv_init c)
  refine ⟨h.msgs, h.drops, h.total, h.totalLen, ?_, h.order, h.lost1, h.lostRet⟩
  rw [List.perm_iff_count]
  intro f
  have := h.count f
  simp only [List.count_append] at this ⊢
  omega

/-- the log really is the history of the loop: its `got` entries are the received frames -/
theorem zmq_total_received (c : Nat) (as : List RAct) :
    (rrun (initRun c) as).log.countP isGot = (rrun (initRun c) as).recvd.length := by
  suffices ∀ (s : Run), s.log.countP isGot = s.recvd.length →
      (rrun s as).log.countP isGot = (rrun s as).recvd.length from this _ rfl
  induction as with
  | nil => intro s h; exact h
  | cons a as ih =>
    intro s h
    rw [rrun_cons]
    apply ih
    cases a with
    | recv f pd =>
      simp only [rstep]
      split
      · exact h
      · split
        · simp [List.countP_cons, isGot, h]
        · split <;> simp [List.countP_cons, isGot, h]
    | take => simp only [rstep]; split <;> exact h
    | cancel => exact h
    | reset => simp [rstep, List.countP_cons, isGot, h]

/-- the capacity of regChan is a constant of the run -/
theorem zmq_cap_const (c : Nat) (as : List RAct) : (rrun (initRun c) as).cap = c := by
  suffices ∀ (t : Run) (l : List RAct), (rrun t l).cap = t.cap from this _ _
  intro t l
  induction l generalizing t with
  | nil => rfl
  | cons a l ih =>
    rw [rrun_cons, ih]
    cases a with
    | recv f pd => simp only [rstep]; split; rfl; split; rfl; split <;> rfl
    | take => simp only [rstep]; split <;> rfl
    | cancel => rfl
    | reset => rfl

theorem recv_step_cases (s : Run) (f : Nat) (pd : Bool) (hr : s.returned = false) (hroom : s.chan.length ≤ s.cap) :
    (rstep s (.recv f pd)).recvd = s.recvd ++ [f] ∧ (rstep s (.recv f pd)).chan.length ≤ s.cap ∧
    (((rstep s (.recv f pd)).chan = s.chan ++ [f] ∧ s.chan.length < s.cap ∧
        (rstep s (.recv f pd)).totalDropped = s.totalDropped ∧ (rstep s (.recv f pd)).returned = false) ∨
     ((rstep s (.recv f pd)).chan = s.chan ∧ s.chan.length = s.cap ∧
        (rstep s (.recv f pd)).totalDropped = s.totalDropped + 1 ∧ (rstep s (.recv f pd)).returned = false ∧ s.cancelled = false) ∨
     ((rstep s (.recv f pd)).chan = s.chan ∧ (rstep s (.recv f pd)).returned = true ∧ s.cancelled = true ∧
        (rstep s (.recv f pd)).totalDropped = s.totalDropped)) := by
  by_cases hcan : s.cancelled = true <;> by_cases hready : s.chan.length < s.cap <;> cases pd <;>
    simp [rstep, hr, hcan, hready] <;> omega

/-- the receiver never blocks on the hand-off: in every reachable state where the loop has not returned, one step
disposes of ANY received frame (into regChan, into the drop count, or by returning), whatever the consumer does;
regChan never exceeds its capacity; and a frame is dropped only when regChan is full (and the context is live) -/
theorem zmq_receiver_never_blocks_on_handoff (c : Nat) (as : List RAct) (f : Nat) (pd : Bool)
    (hr : (rrun (initRun c) as).returned = false) :
    (rstep (rrun (initRun c) as) (.recv f pd)).recvd = (rrun (initRun c) as).recvd ++ [f] ∧
    (rstep (rrun (initRun c) as) (.recv f pd)).chan.length ≤ c ∧
    (((rstep (rrun (initRun c) as) (.recv f pd)).chan = (rrun (initRun c) as).chan ++ [f] ∧
        (rrun (initRun c) as).chan.length < c ∧
        (rstep (rrun (initRun c) as) (.recv f pd)).totalDropped = (rrun (initRun c) as).totalDropped ∧
        (rstep (rrun (initRun c) as) (.recv f pd)).returned = false) ∨
     ((rstep (rrun (initRun c) as) (.recv f pd)).chan = (rrun (initRun c) as).chan ∧
        (rrun (initRun c) as).chan.length = c ∧
        (rstep (rrun (initRun c) as) (.recv f pd)).totalDropped = (rrun (initRun c) as).totalDropped + 1 ∧
        (rstep (rrun (initRun c) as) (.recv f pd)).returned = false ∧ (rrun (initRun c) as).cancelled = false) ∨
     ((rstep (rrun (initRun c) as) (.recv f pd)).chan = (rrun (initRun c) as).chan ∧
        (rstep (rrun (initRun c) as) (.recv f pd)).returned = true ∧ (rrun (initRun c) as).cancelled = true ∧
        (rstep (rrun (initRun c) as) (.recv f pd)).totalDropped = (rrun (initRun c) as).totalDropped)) := by
  have h := recv_step_cases (rrun (initRun c) as) f pd hr (rinv_run (initRun c) as (rinv_init c)).room
  rw [zmq_cap_const] at h
  exact h

example : (rrun (initRun 1) [.recv 1 false, .recv 2 false]).returned = false := by decide

/-- observation on the source: `ctx.Done()` is only looked at after a frame was received.  After the cancellation, as long as
no further frame arrives, the loop has NOT returned — whatever else happens (consumer, stats) -/
theorem cancel_needs_a_frame (c : Nat) (pre post : List RAct)
    (hpre : (rrun (initRun c) pre).returned = false) (hpost : ∀ a ∈ post, isRecv a = false) :
    (rrun (initRun c) (pre ++ [.cancel] ++ post)).returned = false := by
  rw [rrun_append, rrun_append, returned_of_nonrecv_run _ _ hpost,
    returned_of_nonrecv_run _ [.cancel] (by simp [isRecv])]
  exact hpre

example : (rrun (initRun 2) [.recv 1 false]).returned = false ∧ ∀ a ∈ [RAct.take, RAct.reset], isRecv a = false := by
  decide

theorem cancelled_recv_cases (s : Run) (f : Nat) (pd : Bool) (hc : s.cancelled = true) (hr : s.returned = false) :
    ((rstep s (.recv f pd)).returned = true ∧ (rstep s (.recv f pd)).lostFrames = s.lostFrames ++ [f]) ∨
    (pd = false ∧ s.chan.length < s.cap ∧ (rstep s (.recv f pd)).chan = s.chan ++ [f] ∧
      (rstep s (.recv f pd)).returned = false) := by
  by_cases hready : s.chan.length < s.cap <;> cases pd <;> simp [rstep, hr, hc, hready]

/-- … and the next frame ends the loop when regChan is full; with room Go may pick either ready case -/
theorem cancelled_loop_returns_on_next_frame (c : Nat) (as : List RAct) (f : Nat) (pd : Bool)
    (hc : (rrun (initRun c) as).cancelled = true) (hr : (rrun (initRun c) as).returned = false) :
    ((rstep (rrun (initRun c) as) (.recv f pd)).returned = true ∧
      (rstep (rrun (initRun c) as) (.recv f pd)).lostFrames = (rrun (initRun c) as).lostFrames ++ [f]) ∨
    (pd = false ∧ (rrun (initRun c) as).chan.length < c ∧
      (rstep (rrun (initRun c) as) (.recv f pd)).chan = (rrun (initRun c) as).chan ++ [f] ∧
      (rstep (rrun (initRun c) as) (.recv f pd)).returned = false) := by
  have h := cancelled_recv_cases (rrun (initRun c) as) f pd hc hr
  rw [zmq_cap_const] at h
  exact h

example : (rrun (initRun 1) [.cancel]).cancelled = true ∧ (rrun (initRun 1) [.cancel]).returned = false := by decide
example : (rrun (initRun 1) [.cancel, .recv 3 true]).returned = true := by decide

/-- `Reset` zeroes the two epoch counters and keeps the total -/
theorem reset_keeps_total (s : Run) :
    (rstep s .reset).zmqMessages = 0 ∧ (rstep s .reset).dropped = 0 ∧ (rstep s .reset).totalDropped = s.totalDropped :=
  ⟨rfl, rfl, rfl⟩

end CJ.Props.C09Zmq
