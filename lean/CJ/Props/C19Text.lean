import CJ.Props.C19
import CJ.Model.BlocklistText
/-!
# C19, growth: `ParseBlocklists` on the text of the entries

The load theorems of `CJ.Props.C19` take the entry parser as an oracle.  Here they are instantiated with modelled
code — `strings.TrimSpace` then `net.ParseCIDR` (`CJ.BlocklistText.cidr`), decisions by `CJ.NetAddr.contains` —
so that "an entry that cannot be parsed" and "enforced" are statements about the *text* of a configuration:

* `text_load_never_panics`, `text_unparsable_entry_is_an_error` — whatever the three subnet lists contain, the load
  returns; one entry whose trimmed text `ParseCIDR` refuses makes it an error (nothing is dropped silently);
* `text_blocklist_entry_enforced`, `text_phantom_entry_enforced`, `text_allowlist_enforced` — in an accepted
  configuration every address `Contains` finds inside the network an entry's text denotes is refused (blocklists) /
  is the only kind admitted (allowlist);
* `trimSpace_surrounding`, `cidr_ignores_surrounding_space` — white space around an entry never changes what it
  denotes (the shipped `"fc00::/7 "`), `trimSpace_ends` — nothing else is removed.
-/

namespace CJ.Props.C19
open CJ.Config CJ.BlocklistText

variable {Pat : Type}

theorem cidr_never_panics (s : String) : cidr s ≠ .panic := by
  unfold cidr; split <;> simp

/-- the load returns (a value or an error) for every text in the three subnet lists -/
theorem text_load_never_panics (re : String → Outcome Pat) (hr : ∀ s, re s ≠ .panic)
    (ifaces : Option (List CJ.NetAddr.IPNet)) (raw : Raw) : parseText re ifaces raw ≠ .panic := by
  have := load_no_panic cidr re cidr_never_panics hr ifaces (.ok (some raw))
  simpa [parseConfig, parseText] using this

/-- **An entry that cannot be parsed makes the load fail**: if the trimmed text of one entry of
`covert_blocklist_subnets`, `phantom_blocklist` or `covert_allowlist_subnets` is refused by `ParseCIDR`, the load is
an error — whatever the other entries are and wherever the bad one stands. -/
theorem text_unparsable_entry_is_an_error (re : String → Outcome Pat) (hr : ∀ s, re s ≠ .panic)
    (ifaces : Option (List CJ.NetAddr.IPNet)) (raw : Raw) (s : String)
    (hs : s ∈ raw.block ∨ s ∈ raw.phantom ∨ s ∈ raw.allow)
    (hbad : CJ.NetAddr.parseCIDR (trimSpace s.toList) = none) :
    parseText re ifaces raw = .err := by
  have h := malformed_entry_is_an_error cidr re cidr_never_panics hr ifaces raw
    (Or.inl ⟨s, hs, by intro n; simp [cidr, hbad]⟩)
  simpa [parseConfig, parseText] using h

theorem cidr_ok_iff (s : String) (n : CJ.NetAddr.IPNet) :
    cidr s = .ok n ↔ CJ.NetAddr.parseCIDR (trimSpace s.toList) = some n := by
  unfold cidr
  split <;> rename_i h <;> simp [h]

/-- **A blocklist entry is enforced as written**: accepted configuration without an allowlist, an entry whose
trimmed text denotes the network `n`, an address `Contains` finds in `n` — refused. -/
theorem text_blocklist_entry_enforced (re : String → Outcome Pat) (ifaces : Option (List CJ.NetAddr.IPNet))
    (raw : Raw) (parsed : Parsed CJ.NetAddr.IPNet Pat) (h : parseText re ifaces raw = .ok parsed)
    (hno : raw.allow = []) (s : String) (hs : s ∈ raw.block) (n : CJ.NetAddr.IPNet)
    (hn : CJ.NetAddr.parseCIDR (trimSpace s.toList) = some n) (ip : List Nat)
    (hc : CJ.NetAddr.contains n ip = true) : covertBlocked parsed ip = true :=
  (blocklist_enforced_iff cidr re ifaces raw parsed h hno CJ.NetAddr.contains ip).mpr
    (Or.inl ⟨s, hs, n, (cidr_ok_iff s n).mpr hn, hc⟩)

/-- **A phantom-blocklist entry is enforced as written**, and nothing else is refused as a phantom -/
theorem text_phantom_entry_enforced (re : String → Outcome Pat) (ifaces : Option (List CJ.NetAddr.IPNet))
    (raw : Raw) (parsed : Parsed CJ.NetAddr.IPNet Pat) (h : parseText re ifaces raw = .ok parsed) (ip : List Nat) :
    phantomBlocked parsed ip = true ↔
      ∃ s ∈ raw.phantom, ∃ n, CJ.NetAddr.parseCIDR (trimSpace s.toList) = some n ∧ CJ.NetAddr.contains n ip = true := by
  rw [phantomBlocked, phantom_enforced_iff cidr re ifaces raw parsed h CJ.NetAddr.contains ip]
  constructor
  · rintro ⟨s, hs, n, hn, hc⟩; exact ⟨s, hs, n, (cidr_ok_iff s n).mp hn, hc⟩
  · rintro ⟨s, hs, n, hn, hc⟩; exact ⟨s, hs, n, (cidr_ok_iff s n).mpr hn, hc⟩

/-- **An allowlist is enforced as written**: with an allowlist configured an address is admitted iff the text of
one of its entries denotes a network that contains it -/
theorem text_allowlist_enforced (re : String → Outcome Pat) (ifaces : Option (List CJ.NetAddr.IPNet))
    (raw : Raw) (parsed : Parsed CJ.NetAddr.IPNet Pat) (h : parseText re ifaces raw = .ok parsed)
    (hne : raw.allow ≠ []) (ip : List Nat) :
    covertBlocked parsed ip = false ↔
      ∃ s ∈ raw.allow, ∃ n, CJ.NetAddr.parseCIDR (trimSpace s.toList) = some n ∧ CJ.NetAddr.contains n ip = true := by
  rw [covertBlocked, allowlist_enforced_iff cidr re ifaces raw parsed h hne CJ.NetAddr.contains ip]
  constructor
  · rintro ⟨s, hs, n, hn, hc⟩; exact ⟨s, hs, n, (cidr_ok_iff s n).mp hn, hc⟩
  · rintro ⟨s, hs, n, hn, hc⟩; exact ⟨s, hs, n, (cidr_ok_iff s n).mpr hn, hc⟩

/-! ## `strings.TrimSpace` -/

theorem dropWhile_all_prefix {α : Type} (p : α → Bool) (pre s : List α) (h : ∀ c ∈ pre, p c = true) :
    (pre ++ s).dropWhile p = s.dropWhile p := by
  induction pre with
  | nil => rfl
  | cons a t ih =>
    have ha : p a = true := h a (by simp)
    simp only [List.cons_append, List.dropWhile_cons, ha, if_true]
    exact ih (fun c hc => h c (by simp [hc]))

theorem dropWhile_all {α : Type} (p : α → Bool) (l : List α) (h : ∀ c ∈ l, p c = true) : l.dropWhile p = [] := by
  have := dropWhile_all_prefix p l [] h
  simpa using this

theorem trim_right_suffix {α : Type} (p : α → Bool) (t post : List α) (h : ∀ c ∈ post, p c = true) :
    ((t ++ post).dropWhile p).reverse.dropWhile p = (t.dropWhile p).reverse.dropWhile p := by
  induction t with
  | nil => simp [dropWhile_all p post h]
  | cons a t ih =>
    by_cases ha : p a = true
    · simp only [List.cons_append, List.dropWhile_cons, ha, if_true]; exact ih
    · simp only [List.cons_append, List.dropWhile_cons, ha]
      simp only [Bool.false_eq_true, if_false, List.reverse_cons, List.reverse_append, List.append_assoc]
      exact dropWhile_all_prefix p post.reverse _ (fun c hc => h c (List.mem_reverse.mp hc))

/-- **White space around an entry is ignored**: any run of space characters before and after a text is trimmed
away completely -/
theorem trimSpace_surrounding (pre s post : List Char) (hpre : ∀ c ∈ pre, isSpace c = true)
    (hpost : ∀ c ∈ post, isSpace c = true) : trimSpace (pre ++ s ++ post) = trimSpace s := by
  unfold trimSpace
  rw [List.append_assoc, dropWhile_all_prefix isSpace pre _ hpre, trim_right_suffix isSpace s post hpost]

/-- an entry written with white space around it denotes the same network (or is refused alike) -/
theorem cidr_ignores_surrounding_space (pre s post : String) (hpre : ∀ c ∈ pre.toList, isSpace c = true)
    (hpost : ∀ c ∈ post.toList, isSpace c = true) : cidr (pre ++ s ++ post) = cidr s := by
  unfold cidr
  rw [String.toList_append, String.toList_append, trimSpace_surrounding _ _ _ hpre hpost]

theorem dropWhile_head_not {α : Type} (p : α → Bool) (l : List α) (a : α) (r : List α)
    (h : l.dropWhile p = a :: r) : p a = false := by
  induction l with
  | nil => simp at h
  | cons b t ih =>
    by_cases hb : p b = true
    · simp only [List.dropWhile_cons, hb, if_true] at h; exact ih h
    · simp only [List.dropWhile_cons, hb] at h
      simp only [Bool.false_eq_true, if_false, List.cons.injEq] at h
      rw [← h.1]; simpa using hb

/-- … and nothing but white space is removed: a text without a space character at either end is left as it is -/
theorem trimSpace_ends (a : Char) (mid : List Char) (b : Char) (ha : isSpace a = false) (hb : isSpace b = false) :
    trimSpace (a :: (mid ++ [b])) = a :: (mid ++ [b]) ∧ trimSpace [a] = [a] := by
  unfold trimSpace
  constructor
  · simp [List.dropWhile_cons, ha, hb]
  · simp [List.dropWhile_cons, ha]

/-- the trimmed text never ends with a space character -/
theorem trimSpace_no_trailing_space (s : List Char) (c : Char) (r : List Char)
    (h : (trimSpace s).reverse = c :: r) : isSpace c = false := by
  unfold trimSpace at h
  rw [List.reverse_reverse] at h
  exact dropWhile_head_not isSpace _ c r h

/-! the shipped configuration: the entry with a trailing space denotes fc00::/7; an address inside it; a bare
address and a prefix length out of range are refused -/
example : cidr "fc00::/7 " = cidr "fc00::/7" := by decide
example : (match cidr "fc00::/7 " with
    | .ok n => CJ.NetAddr.contains n [0xfd, 0, 0, 0, 0, 0, 0, 0, 0, 0, 0, 0, 0, 0, 0, 1]
    | _ => false) = true := by decide
example : cidr "10.0.0.1" = .err ∧ cidr "10.0.0.0/33" = .err ∧ cidr " 10.0.0.0/8 \n" = cidr "10.0.0.0/8" := by decide
example : parseText (Pat := Unit) (fun _ => .err) none ⟨["10.0.0.0/8", "10.0.0.0/99"], [], [], [], false⟩ = .err := by decide

/-! the hypotheses of the enforcement theorems are satisfiable: an accepted configuration with a blocklist and a
phantom-blocklist entry (an address inside each is refused), and one with an allowlist (inside admitted, outside refused) -/
example : (match parseText (Pat := Unit) (fun _ => .err) none ⟨["fc00::/7 "], [], ["192.0.2.0/24"], [], false⟩ with
    | .ok p => covertBlocked p [0xfd, 0, 0, 0, 0, 0, 0, 0, 0, 0, 0, 0, 0, 0, 0, 1] &&
               phantomBlocked p (CJ.NetAddr.v4InV6Prefix ++ [192, 0, 2, 7]) &&
               !phantomBlocked p (CJ.NetAddr.v4InV6Prefix ++ [192, 0, 3, 7])
    | _ => false) = true := by decide
example : (match parseText (Pat := Unit) (fun _ => .err) none ⟨["198.51.100.0/25"], [], [], ["\t198.51.100.0/24"], false⟩ with
    | .ok p => !covertBlocked p (CJ.NetAddr.v4InV6Prefix ++ [198, 51, 100, 9]) &&
               covertBlocked p (CJ.NetAddr.v4InV6Prefix ++ [10, 0, 0, 1])
    | _ => false) = true := by decide

end CJ.Props.C19
