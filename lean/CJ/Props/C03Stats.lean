import CJ.Props.C03
import CJ.Lemmas.ConnStats
/-!
# C03 — the connection statistics have no say in what a connection gets

`handleNewTCPConn` counts the connection through `connStats` before the first read, around every read
and every classification pass (per address family; per ASN of the source when the GeoIP database knows
a country for it; the per-ASN maps are replaced whenever the statistics loop starts a new epoch).
`CJ.ConnStats.handlerS` is the handler with these calls in place, parametric in the counting: a state
of any type and **any total** function `count : σ → Tr → σ`.

What is proved: for every such counting the action trace is the trace of the handler without
statistics - so every theorem of `CJ.Props.C03` about reading, not writing and not returning early holds
whatever the source's country and ASN are, whichever family the phantom has, whether the ASN was seen
before in this epoch, and wherever the epoch is reset during the connection's life.

What is *not* proved here and checked on the real code instead: that every Go transition method is
total.  They are total only as long as each one creates the per-ASN record it is about to update in the
map it is about to update (a nil record is a nil-pointer panic in a goroutine nobody recovers: the station
process dies and every open connection is closed at once).  The harness drives the real handler with
sources of never-seen ASNs, on both families, with epoch resets before any read and any classification
call (`C03:panic`), and compares the transitions the real counters record with `transitions` below
(`connstats|…` correspondence lines).
-/
namespace CJ.Props.C03
open CJ.ConnHandler CJ.ConnStats

variable {T R σ : Type}

/-- **The statistics transitions do not affect the outcome.**  Whatever state the statistics are in and
whatever (total) function counts a transition, the handler with its statistics calls performs exactly
the actions of the handler. -/
theorem stats_transitions_do_not_affect_outcome (cls : T → Bytes → Verdict R) (sched : Nat → List T → List T)
    (count : σ → CJ.ConnStats.Tr → σ) (geo : Geo) (n : Nat) (ts : List T) (evs : List Ev) (s : σ) :
    (handlerS cls sched count geo n ts evs s).1 = handler cls sched geo n ts evs :=
  handlerS_fst cls sched count geo n ts evs s

/-- concretely: two connections with the same stream get the same treatment whatever their sources
(country known or not, any ASN, IPv4 or IPv6 phantom) and whatever the statistics held before -/
theorem outcome_independent_of_source_and_epoch (cls : T → Bytes → Verdict R) (sched : Nat → List T → List T)
    (src src' : Src) (s s' : Stats) (geo : Geo) (n : Nat) (ts : List T) (evs : List Ev) :
    (handlerS cls sched (Stats.count src) geo n ts evs s).1
      = (handlerS cls sched (Stats.count src') geo n ts evs s').1 := by
  rw [handlerS_fst, handlerS_fst]

/-- counting with epoch resets: `resets k` says whether the statistics loop starts a new epoch just before
the k-th transition of this connection -/
def countWithResets (resets : Nat → Bool) (src : Src) (ks : Nat × Stats) (t : CJ.ConnStats.Tr) : Nat × Stats :=
  (ks.1 + 1, Stats.count src (if resets ks.1 then Stats.reset ks.2 else ks.2) t)

/-- … and wherever the statistics epoch is reset during the connection's life -/
theorem epoch_resets_do_not_affect_outcome (cls : T → Bytes → Verdict R) (sched : Nat → List T → List T)
    (resets : Nat → Bool) (src : Src) (s : Stats) (geo : Geo) (n : Nat) (ts : List T) (evs : List Ev) :
    (handlerS cls sched (countWithResets resets src) geo n ts evs (0, s)).1 = handler cls sched geo n ts evs :=
  handlerS_fst _ _ _ _ _ _ _ _

/-- hence what a prober sees (`probe_view`) is what it sees with the statistics in place -/
theorem probe_view_with_stats (cls : T → Bytes → Verdict R) (sched : Nat → List T → List T)
    (hs : SchedOk sched) (count : σ → CJ.ConnStats.Tr → σ) (s : σ) (n : Nat) (ts : List T) (evs : List Ev)
    (hn : NoMatch cls ts evs) :
    connView (handlerS cls sched count .ok n ts evs s).1 =
      .setDeadline :: ((readsOf evs).map .readData ++ [.readEnd (endOf evs), .ret]) := by
  rw [handlerS_fst]
  exact probe_view cls sched hs n ts evs hn

/-- **The transitions counted are a function of the run alone**: the statistics after the connection are
the fold of `transitions` (which does not mention the statistics) over the state before. -/
theorem stats_are_fold_of_transitions (cls : T → Bytes → Verdict R) (sched : Nat → List T → List T)
    (count : σ → CJ.ConnStats.Tr → σ) (geo : Geo) (n : Nat) (ts : List T) (evs : List Ev) (s : σ) :
    (handlerS cls sched count geo n ts evs s).2 = (transitions cls sched geo n ts evs).foldl count s :=
  handlerS_snd cls sched count geo n ts evs s

/-- a connection whose GeoIP lookups fail is not counted at all -/
theorem geoip_failure_counts_nothing (cls : T → Bytes → Verdict R) (sched : Nat → List T → List T)
    (geo : Geo) (hg : geo ≠ .ok) (n : Nat) (ts : List T) (evs : List Ev) :
    transitions cls sched geo n ts evs = [] := by
  cases geo <;> first | exact absurd rfl hg | rfl

theorem foldl_logCount_eq (s x : List CJ.ConnStats.Tr) : x.foldl logCount s = s ++ x := by
  induction x generalizing s with
  | nil => simp
  | cons a x ih => simp [List.foldl, logCount, ih]

/-- every counted connection is first counted as created (`addCreated`), before anything else -/
theorem transitions_start_with_addCreated (cls : T → Bytes → Verdict R) (sched : Nat → List T → List T)
    (n : Nat) (ts : List T) (evs : List Ev) :
    ∃ rest, transitions cls sched .ok n ts evs = .addCreated :: rest := by
  unfold transitions handlerS
  simp only
  by_cases hn : n < 1
  · simp only [hn, if_true]
    have h := discardS_snd (T := T) (R := R) logCount evs [Tr.addCreated, Tr.createdToDiscard] []
    simp only [List.foldl, foldl_logCount_eq] at h
    refine ⟨Tr.createdToDiscard :: (discardS (T := T) (R := R) logCount evs []).2, ?_⟩
    simpa [logCount] using h
  · simp only [hn, if_false]
    have h := loopS_snd cls sched logCount evs 0 ts [] [Tr.addCreated] []
    simp only [List.foldl, foldl_logCount_eq] at h
    refine ⟨(loopS cls sched logCount 0 ts [] evs []).2, ?_⟩
    simpa [logCount] using h

-- non-vacuity: a two-segment probe on a phantom with registrations, one undecided transport
example : transitions (T := Nat) (R := Nat) (fun _ _ => .tryAgain) (fun _ ts => ts) .ok 1 [0] [.data [1], .data [2]]
    = [.addCreated, .createdToCheck, .checkToRead, .readToCheck, .checkToRead, .readToTimeout] := by decide
-- the same stream against a phantom without registrations
example : transitions (T := Nat) (R := Nat) (fun _ _ => .tryAgain) (fun _ ts => ts) .ok 0 [0] [.data [1], .eof]
    = [.addCreated, .createdToDiscard, .discardToClose] := by decide
-- an IPv6 phantom, a source with a country, an empty epoch: the record of the ASN is created on the way
example : ((handlerS (T := Nat) (R := Nat) (fun _ _ => .tryAgain) (fun _ ts => ts)
      (Stats.count { v4 := false, ccValid := true, asn := 7 }) .ok 1 [0] [.data [1], .data [2]] {}).2).rec6.length = 6 := by
  decide

end CJ.Props.C03
