import CJ.Model.Cidr
import CJ.Props.C01
/-!
# C01 — the subnet strings of a configuration (`net.ParseCIDR`)

`station_eq_client` assumed, for the library versions 0/1, that every parsed subnet *fits its family*
(`RawNet.Fits`: "contract of `net.ParseCIDR`"), and C14's containment theorems assume
`RawNet.Conforms`.  With the parser inside the model (`CJ.Cidr.parseCIDRBytes`, corresponded on every run
by the `cidr|…` lines against the real `net.ParseCIDR`) the contract is a theorem about **every**
string, and the station = client theorem is restated over configurations given by their strings.
-/
namespace CJ.Props.C01Cidr
open CJ.Phantom CJ.Port CJ.Derive CJ.Cidr

/-! ### values the address parsers can return -/

theorem v4Value_lt {l : List Nat} {a : Nat} (h : v4Value l = some a) : a < 2 ^ 32 := by
  match l, h with
  | [x, y, z, w], h =>
    simp only [v4Value] at h
    split at h
    · cases h; omega
    · cases h

theorem foldl_groups_lt (gs : List Nat) (hs : ∀ g ∈ gs, g < 65536) (acc : Nat) :
    gs.foldl (fun acc g => acc * 65536 + g) acc < (acc + 1) * 65536 ^ gs.length := by
  induction gs generalizing acc with
  | nil => simp
  | cons g rest ih =>
    have hg : g < 65536 := hs g (by simp)
    have := ih (fun x hx => hs x (by simp [hx])) (acc * 65536 + g)
    simp only [List.foldl_cons, List.length_cons]
    calc _ < (acc * 65536 + g + 1) * 65536 ^ rest.length := this
      _ ≤ ((acc + 1) * 65536) * 65536 ^ rest.length := Nat.mul_le_mul_right _ (by omega)
      _ = (acc + 1) * 65536 ^ (rest.length + 1) := by rw [Nat.pow_succ, Nat.mul_assoc, Nat.mul_comm 65536]

theorem v6Value_lt {gs : List Nat} {a : Nat} (h : v6Value gs = some a) : a < 2 ^ 128 := by
  unfold v6Value at h
  split at h
  · rename_i hc
    cases h
    have hall : ∀ g ∈ gs, g < 65536 := by
      intro g hg
      have := List.all_eq_true.mp hc.2 g hg
      simpa using this
    have := foldl_groups_lt gs hall 0
    rw [hc.1] at this
    simpa using this
  · cases h

theorem v6Finish_lt {st : V6St} {a : Nat} (h : v6Finish st = some a) : a < 2 ^ 128 := by
  obtain ⟨gs, ell, s⟩ := st
  unfold v6Finish at h
  simp only at h
  split at h
  · cases h
  · split at h
    · split at h
      · cases h
      · exact v6Value_lt h
    · split at h
      · cases h
      · exact v6Value_lt h

theorem parseIPv6_lt {s : List UInt8} {a : Nat} (h : parseIPv6 s = some a) : a < 2 ^ 128 := by
  have fin : ∀ {o : Option V6St}, o.bind v6Finish = some a → a < 2 ^ 128 := by
    intro o ho
    cases o with
    | none => cases ho
    | some st => exact v6Finish_lt ho
  unfold parseIPv6 at h
  split at h
  · cases h
  · split at h
    · split at h
      · split at h
        · cases h; exact Nat.two_pow_pos _
        · exact fin h
      · exact fin h
    · exact fin h

theorem parseIPv4_lt {s : List UInt8} {a : Nat} (h : parseIPv4 s = some a) : a < 2 ^ 32 := by
  unfold parseIPv4 at h
  cases hv : v4Fields s true false 0 0 [] with
  | none => rw [hv] at h; cases h
  | some l => rw [hv] at h; exact v4Value_lt h

/-- `netip.ParseAddr`: an IPv4 literal is a 32-bit value, an IPv6 literal a 128-bit value -/
theorem parseAddr_lt {s : List UInt8} {is4 : Bool} {a : Nat} (h : parseAddr s = some (is4, a)) :
    a < 2 ^ (if is4 then 32 else 128) := by
  unfold parseAddr at h
  split at h
  · split at h
    · cases h4 : parseIPv4 s with
      | none => rw [h4] at h; cases h
      | some v => rw [h4] at h; cases h; exact parseIPv4_lt h4
    · split at h
      · cases h6 : parseIPv6 s with
        | none => rw [h6] at h; cases h
        | some v => rw [h6] at h; cases h; exact parseIPv6_lt h6
      · cases h
  · cases h

/-! ### the `[4]uint8` guard of the model never fires -/

theorem v4Fields_bytes (cs : List UInt8) (first prevDot : Bool) (val digLen : Nat) (fs out : List Nat)
    (hl : fs.length ≤ 3) (hall : ∀ x ∈ fs, x < 256) (hv : val < 256)
    (h : v4Fields cs first prevDot val digLen fs = some out) : out.length = 4 ∧ ∀ x ∈ out, x < 256 := by
  induction cs generalizing first prevDot val digLen fs with
  | nil =>
    simp only [v4Fields] at h
    split at h
    · cases h
    · cases h
      refine ⟨by simp; omega, ?_⟩
      intro x hx
      rcases List.mem_append.mp hx with hx | hx
      · exact hall x hx
      · simp at hx; omega
  | cons c rest ih =>
    simp only [v4Fields] at h
    split at h
    · split at h
      · cases h
      · split at h
        · cases h
        · exact ih _ _ _ _ _ hl hall (by omega) h
    · split at h
      · split at h
        · cases h
        · split at h
          · cases h
          · rename_i h3
            refine ih _ _ _ _ _ (by simp; omega) ?_ (by omega) h
            intro x hx
            rcases List.mem_append.mp hx with hx | hx
            · exact hall x hx
            · simp at hx; omega
      · cases h

/-- whatever `parseIPv4Fields` accepts is four bytes: `v4Value` (the model's stand-in for the `[4]uint8`
array) refuses nothing the field loop accepted -/
theorem v4Value_total (s : List UInt8) (out : List Nat) (h : v4Fields s true false 0 0 [] = some out) :
    ∃ a, v4Value out = some a := by
  obtain ⟨hl, hb⟩ := v4Fields_bytes s true false 0 0 [] out (by simp) (by simp) (by omega) h
  match out, hl with
  | [a, b, c, d], _ =>
    have ha := hb a (by simp); have hb' := hb b (by simp); have hc := hb c (by simp); have hd := hb d (by simp)
    exact ⟨((a * 256 + b) * 256 + c) * 256 + d, by simp [v4Value, ha, hb', hc, hd]⟩

/-! ### the `[16]byte` guard of the model never fires -/

theorem hexVal_lt {c : UInt8} {d : Nat} (h : hexVal c = some d) : d < 16 := by
  unfold hexVal at h
  simp only at h
  split at h
  · cases h; omega
  · split at h
    · cases h; omega
    · split at h
      · cases h; omega
      · cases h

theorem hexGroup_bound (cs : List UInt8) (acc off a o : Nat) (rest : List UInt8)
    (h : hexGroup cs acc off = some (a, o, rest)) (hacc : acc < 16 ^ off) (hoff : off ≤ 4) :
    a < 16 ^ o ∧ o ≤ 4 := by
  induction cs generalizing acc off with
  | nil => simp only [hexGroup] at h; cases h; exact ⟨hacc, hoff⟩
  | cons c cs ih =>
    simp only [hexGroup] at h
    split at h
    · rename_i d hd
      split at h
      · cases h
      · have hd16 := hexVal_lt hd
        refine ih _ _ h ?_ (by omega)
        have : (acc + 1) * 16 ≤ 16 ^ off * 16 := Nat.mul_le_mul_right 16 hacc
        rw [Nat.pow_succ]; omega
    · cases h; exact ⟨hacc, hoff⟩

theorem hexGroup_lt (cs : List UInt8) (a o : Nat) (rest : List UInt8)
    (h : hexGroup cs 0 0 = some (a, o, rest)) : a < 65536 := by
  obtain ⟨h1, h2⟩ := hexGroup_bound cs 0 0 a o rest h (by simp) (by omega)
  have : 16 ^ o ≤ 16 ^ 4 := Nat.pow_le_pow_right (by omega) h2
  omega

/-- invariant of the group loop -/
def Inv (st : V6St) : Prop :=
  (∀ g ∈ st.1, g < 65536) ∧ st.1.length ≤ 8 ∧ ∀ e, st.2.1 = some e → e ≤ st.1.length

theorem all_snoc {gs : List Nat} {x : Nat} (h : ∀ g ∈ gs, g < 65536) (hx : x < 65536) :
    ∀ g ∈ gs ++ [x], g < 65536 := by
  intro g hg
  rcases List.mem_append.mp hg with hg | hg
  · exact h g hg
  · simp at hg; omega

theorem v6Loop_inv (fuel : Nat) (s : List UInt8) (gs : List Nat) (ell : Option Nat) (st : V6St)
    (h : v6Loop fuel s gs ell = some st) (hall : ∀ g ∈ gs, g < 65536) (hlen : gs.length + fuel ≤ 8)
    (hell : ∀ e, ell = some e → e ≤ gs.length) : Inv st := by
  induction fuel generalizing s gs ell with
  | zero => simp only [v6Loop] at h; cases h; exact ⟨hall, by omega, hell⟩
  | succ fuel ih =>
    simp only [v6Loop] at h
    split at h
    · cases h
    · rename_i acc off rest hg
      have hacc := hexGroup_lt s acc off rest hg
      split at h
      · cases h
      · split at h
        · -- trailing IPv4
          split at h
          · cases h
          · split at h
            · cases h
            · rename_i hroom
              split at h
              · rename_i a b c d hv4
                cases h
                obtain ⟨_, hb⟩ := v4Fields_bytes s true false 0 0 [] _ (by simp) (by simp) (by omega) hv4
                have ha := hb a (by simp); have hb' := hb b (by simp); have hc := hb c (by simp); have hd := hb d (by simp)
                refine ⟨?_, by simp; omega, fun e he => by have := hell e he; simp; omega⟩
                intro g hg
                rcases List.mem_append.mp hg with hg | hg
                · exact hall g hg
                · simp at hg; rcases hg with rfl | rfl <;> omega
              · cases h
        · have hall' := all_snoc hall hacc
          split at h
          · cases h
            exact ⟨hall', by simp; omega, fun e he => by have := hell e he; simp; omega⟩
          · split at h
            · cases h
            · split at h
              · cases h
              · split at h
                · split at h
                  · cases h
                  · split at h
                    · cases h
                      exact ⟨hall', by simp; omega, fun e he => by cases he; simp⟩
                    · exact ih _ _ _ h hall' (by simp; omega) (fun e he => by cases he; simp)
                · exact ih _ _ _ h hall' (by simp; omega) (fun e he => by have := hell e he; simp; omega)

theorem v6Value_total (gs : List Nat) (hl : gs.length = 8) (hall : ∀ g ∈ gs, g < 65536) : ∃ a, v6Value gs = some a := by
  unfold v6Value
  have : gs.all (· < 65536) = true := List.all_eq_true.mpr (fun g hg => by simpa using hall g hg)
  exact ⟨_, by rw [if_pos ⟨hl, this⟩]⟩

/-- whatever the group loop leaves is refused by `v6Finish` only for the reasons the Go code has
(unread input, too few groups without an ellipsis, an ellipsis with nothing to stand for): `v6Value`, the
model's stand-in for the `[16]byte` array, refuses nothing -/
theorem v6Finish_none (st : V6St) (hi : Inv st) (h : v6Finish st = none) :
    st.2.2.isEmpty = false ∨ (st.1.length < 8 ∧ st.2.1 = none) ∨ (st.1.length = 8 ∧ st.2.1.isSome = true) := by
  obtain ⟨gs, ell, s⟩ := st
  obtain ⟨hall, hlen, hell⟩ := hi
  simp only at hall hlen hell
  unfold v6Finish at h
  simp only at h ⊢
  split at h
  · rename_i hs; left; simpa using hs
  · right
    split at h
    · rename_i hlt
      split at h
      · left; exact ⟨hlt, rfl⟩
      · rename_i e
        exfalso
        have he := hell e rfl
        obtain ⟨a, ha⟩ := v6Value_total (gs.take e ++ List.replicate (8 - gs.length) 0 ++ gs.drop e)
          (by simp; omega) (by
            intro g hg
            rcases List.mem_append.mp hg with hg | hg
            · rcases List.mem_append.mp hg with hg | hg
              · exact hall g (List.mem_of_mem_take hg)
              · have := List.eq_of_mem_replicate hg; omega
            · exact hall g (List.mem_of_mem_drop hg))
        rw [ha] at h; cases h
    · rename_i hge
      split at h
      · rename_i hsome; right; exact ⟨by omega, hsome⟩
      · exfalso
        obtain ⟨a, ha⟩ := v6Value_total gs (by omega) hall
        rw [ha] at h; cases h

/-! ### masking -/

theorem maskTo_aligned (bits n a : Nat) : maskTo bits n a % 2 ^ (bits - n) = 0 := by
  unfold maskTo; exact Nat.mul_mod_left _ _

theorem maskTo_le (bits n a : Nat) : maskTo bits n a ≤ a := by
  unfold maskTo; exact Nat.div_mul_le_self _ _

/-- the whole network lies inside the address space of its length -/
theorem maskTo_fits {bits n a : Nat} (hn : n ≤ bits) (ha : a < 2 ^ bits) :
    maskTo bits n a + 2 ^ (bits - n) ≤ 2 ^ bits := by
  unfold maskTo
  have hk : 0 < 2 ^ (bits - n) := Nat.two_pow_pos _
  have hsplit : 2 ^ bits = 2 ^ n * 2 ^ (bits - n) := by
    rw [← Nat.pow_add]; congr 1; omega
  have hq : a / 2 ^ (bits - n) < 2 ^ n := by
    rw [Nat.div_lt_iff_lt_mul hk, ← hsplit]; exact ha
  calc a / 2 ^ (bits - n) * 2 ^ (bits - n) + 2 ^ (bits - n)
      = (a / 2 ^ (bits - n) + 1) * 2 ^ (bits - n) := by rw [Nat.add_mul, Nat.one_mul]
    _ ≤ 2 ^ n * 2 ^ (bits - n) := Nat.mul_le_mul_right _ hq
    _ = 2 ^ bits := hsplit.symm

/-- a masked IPv6 address can only be IPv4-mapped if the mask keeps the whole `::ffff:0:0/96` prefix -/
theorem mapped_ones {n a : Nat} (hn : n ≤ 128) (hm : isMapped (maskTo 128 n a) = true) : 96 ≤ n := by
  refine Decidable.byContradiction fun hlt => ?_
  have hlt : n < 96 := by omega
  unfold isMapped maskTo at hm
  have hk : 2 ^ (128 - n) = 2 ^ (96 - n) * 2 ^ 32 := by
    rw [← Nat.pow_add]; congr 1; omega
  have hm' : a / 2 ^ (128 - n) * 2 ^ (128 - n) / 2 ^ 32 = 0xffff := by simpa using hm
  rw [hk, ← Nat.mul_assoc, Nat.mul_div_cancel _ (Nat.two_pow_pos 32)] at hm'
  have he : 2 ^ (96 - n) = 2 * 2 ^ (96 - n - 1) := by
    rw [← Nat.pow_succ']; congr 1; omega
  rw [he] at hm'
  generalize a / (2 * 2 ^ (96 - n - 1) * 2 ^ 32) = X at hm'
  generalize 2 ^ (96 - n - 1) = Y at hm'
  have : X * (2 * Y) = 2 * (X * Y) := Nat.mul_left_comm _ _ _
  omega

/-- the IPv4 network inside a mapped one: aligned, and inside the 32-bit space -/
theorem mapped_low {n m : Nat} (h96 : 96 ≤ n) (hn : n ≤ 128) (hal : m % 2 ^ (128 - n) = 0) :
    (m % 2 ^ 32) % 2 ^ (128 - n) = 0 ∧ m % 2 ^ 32 + 2 ^ (128 - n) ≤ 2 ^ 32 := by
  have hk : 0 < 2 ^ (128 - n) := Nat.two_pow_pos _
  have h32 : 2 ^ 32 = 2 ^ (128 - n) * 2 ^ (n - 96) := by
    rw [← Nat.pow_add]; congr 1; omega
  obtain ⟨q, hq⟩ : ∃ q, m = 2 ^ (128 - n) * q := ⟨m / 2 ^ (128 - n), by
    have := Nat.div_add_mod m (2 ^ (128 - n)); omega⟩
  have hlow : m % 2 ^ 32 = 2 ^ (128 - n) * (q % 2 ^ (n - 96)) := by
    rw [hq, h32, Nat.mul_mod_mul_left]
  refine ⟨by rw [hlow]; exact Nat.mul_mod_right _ _, ?_⟩
  have hj : q % 2 ^ (n - 96) < 2 ^ (n - 96) := Nat.mod_lt _ (Nat.two_pow_pos _)
  calc m % 2 ^ 32 + 2 ^ (128 - n) = 2 ^ (128 - n) * (q % 2 ^ (n - 96) + 1) := by
        rw [hlow, Nat.mul_add, Nat.mul_one]
    _ ≤ 2 ^ (128 - n) * 2 ^ (n - 96) := Nat.mul_le_mul_left _ hj
    _ = 2 ^ 32 := h32.symm

/-! ### the contract of `net.ParseCIDR` -/

/-- what the selectors rely on about a parsed subnet (the predicate the harness used to *check* on the
values it handed over): length 32 or 128, a prefix length within it, a masked network address, the
family read off `To4()` consistent with the length (the IPv4-mapped notation needs `ones ≥ 96`), the
whole network inside the address space of its family -/
structure Contract (r : RawNet) : Prop where
  bits : r.bits = 32 ∨ r.bits = 128
  ones : r.ones ≤ r.bits
  aligned : r.base % 2 ^ (r.bits - r.ones) = 0
  v4len : r.v4 = true → r.bits = 32 ∨ 96 ≤ r.ones
  v6len : r.v4 = false → r.bits = 128
  fits : r.base + 2 ^ (r.bits - r.ones) ≤ 256 ^ famLen r.v4

/-- **Contract of the parser, for every string**: whatever `net.ParseCIDR` accepts satisfies the
contract the selection theorems assume. -/
theorem parse_contract (s : List UInt8) (r : RawNet) (h : parseCIDRBytes s = some r) : Contract r := by
  unfold parseCIDRBytes at h
  split at h
  · cases h
  · rename_i addr mask _
    split at h
    · cases h
    · rename_i is4 a hpa
      have ha := parseAddr_lt hpa
      cases is4 with
      | true =>
        simp only [↓reduceIte] at h ha
        split at h
        · cases h
        · rename_i n _
          split at h
          · cases h
          · rename_i hnb
            cases h
            have hn : n ≤ 32 := by omega
            have hf : maskTo 32 n a + 2 ^ (32 - n) ≤ 256 ^ famLen true := by
              simpa [famLen] using maskTo_fits hn ha
            exact ⟨.inl rfl, hn, maskTo_aligned 32 n a, fun _ => .inl rfl, (fun hv => by cases hv), hf⟩
      | false =>
        simp only [Bool.false_eq_true, ↓reduceIte] at h ha
        split at h
        · cases h
        · rename_i n _
          split at h
          · cases h
          · rename_i hnb
            have hn : n ≤ 128 := by omega
            split at h
            · rename_i hm
              cases h
              have h96 := mapped_ones hn hm
              have hl := mapped_low h96 hn (maskTo_aligned 128 n a)
              have hf : maskTo 128 n a % 2 ^ 32 + 2 ^ (128 - n) ≤ 256 ^ famLen true := by
                simpa [famLen] using hl.2
              exact ⟨.inr rfl, hn, hl.1, fun _ => .inr h96, (fun hv => by cases hv), hf⟩
            · cases h
              have hf : maskTo 128 n a + 2 ^ (128 - n) ≤ 256 ^ famLen false := by
                simpa [famLen] using maskTo_fits hn ha
              exact ⟨.inr rfl, hn, maskTo_aligned 128 n a, (fun hv => by cases hv), fun _ => rfl, hf⟩

/-- the hypothesis of `station_eq_client` (versions 0/1) about parsed subnets -/
theorem parse_fits (s : List UInt8) (r : RawNet) (h : parseCIDRBytes s = some r) : r.Fits :=
  (parse_contract s r h).fits

/-- the hypothesis of the containment theorems (C14, `station_phantom_contained`) -/
theorem parse_conforms (s : List UInt8) (r : RawNet) (h : parseCIDRBytes s = some r) : r.Conforms := by
  have c := parse_contract s r h
  refine ⟨?_, c.fits⟩
  cases hv : r.v4 with
  | true =>
    simp only [if_true]
    rcases c.v4len hv with hb | _
    · rw [hb]; exact Nat.le_refl _
    · rcases c.bits with hb | hb <;> rw [hb]
      · exact Nat.le_refl _
      · exact Nat.pow_le_pow_right (by omega) (by omega)
  | false =>
    simp only [Bool.false_eq_true, if_false]
    rw [c.v6len hv]; exact Nat.le_refl _

/-- a string without a `/` is not a subnet -/
theorem parse_needs_slash (s : List UInt8) (h : cSlash ∉ s) : parseCIDRBytes s = none := by
  have : cutSlash s = none := by
    induction s with
    | nil => rfl
    | cons c rest ih =>
      have hc : c ≠ cSlash := fun e => h (by simp [e])
      have hr : cSlash ∉ rest := fun e => h (by simp [e])
      simp [cutSlash, hc, ih hr]
  simp [parseCIDRBytes, this]

/-- the prefix length never exceeds the length of the address family the literal belongs to, and the
answer's family is decided by the literal except for the IPv4-mapped notation -/
theorem parse_v4_literal (s : List UInt8) (r : RawNet) (h : parseCIDRBytes s = some r) (hb : r.bits = 32) :
    r.v4 = true ∧ r.ones ≤ 32 ∧ r.base < 2 ^ 32 := by
  have c := parse_contract s r h
  refine ⟨?_, hb ▸ c.ones, ?_⟩
  · cases hv : r.v4 with
    | true => rfl
    | false => have := c.v6len hv; omega
  · have hv : r.v4 = true := by
      cases hv : r.v4 with
      | true => rfl
      | false => have := c.v6len hv; omega
    have hf := c.fits
    rw [hv] at hf
    have : 0 < 2 ^ (r.bits - r.ones) := Nat.two_pow_pos _
    simp [famLen] at hf
    omega

/-! ### configurations given by their strings -/

/-- every subnet of a group whose `nets` are parsed strings fits and conforms -/
theorem configured_nets_conform (strs : List (List UInt8)) (x : RawNet) (hx : some x ∈ groupNets strs) :
    x.Fits ∧ x.Conforms := by
  unfold groupNets at hx
  obtain ⟨s, _, hs⟩ := List.mem_map.mp hx
  exact ⟨parse_fits _ x hs, parse_conforms _ x hs⟩

/-- **Station = client over configured strings**: `station_eq_client_gen` with the parser's contract
discharged — for a generation whose groups are the parsed subnet strings of the configuration (as
`parseSubnets` builds them on both sides) no assumption about `net.ParseCIDR` is left. -/
theorem station_eq_client_configured (c : Crypto) (cfg : Cfg) (gc : GenCfg) (r : Reg) (R : Rng) (g g' : R.G)
    (rv : Rendezvous)
    (hg : cfg.lookup r.gen = some gc)
    (hstr : ∀ grp ∈ gc.groups, ∃ strs, grp.nets = groupNets strs)
    (hpre : r.transport = .prefix → genConsts.randomizeMinVersion ≤ r.ver)
    (hty : WellTyped genConsts r.transport r.params)
    (hleg : r.ver < hkdfMinVersion →
      rv.addr.length = famLen (!r.v6) ∧ (∀ grp ∈ gc.groups, grp.isNil = false))
    (hc : ((clientDerive c genConsts gc r).run R g).1 = .ok rv) :
    ∃ rs, ((stationDerive c genConsts cfg r).run R g').1 = .ok rs ∧ rs.seed = rv.seed ∧ rs.addr = rv.addr ∧
      rs.port = rv.port ∧ (r.transport ≠ .dtls → rs.ident = rv.ident) :=
  CJ.Props.C01.station_eq_client_gen c cfg gc r R g g' rv hg hpre hty
    (fun hv => ⟨(hleg hv).1, (hleg hv).2, fun grp hgrp x hx => by
      obtain ⟨strs, hs⟩ := hstr grp hgrp
      exact (configured_nets_conform strs x (hs ▸ hx)).1⟩) hc

/-! ### a weighted set: `parseSubnets` -/

theorem parseNets_ok (rp : Bool) (l : List (Option RawNet)) (nets : List Net) (h : parseNets rp l = .ok nets) :
    l = nets.map (fun n => some n.toRawNet) ∧ ∀ n ∈ nets, n.randPort = rp := by
  induction l generalizing nets with
  | nil => simp [parseNets] at h; subst h; simp
  | cons x rest ih =>
    cases x with
    | none => simp [parseNets] at h
    | some r =>
      simp only [parseNets] at h
      cases hr : parseNets rp rest with
      | ok l' =>
        rw [hr] at h
        cases h
        obtain ⟨h1, h2⟩ := ih l' hr
        refine ⟨by simp [← h1], ?_⟩
        intro n hn
        rcases List.mem_cons.mp hn with rfl | hn
        · rfl
        · exact h2 n hn
      | err e => rw [hr] at h; cases h
      | panic w => rw [hr] at h; cases h

theorem parseNets_err (rp : Bool) (l : List (Option RawNet)) (e : Err) (h : parseNets rp l = .err e) :
    e = .parse ∧ none ∈ l := by
  induction l with
  | nil => simp [parseNets] at h
  | cons x rest ih =>
    cases x with
    | none => simp [parseNets] at h; exact ⟨h.symm, by simp⟩
    | some r =>
      simp only [parseNets] at h
      cases hr : parseNets rp rest with
      | ok l' => rw [hr] at h; cases h
      | err e' =>
        rw [hr] at h; cases h
        obtain ⟨h1, h2⟩ := ih hr
        exact ⟨h1, by simp [h2]⟩
      | panic w => rw [hr] at h; cases h

/-- **A weighted set that parses**: one network per configured string, in order, each the parser's
answer for its string, each carrying the set's port-randomisation flag and conforming to the contract
the selection theorems need. -/
theorem parseSubnets_ok (rp : Bool) (strs : List (List UInt8)) (nets : List Net)
    (h : parseSubnets rp strs = .ok nets) :
    strs.map parseCIDRBytes = nets.map (fun n => some n.toRawNet) ∧
    ∀ n ∈ nets, n.randPort = rp ∧ n.WF := by
  unfold parseSubnets parseGroup at h
  simp only at h
  split at h
  · cases h
  · obtain ⟨h1, h2⟩ := parseNets_ok rp _ nets h
    refine ⟨h1, fun n hn => ⟨h2 n hn, ?_⟩⟩
    have : some n.toRawNet ∈ groupNets strs := by
      rw [h1]; exact List.mem_map.mpr ⟨n, hn, rfl⟩
    exact (configured_nets_conform strs _ this).2

/-- **A weighted set that is refused**: only an empty set, or a set with an entry `net.ParseCIDR`
refuses (one bad entry refuses the whole set — nothing is skipped); it never panics. -/
theorem parseSubnets_refused (rp : Bool) (strs : List (List UInt8)) :
    (∀ e, parseSubnets rp strs = .err e →
      (e = .emptyGroup ∧ strs = []) ∨ (e = .parse ∧ ∃ s ∈ strs, parseCIDRBytes s = none)) ∧
    ∀ w, parseSubnets rp strs ≠ .panic w := by
  unfold parseSubnets parseGroup
  simp only
  constructor
  · intro e h
    split at h
    · rename_i hemp
      cases h
      left
      refine ⟨rfl, ?_⟩
      simpa [groupNets] using hemp
    · obtain ⟨h1, h2⟩ := parseNets_err rp _ e h
      right
      refine ⟨h1, ?_⟩
      obtain ⟨s, hs, hn⟩ := List.mem_map.mp h2
      exact ⟨s, hs, hn⟩
  · intro w h
    split at h
    · cases h
    · generalize groupNets strs = l at h
      induction l with
      | nil => simp [parseNets] at h
      | cons x rest ih =>
        cases x with
        | none => simp [parseNets] at h
        | some r =>
          simp only [parseNets] at h
          cases hr : parseNets rp rest with
          | ok l' => rw [hr] at h; cases h
          | err e' => rw [hr] at h; cases h
          | panic w' => rw [hr] at h; cases h; exact ih hr

/-! ### non-vacuity -/

/-- "10.1.0.0/16" -/
example : parseCIDRBytes [49, 48, 46, 49, 46, 48, 46, 48, 47, 49, 54] = some ⟨true, 167837696, 16, 32⟩ := by decide
/-- "::ffff:a00:0/104": an IPv6 literal that the selectors treat as IPv4 -/
example : parseCIDRBytes [58, 58, 102, 102, 102, 102, 58, 97, 48, 48, 58, 48, 47, 49, 48, 52] =
    some ⟨true, 167772160, 104, 128⟩ := by decide
/-- "1.2.3.4" (no prefix length), "010.0.0.0/8" (leading zero), "::1%eth0/128" (zone) are refused -/
example : parseCIDRBytes [49, 46, 50, 46, 51, 46, 52] = none := by decide
example : parseCIDRBytes [48, 49, 48, 46, 48, 46, 48, 46, 48, 47, 56] = none := by decide
example : parseCIDRBytes [58, 58, 49, 37, 101, 47, 49, 50, 56] = none := by decide
example : ∃ strs, (⟨1, false, false, groupNets strs⟩ : Group).nets = groupNets strs := ⟨[[49, 48, 46, 48, 46, 48, 46, 48, 47, 56]], rfl⟩

/-- ["10.1.0.0/16", "::1"]: the second entry has no prefix length, the set is refused -/
example : parseSubnets true [[49, 48, 46, 49, 46, 48, 46, 48, 47, 49, 54], [58, 58, 49]] = .err .parse := by decide
example : parseSubnets true [[49, 48, 46, 49, 46, 48, 46, 48, 47, 49, 54]] = .ok [⟨⟨true, 167837696, 16, 32⟩, true⟩] := by decide

end CJ.Props.C01Cidr
