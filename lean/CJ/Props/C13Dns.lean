import CJ.Lemmas.BdReq
import CJ.Model.DnsReq
import CJ.Model.RemoteAddr
/-!
# C13, the DNS registrar's side of the request path, and which address an API request is attributed to

Model: `CJ/Model/DnsReq.lean` (`processRequest` of pkg/regserver/dnsregserver in front of the processor model of
`CJ/Model/BdReq.lean`), `CJ/Model/RemoteAddr.lean` (`getRemoteAddr` / `parseIP` of pkg/regserver/apiregserver over
the address-literal model `CJ/Model/NetAddr.lean`).

For every request, every generation the registrar holds and every timeline of reloads next to the request:

* a request is answered (a response payload) iff it decodes - a processor error is answered with `Success = false`,
  never with silence; a request that does not decode gets an error and nothing else happened;
* `Success` iff the registration was published to the stations;
* a `BidirectionalResponse` iff `Success` and the request asked for one; it then carries an address for exactly
  the families asked for, all from the selector of the snapshot (no partial response, no mixture of subnet sets);
* the outdated flag compares the client's generation with the generation held when the request arrived; what
  `UpdateLatestCCGen` stores later does not enter (reading it again afterwards would: `late_load_changes_flag`);
* the client's generation reaches the selector unchanged (no substitution as in the API registrar).
-/
namespace CJ.Props.C13Dns
open CJ.BdReq CJ.DnsReq

/-- Every request that decodes is answered with a payload, and only those: whatever the processor does, whatever
generation the registrar holds, whatever reloads run next to the request. -/
theorem dns_answered_iff_decodes (pick ul) (c0 c1 : Nat) (tl : Timeline) (d : DReq) :
    (dnsWith pick ul c0 c1 tl d).out.isSome = d.decodes := by
  unfold dnsWith
  cases d.decodes <;> simp
  cases d.srcBd <;> simp
  · cases (procUni d.r).res <;> simp
  · cases (procBdWith pick tl d.r d.r.gen).res <;> simp

/-- A request that does not decode: no payload, the processor is not called, nothing is published. -/
theorem dns_undecodable_untouched (c0 c1 : Nat) (tl : Timeline) (d : DReq) (h : d.decodes = false) :
    dns c0 c1 tl d = ⟨none, false, false, [], false⟩ := by
  simp [dns, dnsWith, h]

/-- The entry point is chosen by the wrapper's own source field; the processor is called exactly once for a
request that decodes. -/
theorem dns_entry_point (c0 c1 : Nat) (tl : Timeline) (d : DReq) (h : d.decodes = true) :
    (dns c0 c1 tl d).called = true ∧ (dns c0 c1 tl d).calledBd = d.srcBd := by
  unfold dns dnsWith
  cases hs : d.srcBd <;> simp [h]
  · cases (procUni d.r).res <;> simp
  · cases (procBdWith snapshotPick tl d.r d.r.gen).res <;> simp

/-- `Success` iff the registration was published: no success without a registration, no registration reported
as a failure. -/
theorem dns_success_iff_registered {c0 c1 : Nat} {tl : Timeline} {d : DReq} {x : DResp}
    (h : (dns c0 c1 tl d).out = some x) : x.success = true ↔ (dns c0 c1 tl d).sent = true := by
  revert h
  unfold dns dnsWith
  cases d.decodes <;> simp
  cases d.srcBd <;> simp
  · unfold procUni; cases tailUni d.r <;> simp <;> intro h <;> subst h <;> simp
  · have hs := procBd_sent_iff snapshotPick tl d.r d.r.gen
    cases ho : (procBdWith snapshotPick tl d.r d.r.gen).res <;> simp <;> intro h <;> subst h <;> simp
    · cases hsent : (procBdWith snapshotPick tl d.r d.r.gen).sent
      · rfl
      · obtain ⟨resp, hr⟩ := hs.mp hsent; rw [ho] at hr; cases hr
    · exact hs.mpr ⟨_, ho⟩

/-- No partial response: a `BidirectionalResponse` is present iff the request succeeded and went through
`RegisterBidirectional`; a failure in either family (or later) leaves none. -/
theorem dns_bd_iff {c0 c1 : Nat} {tl : Timeline} {d : DReq} {x : DResp}
    (h : (dns c0 c1 tl d).out = some x) : x.bd.isSome = (x.success && d.srcBd) := by
  revert h
  unfold dns dnsWith
  cases d.decodes <;> simp
  cases d.srcBd <;> simp
  · cases (procUni d.r).res <;> simp <;> intro h <;> subst h <;> simp
  · cases (procBdWith snapshotPick tl d.r d.r.gen).res <;> simp <;> intro h <;> subst h <;> simp

/-- The response is complete and from one subnet set: an address for exactly the families the client supports,
every address from the selector installed when the snapshot was taken (`tl` arbitrary), no ClientConf attached. -/
theorem dns_response_from_one_snapshot {c0 c1 : Nat} {tl : Timeline} {d : DReq} {x : DResp} {resp : Resp}
    (h : (dns c0 c1 tl d).out = some x) (hb : x.bd = some resp) :
    resp.v4.isSome = d.r.v4 ∧ resp.v6.isSome = d.r.v6 ∧
    (∀ v, resp.v4 = some v → v = tl.atSnap.ver) ∧ (∀ v, resp.v6 = some v → v = tl.atSnap.ver) ∧ resp.cc = none := by
  revert h
  unfold dns dnsWith
  cases d.decodes <;> simp
  cases d.srcBd <;> simp
  · cases (procUni d.r).res <;> simp <;> intro h <;> subst h <;> simp at hb
  · cases ho : (procBdWith snapshotPick tl d.r d.r.gen).res <;> simp <;> intro h <;> subst h <;> simp at hb
    subst hb
    obtain ⟨_, h4, h6, _, hc⟩ := procBd_ok_shape ho
    exact ⟨(selFam_shape h4).1, (selFam_shape h6).1, fun v hv => ((selFam_shape h4).2 v hv).1,
      fun v hv => ((selFam_shape h6).2 v hv).1, hc⟩

/-- Every selection a DNS request performs - answered with success or not - asks the snapshot, with the client's
own generation (the DNS registrar does not substitute its generation for an outdated client's). -/
theorem dns_selections_on_snapshot (c0 c1 : Nat) (tl : Timeline) (d : DReq) :
    ∀ a ∈ (dns c0 c1 tl d).asked, a.ver = tl.atSnap.ver ∧ a.gen = d.r.gen := by
  unfold dns dnsWith
  cases d.decodes <;> simp
  cases d.srcBd <;> simp
  · unfold procUni; cases tailUni d.r <;> simp
  · have ha := procBd_asked snapshotPick tl d.r d.r.gen
    cases ho : (procBdWith snapshotPick tl d.r d.r.gen).res <;> simp <;>
    · intro a hm; have := ha a hm; simp [snapshotPick] at this; exact ⟨this.2, this.1⟩

/-- The outdated flag is the comparison with the generation held when the request arrived. -/
theorem dns_outdated_flag {c0 c1 : Nat} {tl : Timeline} {d : DReq} {x : DResp}
    (h : (dns c0 c1 tl d).out = some x) : x.outdated = decide (clientGen d.r < c0) := by
  revert h
  unfold dns dnsWith
  cases d.decodes <;> simp
  cases d.srcBd <;> simp
  · cases (procUni d.r).res <;> simp <;> intro h <;> subst h <;> simp
  · cases (procBdWith snapshotPick tl d.r d.r.gen).res <;> simp <;> intro h <;> subst h <;> simp

/-- The answer does not depend on what a reload installs after the request took its snapshot and loaded the
generation: neither the later selectors nor the later generation. -/
theorem dns_later_reloads_do_not_matter (c0 c1 c1' : Nat) (s a b a' b' : Snap) (d : DReq) :
    dns c0 c1 ⟨s, a, b⟩ d = dns c0 c1' ⟨s, a', b'⟩ d := by
  simp [dns, dnsWith, procBdWith, snapshotPick]

/-- Reading the generation again after the processor returned would let a reload that finished meanwhile decide
the flag of a response whose addresses are from before it. -/
theorem late_load_changes_flag :
    ∃ c0 c1 tl d x y, (dns c0 c1 tl d).out = some x ∧ (dnsWith snapshotPick true c0 c1 tl d).out = some y ∧
      x.outdated = false ∧ y.outdated = true ∧ x.bd = y.bd :=
  ⟨3, 5, ⟨⟨1, [3]⟩, ⟨2, [5]⟩, ⟨2, [5]⟩⟩,
   ⟨true, true, ⟨true, true, true, 0, true, true, 3, true, true, .ok, .ok, true, true, 32, true⟩⟩,
   ⟨true, false, some ⟨some 1, some 1, none⟩⟩, ⟨true, true, some ⟨some 1, some 1, none⟩⟩, by decide⟩

/-- The DNS registrar and the API registrar are one processor behind two front ends: for a client that is not
outdated, a bidirectional DNS request succeeds exactly when the same request is answered 200 by the API. -/
theorem dns_succeeds_iff_api_answers (c0 c1 : Nat) (tl : Timeline) (d : DReq) (x : DResp)
    (hd : d.decodes = true) (hs : d.srcBd = true) (hf : front d.r = none) (hp : d.r.payload = true)
    (h : (dns c0 c1 tl d).out = some x) :
    x.success = true ↔ (apiBd none tl d.r).status = 200 := by
  revert h
  simp [dns, dnsWith, apiBd, apiBdWith, hd, hs, hf, hp, effGen, outdated]
  cases ho : (procBdWith snapshotPick tl d.r d.r.gen).res <;> simp <;> intro h <;> subst h <;> simp
  rename_i e; rcases errStatus_cases e with h | h <;> simp [h]

example : ∃ (c0 c1 : Nat) (tl : Timeline) (d : DReq) (x : DResp), d.decodes = true ∧ d.srcBd = true ∧ front d.r = none ∧
    d.r.payload = true ∧ (dns c0 c1 tl d).out = some x ∧ x.success = true :=
  ⟨3, 5, ⟨⟨1, [3]⟩, ⟨2, [5]⟩, ⟨2, [5]⟩⟩,
   ⟨true, true, ⟨true, true, true, 40, true, true, 3, true, true, .ok, .ok, true, true, 32, true⟩⟩,
   ⟨true, false, some ⟨some 1, some 1, none⟩⟩, by decide⟩

/-! ## Which address an API request is attributed to -/
open CJ.RemoteAddr CJ.NetAddr

/-- A request is left without an address (and refused with 400) exactly when the connection's address does not
parse and the header does not supply one. -/
theorem remote_addr_none_iff (remote : Str) (values : List Str) :
    getRemoteAddr remote values = none ↔
      (parseHostIP remote = none ∧
        ∀ v, values.getLast? = some v → parseIP (headerChoice (isLoopback (parseHostIP remote)) v) = none) := by
  unfold getRemoteAddr
  cases hl : values.getLast? <;> simp
  rename_i v
  cases hp : parseIP (headerChoice (isLoopback (parseHostIP remote)) v) <;> simp

/-- A request whose connection address is valid is never left without an address, whatever the headers say. -/
theorem valid_connection_always_attributed (remote : Str) (values : List Str) (ip : List Nat)
    (h : parseHostIP remote = some ip) : (getRemoteAddr remote values).isSome = true := by
  unfold getRemoteAddr
  cases hl : values.getLast? <;> simp [h]
  rename_i v
  cases hp : parseIP (headerChoice (isLoopback (some ip)) v) <;> simp

/-- Only the last X-Forwarded-For line is looked at. -/
theorem only_last_line_matters (remote : Str) (values : List Str) (v : Str) :
    getRemoteAddr remote (values ++ [v]) = getRemoteAddr remote [v] := by
  simp [getRemoteAddr]

/-- The entry the header designates wins when it is an address; otherwise the connection's address stands. -/
theorem header_entry_wins_or_falls_back (remote : Str) (values : List Str) (v : Str) :
    getRemoteAddr remote (values ++ [v]) =
      (match parseIP (headerChoice (isLoopback (parseHostIP remote)) v) with
       | some h => some h
       | none => parseHostIP remote) := by
  cases h : parseIP (headerChoice (isLoopback (parseHostIP remote)) v) <;> simp [getRemoteAddr, h]

/-- `strings.Split` never yields an empty list, and gluing the pieces with commas gives the value back; no piece
contains a comma. -/
theorem splitComma_ne_nil (s : Str) : splitComma s ≠ [] := by
  cases s with
  | nil => simp [splitComma]
  | cons c rest =>
    unfold splitComma
    cases h : splitComma rest <;> simp
    split <;> simp

theorem splitComma_pieces (s : Str) : ∀ p ∈ splitComma s, ',' ∉ p := by
  induction s with
  | nil => simp [splitComma]
  | cons c rest ih =>
    unfold splitComma
    cases h : splitComma rest with
    | nil => simp
    | cons p ps =>
      rw [h] at ih
      by_cases hc : c = ','
      · simp [hc]; exact ⟨(ih p (by simp)), fun a ha => ih a (by simp [ha])⟩
      · have : (c == ',') = false := by simp [hc]
        simp [this]
        refine ⟨⟨fun h => hc h.symm, ih p (by simp)⟩, fun a ha => ih a (by simp [ha])⟩

theorem splitComma_join (s : Str) : intercalate ',' (splitComma s) = s := by
  induction s with
  | nil => simp [splitComma, intercalate]
  | cons c rest ih =>
    unfold splitComma
    cases h : splitComma rest with
    | nil => exact absurd h (splitComma_ne_nil rest)
    | cons p ps =>
      rw [h] at ih
      by_cases hc : c = ','
      · subst hc; simp [intercalate, ih]
      · have : (c == ',') = false := by simp [hc]
        simp only [this]
        cases ps with
        | nil => simp [intercalate] at ih ⊢; exact ih
        | cons q qs => simp [intercalate] at ih ⊢; exact ih

/-- A header value without a comma is taken whole (blanks trimmed), from the loopback address or not. -/
theorem headerChoice_single (lb : Bool) (v : Str) (h : ',' ∉ v) : headerChoice lb v = trim v := by
  have : splitComma v = [v] := by
    induction v with
    | nil => simp [splitComma]
    | cons c rest ih =>
      have hr : ',' ∉ rest := fun hm => h (List.mem_cons_of_mem _ hm)
      have hc : (c == ',') = false := by
        have : c ≠ ',' := fun e => h (by simp [e])
        simp [this]
      unfold splitComma; rw [ih hr]; simp [hc]
  simp [headerChoice, this]

end CJ.Props.C13Dns
