import CJ.Lemmas.PhantomCompat
import CJ.Gen.C14Facts
/-!
# C14 — phantom selection is a pure function that stays inside the configured subnets

Property theorems only.  The object is `stationSelect` (`(*PhantomIPSelector).Select`), a `Prog` over
the math/rand generator; `select R g …` is what it returns when the generator implementation `R` is in
state `g` when the call starts.  Every theorem quantifies over **all** seeds, generations, library
versions, families, configurations (any list of generations, groups, weights incl. zero and equal,
subnets incl. unparsable, duplicate, overlapping, `/32`, `/128`, leading-zero networks), all HKDF
streams `h` and all generator implementations `R`.

The model mirrors the repaired code (fix-C14-C01: `FillBytes` encoding, error on zero weight, local
math/rand generator); `shared_source_interleaves` shows why the last repair was needed.
-/
namespace CJ.Props.C14
open CJ.Phantom

/-- `Select(seed, gen, ver, v6)` as a function of its inputs, the HKDF streams, and the generator -/
def select (R : Rng) (g : R.G) (h : Hk) (cfg : Cfg) (seed : Bytes) (gen ver : Nat) (v6 : Bool) :
    Outcome Addr :=
  ((stationSelect h cfg seed gen ver v6).run R g).1

/-- The property's predicate: `a` is a well-formed address of the requested family (4 bytes for IPv4,
16 for IPv6) that lies inside a subnet `r` written in some group `grp` of the generation's
configuration, `r` is of the requested family, and port randomisation is granted only if `grp` allows it. -/
def Contained (cfg : Cfg) (gen : Nat) (v6 : Bool) (a : Addr) : Prop :=
  a.bytes.length = (if v6 then 16 else 4) ∧
  ∃ gc, cfg.lookup gen = some gc ∧ ∃ grp ∈ gc.groups, ∃ r : RawNet, some r ∈ grp.nets ∧ r.v4 = (!v6) ∧
    r.base ≤ beNat a.bytes ∧ beNat a.bytes < r.base + 2 ^ (r.bits - r.ones) ∧
    (a.randPort = true → grp.randPort = true)

/-- **Containment**: whatever the generator does, a successful selection is a well-formed address of
the requested family inside a subnet configured for that generation. -/
theorem select_contained (R : Rng) (g : R.G) (h : Hk) (cfg : Cfg) (seed : Bytes) (gen ver : Nat)
    (v6 : Bool) (a : Addr) (hok : select R g h cfg seed gen ver v6 = .ok a) : Contained cfg gen v6 a := by
  obtain ⟨gc, hgc, n, ⟨grp, hgrp, hmem, hrp⟩, hfam, hl, hlo, hhi, hflag⟩ :=
    Prog.All_run (conforms_any R) (stationSelect_all anyDraw h cfg seed gen ver v6) g a hok
  refine ⟨?_, gc, hgc, grp, hgrp, n.toRawNet, hmem, hfam, hlo, hhi, ?_⟩
  · rw [hl, hfam]; cases v6 <;> rfl
  · intro ha; rw [← hrp, ← hflag]; exact ha

/-- **Never a panic**: selection ends in a result or an error for every input, provided `Intn(n)`
answers below `n` (the contract of math/rand; it is only needed by weightedrand's index lookup in the
version 0/1 paths). -/
theorem select_no_panic (R : Rng) (hR : R.Conforms intnContract) (g : R.G) (h : Hk) (cfg : Cfg)
    (seed : Bytes) (gen ver : Nat) (v6 : Bool) (w : String) :
    select R g h cfg seed gen ver v6 ≠ .panic w :=
  Prog.All_run hR (stationSelect_no_panic h cfg seed gen ver v6) g w

/-- versions ≥ 2 do not touch math/rand at all: no panic without any assumption -/
theorem select_no_panic_hkdf (R : Rng) (g : R.G) (h : Hk) (cfg : Cfg) (seed : Bytes) (gen ver : Nat)
    (hv : hkdfMinVersion ≤ ver) (v6 : Bool) (w : String) :
    select R g h cfg seed gen ver v6 ≠ .panic w := by
  unfold select stationSelect
  have h2 : ¬ ver < hkdfMinVersion := by omega
  have h1 : ¬ ver < selectionMinGeneration := by unfold hkdfMinVersion at hv; unfold selectionMinGeneration; omega
  split
  · simp [Prog.run]
  · simp only [subnetsByVersion, if_neg h2, if_neg h1, Prog.bind_eq, Prog.bind]
    split
    · exact selectHkdf_not_panic _ _ _ w
    · simp [Prog.pure_eq, Prog.run]
    · rename_i w' hw; exact absurd hw (getSubnetsHkdf_not_panic _ _ _ w')

/-- **Port randomisation only if the subnet allows it**: a result that grants port randomisation lies
in a configured subnet of a group whose `RandomizeDstPort` is set. -/
theorem randomise_only_if_subnet_allows (R : Rng) (g : R.G) (h : Hk) (cfg : Cfg) (seed : Bytes)
    (gen ver : Nat) (v6 : Bool) (a : Addr) (hok : select R g h cfg seed gen ver v6 = .ok a)
    (hrp : a.randPort = true) :
    ∃ gc, cfg.lookup gen = some gc ∧ ∃ grp ∈ gc.groups, grp.randPort = true ∧ ∃ r : RawNet, some r ∈ grp.nets ∧
      r.base ≤ beNat a.bytes ∧ beNat a.bytes < r.base + 2 ^ (r.bits - r.ones) := by
  obtain ⟨_, gc, hgc, grp, hgrp, r, hr, _, hlo, hhi, hflag⟩ := select_contained R g h cfg seed gen ver v6 a hok
  exact ⟨gc, hgc, grp, hgrp, hflag hrp, r, hr, hlo, hhi⟩

/-- **No "impossible" errors** (library versions ≥ 2).  On a generation whose subnets conform to the
contract of `net.ParseCIDR` (checked by the harness for every value it hands over), selection fails
only for reasons a configuration or the seeded reader can cause: no weight, an empty or unparsable
group, no address of the requested family, the reader's entropy limit — never with "nil result should
not be possible", "offset too big for subnet" or an address that does not fit its family. -/
theorem select_hkdf_errors (R : Rng) (g : R.G) (h : Hk) (cfg : Cfg) (gc : GenCfg) (seed : Bytes) (gen ver : Nat)
    (v6 : Bool) (e : Err) (hv : hkdfMinVersion ≤ ver) (hg : cfg.lookup gen = some gc)
    (hw : ∀ grp ∈ gc.groups, ∀ r, some r ∈ grp.nets → r.Conforms)
    (he : select R g h cfg seed gen ver v6 = .err e) :
    e = .zeroWeight ∨ e = .entropy ∨ e = .emptyGroup ∨ e = .parse ∨ e = .noAddrs := by
  unfold select at he
  rw [stationSelect_eq_client seed v6 hg hv] at he
  exact clientSelect_errors hw he

/-- an unknown (or removed) generation is an error, never a default -/
theorem select_unknown_generation (R : Rng) (g : R.G) (h : Hk) (cfg : Cfg) (seed : Bytes) (gen ver : Nat)
    (v6 : Bool) (hg : cfg.lookup gen = none) : select R g h cfg seed gen ver v6 = .err .unknownGen := by
  unfold select stationSelect
  rw [hg]; rfl

/-- **Purity (no hidden state)**: the result does not depend on the state the generator is in when
the selection starts — every draw is preceded by the selection's own `seed`. -/
theorem select_pure (R : Rng) (g g' : R.G) (h : Hk) (cfg : Cfg) (seed : Bytes) (gen ver : Nat) (v6 : Bool) :
    select R g h cfg seed gen ver v6 = select R g' h cfg seed gen ver v6 :=
  Prog.Seeded_run (stationSelect_seeded h cfg seed gen ver v6) R g g'

/-- repeating a selection (in whatever state the first one left the generator) gives the same result -/
theorem select_repeatable (R : Rng) (g : R.G) (h : Hk) (cfg : Cfg) (seed : Bytes) (gen ver : Nat) (v6 : Bool) :
    select R ((stationSelect h cfg seed gen ver v6).run R g).2 h cfg seed gen ver v6 =
      select R g h cfg seed gen ver v6 :=
  select_pure ..

/-! ### the client entry point `SelectPhantom` -/

/-- **Station = client entry** (library versions ≥ 2): on a known generation `Select` returns exactly
what `phantoms.SelectPhantom` returns on that generation's subnet list — address *and*
port-randomisation flag, errors included. -/
theorem client_flag_eq_station (R : Rng) (g : R.G) (h : Hk) (cfg : Cfg) (gc : GenCfg) (seed : Bytes)
    (gen ver : Nat) (v6 : Bool) (hv : hkdfMinVersion ≤ ver) (hg : cfg.lookup gen = some gc) :
    select R g h cfg seed gen ver v6 = clientSelect h gc seed v6 := by
  unfold select
  rw [stationSelect_eq_client seed v6 hg hv]
  rfl

/-- a generator without state (the client entry point never touches math/rand) -/
def unitRng : Rng where
  G := Unit
  seed := fun _ => ()
  intn := fun _ _ => (0, ())
  read := fun _ n => (List.replicate n 0, ())

/-- **Containment for the client entry point**: what `SelectPhantom(seed, list, V4Only | V6Only)`
returns is a well-formed address of the requested family inside a subnet written in some set of the
list, and it grants port randomisation only if that set allows it. -/
theorem client_contained (h : Hk) (gc : GenCfg) (seed : Bytes) (v6 : Bool) (a : Addr)
    (hok : clientSelect h gc seed v6 = .ok a) :
    a.bytes.length = (if v6 then 16 else 4) ∧
    ∃ grp ∈ gc.groups, ∃ r : RawNet, some r ∈ grp.nets ∧ r.v4 = (!v6) ∧
      r.base ≤ beNat a.bytes ∧ beNat a.bytes < r.base + 2 ^ (r.bits - r.ones) ∧
      (a.randPort = true → grp.randPort = true) := by
  have hg : (⟨[(0, some gc)]⟩ : Cfg).lookup 0 = some gc := rfl
  have hs : select unitRng () h ⟨[(0, some gc)]⟩ seed 0 hkdfMinVersion v6 = .ok a := by
    rw [client_flag_eq_station unitRng () h _ gc seed 0 hkdfMinVersion v6 (Nat.le_refl _) hg]; exact hok
  obtain ⟨hl, gc', hgc', rest⟩ := select_contained unitRng () h _ seed 0 hkdfMinVersion v6 a hs
  rw [hg] at hgc'
  cases hgc'
  exact ⟨hl, rest⟩

/-! ### family: Go's view of a 16-byte address -/

/-- the 16-byte addresses that Go (and every dual-stack socket API) treats as IPv4: `::ffff:0:0/96` -/
def mappedLo : Nat := 0xffff00000000
def mappedHi : Nat := 0x1000000000000

/-- **An IPv6 request yields an IPv6 address in Go's sense too**, unless the operator configured an
IPv6 subnet that reaches into `::ffff:0:0/96`: if no IPv6 subnet of the generation intersects that
range, the selected address is outside it (`net.IP.To4()` is nil). -/
theorem select_v6_not_mapped (R : Rng) (g : R.G) (h : Hk) (cfg : Cfg) (gc : GenCfg) (seed : Bytes)
    (gen ver : Nat) (a : Addr) (hg : cfg.lookup gen = some gc)
    (hcfg : ∀ grp ∈ gc.groups, ∀ r : RawNet, some r ∈ grp.nets → r.v4 = false →
      r.base + 2 ^ (r.bits - r.ones) ≤ mappedLo ∨ mappedHi ≤ r.base)
    (hok : select R g h cfg seed gen ver true = .ok a) :
    beNat a.bytes < mappedLo ∨ mappedHi ≤ beNat a.bytes := by
  obtain ⟨_, gc', hgc', grp, hgrp, r, hr, hfam, hlo, hhi, _⟩ := select_contained R g h cfg seed gen ver true a hok
  rw [hg] at hgc'
  cases hgc'
  rcases hcfg grp hgrp r hr (by simpa using hfam) with h1 | h1
  · left; omega
  · right; omega

/-! ### facts read off the code on this run (`CJ/Gen/C14Facts.lean`) -/

/-- the version thresholds of the model are the ones in `pkg/core` -/
theorem thresholds_pinned :
    CJ.Gen.C14.phantomSelectionMinGeneration = selectionMinGeneration ∧
    CJ.Gen.C14.phantomHkdfMinVersion = hkdfMinVersion := by decide

/-- **Every selector owns its generator** — the hypothesis under which `concurrent_select_pure` and
`concurrent_results_fixed` describe the code (`Conc.execLocal`: the generator is part of the thread)
— is a fact about the source: outside `init()`, no non-test file of `pkg/phantoms` mentions a
package-level `math/rand` function or calls `weightedrand.Chooser.Pick()`, the two ways to reach the
process-global source that `shared_source_interleaves` shows to be schedule dependent. -/
theorem no_global_rand : CJ.Gen.C14.globalRandCalls = [] ∧ 4 ≤ CJ.Gen.C14.sourceFiles := by decide

/-! ### concurrent selectors -/

/-- the inputs of one selection -/
structure Job where
  h : Hk
  cfg : Cfg
  seed : Bytes
  gen : Nat
  ver : Nat
  v6 : Bool

def Job.prog (j : Job) : Prog (Outcome Addr) := stationSelect j.h j.cfg j.seed j.gen j.ver j.v6

/-- **Concurrent purity** (repaired code: every selector owns its generator).  Any number of
selectors, any schedule of their atomic generator operations: a selector that has finished returned
exactly what its selection returns when it runs alone — from any generator state. -/
theorem concurrent_select_pure (R : Rng) (jobs : List (Job × R.G)) (sched : List Nat) (i : Nat)
    (t : Conc.LThread R (Outcome Addr)) (a : Outcome Addr)
    (ht : (Conc.execLocal R (jobs.map fun jg => (jg.1.prog, jg.2)) sched)[i]? = some t)
    (hdone : Conc.result t.1 = some a) :
    ∃ j g0, jobs[i]? = some (j, g0) ∧ ∀ g, a = select R g j.h j.cfg j.seed j.gen j.ver j.v6 := by
  have hmap := Conc.solo_execLocal R (jobs.map fun jg => (jg.1.prog, jg.2)) sched
  have hi := congrArg (fun l => l[i]?) hmap
  simp only [List.getElem?_map, ht, Option.map_some] at hi
  cases hj : jobs[i]? with
  | none => simp [hj] at hi
  | some jg =>
    obtain ⟨j, g0⟩ := jg
    refine ⟨j, g0, rfl, ?_⟩
    intro g
    simp only [hj, Option.map_some, Option.some.injEq] at hi
    rw [Conc.solo_of_result R t a hdone] at hi
    rw [hi]
    exact select_pure R g0 g j.h j.cfg j.seed j.gen j.ver j.v6

/-- no selector disturbs another: under any schedule the eventual results of all selectors are the
ones of their solo runs (also for selectors that have not finished yet) -/
theorem concurrent_results_fixed (R : Rng) (ts : List (Conc.LThread R (Outcome Addr))) (sched : List Nat) :
    (Conc.execLocal R ts sched).map (Conc.solo R) = ts.map (Conc.solo R) :=
  Conc.solo_execLocal R ts sched

/-! ### why the generator must be local: the design before the repair is refuted -/

/-- a toy generator: the state is the seed, `Intn(n)` returns `state % n` -/
def toyRng : Rng where
  G := Nat
  seed := fun s => s.toNat
  intn := fun g n => (g % n, g + 1)
  read := fun g n => (List.replicate n (UInt8.ofNat g), g + 1)

/-- the toy generator's start state -/
def toy0 : toyRng.G := (0 : Nat)

/-- With one process-global generator (`rand.Seed` + `rand.Intn` as two separate atomic operations),
two selectors interleaved as seed₀, seed₁, draw₀, draw₁ make selector 0 draw from selector 1's seed
and selector 1 from the state selector 0 left behind: both results differ from the solo runs.  (The Go harness observes exactly this on the unrepaired tree.) -/
theorem shared_source_interleaves :
    ∃ (p q : Prog Nat) (sched : List Nat),
      (Conc.execShared toyRng ⟨toy0, [p, q]⟩ sched).ts.map Conc.result = [some 2, some 3] ∧
      (p.run toyRng toy0).1 = 1 ∧ (q.run toyRng toy0).1 = 2 :=
  ⟨drawIntn 1 10, drawIntn 2 10, [0, 1, 0, 1], by decide, by decide, by decide⟩

/-- the same two selectors with local generators, same schedule: both get their solo results -/
example : (Conc.execLocal toyRng [(drawIntn 1 10, toy0), (drawIntn 2 10, toy0)] [0, 1, 0, 1]).map
    (fun t => Conc.result t.1) = [some 1, some 2] := by decide

/-! ### non-vacuity: the hypotheses are met by concrete selections -/

/-- generation 1: `10.1.0.0/30` and `0.1.2.0/24` (a leading-zero network) with port randomisation,
weight 1; `2001:db8::/126` without, weight 0 -/
def cfg0 : Cfg := ⟨[(1, some ⟨false, [
  ⟨1, true, false, [some ⟨true, 0x0a010000, 30, 32⟩, some ⟨true, 0x00010200, 24, 32⟩]⟩,
  ⟨0, false, false, [some ⟨false, 0x20010db8000000000000000000000000, 126, 128⟩]⟩]⟩)]⟩

/-- HKDF streams that deliver zero bytes -/
def zeroHk : Hk := ⟨fun _ _ _ => 0, 8160⟩

/-- library version 1, seed `[2, 0, 0, 1, 2]`: the legacy path runs and yields `0.1.2.1`, four bytes -/
example : select toyRng toy0 zeroHk cfg0 [2, 0, 0, 1, 2] 1 1 false = .ok ⟨[0, 1, 2, 1], true⟩ := by decide

/-- library version 2 (HKDF path) on the same configuration -/
example : select toyRng toy0 zeroHk cfg0 [7] 1 2 false = .ok ⟨[10, 1, 0, 0], true⟩ := by decide

/-- the toy generator honours the `Intn` contract, so `select_no_panic` applies to it -/
example : toyRng.Conforms intnContract := fun g _ hn => Nat.mod_lt g hn

/-- all weights zero: an error (it was a panic before the repair) -/
example : select toyRng toy0 zeroHk ⟨[(1, some ⟨false, [⟨0, false, false, [some ⟨true, 0x0a010000, 30, 32⟩]⟩]⟩)]⟩
    [7] 1 2 false = .err .zeroWeight := by decide

/-- the subnets of `cfg0` conform to the contract of `net.ParseCIDR` -/
example : (⟨true, 0x00010200, 24, 32⟩ : RawNet).Conforms ∧
    (⟨false, 0x20010db8000000000000000000000000, 126, 128⟩ : RawNet).Conforms ∧
    (⟨true, 0x01020300, 120, 128⟩ : RawNet).Conforms := by
  refine ⟨?_, ?_, ?_⟩ <;> (unfold RawNet.Conforms RawNet.Fits; decide)

end CJ.Props.C14
