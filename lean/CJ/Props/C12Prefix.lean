import CJ.Model.PrefixFile
/-!
# C12 — the prefix override file: what is written into the response is a line of the file

Theorems over `CJ.PrefixFile` (the text of the override file, `crypto/rand.Int` on the reader's bytes, the
two-level selection, `PrefixOverride.Override`), for every file, every reader content and every client
parameter set.  The response object written here is the one `processBdReq` returns to the client *and* leaves
in the wrapper that `processC2SWrapper` forwards (`client_view_eq_forwarded` in `CJ.Props.C12`); these theorems
add where its parameters come from.
-/
namespace CJ.Props.C12Prefix
open CJ.PrefixFile CJ.Registrar

/-! ## `crypto/rand.Int` (was an assumed contract of the draw) -/

theorem randLoop_ok_lt (max k b : Nat) : ∀ (fuel : Nat) (s : List Nat) (n : Nat) (r : List Nat),
    randLoop max k b fuel s = (.ok n, r) → n < max := by
  intro fuel
  induction fuel with
  | zero => intro s n r h; simp [randLoop] at h
  | succ f ih =>
    intro s n r h
    unfold randLoop at h
    split at h
    · simp at h
    · split at h
      · simp at h
      · dsimp only at h
        split at h
        · simp only [Prod.mk.injEq, Draw.ok.injEq] at h
          omega
        · exact ih _ _ _ h

theorem randLoop_not_panic (max k b : Nat) : ∀ (fuel : Nat) (s : List Nat), (randLoop max k b fuel s).1 ≠ .panic := by
  intro fuel
  induction fuel with
  | zero => intro s; simp [randLoop]
  | succ f ih =>
    intro s
    unfold randLoop
    split
    · simp
    · split
      · simp
      · dsimp only
        split
        · simp
        · exact ih _

/-- a successful draw is below `max` -/
theorem randInt_lt (max : Int) (s : List Nat) (n : Nat) (r : List Nat)
    (h : randInt max s = (.ok n, r)) : (n : Int) < max := by
  unfold randInt at h
  split at h
  · simp at h
  · rename_i hpos
    simp only at h
    split at h
    · simp only [Prod.mk.injEq, Draw.ok.injEq] at h
      omega
    · have := randLoop_ok_lt _ _ _ _ _ _ _ h
      omega

/-- `rand.Int` panics only on a non-positive bound -/
theorem randInt_panic_iff (max : Int) (s : List Nat) : (randInt max s).1 = .panic ↔ max ≤ 0 := by
  unfold randInt
  constructor
  · intro h
    split at h
    · assumption
    · simp only at h
      split at h
      · simp at h
      · exact absurd h (randLoop_not_panic _ _ _ _ _)
  · intro h; simp [h]

/-! ## selection -/

/-- one line: whatever it yields is the line itself, and only a line with positive `bar` and `max` yields -/
theorem barSelect_some (b : Bar) (s r : List Nat) (f : Fields) (h : barSelect b s = (some f, r)) :
    f = b.fields ∧ 0 < b.bar ∧ 0 < b.max := by
  unfold barSelect at h
  split at h
  · simp at h
  · split at h
    · simp at h
    · split at h
      · simp only [Prod.mk.injEq, Option.some.injEq] at h
        exact ⟨h.1.symm, by omega, by omega⟩
      · split at h
        · split at h
          · simp only [Prod.mk.injEq, Option.some.injEq] at h
            exact ⟨h.1.symm, by omega, by omega⟩
          · simp at h
        · simp at h

/-- the indexing `pfs[i]` of `prefixes.selectPrefix` never leaves the list and `rand.Int` is never called with a
non-positive bound: no reader content makes the selection panic -/
theorem select_never_panics (pfs : List Bar) (s : List Nat) : (selectPrefix pfs s).1 ≠ .panic := by
  unfold selectPrefix
  split
  · simp
  · simp
  · rename_i h1 h2
    split
    · rename_i i rest hi
      have hlt := randInt_lt _ _ _ _ hi
      have : i < pfs.length := by omega
      split
      · simp
      · rename_i hnone
        simp at hnone
        omega
    · rename_i rest hp
      have := (randInt_panic_iff (pfs.length : Int) s).mp (by rw [hp])
      have hl : pfs.length ≠ 0 := by
        intro h0; exact h1 (List.eq_nil_of_length_eq_zero h0)
      omega
    · simp

/-- **whatever is selected is a line of the file** with positive `bar` and `max` -/
theorem selected_is_configured (pfs : List Bar) (s r : List Nat) (f : Fields)
    (h : selectPrefix pfs s = (.res (some f), r)) : ∃ b ∈ pfs, f = b.fields ∧ 0 < b.bar ∧ 0 < b.max := by
  unfold selectPrefix at h
  split at h
  · simp at h
  · rename_i b
    simp only [Prod.mk.injEq, Sel.res.injEq] at h
    have hb : barSelect b s = (some f, r) := by
      rcases hbs : barSelect b s with ⟨x, y⟩
      rw [hbs] at h; simp at h; rw [h.1, h.2]
    exact ⟨b, by simp, barSelect_some b s r f hb⟩
  · split at h
    · rename_i i rest hi
      split at h
      · rename_i b hb
        simp only [Prod.mk.injEq, Sel.res.injEq] at h
        have hbs : barSelect b rest = (some f, r) := by
          rcases hq : barSelect b rest with ⟨x, y⟩
          rw [hq] at h; simp at h; rw [h.1, h.2]
        exact ⟨b, List.mem_of_getElem? hb, barSelect_some b rest r f hbs⟩
      · simp at h
    · simp at h
    · simp at h

/-- a file whose lines are all closed (`bar ≤ 0`) never applies, whatever the reader delivers -/
theorem closed_file_never_applies (pfs : List Bar) (hc : ∀ b ∈ pfs, b.bar ≤ 0) (s : List Nat) :
    ∃ r, selectPrefix pfs s = (.res none, r) := by
  rcases hsel : selectPrefix pfs s with ⟨sel, r⟩
  refine ⟨r, ?_⟩
  match sel, hsel with
  | .panic, hsel => exact absurd (by rw [hsel]) (select_never_panics pfs s)
  | .res none, _ => rfl
  | .res (some f), hsel =>
    obtain ⟨b, hb, _, hpos, _⟩ := selected_is_configured pfs s r f hsel
    have := hc b hb
    omega

/-- a file with one line whose `bar` reaches `max` always applies and reads nothing from the reader -/
theorem sure_line_always_applies (b : Bar) (hm : 0 < b.max) (hb : b.max ≤ b.bar) (s : List Nat) :
    selectPrefix [b] s = (.res (some b.fields), s) := by
  have h1 : ¬ b.bar ≤ 0 := by omega
  have h2 : ¬ b.max ≤ 0 := by omega
  have h3 : b.bar ≥ b.max := hb
  simp [selectPrefix, barSelect, h1, h2, h3]

example : selectPrefix [{ max := 10, bar := 10, id := 77, port := 1234, pbytes := [72], flush := 1 }] [1, 2] =
    (.res (some { pbytes := [72], port := 1234, id := 77, flush := 1 }), [1, 2]) := by decide

/-! ## what `Override` writes -/

/-- **the parameters in the response after `PrefixOverride.Override`**: either the response is untouched (nothing
was selected), or its parameters are the client's own with prefix id, prefix bytes and flush policy replaced by
those of a line of the file (the id as an `int32`) — the client's `randomize_dst_port` is kept, nothing else is
invented -/
theorem response_carries_file_line (pfs : List Bar) (s : List Nat) (cp : PrefixParams) (r0 r : Resp) (rest : List Nat)
    (h : fileOverride pfs s cp r0 = (some r, rest)) :
    r = r0 ∨ ∃ b ∈ pfs, 0 < b.bar ∧ 0 < b.max ∧
      r.params = some (.pfx { cp with pbytes := some (hexOf b.pbytes), prefixId := some (toInt32 b.id), flush := some b.flush }) ∧
      r.port = some 443 ∧ r.v4 = r0.v4 ∧ r.v6 = r0.v6 := by
  unfold fileOverride at h
  rcases hsel : selectPrefix pfs s with ⟨sel, rst⟩
  rw [hsel] at h
  simp only at h
  match sel, hsel with
  | .panic, _ => simp [ovSelOf] at h
  | .res none, _ =>
    left
    simp [ovSelOf, paramOverride] at h
    exact h.1.symm
  | .res (some f), hsel =>
    right
    obtain ⟨b, hb, hf, hbar, hmax⟩ := selected_is_configured pfs s rst f hsel
    refine ⟨b, hb, hbar, hmax, ?_⟩
    subst hf
    simp only [ovSelOf, paramOverride, Heap.updW, Heap.upd, Bar.fields] at h
    simp at h
    obtain ⟨h, _⟩ := h
    subst h
    by_cases hp : r0.port = some 443 <;> simp [hp]

example : fileOverride [{ max := 10, bar := 10, id := 77, port := 1234, pbytes := [72], flush := 1 }] []
    { randomize := some true } { v4 := some 5 } =
    (some { v4 := some 5, port := some 443,
            params := some (.pfx { prefixId := some 77, pbytes := some "48", flush := some 1, randomize := some true }) }, []) := by
  decide

/-! ## the text -/

/-- every selector `ParsePrefixes` produces comes from a line whose four integers all converted, is not the
zero/zero line, and carries the static flush policy -/
theorem parsed_selectors (ls : List (List Nat)) : ∀ (ints : List (List IntTok)) (bars : List Bar),
    parseLines ls ints = .ok bars → ∀ b ∈ bars, ¬ (b.max = 0 ∧ b.bar = 0) ∧ b.flush = noAddedFlush := by
  induction ls with
  | nil => intro ints bars h; simp [parseLines] at h; subst h; simp
  | cons line rest ih =>
    intro ints bars h
    unfold parseLines at h
    split at h
    · exact ih _ _ h
    · exact ih _ _ h
    · split at h
      · split at h
        · simp at h
        · rename_i toks ints'
          split at h
          · simp at h
          · exact ih _ _ h
          · rename_i b0 hb0
            cases hrec : parseLines rest ints' with
            | error e => rw [hrec] at h; simp [Except.map] at h
            | ok bs =>
              rw [hrec] at h
              simp only [Except.map, Except.ok.injEq] at h
              subst h
              intro b hb
              rcases List.mem_cons.mp hb with rfl | hb
              · unfold lineBar at hb0
                split at hb0
                · split at hb0
                  · simp at hb0
                  · rename_i hz
                    split at hb0
                    · simp at hb0
                    · simp only [Except.ok.injEq, Option.some.injEq] at hb0
                      subst hb0
                      simp at hz
                      exact ⟨fun ⟨a, c⟩ => by simp_all, rfl⟩
                · simp at hb0
              · exact ih _ _ hrec b hb
      · simp at h

/-- the quirk kept by the model: a line whose first two columns are not numbers at all counts as `0 0` and is
skipped without an error, because the zero/zero test comes before the conversion errors are looked at -/
example : lineBar [⟨0, false⟩, ⟨0, false⟩, ⟨1, true⟩, ⟨2, true⟩] [80] = .ok none := by simp [lineBar]

end CJ.Props.C12Prefix
