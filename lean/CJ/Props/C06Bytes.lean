import CJ.Model.NetAddrBytes
import CJ.Props.C06Addr
/-!
# C06 — covert strings are bytes

`literal_accepted_is_permitted` quantifies over every `String`; the byte reading of `CJ.NetAddrBytes` makes every Go
string — valid UTF-8 or not — one of them, so the clause holds for every byte sequence a client can send.
-/
namespace CJ.Props.C06Bytes
open CJ.NetAddr CJ.NetAddrBytes CJ.Covert CJ.CovertLit

theorem byteChar_toNat_fin (b : Fin 256) : (Char.ofNat b.val).toNat = b.val := by
  revert b; decide +kernel

/-- the reading loses nothing: a byte is read back from its character -/
theorem charByte_byteChar (b : UInt8) : charByte (byteChar b) = some b := by
  have h := byteChar_toNat_fin ⟨b.toNat, b.toNat_lt⟩
  simp only at h
  unfold charByte byteChar
  rw [h]
  simp [b.toNat_lt]

theorem toBytes_ofBytes (b : Bytes) : toBytes (ofBytes b) = some b := by
  induction b with
  | nil => rfl
  | cons x xs ih =>
    unfold toBytes ofBytes at *
    simp only [List.map_cons, List.mapM_cons, charByte_byteChar, ih]
    rfl

/-- a byte from 0x80 is read as a character outside ASCII; an ASCII byte as itself -/
theorem byteChar_ascii (b : UInt8) : (byteChar b).toNat = b.toNat := by
  have h := byteChar_toNat_fin ⟨b.toNat, b.toNat_lt⟩
  simpa [byteChar] using h

theorem ofBytes_length (b : Bytes) : (ofBytes b).length = b.length := by simp [ofBytes]

/-- **Accepted ⇒ permitted literal, for every byte string.**  Whatever bytes the client puts into the covert field —
valid UTF-8 or not — if the modelled `ParseOrResolveBlocklisted` does not reject them (and did not need the resolver),
the answer is the canonical literal of an address the configured prefixes permit. -/
theorem bytes_accepted_is_permitted {Pat : Type} (ms : Pat → String → Bool) (pol : Policy IPNet Pat)
    (provided : Bytes) (r : Result) (h : admitLitB ms pol provided = some r) (hout : r.out ≠ "") :
    CJ.Props.C06Addr.PermittedLiteral ms pol (covertString provided) r :=
  CJ.Props.C06Addr.literal_accepted_is_permitted ms pol (covertString provided) r h hout

-- the hypotheses are satisfiable: "198.51.100.7:443" as bytes (`admitLitB` itself is evaluated on every `cadmitb|`
-- line by the compiled driver; `String` operations do not reduce in the kernel, so the steps are shown on the readings)
def cov1b : Bytes := [49,57,56,46,53,49,46,49,48,48,46,55,58,52,52,51]
example : ofBytes cov1b = CJ.Props.C06Addr.cov1 := by decide +kernel
example : (splitHostPortB cov1b).map (fun x => (toBytes x.1, toBytes x.2)) =
    some (some [49,57,56,46,53,49,46,49,48,48,46,55], some [52,52,51]) := by decide +kernel
-- a byte that is not UTF-8 (0xff) in the host: a name, not an address; in the port: not a uint16
example : resolveLiteralB [49,46,50,46,51,46,0xff] = .name := by decide +kernel
example : parseUint16B [56,0xff] = none := by decide +kernel
example : parseAddrB [0xc3, 0x28] = none := by decide +kernel
example : splitHostPortB [0xff, 58, 0xfe] = some ([Char.ofNat 0xff], [Char.ofNat 0xfe]) := by decide +kernel

end CJ.Props.C06Bytes
