import CJ.Model.ReloadSteps
import CJ.Model.Config
import CJ.Gen.C19Reload
/-!
# C19, growth: `OnReload` as extracted code

`CJ.Gen.C19Reload.steps` is the body of `RegistrationManager.OnReload`, regenerated from the source on every
run (statements in source order, each with the conditions of the `if` statements around it).  The theorems
below are about that program and **every** outcome of its two loaders (3 × 3 environments: value / value with
`ErrMissingDB` / `(nil, err)`):

* `onreload_program_understood` — the extractor accounted for every statement and every condition;
* `onreload_never_installs_nil` — no field ever receives the nil result of a loader that failed
  (the early `return` after `geoip.New` and the `else` around the selector assignment are what this rests on);
* `onreload_part_by_part` — selector new iff its loader succeeded, GeoIP new iff its loader returned a database,
  every policy field is `conf`'s field **of the same name**, in every environment (a failure of either loader
  never reaches the policies);
* `onreload_refines_model` — read back into values, the program computes exactly `CJ.Config.onReload`, the
  function all reload-sequence theorems of `CJ.Props.C19` are stated about (so they hold of the extracted code);
* `decision_fields_all_reloaded`, `parsed_fields_all_reloaded` — every field the three decision functions read, and
  every field `ParseBlocklists` writes, is among the fields `OnReload` copies;
* `onreload_writes_under_lock`, `onreload_leaves_no_lock` — every write happens under the mutex that guards the
  field, and no path (early return included) leaves a mutex held;
* counter-models: the program without its `return` installs nil (`dropping_return_installs_nil`), the program that
  assigns the selector before the test does too (`assign_before_test_installs_nil`).
-/

namespace CJ.Props.C19
open CJ.ReloadSteps CJ.Gen.C19Reload

/-- the indices the generated file gives for the two reloadable fields and the two mutexes are those of their
names -/
theorem onreload_names_present :
    names[selectorField]? = some "PhantomSelector" ∧ names[geoipField]? = some "GeoIP" ∧
    names[reloadMu]? = some "reloadMu" ∧ names[policyMu]? = some "RegConfig.policyMu" := by decide

abbrev selIdx : Nat := selectorField
abbrev geoIdx : Nat := geoipField
abbrev reloadMuIdx : Nat := reloadMu
abbrev policyMuIdx : Nat := policyMu

/-- every statement and every condition of `OnReload` is one the model understands -/
theorem onreload_program_understood : hasUnknown steps = false := by decide

/-- … and the interpreter never meets a step it cannot account for (a condition on an error before the call that
produces it, an unlock of a mutex that is not held, a second lock of a held mutex) -/
theorem onreload_interpreted (e : Env) : (run e steps).bad = false := by
  obtain ⟨s, g⟩ := e
  cases s <;> cases g <;> decide

/-- **No failed load is ever installed**: whatever the two loaders answer, no field of the manager or of its
`RegConfig` receives the nil first result of a loader that returned an error. -/
theorem onreload_never_installs_nil (e : Env) : ∀ p ∈ (run e steps).fields, p.2 ≠ Tag.nil := by
  obtain ⟨s, g⟩ := e
  cases s <;> cases g <;> decide

/-- **Part by part**: the selector is the new one iff `NewPhantomIPSelector` returned no error and otherwise
untouched; the GeoIP database is the new one iff `geoip.New` returned a database (no error, or `ErrMissingDB`) and
otherwise untouched. -/
theorem onreload_part_by_part (e : Env) :
    (run e steps).tagOf (.manager selIdx) = (if e.sel = .ok then Tag.fresh .selector else Tag.old) ∧
    (run e steps).tagOf (.manager geoIdx) = (if e.geo = .err then Tag.old else Tag.fresh .geoip) := by
  obtain ⟨s, g⟩ := e
  cases s <;> cases g <;> decide

/-- a write `OnReload` may make: a field of `RegConfig` receives `conf`'s field of the same name; of the manager's
own fields only the selector and the GeoIP database are written -/
def policyWriteOk : Target × Tag → Bool
  | (.regConfig f, t) => t == Tag.conf f
  | (.manager i, _) => i == selIdx || i == geoIdx

/-- **The policies never depend on the other parts**: in every environment every field of `RegConfig` that
`OnReload` writes holds `conf`'s field of the same name, and no other field of the manager is written. -/
theorem onreload_policy_all_copied (e : Env) : ∀ p ∈ (run e steps).fields, policyWriteOk p = true := by
  obtain ⟨s, g⟩ := e
  cases s <;> cases g <;> decide

/-- the set of `RegConfig` fields written is the same in every environment (all or nothing is *all*: a reload
whose configuration loaded replaces the policies completely) -/
def copiedFields : List Nat :=
  (assignedTargets steps).filterMap fun t => match t with | .regConfig f => some f | _ => none

theorem onreload_policy_complete (e : Env) :
    ∀ f ∈ copiedFields, (run e steps).tagOf (.regConfig f) = Tag.conf f := by
  obtain ⟨s, g⟩ := e
  cases s <;> cases g <;> decide

/-- every field the decision functions (`isBlocklistedCovertAddr`, `isBlocklistedCovertDomain`,
`IsBlocklistedPhantom`) read is replaced by a reload -/
theorem decision_fields_all_reloaded : ∀ f ∈ decisionFields, f ∈ copiedFields := by decide

/-- every field `ParseBlocklists` writes (the parsed form of the configuration) is replaced by a reload -/
theorem parsed_fields_all_reloaded : ∀ f ∈ parsedFields, f ∈ copiedFields := by decide

/-- the decision functions read parsed fields only: a list that was configured but not parsed cannot decide -/
theorem decision_fields_are_parsed : ∀ f ∈ decisionFields, f ∈ parsedFields := by decide

/-- the mutex that guards a field is among the locks held -/
def writeLocked : Target × List Nat → Bool
  | (.manager _, held) => held.contains reloadMuIdx
  | (.regConfig _, held) => held.contains policyMuIdx

/-- every write happens under the mutex that guards its field: `reloadMu` for the selector and the GeoIP
database, `RegConfig.policyMu` for the policies -/
theorem onreload_writes_under_lock (e : Env) : ∀ w ∈ (run e steps).writes, writeLocked w = true := by
  obtain ⟨s, g⟩ := e
  cases s <;> cases g <;> decide

/-- no path through `OnReload` — the early return included — leaves a mutex held -/
theorem onreload_leaves_no_lock (e : Env) : (run e steps).held = [] := by
  obtain ⟨s, g⟩ := e
  cases s <;> cases g <;> decide

/-! ## back to values: the program computes `CJ.Config.onReload` -/

section refine
open CJ.Config
variable {Sel Pol Geo : Type}

/-- the environment of a reload described by values -/
def envOf (sel : Option Sel) (geo : GeoLoad Geo) : Env :=
  { sel := if sel.isSome then .ok else .err,
    geo := match geo with | .ok _ => .ok | .missing _ => .missing | .err => .err }

/-- reading a final state back into a station: a tag names which value the field holds; `none` = the field is nil,
or the policies are a mix of two configurations -/
def denote (fin : St) (st : Station Sel Pol Geo) (sel : Option Sel) (pol : Pol) (geo : GeoLoad Geo) :
    Option (Station Sel Pol Geo) :=
  let s : Option Sel := match fin.tagOf (.manager selIdx) with
    | .old => some st.selector
    | .fresh .selector => sel
    | _ => none
  let g : Option Geo := match fin.tagOf (.manager geoIdx) with
    | .old => some st.geoip
    | .fresh .geoip => geo.loaded
    | _ => none
  let p : Option Pol :=
    if copiedFields.all (fun f => fin.tagOf (.regConfig f) == Tag.conf f) then some pol
    else if copiedFields.all (fun f => fin.tagOf (.regConfig f) == Tag.old) then some st.policy
    else none
  match s, p, g with
  | some s, some p, some g => some ⟨s, p, g⟩
  | _, _, _ => none

/-- **The extracted program refines the model**: for every station, every new configuration and every outcome of
the two loaders, running the statements of `OnReload` yields exactly the station `CJ.Config.onReload` describes.
Hence `reload_part_atomic`, `reloads_parts_from_loaded`, `reloads_eq_last_loaded`, `failed_reload_changes_nothing`,
`policy_independent_of_other_parts` (all stated about `onReload`) are statements about the code as extracted. -/
theorem onreload_refines_model (st : Station Sel Pol Geo) (sel : Option Sel) (pol : Pol) (geo : GeoLoad Geo) :
    denote (run (envOf sel geo) steps) st sel pol geo = some (onReload st sel pol geo) := by
  have h1 := onreload_part_by_part (envOf sel geo)
  have h2 := onreload_policy_complete (envOf sel geo)
  have hp : copiedFields.all (fun f => (run (envOf sel geo) steps).tagOf (.regConfig f) == Tag.conf f) = true := by
    rw [List.all_eq_true]
    intro f hf
    rw [h2 f hf]
    exact beq_self_eq_true _
  simp only [denote, hp, if_true, h1.1, h1.2]
  cases sel <;> cases geo <;> simp [envOf, onReload, GeoLoad.loaded]

end refine

/-! ## counter-models: the two ways a failed load gets installed -/

/-- the program with every `return` removed -/
def withoutReturn (p : List Step) : List Step := p.filter fun s => s.act != .ret

/-- without the early return the nil database of a failed `geoip.New` is installed (the next connection
dereferences it) -/
theorem dropping_return_installs_nil :
    (run ⟨.ok, .err⟩ (withoutReturn steps)).tagOf (.manager geoIdx) = Tag.nil := by decide

/-- "assign, then test the error": the selector of a failed load is installed -/
def assignThenTest : List Step := [
  ⟨[], .load .selector⟩,
  ⟨[], .assign (.manager selIdx) (.loaded .selector)⟩,
  ⟨[(.errNonNil .selector, true)], .log⟩ ]

theorem assign_before_test_installs_nil :
    (run ⟨.err, .ok⟩ assignThenTest).tagOf (.manager selIdx) = Tag.nil := by decide

/-- the hypotheses-free theorems above are about a program that does something: with both loaders succeeding the
selector, the GeoIP database and every copied policy field are written -/
example : copiedFields ≠ [] ∧ (run ⟨.ok, .ok⟩ steps).fields.length = copiedFields.length + 2 := by decide

end CJ.Props.C19
