import CJ.Model.NetAddr

/-!
# C06: `SplitHostPort ∘ JoinHostPort` and the prefix reading of `Contains`

Theorems over the definitions of `CJ.Model.NetAddr` (no new model code).
-/

namespace CJ.Props.C06Split
open CJ.NetAddr

/-! ## A: split ∘ join -/

theorem beq_false_of_not_mem_head {c x : Char} {xs : Str} (h : c ∉ x :: xs) : (x == c) = false := by
  apply beq_false_of_ne
  intro e
  exact h (e ▸ List.mem_cons_self ..)

theorem lastIdxOf_none {c : Char} : ∀ {l : Str}, c ∉ l → lastIdxOf c l = none
  | [], _ => rfl
  | x :: xs, h => by
    have h1 : c ∉ xs := fun m => h (List.mem_cons_of_mem _ m)
    have h2 : (x == c) = false := beq_false_of_not_mem_head h
    simp [lastIdxOf, lastIdxOf_none h1, h2]

theorem lastIdxOf_append {c : Char} {p : Str} (hp : c ∉ p) :
    ∀ a : Str, lastIdxOf c (a ++ c :: p) = some a.length
  | [] => by simp [lastIdxOf, lastIdxOf_none hp]
  | x :: xs => by simp [lastIdxOf, lastIdxOf_append hp xs]

theorem idxOf_append {c : Char} {r : Str} : ∀ {a : Str}, c ∉ a → idxOf c (a ++ c :: r) = some a.length
  | [], _ => by simp [idxOf]
  | x :: xs, h => by
    have h1 : c ∉ xs := fun m => h (List.mem_cons_of_mem _ m)
    have h2 : (x == c) = false := beq_false_of_not_mem_head h
    simp [idxOf, h2, idxOf_append h1]

theorem take_len_append {α} : ∀ (a b : List α), (a ++ b).take a.length = a
  | [], _ => by simp
  | x :: xs, b => by simp [take_len_append xs b]

theorem drop_len_append {α} : ∀ (a b : List α), (a ++ b).drop a.length = b
  | [], _ => by simp
  | x :: xs, b => by simp [drop_len_append xs b]

theorem split_join (h p : Str) (h1 : '[' ∉ h) (h2 : ']' ∉ h)
    (p1 : ':' ∉ p) (p2 : '[' ∉ p) (p3 : ']' ∉ p) :
    splitHostPort (joinHostPort h p) = some (h, p) := by
  unfold joinHostPort
  by_cases hc : h.contains ':' = true
  · rw [if_pos hc]
    have L : lastIdxOf ':' ('[' :: h ++ ']' :: ':' :: p) = some (h.length + 2) := by
      have e1 : '[' :: h ++ ']' :: ':' :: p = ('[' :: h ++ [']']) ++ ':' :: p := by simp
      rw [e1, lastIdxOf_append p1]; simp
    have I : idxOf ']' ('[' :: h ++ ']' :: ':' :: p) = some (h.length + 1) := by
      have hm : ']' ∉ '[' :: h := by
        intro m
        rcases List.mem_cons.1 m with e | e
        · exact absurd e (by decide)
        · exact h2 e
      have := idxOf_append (r := ':' :: p) hm
      simp at this
      simp [this]
    have T : (('[' :: h ++ ']' :: ':' :: p).take (h.length + 1)).drop 1 = h := by
      have := take_len_append ('[' :: h) (']' :: ':' :: p)
      simp only [List.length_cons] at this
      rw [this]; rfl
    have D : ('[' :: h ++ ']' :: ':' :: p).drop (h.length + 2 + 1) = p := by
      have e1 : '[' :: h ++ ']' :: ':' :: p = ('[' :: h ++ [']', ':']) ++ p := by simp
      rw [e1]
      simp
    unfold splitHostPort
    rw [L]
    simp only [List.cons_append] at *
    simp only [I, T, D]
    simp [h1, p2, p3]
  · rw [if_neg hc]
    have L : lastIdxOf ':' (h ++ ':' :: p) = some h.length := lastIdxOf_append p1 h
    unfold splitHostPort
    rw [L]
    dsimp only
    split
    · rename_i t heq
      cases h with
      | nil =>
        simp at heq
      | cons x xs =>
        simp at heq
        exact absurd (heq.1 ▸ List.mem_cons_self ..) h1
    · have D : (h ++ ':' :: p).drop (h.length + 1) = p := by
        have e1 : h ++ ':' :: p = (h ++ [':']) ++ p := by simp
        rw [e1]
        simp
      rw [take_len_append, D]
      simp only [hc]
      simp [h1, h2, p2, p3]

example : splitHostPort (joinHostPort "::1".toList "80".toList) = some ("::1".toList, "80".toList) :=
  split_join _ _ (by decide) (by decide) (by decide) (by decide) (by decide)

/-! ## B: masked equality = agreement on the first `ones` bits -/

theorem maskByte_succ (ones k : Nat) : maskByte ones (k + 1) = maskByte (ones - 8) k := by
  have e : 8 - (ones - 8 * (k + 1)) = 8 - (ones - 8 - 8 * k) := by omega
  unfold maskByte
  rw [e]
  repeat' split
  all_goals (first | rfl | omega)

theorem cidrMask_succ (ones n : Nat) :
    cidrMask ones (n + 1) = maskByte ones 0 :: cidrMask (ones - 8) n := by
  unfold cidrMask
  rw [List.range_succ_eq_map, List.map_cons, List.map_map]
  congr 1
  apply List.map_congr_left
  intro k _
  simp [Function.comp, maskByte_succ]

theorem land_mask (a : Fin 256) (j : Fin 9) :
    a.val &&& (256 - 2 ^ j.val) = a.val / 2 ^ j.val * 2 ^ j.val := by
  revert a j; decide +kernel

theorem land_255 (a : Fin 256) : a.val &&& 255 = a.val := by
  revert a; decide +kernel

theorem maskByte_zero_ge {ones : Nat} (h : ones ≥ 8) : maskByte ones 0 = 255 := by
  unfold maskByte; rw [if_pos (by omega)]

theorem maskByte_zero_lt {ones : Nat} (h : ones < 8) : maskByte ones 0 = 256 - 2 ^ (8 - ones) := by
  unfold maskByte
  rw [if_neg (by omega)]
  by_cases c : ones ≤ 8 * 0
  · have : ones = 0 := by omega
    subst this
    rfl
  · rw [if_neg c]; simp

/-- one byte under the first mask byte -/
theorem byte_step (ones x y : Nat) (hx : x < 256) (hy : y < 256) :
    (x &&& maskByte ones 0 = y &&& maskByte ones 0) ↔
      (if ones ≥ 8 then x = y else x / 2 ^ (8 - ones) = y / 2 ^ (8 - ones)) := by
  by_cases h : ones ≥ 8
  · rw [if_pos h, maskByte_zero_ge h]
    have a := land_255 ⟨x, hx⟩
    have b := land_255 ⟨y, hy⟩
    simp only at a b
    rw [a, b]
  · rw [if_neg h, maskByte_zero_lt (by omega)]
    have a := land_mask ⟨x, hx⟩ ⟨8 - ones, by omega⟩
    have b := land_mask ⟨y, hy⟩ ⟨8 - ones, by omega⟩
    simp only at a b
    rw [a, b]
    exact Nat.mul_right_cancel_iff (Nat.pow_pos (by decide))

/-- `a` and `b` (same length) agree on their first `ones` bits -/
def prefixAgree : Nat → List Nat → List Nat → Prop
  | _, [], [] => True
  | ones, a :: as, b :: bs =>
    (if ones ≥ 8 then a = b else a / 2 ^ (8 - ones) = b / 2 ^ (8 - ones)) ∧ prefixAgree (ones - 8) as bs
  | _, _, _ => False

theorem prefixAgree_zero : ∀ (a b : List Nat), a.length = b.length →
    (∀ x ∈ a, x < 256) → (∀ x ∈ b, x < 256) → prefixAgree 0 a b
  | [], [], _, _, _ => trivial
  | x :: xs, y :: ys, hl, ha, hb => by
    have hx : x < 256 := ha x (List.mem_cons_self ..)
    have hy : y < 256 := hb y (List.mem_cons_self ..)
    have ih := prefixAgree_zero xs ys (by simpa using hl)
      (fun z hz => ha z (List.mem_cons_of_mem _ hz)) (fun z hz => hb z (List.mem_cons_of_mem _ hz))
    unfold prefixAgree
    refine ⟨?_, ih⟩
    rw [if_neg (by omega)]
    rw [Nat.div_eq_of_lt (by simpa using hx), Nat.div_eq_of_lt (by simpa using hy)]
  | [], _ :: _, hl, _, _ => by simp at hl
  | _ :: _, [], hl, _, _ => by simp at hl

theorem masked_eq_iff_prefix_aux : ∀ (n ones : Nat) (a b : List Nat), a.length = n → b.length = n →
    (∀ x ∈ a, x < 256) → (∀ x ∈ b, x < 256) →
    (andBytes a (cidrMask ones n) = andBytes b (cidrMask ones n) ↔ prefixAgree ones a b)
  | 0, ones, [], [], _, _, _, _ => by simp [andBytes, prefixAgree]
  | n + 1, ones, x :: xs, y :: ys, hla, hlb, ha, hb => by
    have hx : x < 256 := ha x (List.mem_cons_self ..)
    have hy : y < 256 := hb y (List.mem_cons_self ..)
    have ih := masked_eq_iff_prefix_aux n (ones - 8) xs ys (by simpa using hla) (by simpa using hlb)
      (fun z hz => ha z (List.mem_cons_of_mem _ hz)) (fun z hz => hb z (List.mem_cons_of_mem _ hz))
    rw [cidrMask_succ]
    simp only [andBytes, prefixAgree, List.cons.injEq]
    rw [ih, byte_step ones x y hx hy]
  | 0, _, _ :: _, _, hla, _, _, _ => by simp at hla
  | 0, _, [], _ :: _, _, hlb, _, _ => by simp at hlb
  | _ + 1, _, [], _, hla, _, _, _ => by simp at hla
  | _ + 1, _, _ :: _, [], _, hlb, _, _ => by simp at hlb

/-- masked equality under `CIDRMask(ones, 8n)` = agreement on the first `ones` bits -/
theorem masked_eq_iff_prefix (ones n : Nat) (a b : List Nat) (hla : a.length = n) (hlb : b.length = n)
    (ha : ∀ x ∈ a, x < 256) (hb : ∀ x ∈ b, x < 256) :
    andBytes a (cidrMask ones n) = andBytes b (cidrMask ones n) ↔ prefixAgree ones a b :=
  masked_eq_iff_prefix_aux n ones a b hla hlb ha hb

/-- `(*IPNet).Contains` of a 16-byte network with a `CIDRMask(ones, 128)` mask, on 16-byte non-mapped
addresses = agreement on the first `ones` bits -/
theorem contains_iff_prefix (n : IPNet) (ones : Nat) (ip : List Nat)
    (hl : n.ip.length = 16) (hm : n.mask = cidrMask ones 16) (h4 : to4 n.ip = none)
    (hil : ip.length = 16) (hi4 : to4 ip = none)
    (hn : ∀ x ∈ n.ip, x < 256) (hi : ∀ x ∈ ip, x < 256) :
    contains n ip = true ↔ prefixAgree ones n.ip ip := by
  have ml : n.mask.length = 16 := by rw [hm]; simp [cidrMask]
  have N : networkNumberAndMask n = some (n.ip, n.mask) := by
    simp [networkNumberAndMask, h4, hl, ml]
  unfold contains
  rw [N]
  simp only [hi4]
  rw [← masked_eq_iff_prefix ones 16 n.ip ip hl hil hn hi, ← hm]
  simp [hil, hl]

end CJ.Props.C06Split
