import CJ.Model.Startup
import CJ.Gen.LogStartup
import CJ.Props.C17Logger
/-!
# C17 — the level the process runs at is derived from the configuration text

`sink_clean` (C17Logger) assumes that no level below `ErrorLevel` is ever set.  This file derives that hypothesis
from the code of `main`: the statements that lead from the configured `log_level` text to `SetLevel` are
re-extracted on every run (`CJ.Gen.appStartup`, `CJ.Gen.regStartup`, `CJ.Gen.setLevelCalls`), read as a
`LevelCode` (`app_startup_compiled`, `reg_startup_compiled`), and run by `CJ.Startup.startup` on **every**
configured text: the station refuses to start or runs at one of the five levels the model knows
(`app_refuses_or_known`); with no `log_level` it runs at `ErrorLevel` (`app_default_level`); it runs below
`ErrorLevel` only when the text names trace, debug or warn (`app_quiet_unless_asked`); and then — `main`'s call being
the only `SetLevel` call of the sources (`only_main_sets_level`) — the sink of every later history is clean
(`configured_sink_clean`, `default_config_sink_clean`).  Both parts of the check in front of `Fatal` are accounted
for: without them an unknown text would run the station at `UnknownLevel`, where every family is emitted
(`unchecked_start_would_trace`).
-/
namespace CJ.Props.C17
open CJ.Logger CJ.Startup

/-- the start-up lines of the station on the tree under check are the modelled ones: default `ErrorLevel`, parse only
a non-empty text, `Fatal` on error or `UnknownLevel`, then `SetLevel` unconditionally -/
theorem app_startup_compiled : compile CJ.Gen.appStartup = some appCode := by decide

/-- the registration server: parse (logrus), `Fatal` on error, `SetLevel` -/
theorem reg_startup_compiled : compile CJ.Gen.regStartup = some regCode := by decide

/-- no other function or method named `SetLevel` is called anywhere in the non-test sources -/
theorem only_main_sets_level :
    CJ.Gen.setLevelCalls = [("cmd/application/main.go", "main", "log.SetLevel(logLevel)"),
      ("cmd/registration-server/main.go", "main", "log.SetLevel(logLevel)")] := by decide

/-- the station's start-up as a function of the configured text -/
theorem app_startup_spec (conf : Bytes) :
    startup appCode conf =
      if conf = [] then .runs errorLevel
      else match parseLevel conf with
        | some l => .runs l
        | none => .refused := by
  cases conf with
  | nil => simp [startup, appCode, LevelCode.finish]
  | cons b rest =>
    simp only [startup, appCode, Parser.parse, List.isEmpty_cons, Bool.and_false, Bool.false_eq_true, if_false,
      reduceCtorEq]
    cases h : parseLevel (b :: rest) with
    | none => simp
    | some l =>
      have := parseLevel_range _ _ h
      have hne : l ≠ unknownLevel := by
        have h1 : (1 : Int) ≤ l := this.1
        intro he; rw [he] at h1; simp [unknownLevel] at h1
      simp [hne, LevelCode.finish]

/-- **For every configured text the station refuses to start or runs at a level the model knows.** -/
theorem app_refuses_or_known (conf : Bytes) :
    startup appCode conf = .refused ∨
      ∃ l, startup appCode conf = .runs l ∧ traceLevel ≤ l ∧ l ≤ infoLevel := by
  rw [app_startup_spec]
  split
  · exact .inr ⟨errorLevel, rfl, by decide, by decide⟩
  · cases h : parseLevel conf with
    | none => exact .inl rfl
    | some l => exact .inr ⟨l, rfl, parseLevel_range _ _ h⟩

theorem app_refused_iff (conf : Bytes) :
    startup appCode conf = .refused ↔ conf ≠ [] ∧ parseLevel conf = none := by
  rw [app_startup_spec]
  split
  · simp_all
  · cases h : parseLevel conf <;> simp_all

/-- with no `log_level` in the configuration the station runs at `ErrorLevel` -/
theorem app_default_level : startup appCode [] = .runs errorLevel := by decide

/-- the texts that name the three silent families -/
def verboseNames : List Bytes := [[116, 114, 97, 99, 101], [100, 101, 98, 117, 103], [119, 97, 114, 110]]

/-- the station runs below `ErrorLevel` only when the configuration asks for trace, debug or warn -/
theorem app_quiet_unless_asked (conf : Bytes) (l : Level) (h : startup appCode conf = .runs l)
    (hl : l < errorLevel) : toLower conf ∈ verboseNames := by
  rw [app_startup_spec] at h
  split at h
  · simp at h; subst h; simp at hl
  · cases hp : parseLevel conf with
    | none => simp [hp] at h
    | some l' =>
      simp [hp] at h; subst h
      unfold parseLevel at hp
      generalize toLower conf = k at hp
      simp only [levelNames, List.lookup] at hp
      split at hp
      · rename_i heq; simp at heq; subst heq; simp [verboseNames]
      · split at hp
        · rename_i heq; simp at heq; subst heq; simp [verboseNames]
        · split at hp
          · rename_i heq; simp at heq; subst heq; simp [verboseNames]
          · split at hp
            · simp at hp; subst hp; simp [errorLevel] at hl
            · split at hp
              · simp at hp; subst hp; simp [errorLevel, infoLevel] at hl
              · simp at hp

/-- **The hypothesis of `sink_clean`, derived.**  For every configured text that does not ask for trace, debug or warn:
when the station starts at all, the history "start-up lines, then any operations that set no level" (there is no
other `SetLevel` call: `only_main_sets_level`) leaves a sink in which everything satisfies `P` — provided the newline,
the prefixes and the texts of the `Error*/Info*/Print*` calls do. -/
theorem configured_sink_clean {α : Type} [DecidableEq α] (P : α → Prop) (nl : α) (hnl : P nl)
    (conf : Bytes) (l : Level) (h : startup appCode conf = .runs l) (hv : toLower conf ∉ verboseNames)
    (ops : List (Op α)) (hops : ∀ o ∈ ops, OpGood P o) (s' : St α)
    (hr : run nl (.setLevel l :: ops) {} = some s') : ∀ x ∈ s'.sink, P x := by
  have hl : errorLevel ≤ l := by
    by_cases hlt : l < errorLevel
    · exact absurd (app_quiet_unless_asked conf l h hlt) hv
    · exact Int.not_lt.mp hlt
  refine sink_clean P nl hnl (.setLevel l :: ops) {} s' (init_good P) ?_ hr
  intro o ho
  simp at ho
  rcases ho with rfl | ho
  · exact hl
  · exact hops o ho

/-- at the default configuration (no `log_level`) nothing of the silent families reaches the sink -/
theorem default_config_sink_clean {α : Type} [DecidableEq α] (P : α → Prop) (nl : α) (hnl : P nl)
    (ops : List (Op α)) (hops : ∀ o ∈ ops, OpGood P o) (s' : St α)
    (hr : run nl (.setLevel errorLevel :: ops) {} = some s') : ∀ x ∈ s'.sink, P x :=
  configured_sink_clean P nl hnl [] errorLevel app_default_level (by decide) ops hops s' hr

/-- needed, both halves of the check: start-up lines that do not stop on the parser's error run the station at
`UnknownLevel` for every unknown text, and at that level every family is emitted -/
theorem unchecked_start_would_trace (conf : Bytes) (hne : conf ≠ []) (hp : parseLevel conf = none) :
    startup { appCode with checksErr := false, checksUnknown := false } conf = .runs unknownLevel ∧
      ∀ m, emits unknownLevel m = true := by
  constructor
  · cases conf with
    | nil => exact absurd rfl hne
    | cons b rest => simp [startup, appCode, Parser.parse, hp, LevelCode.finish, Parser.errValue]
  · exact unknown_level_emits_everything unknownLevel (by decide)

/-- either half of the station's check alone stops an unknown text (the parser returns the error and `UnknownLevel`
together) -/
theorem either_check_refuses (ce cu : Bool) (h : ce || cu = true) (conf : Bytes) (hne : conf ≠ [])
    (hp : parseLevel conf = none) :
    startup { appCode with checksErr := ce, checksUnknown := cu } conf = .refused := by
  cases conf with
  | nil => exact absurd rfl hne
  | cons b rest =>
    cases ce <;> cases cu <;> simp_all [startup, appCode, Parser.parse]

/-- the registration server: every text is refused or parsed to one of logrus' seven levels — an unset `log_level`
is refused -/
theorem reg_startup_spec (conf : Bytes) :
    startup regCode conf = match parseLogrus conf with
      | some l => .runs l
      | none => .refused := by
  simp only [startup, regCode, Parser.parse, Bool.false_and, Bool.false_eq_true, if_false]
  cases parseLogrus conf <;> simp [LevelCode.finish]

theorem reg_unset_refuses : startup regCode [] = .refused := by decide

example : startup appCode [68, 69, 66, 85, 71] = .runs debugLevel := by decide            -- "DEBUG"
example : startup appCode [118, 101, 114, 98, 111, 115, 101] = .refused := by decide      -- "verbose"
example : startup regCode [119, 97, 114, 110, 105, 110, 103] = .runs lrWarn := by decide  -- "warning"
example : toLower [105, 110, 102, 111] ∉ verboseNames := by decide

end CJ.Props.C17
