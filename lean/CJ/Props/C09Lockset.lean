import CJ.Gen.LockTable
/-!
# C09 — lockset: shared state is only touched under the mutex that guards it

Decided over `CJ.Gen.lockTable`, which is REGENERATED from `pkg/station/lib/*.go` and
`cmd/application/*.go` (go/ast) on every run: for each function, the mutexes it takes and in which
mode, the protected fields it reads/writes, and the package functions it calls.  `CJ.Gen.guardOf`
says which mutex guards which field: the registry mutex `m` (`decoys`, `decoysTimeouts`, `Valid`,
`regCount`), `reloadMu` (`PhantomSelector`, `GeoIP`) and `policyMu` (the parsed block / allow lists).
A function that does not take a mutex itself inherits the weakest mode among all its callers.
-/
namespace CJ.Props.C09Lockset
open CJ.Gen

def LockMode.rank : LockMode → Nat
  | .none => 0 | .R => 1 | .W => 2

def minMode (a b : LockMode) : LockMode := if LockMode.rank a ≤ LockMode.rank b then a else b

def ownMode (f : FnFacts) (mu : String) : LockMode :=
  match f.locks.find? (fun l => l.1 == mu) with
  | some l => l.2
  | none => .none

/-- effective mode in which mutex `mu` is held while `f`'s body runs: its own, else the weakest among
its callers -/
def effLock (tbl : List FnFacts) (mu : String) : Nat → FnFacts → LockMode
  | 0, f => ownMode f mu
  | fuel + 1, f =>
    if ownMode f mu != .none then ownMode f mu
    else
      match tbl.filter (fun c => c.calls.contains f.short) with
      | [] => .none
      | cs => cs.foldl (fun acc c => minMode acc (effLock tbl mu fuel c)) .W

def guardFor (field : String) : String :=
  match guardOf.find? (fun g => g.1 == field) with
  | some g => g.2
  | none => "?"

/-- exemptions, each a reviewed fact about the code:
* `stats.Valid` in `removeOldRegistrations` is a field of the local log-message struct
  `regExpireLogMsg`, not of a registration (name collision of the syntactic extractor);
* `ParseBlocklists` fills the lists of a configuration object that `ParseConfig` has just created and
  that no other goroutine can reach yet; it becomes shared only through `OnReload`, under `policyMu`. -/
def exempt (f : FnFacts) (field : String) : Bool :=
  (f.short == "removeOldRegistrations" && field == "Valid") ||
  (f.short == "ParseBlocklists" && guardFor field == "policyMu")

def rowOk (tbl : List FnFacts) (f : FnFacts) : Bool :=
  f.writes.all (fun x => exempt f x || effLock tbl (guardFor x) 4 f == .W) &&
  f.reads.all (fun x => exempt f x || effLock tbl (guardFor x) 4 f != .none)

/-- **Lockset**: every write to a protected field happens in a function that holds — or is only ever
called while holding — its mutex in write mode; every read under at least the read lock. -/
theorem protected_fields_locked : ∀ f ∈ lockTable, rowOk lockTable f = true := by
  decide +kernel

/-- does running `f` acquire mutex `mu`, itself or through a callee? -/
def acquires (tbl : List FnFacts) (mu : String) : Nat → FnFacts → Bool
  | 0, f => ownMode f mu != .none
  | fuel + 1, f =>
    ownMode f mu != .none || (tbl.filter (fun c => f.calls.contains c.short)).any (fun c => acquires tbl mu fuel c)

/-- **No nested acquisition**: a function that holds a mutex never calls — directly or through other
functions — one that acquires the same mutex again. With Go's writer-preferring `RWMutex` a nested
read lock deadlocks as soon as a writer arrives in between (the defect C13 had), and a nested write
lock deadlocks at once. -/
theorem no_nested_acquire : ∀ f ∈ lockTable, ∀ l ∈ f.locks,
    (lockTable.filter (fun c => f.calls.contains c.short)).all (fun c => !acquires lockTable l.1 3 c) = true := by
  decide +kernel

/-- the table is not empty and contains the functions the property is about (non-vacuity) -/
theorem table_covers : ∀ n ∈ ["track", "register", "markActive", "removeRegistration", "getRegistrations",
    "getExpiredRegistrations", "registrationExists", "OnReload", "Selector", "GeoIPDatabase",
    "isBlocklistedCovertAddr", "IsBlocklistedPhantom"], lockTable.any (fun f => f.short == n) = true := by
  decide +kernel

end CJ.Props.C09Lockset
