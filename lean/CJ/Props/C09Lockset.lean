import CJ.Gen.LockTable
/-!
# C09 — lockset: shared registry state is only touched under the registry mutex

Decided over `CJ.Gen.lockTable`, which is REGENERATED from `pkg/station/lib/*.go` (go/ast) on every
run: for each function, the mutex mode it takes, the protected fields it reads/writes
(`decoys`, `decoysTimeouts`, `Valid`, `regCount`) and the package functions it calls.
A function that takes no lock itself inherits the weakest mode among all its callers.
-/
namespace CJ.Props.C09Lockset
open CJ.Gen

def LockMode.rank : LockMode → Nat
  | .none => 0 | .R => 1 | .W => 2

def minMode (a b : LockMode) : LockMode := if LockMode.rank a ≤ LockMode.rank b then a else b

/-- effective lock mode under which `f`'s body runs: its own, else the weakest among its callers -/
def effLock (tbl : List FnFacts) : Nat → FnFacts → LockMode
  | 0, f => f.lock
  | fuel + 1, f =>
    if f.lock != .none then f.lock
    else
      match tbl.filter (fun c => c.calls.contains f.short) with
      | [] => .none
      | cs => cs.foldl (fun acc c => minMode acc (effLock tbl fuel c)) .W

/-- name collisions of the syntactic extractor: `stats.Valid` in `removeOldRegistrations` is a field
of the local log-message struct `regExpireLogMsg`, not of a registration -/
def exempt (f : FnFacts) (field : String) : Bool :=
  f.short == "removeOldRegistrations" && field == "Valid"

def rowOk (tbl : List FnFacts) (f : FnFacts) : Bool :=
  f.writes.all (fun x => exempt f x || effLock tbl 4 f == .W) &&
  f.reads.all (fun x => exempt f x || effLock tbl 4 f != .none)

/-- **Lockset**: every write to `decoys`, `decoysTimeouts`, `Valid`, `regCount` happens in a function
that holds — or is only ever called while holding — the write lock; every read under at least the
read lock. -/
theorem protected_fields_locked : ∀ f ∈ lockTable, rowOk lockTable f = true := by
  decide +kernel

/-- does running `f` acquire the registry mutex, itself or through a callee? -/
def acquires (tbl : List FnFacts) : Nat → FnFacts → Bool
  | 0, f => f.lock != .none
  | fuel + 1, f =>
    f.lock != .none || (tbl.filter (fun c => f.calls.contains c.short)).any (fun c => acquires tbl fuel c)

/-- **No nested acquisition**: a function that holds the registry mutex never calls — directly or
through other functions — one that acquires it again. With Go's writer-preferring `RWMutex` a nested
read lock deadlocks as soon as a writer arrives in between (the defect C13 had), and a nested write
lock deadlocks at once. -/
theorem no_nested_acquire : ∀ f ∈ lockTable, f.lock != .none →
    (lockTable.filter (fun c => f.calls.contains c.short)).all (fun c => !acquires lockTable 3 c) = true := by
  decide +kernel

/-- the table is not empty and contains the functions the property is about (non-vacuity) -/
theorem table_covers : ∀ n ∈ ["track", "register", "markActive", "removeRegistration", "getRegistrations",
    "getExpiredRegistrations", "registrationExists"], lockTable.any (fun f => f.short == n) = true := by
  decide +kernel

end CJ.Props.C09Lockset
