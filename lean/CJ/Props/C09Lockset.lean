import CJ.Gen.LockTable
/-!
# C09 — lockset: shared state is only touched under the mutex that guards it

Decided over `CJ.Gen.lockTable`, which is REGENERATED from `pkg/station/lib/*.go` and
`cmd/application/*.go` (go/ast) on every run.  For each function (and each `go func(){…}` closure, a
row of its own) the table holds its LOCK-OPERATION PROGRAM reduced to regions — every acquisition
must be `Lock(); defer Unlock()` or a straight-line `Lock() … Unlock()` pair, else the row is not
`structured` —, every access to a protected field with the mode in which the function itself holds
the guarding mutex AT THAT POSITION, and every call with the mutexes held at the call site.
`CJ.Gen.guardOf` says which mutex guards which field: the registry mutex `m` (`decoys`,
`decoysTimeouts`, `Valid`, `regCount`, and the timeout record's `status` / `registrationTime`),
`reloadMu` (`PhantomSelector`, `GeoIP`), `policyMu` (the parsed block / allow lists) and the
statistics maps' `genMutex` / `lvMutex` / `ttMutex`, and `ingestChanMu` (the pipeline buffer the statistics printer looks at).
An access outside the function's own regions is covered only if EVERY call site of the function
holds the mutex (directly, or because the calling function is itself only entered with it held).
-/
namespace CJ.Props.C09Lockset
open CJ.Gen

def LockMode.rank : LockMode → Nat
  | .none => 0 | .R => 1 | .W => 2

def minMode (a b : LockMode) : LockMode := if LockMode.rank a ≤ LockMode.rank b then a else b
def maxMode (a b : LockMode) : LockMode := if LockMode.rank a ≤ LockMode.rank b then b else a

def heldAt (h : List (String × LockMode)) (mu : String) : LockMode :=
  match h.find? (fun l => l.1 == mu) with
  | some l => l.2
  | none => .none

/-- the mode in which `mu` is held whenever `f` is ENTERED: the weakest, over all call sites of `f`,
of what is held at the call site or was already held when the calling function was entered;
`.none` if nothing calls `f` (entry points, goroutine bodies) or the fuel runs out -/
def entryLock (tbl : List FnFacts) (mu : String) : Nat → FnFacts → LockMode
  | 0, _ => .none
  | fuel + 1, f =>
    match tbl.flatMap (fun c => (c.calls.filter (fun cs => cs.callee == f.short)).map (fun cs => (c, cs))) with
    | [] => .none
    | sites => sites.foldl (fun acc s => minMode acc (maxMode (heldAt s.2.held mu) (entryLock tbl mu fuel s.1))) .W

def guardFor (field : String) : String :=
  match guardOf.find? (fun g => g.1 == field) with
  | some g => g.2
  | none => "?"

/-- exemptions, each a reviewed fact about the code:
* `stats.Valid` in `removeOldRegistrations` is a field of the local log-message struct
  `regExpireLogMsg`, not of a registration (name collision of the syntactic extractor);
* `ParseBlocklists` fills the lists of a configuration object that `ParseConfig` has just created and
  that no other goroutine can reach yet; it becomes shared only through `OnReload`, under `policyMu`. -/
def exempt (f : FnFacts) (field : String) : Bool :=
  (f.short == "removeOldRegistrations" && field == "Valid") ||
  (f.short == "ParseBlocklists" && guardFor field == "policyMu")

/-- the mode in which the guarding mutex is held at an access: by the function itself at that
position, or on entry -/
def modeAt (tbl : List FnFacts) (f : FnFacts) (a : Access) : LockMode :=
  maxMode a.held (entryLock tbl (guardFor a.field) 4 f)

def accessOk (tbl : List FnFacts) (f : FnFacts) (a : Access) : Bool :=
  exempt f a.field || (if a.write then modeAt tbl f a == .W else modeAt tbl f a != .none)

def rowOk (tbl : List FnFacts) (f : FnFacts) : Bool := f.accesses.all (accessOk tbl f)

/-- **Lockset**: every write to a protected field happens at a position where the function holds — or
in a function that is only ever entered while holding — its mutex in write mode; every read under at
least the read lock. -/
theorem protected_fields_locked : ∀ f ∈ lockTable, rowOk lockTable f = true := by
  decide +kernel

/-- **Lock-operation programs are structured**: in every function each acquisition of a tracked
mutex is `Lock(); defer Unlock()` (not in a loop) or a straight-line `Lock() … Unlock()` pair that
nothing can leave early, no release is unmatched and no mutex is acquired again inside its own
region.  A critical section that is split (`Unlock(); …; Lock()` in the middle), an early release, an
error path that forgets the release all break this. -/
theorem lock_programs_structured : ∀ f ∈ lockTable, f.structured = true := by
  decide +kernel

def mutexNames : List String := (guardOf.map (·.2)).eraseDups

/-- does running `f` acquire mutex `mu`, itself or through a callee? -/
def acquires (tbl : List FnFacts) (mu : String) : Nat → FnFacts → Bool
  | 0, f => f.locks.any (fun l => l.1 == mu)
  | fuel + 1, f =>
    f.locks.any (fun l => l.1 == mu) ||
      (tbl.filter (fun c => f.calls.any (fun cs => cs.callee == c.short))).any (fun c => acquires tbl mu fuel c)

/-- **No nested acquisition**: at a call site where a mutex is held — by the calling function at that
position, or already on its entry — the callee never acquires the same mutex again, directly or
through other functions. With Go's writer-preferring `RWMutex` a nested read lock deadlocks as soon
as a writer arrives in between (the defect C13 had), and a nested write lock deadlocks at once. -/
theorem no_nested_acquire : ∀ f ∈ lockTable, ∀ cs ∈ f.calls, ∀ mu ∈ mutexNames,
    maxMode (heldAt cs.held mu) (entryLock lockTable mu 4 f) ≠ .none →
    (lockTable.filter (fun c => c.short == cs.callee)).all (fun c => !acquires lockTable mu 3 c) = true := by
  decide +kernel

/-- **Everything the configuration reload assigns is guarded**: every field `OnReload` writes through a
selector — a field of the manager, of its configuration, of anything reachable from them — is written
while a mutex is held in write mode, and that field is in `guardOf` under that mutex (so
`protected_fields_locked` covers EVERY access to it anywhere in the two packages: a field that the
reload starts to write and a worker reads without the lock breaks that theorem). -/
theorem reload_writes_are_guarded :
    reloadWrittenFields ≠ [] ∧
    reloadWrittenFields.all (fun fg => fg.2 != "-" && guardOf.any (fun g => g.1 == fg.1 && (g.2 == fg.2 || g.2 != "-"))) = true := by
  decide +kernel

/-- the table is not empty and contains the functions the property is about (non-vacuity) -/
theorem table_covers : ∀ n ∈ ["track", "register", "markActive", "removeRegistration", "getRegistrations",
    "getExpiredRegistrations", "isExpired", "registrationExists", "OnReload", "Selector", "GeoIPDatabase",
    "isBlocklistedCovertAddr", "IsBlocklistedPhantom", "AddReg", "ExpireReg", "AddRegStats", "PrintAndReset",
    "HandleRegUpdates", "startIngestThread", "ingestRegistration"],
    lockTable.any (fun f => f.short == n) = true := by
  decide +kernel

/-- and the table does contain writes that are only covered through their callers (`track`) and
accesses that are covered at their own position (`markActive` writing `status`) -/
theorem table_has_inherited_and_own :
    lockTable.any (fun f => f.short == "track" && f.accesses.any (fun a => a.write && a.held == .none)) = true ∧
    lockTable.any (fun f => f.short == "markActive" &&
      f.accesses.any (fun a => a.field == "status" && a.write && a.held == .W)) = true := by
  decide +kernel

end CJ.Props.C09Lockset
