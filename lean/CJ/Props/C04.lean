import CJ.Lemmas.ConnHandler
/-!
# C04 — valid client flights are recognised under any TCP segmentation, data intact

Property theorems about the read loop of `handleNewTCPConn` (`CJ/Model/ConnHandler.lean`), parametric
in the wrapping transports.  The client's transport `t0` is `Genuine` on the stream `S` the client
sends (handshake material followed by early application data): below its threshold `k` it answers
try-again, from `k` buffered bytes on it finds the client's registration `r` and consumes exactly the
`k` bytes of handshake material.  Every other possible transport is `Quiet` on `S` (no accidental
match, no error: `NoAccidentalMatch`).  That the real min / prefix / obfs4 matchers are `Genuine` on the
flights their clients produce is the C02 side (`CJ/Model/Wrap.lean`) and is exercised end to end by the
harness; here it is a hypothesis, shown satisfiable below for a min-like, a prefix-like and a
tail-searching (obfs4-like) classifier.

The statements quantify over **every** way of cutting `S` into reads (any number of cuts, empty reads
included), every order in which Go's map iteration visits the transports on every pass, every set of
co-transports, every continuation of the script (`rest`: later data, then the way the connection ends).
The `proxy r stream` action carries the byte stream the wrapped connection yields (buffer remainder
first, then the live socket — `PrependToConn`): that it equals `S.drop k ++ later data` *is* "every byte
after the handshake material exactly once and in order, including bytes that shared a segment with
the tag".  Delivery of that stream to the covert and of the reply to the client is the relay (C05);
the harness checks it end to end through the real `Proxy`.
-/
namespace CJ.Props.C04
open CJ.ConnHandler

variable {T R : Type}

/-- **Segmentation invariance.**  For every chunking `cs` of the client's stream `S`, the handler arms
the deadline, reads and queries (nothing else), then — at the first read after which at least `k` bytes
are buffered — finds `r`, clears the classification deadline, marks `r` active and proxies exactly
`S.drop k` followed by whatever the socket delivers later. -/
theorem segmentation_invariant (cls : T → Bytes → Verdict R) (sched : Nat → List T → List T)
    (hs : SchedOk sched) (t0 : T) (r : R) (k : Nat) (S : Bytes)
    (g : Genuine cls t0 r k S) (ts : List T) (hgood : Good cls ts t0 S)
    (hk0 : 0 < k) (hkS : k ≤ S.length) (count : Nat) (hc : 1 ≤ count)
    (cs : List Bytes) (hcs : cs.flatten = S) (rest : List Ev) :
    ∃ pre n, handler cls sched .ok count ts (cs.map Ev.data ++ rest) =
        pre ++ [.query t0 n (.found r k), .clearDeadline, .markActive r,
                .proxy r (S.drop k ++ dataOf rest), .ret] ∧
      ∀ a ∈ pre, a.passive = true := by
  obtain ⟨pre, n, he, hp⟩ :=
    loop_segmentation cls sched hs t0 r k S g rest cs 0 [] ts hgood (by simpa using hcs) (by simpa using hk0) hkS
  refine ⟨.setDeadline :: pre, n, ?_, ?_⟩
  · have : ¬ count < 1 := by omega
    simp [handler, this, he]
  · intro a ha
    rcases List.mem_cons.mp ha with rfl | ha
    · rfl
    · exact hp a ha

/-- The form of the property text: the stream is `flight ++ early`, the transport consumes exactly the
flight; the covert side is handed `early` followed by the later data, whatever the segmentation. -/
theorem early_data_intact (cls : T → Bytes → Verdict R) (sched : Nat → List T → List T)
    (hs : SchedOk sched) (t0 : T) (r : R) (flight early : Bytes)
    (g : Genuine cls t0 r flight.length (flight ++ early)) (ts : List T)
    (hgood : Good cls ts t0 (flight ++ early)) (hk0 : 0 < flight.length) (count : Nat) (hc : 1 ≤ count)
    (cs : List Bytes) (hcs : cs.flatten = flight ++ early) (rest : List Ev) :
    ∃ pre n, handler cls sched .ok count ts (cs.map Ev.data ++ rest) =
        pre ++ [.query t0 n (.found r flight.length), .clearDeadline, .markActive r,
                .proxy r (early ++ dataOf rest), .ret] ∧
      ∀ a ∈ pre, a.passive = true := by
  have := segmentation_invariant cls sched hs t0 r flight.length (flight ++ early) g ts hgood hk0
    (by simp) count hc cs hcs rest
  simpa using this

/-- Bytes that arrive in the same segment as the tag are not lost: the whole stream in one read. -/
theorem same_segment_data_delivered (cls : T → Bytes → Verdict R) (sched : Nat → List T → List T)
    (hs : SchedOk sched) (t0 : T) (r : R) (flight early : Bytes)
    (g : Genuine cls t0 r flight.length (flight ++ early)) (ts : List T)
    (hgood : Good cls ts t0 (flight ++ early)) (hk0 : 0 < flight.length) (count : Nat) (hc : 1 ≤ count)
    (rest : List Ev) :
    ∃ pre n, handler cls sched .ok count ts (.data (flight ++ early) :: rest) =
        pre ++ [.query t0 n (.found r flight.length), .clearDeadline, .markActive r,
                .proxy r (early ++ dataOf rest), .ret] ∧
      ∀ a ∈ pre, a.passive = true := by
  have := early_data_intact cls sched hs t0 r flight early g ts hgood hk0 count hc [flight ++ early]
    (by simp) rest
  simpa using this

/-- **The registration is marked used** — exactly the client's, exactly once, before the relay starts
and after the classification deadline was cleared. -/
theorem marks_active (cls : T → Bytes → Verdict R) (sched : Nat → List T → List T)
    (hs : SchedOk sched) (t0 : T) (r : R) (k : Nat) (S : Bytes)
    (g : Genuine cls t0 r k S) (ts : List T) (hgood : Good cls ts t0 S)
    (hk0 : 0 < k) (hkS : k ≤ S.length) (count : Nat) (hc : 1 ≤ count)
    (cs : List Bytes) (hcs : cs.flatten = S) (rest : List Ev) :
    (∃ pre post, handler cls sched .ok count ts (cs.map Ev.data ++ rest) = pre ++ .markActive r :: post ∧
        .clearDeadline ∈ pre ∧ (∃ s, post = [.proxy r s, .ret]) ∧
        ∀ r', .markActive r' ∉ pre) ∧
    ∀ r', .markActive r' ∈ handler cls sched .ok count ts (cs.map Ev.data ++ rest) → r' = r := by
  obtain ⟨pre, n, he, hp⟩ := segmentation_invariant cls sched hs t0 r k S g ts hgood hk0 hkS count hc cs hcs rest
  have hnot : ∀ r', (Act.markActive r' : Act T R) ∉ pre := by
    intro r' h
    have := hp _ h
    cases this
  constructor
  · refine ⟨pre ++ [.query t0 n (.found r k), .clearDeadline], [.proxy r (S.drop k ++ dataOf rest), .ret], ?_, ?_, ⟨_, rfl⟩, ?_⟩
    · rw [he]; simp
    · simp
    · intro r' h
      rcases List.mem_append.mp h with h | h
      · exact hnot r' h
      · simp at h
  · intro r' h
    rw [he] at h
    rcases List.mem_append.mp h with h | h
    · exact absurd h (hnot r')
    · simp at h
      exact h

/-- Two segmentations of the same stream give the same registration and the same proxied stream. -/
theorem chunking_irrelevant (cls : T → Bytes → Verdict R) (sched sched' : Nat → List T → List T)
    (hs : SchedOk sched) (hs' : SchedOk sched') (t0 : T) (r : R) (k : Nat) (S : Bytes)
    (g : Genuine cls t0 r k S) (ts : List T) (hgood : Good cls ts t0 S)
    (hk0 : 0 < k) (hkS : k ≤ S.length) (count : Nat) (hc : 1 ≤ count)
    (cs cs' : List Bytes) (hcs : cs.flatten = S) (hcs' : cs'.flatten = S) (rest : List Ev) :
    ∃ pre pre' n n' tail, tail = [Act.clearDeadline, .markActive r, .proxy r (S.drop k ++ dataOf rest), .ret] ∧
      handler cls sched .ok count ts (cs.map Ev.data ++ rest) = pre ++ .query t0 n (.found r k) :: tail ∧
      handler cls sched' .ok count ts (cs'.map Ev.data ++ rest) = pre' ++ .query t0 n' (.found r k) :: tail := by
  obtain ⟨pre, n, he, _⟩ := segmentation_invariant cls sched hs t0 r k S g ts hgood hk0 hkS count hc cs hcs rest
  obtain ⟨pre', n', he', _⟩ := segmentation_invariant cls sched' hs' t0 r k S g ts hgood hk0 hkS count hc cs' hcs' rest
  exact ⟨pre, pre', n, n', _, rfl, by simpa using he, by simpa using he'⟩

/-! ## The hypotheses are satisfiable: min-like, prefix-like and obfs4-like classifiers -/

/-- min / prefix shape: `off` bytes of static prefix, then a tag; threshold and consumption are
`off + tag.length`; finds `r` iff the tag bytes match -/
def tagAt (off : Nat) (tag : Bytes) (r : Nat) : Bytes → Verdict Nat := fun b =>
  if b.length < off + tag.length then .tryAgain
  else if (b.drop off).take tag.length = tag then .found r (off + tag.length) else .notT

/-- for **every** static prefix, tag and early data the tag-at-offset classifier is genuine on
`pre ++ tag ++ early` with `k = pre.length + tag.length` -/
theorem tagAt_genuine (pre tag early : Bytes) (r : Nat) (t0 : Nat) (cls : Nat → Bytes → Verdict Nat)
    (h0 : cls t0 = tagAt pre.length tag r) :
    Genuine cls t0 r (pre.length + tag.length) (pre ++ tag ++ early) := by
  constructor
  · intro n hn
    have hlt : ((pre ++ tag ++ early).take n).length < pre.length + tag.length := by
      rw [List.length_take]; omega
    rw [h0]
    simp only [tagAt, if_pos hlt]
  · intro n hk hn
    obtain ⟨m, rfl⟩ : ∃ m, n = pre.length + m := ⟨n - pre.length, by omega⟩
    have hm : tag.length ≤ m := by omega
    have hge : ¬ ((pre ++ tag ++ early).take (pre.length + m)).length < pre.length + tag.length := by
      rw [List.length_take]; omega
    have h2 : ((pre ++ tag ++ early).take (pre.length + m)).drop pre.length = (tag ++ early).take m := by
      rw [List.append_assoc, List.take_length_add_append, List.drop_left]
    have h3 : ((tag ++ early).take m).take tag.length = tag := by
      rw [List.take_take, Nat.min_eq_left hm, List.take_left']
      rfl
    rw [h0]
    simp only [tagAt, if_neg hge, h2, h3, if_true]

/-- obfs4 shape: the server searches the *tail* of the buffer: it finds `r` iff the buffer ends in
`mark ++ mac`-like trailer `tail`, and then consumes the whole buffer -/
def tailCls (minLen : Nat) (tail : Bytes) (r : Nat) : Bytes → Verdict Nat := fun b =>
  if b.length < minLen then .tryAgain
  else if b.drop (b.length - tail.length) = tail then .found r b.length else .tryAgain

/-- transport 0: min-like, tag `[1,2,3,4]` → registration 7; transport 1: prefix-like, static prefix
`[71,69]`, tag `[5,6]` → registration 8; transport 2: obfs4-like, trailer `[9,9]` → registration 9 -/
def exCls : Nat → Bytes → Verdict Nat
  | 0 => tagAt 0 [1, 2, 3, 4] 7
  | 1 => tagAt 2 [5, 6] 8
  | _ => tailCls 3 [9, 9] 9

example : Genuine exCls 0 7 4 ([1, 2, 3, 4] ++ [50, 51, 52]) := by
  have := tagAt_genuine [] [1, 2, 3, 4] [50, 51, 52] 7 0 exCls rfl
  simpa using this

example : Good exCls [0, 1, 2] 0 [1, 2, 3, 4, 50, 51, 52] := by
  refine ⟨by simp, ?_⟩
  intro t ht
  simp only [List.mem_cons, List.mem_nil_iff, or_false] at ht
  rcases ht with rfl | rfl | rfl
  · exact Or.inl rfl
  · refine Or.inr ?_
    intro n
    rcases n with _ | _ | _ | _ | _ | _ | _ | n <;> simp [exCls, tagAt]
  · refine Or.inr ?_
    intro n
    rcases n with _ | _ | _ | _ | _ | _ | _ | n <;> simp [exCls, tailCls]

/-- tag split over three reads, early data partly in the tag's segment, map order reversed on every
pass: the proxy gets exactly `[50,51,52]` and the later `[60]` -/
example : handler exCls (fun _ ts => ts.reverse) .ok 3 [0, 1, 2]
      [.data [1], .data [2, 3], .data [4, 50], .data [51, 52], .data [60], .eof] =
    [.setDeadline,
     .readData 1, .query 2 1 .tryAgain, .query 1 1 .tryAgain, .query 0 1 .tryAgain,
     .readData 2, .query 0 3 .tryAgain, .query 1 3 .tryAgain, .query 2 3 .tryAgain,
     .readData 2, .query 2 5 .tryAgain, .query 1 5 .notT, .query 0 5 (.found 7 4),
     .clearDeadline, .markActive 7, .proxy 7 [50, 51, 52, 60], .ret] := by decide

/-- the obfs4-like transport is genuine on its handshake (no early data can follow: the client waits
for the server's reply), here `[20,21,22,9,9]` -/
example : Genuine exCls 2 9 5 [20, 21, 22, 9, 9] := by
  constructor
  · intro n hn
    rcases n with _ | _ | _ | _ | _ | n <;> simp [exCls, tailCls] <;> omega
  · intro n hk hn
    have : n = 5 := by simp at hn; omega
    subst this
    simp [exCls, tailCls]

example : handler exCls (fun _ ts => ts) .ok 1 [0, 1, 2]
      [.data [20, 21, 22], .data [9], .data [9], .data [33, 34]] =
    [.setDeadline,
     .readData 3, .query 0 3 .tryAgain, .query 1 3 .tryAgain, .query 2 3 .tryAgain,
     .readData 1, .query 0 4 .notT, .query 1 4 .notT, .query 2 4 .tryAgain,
     .readData 1, .query 2 5 (.found 9 5),
     .clearDeadline, .markActive 9, .proxy 9 [33, 34], .ret] := by decide

end CJ.Props.C04
