import CJ.Lemmas.ConnHandler
import CJ.Lemmas.WrapCls
import CJ.Gen.PrefixTable
import CJ.Gen.WrapConsts
/-!
# C04 — valid client flights are recognised under any TCP segmentation, data intact

Property theorems about the read loop of `handleNewTCPConn` (`CJ/Model/ConnHandler.lean`), parametric
in the wrapping transports.  The client's transport `t0` is `Genuine` on the stream `S` the client
sends (handshake material followed by early application data): below its threshold `k` it answers
try-again, from `k` buffered bytes on it finds the client's registration `r` and consumes exactly the
`k` bytes of handshake material.  Every other possible transport is `Quiet` on `S` (no accidental
match, no error: `NoAccidentalMatch`).  The first part of the file is parametric in the transports.
The section "the real transports" instantiates them with the C02 models of min / prefix / obfs4
(`CJ/Model/Wrap.lean`) over the **regenerated** prefix table in any iteration order and proves
`Genuine` for the flights of their clients from the table's thresholds (`thresholds_sound`:
`minLen = maxLen = offset + 64` for every shipped prefix, 32 for min, 64 / 8192 for obfs4 — regenerated
from the code on every run), so that what remains as hypothesis is the cryptographic idealisation only
(the tag reveals the client's registered identifier; no other window of the stream reveals a registered
identifier; the obfs4 mark is located when the handshake is complete and not before).

The statements quantify over **every** way of cutting `S` into reads (any number of cuts, empty reads
included), every order in which Go's map iteration visits the transports on every pass, every set of
co-transports, every continuation of the script (`rest`: later data, then the way the connection ends).
The `proxy r stream` action carries the byte stream the wrapped connection yields (buffer remainder
first, then the live socket — `PrependToConn`): that it equals `S.drop k ++ later data` *is* "every byte
after the handshake material exactly once and in order, including bytes that shared a segment with
the tag".  Delivery of that stream to the covert and of the reply to the client is the relay (C05);
the harness checks it end to end through the real `Proxy`.
-/
namespace CJ.Props.C04
open CJ.ConnHandler

variable {T R : Type}

/-- **Segmentation invariance.**  For every chunking `cs` of the client's stream `S`, the handler arms
the deadline, reads and queries (nothing else), then — at the first read after which at least `k` bytes
are buffered — finds `r`, clears the classification deadline, marks `r` active and proxies exactly
`S.drop k` followed by whatever the socket delivers later. -/
theorem segmentation_invariant (cls : T → Bytes → Verdict R) (sched : Nat → List T → List T)
    (hs : SchedOk sched) (t0 : T) (r : R) (k : Nat) (S : Bytes)
    (g : Genuine cls t0 r k S) (ts : List T) (hgood : Good cls ts t0 S)
    (hk0 : 0 < k) (hkS : k ≤ S.length) (count : Nat) (hc : 1 ≤ count)
    (cs : List Bytes) (hcs : cs.flatten = S) (rest : List Ev) :
    ∃ pre n, handler cls sched .ok count ts (cs.map Ev.data ++ rest) =
        pre ++ [.query t0 n (.found r k), .clearDeadline, .markActive r,
                .proxy r (S.drop k ++ dataOf rest), .ret] ∧
      ∀ a ∈ pre, a.passive = true := by
  obtain ⟨pre, n, he, hp⟩ :=
    loop_segmentation cls sched hs t0 r k S g rest cs 0 [] ts hgood (by simpa using hcs) (by simpa using hk0) hkS
  refine ⟨.setDeadline :: pre, n, ?_, ?_⟩
  · have : ¬ count < 1 := by omega
    simp [handler, this, he]
  · intro a ha
    rcases List.mem_cons.mp ha with rfl | ha
    · rfl
    · exact hp a ha

/-- Segmentation invariance for a transport whose threshold `thr` and consumption `k ≤ thr` differ
(obfs4: the mark is located once the whole handshake is buffered, the classifier consumes nothing and
the obfs4 library reads the handshake from the prepended buffer). -/
theorem segmentation_invariant_at (cls : T → Bytes → Verdict R) (sched : Nat → List T → List T)
    (hs : SchedOk sched) (t0 : T) (r : R) (thr k : Nat) (S : Bytes)
    (g : GenuineAt cls t0 r thr k S) (ts : List T) (hgood : Good cls ts t0 S)
    (hk0 : 0 < thr) (hkS : thr ≤ S.length) (count : Nat) (hc : 1 ≤ count)
    (cs : List Bytes) (hcs : cs.flatten = S) (rest : List Ev) :
    ∃ pre n, handler cls sched .ok count ts (cs.map Ev.data ++ rest) =
        pre ++ [.query t0 n (.found r k), .clearDeadline, .markActive r,
                .proxy r (S.drop k ++ dataOf rest), .ret] ∧
      thr ≤ n ∧ ∀ a ∈ pre, a.passive = true := by
  obtain ⟨pre, n, he, hn, hp⟩ :=
    loop_segmentation_at cls sched hs t0 r thr k S g rest cs 0 [] ts hgood (by simpa using hcs)
      (by simpa using hk0) hkS
  refine ⟨.setDeadline :: pre, n, ?_, hn, ?_⟩
  · have : ¬ count < 1 := by omega
    simp [handler, this, he]
  · intro a ha
    rcases List.mem_cons.mp ha with rfl | ha
    · rfl
    · exact hp a ha

/-- The form of the property text: the stream is `flight ++ early`, the transport consumes exactly the
flight; the covert side is handed `early` followed by the later data, whatever the segmentation. -/
theorem early_data_intact (cls : T → Bytes → Verdict R) (sched : Nat → List T → List T)
    (hs : SchedOk sched) (t0 : T) (r : R) (flight early : Bytes)
    (g : Genuine cls t0 r flight.length (flight ++ early)) (ts : List T)
    (hgood : Good cls ts t0 (flight ++ early)) (hk0 : 0 < flight.length) (count : Nat) (hc : 1 ≤ count)
    (cs : List Bytes) (hcs : cs.flatten = flight ++ early) (rest : List Ev) :
    ∃ pre n, handler cls sched .ok count ts (cs.map Ev.data ++ rest) =
        pre ++ [.query t0 n (.found r flight.length), .clearDeadline, .markActive r,
                .proxy r (early ++ dataOf rest), .ret] ∧
      ∀ a ∈ pre, a.passive = true := by
  have := segmentation_invariant cls sched hs t0 r flight.length (flight ++ early) g ts hgood hk0
    (by simp) count hc cs hcs rest
  simpa using this

/-- Bytes that arrive in the same segment as the tag are not lost: the whole stream in one read. -/
theorem same_segment_data_delivered (cls : T → Bytes → Verdict R) (sched : Nat → List T → List T)
    (hs : SchedOk sched) (t0 : T) (r : R) (flight early : Bytes)
    (g : Genuine cls t0 r flight.length (flight ++ early)) (ts : List T)
    (hgood : Good cls ts t0 (flight ++ early)) (hk0 : 0 < flight.length) (count : Nat) (hc : 1 ≤ count)
    (rest : List Ev) :
    ∃ pre n, handler cls sched .ok count ts (.data (flight ++ early) :: rest) =
        pre ++ [.query t0 n (.found r flight.length), .clearDeadline, .markActive r,
                .proxy r (early ++ dataOf rest), .ret] ∧
      ∀ a ∈ pre, a.passive = true := by
  have := early_data_intact cls sched hs t0 r flight early g ts hgood hk0 count hc [flight ++ early]
    (by simp) rest
  simpa using this

/-- **The registration is marked used** — exactly the client's, exactly once, before the relay starts
and after the classification deadline was cleared. -/
theorem marks_active (cls : T → Bytes → Verdict R) (sched : Nat → List T → List T)
    (hs : SchedOk sched) (t0 : T) (r : R) (k : Nat) (S : Bytes)
    (g : Genuine cls t0 r k S) (ts : List T) (hgood : Good cls ts t0 S)
    (hk0 : 0 < k) (hkS : k ≤ S.length) (count : Nat) (hc : 1 ≤ count)
    (cs : List Bytes) (hcs : cs.flatten = S) (rest : List Ev) :
    (∃ pre post, handler cls sched .ok count ts (cs.map Ev.data ++ rest) = pre ++ .markActive r :: post ∧
        .clearDeadline ∈ pre ∧ (∃ s, post = [.proxy r s, .ret]) ∧
        ∀ r', .markActive r' ∉ pre) ∧
    ∀ r', .markActive r' ∈ handler cls sched .ok count ts (cs.map Ev.data ++ rest) → r' = r := by
  obtain ⟨pre, n, he, hp⟩ := segmentation_invariant cls sched hs t0 r k S g ts hgood hk0 hkS count hc cs hcs rest
  have hnot : ∀ r', (Act.markActive r' : Act T R) ∉ pre := by
    intro r' h
    have := hp _ h
    cases this
  constructor
  · refine ⟨pre ++ [.query t0 n (.found r k), .clearDeadline], [.proxy r (S.drop k ++ dataOf rest), .ret], ?_, ?_, ⟨_, rfl⟩, ?_⟩
    · rw [he]; simp
    · simp
    · intro r' h
      rcases List.mem_append.mp h with h | h
      · exact hnot r' h
      · simp at h
  · intro r' h
    rw [he] at h
    rcases List.mem_append.mp h with h | h
    · exact absurd h (hnot r')
    · simp at h
      exact h

/-- Two segmentations of the same stream give the same registration and the same proxied stream. -/
theorem chunking_irrelevant (cls : T → Bytes → Verdict R) (sched sched' : Nat → List T → List T)
    (hs : SchedOk sched) (hs' : SchedOk sched') (t0 : T) (r : R) (k : Nat) (S : Bytes)
    (g : Genuine cls t0 r k S) (ts : List T) (hgood : Good cls ts t0 S)
    (hk0 : 0 < k) (hkS : k ≤ S.length) (count : Nat) (hc : 1 ≤ count)
    (cs cs' : List Bytes) (hcs : cs.flatten = S) (hcs' : cs'.flatten = S) (rest : List Ev) :
    ∃ pre pre' n n' tail, tail = [Act.clearDeadline, .markActive r, .proxy r (S.drop k ++ dataOf rest), .ret] ∧
      handler cls sched .ok count ts (cs.map Ev.data ++ rest) = pre ++ .query t0 n (.found r k) :: tail ∧
      handler cls sched' .ok count ts (cs'.map Ev.data ++ rest) = pre' ++ .query t0 n' (.found r k) :: tail := by
  obtain ⟨pre, n, he, _⟩ := segmentation_invariant cls sched hs t0 r k S g ts hgood hk0 hkS count hc cs hcs rest
  obtain ⟨pre', n', he', _⟩ := segmentation_invariant cls sched' hs' t0 r k S g ts hgood hk0 hkS count hc cs' hcs' rest
  exact ⟨pre, pre', n, n', _, rfl, by simpa using he, by simpa using he'⟩

/-- **Hand-off order** (every run, no hypothesis on the transports): the connection reaches the proxy
only in the sequence *found → classification deadline cleared → registration marked used → proxy →
return*, everything before being passive.  In particular the deadline armed for classification is
always cleared before the relay — which arms its own deadlines on the wrapped connection
(`CJ.Props.C04Relay`) — starts. -/
theorem deadline_cleared_then_proxy (cls : T → Bytes → Verdict R) (sched : Nat → List T → List T)
    (count : Nat) (ts : List T) (evs : List Ev) (r : R) (s : Bytes)
    (h : .proxy r s ∈ handler cls sched .ok count ts evs) :
    ∃ pre t n k, handler cls sched .ok count ts evs =
        pre ++ [.query t n (.found r k), .clearDeadline, .markActive r, .proxy r s, .ret] ∧
      ∀ a ∈ pre, a.passive = true := by
  have hsh : Ending (handler cls sched .ok count ts evs) := by
    unfold handler
    apply ending_cons_passive rfl
    by_cases hc : count < 1
    · simp only [hc, if_true]
      exact ending_cons_passive rfl (ending_discard evs)
    · simp only [hc, if_false]
      exact loop_shape cls sched evs 0 ts []
  cases hsh with
  | gaveUp pre e h1 h2 =>
    rw [h1] at h
    rcases List.mem_append.mp h with h | h
    · have := h2 _ h; cases this
    · simp at h
  | aborted pre t n h1 h2 =>
    rw [h1] at h
    rcases List.mem_append.mp h with h | h
    · have := h2 _ h; cases this
    · simp at h
  | matched pre t n r' k s' h1 h2 =>
    rw [h1] at h
    rcases List.mem_append.mp h with h | h
    · have := h2 _ h; cases this
    · simp at h
      obtain ⟨rfl, rfl⟩ := h
      exact ⟨pre, t, n, k, h1, h2⟩

/-! ## The real transports

`CJ.WrapCls.cls w` are the C02 models of `WrapConnection` of min, prefix and obfs4 as classifiers of the
handler; the station iterates, at every call and in some order, exactly the prefix table the code ships
(regenerated from `prefix.DefaultPrefixes` on every run). -/

def StationEnv (w : CJ.WrapCls.Env) : Prop := ∀ d e, e ∈ w.table d ↔ e ∈ CJ.Gen.prefixTable

/-- **The thresholds are sound.**  For every shipped prefix both decision lengths are exactly
`offset + 64` (so the transport answers try-again until the whole tag is present and looks the tag up
from then on — with `maxLen > offset + 64` it would answer not-transport in between and the station
would drop it in the middle of a flight; with a smaller `minLen` it would read a tag that is not yet
complete), the static bytes end at or before the tag offset, prefix ids are unique, the tag lengths
are 64 (prefix) and 32 (min), and the obfs4 handshake is between 64 and 8192 bytes. -/
theorem thresholds_sound :
    (∀ e ∈ CJ.Gen.prefixTable, e.minLen = e.offset + 64 ∧ e.maxLen = e.offset + 64 ∧
      e.static.length ≤ e.offset) ∧
    (∀ e ∈ CJ.Gen.prefixTable, ∀ e' ∈ CJ.Gen.prefixTable, e'.id = e.id → e' = e) ∧
    CJ.Gen.prefixTagLen = 64 ∧ CJ.Gen.prefixTagLen = CJ.Wrap.prefixTagLen ∧
    CJ.Gen.WrapConsts.minTagLen = 32 ∧ CJ.Gen.WrapConsts.minTagLen = CJ.Wrap.minTagLen ∧
    CJ.Gen.WrapConsts.obfs4ClientMinHandshake = CJ.Wrap.obfs4MinHandshake ∧
    CJ.Gen.WrapConsts.obfs4MaxHandshake = CJ.Wrap.obfs4MaxHandshake ∧
    2 * CJ.Gen.WrapConsts.obfs4IdentLen = CJ.Wrap.obfs4IdentHexLen := by decide

theorem StationEnv.tableWf {w : CJ.WrapCls.Env} (h : StationEnv w) : CJ.WrapCls.TableWf w := by
  intro d e he
  have := (thresholds_sound.1 e ((h d e).mp he))
  unfold CJ.WrapCls.EntryWf
  omega

open CJ.WrapCls in
/-- **min, any segmentation.**  The client sends the 32-byte identifier of its registration `r`
(visible on the phantom) followed by application data; no window of the stream reveals a registered
identifier to the prefix transport and no registered obfs4 mark is located in it.  Then, however the
stream is cut into reads and in whatever order the transports are asked, the station finds `r`, clears
the deadline, marks `r` used and hands the proxy exactly the application data. -/
theorem min_flight_recognised (w : Env) (hw : StationEnv w) (sched : Nat → List Tr → List Tr)
    (hs : SchedOk sched) (tag early : Bytes) (r : CJ.Wrap.RegView) (htag : tag.length = 32)
    (hr : CJ.Wrap.findReg w.regs (CJ.Wrap.toHex tag) = some r)
    (hpre : ∀ n, PrefixUntagged (w.table ((tag ++ early).take n)) w.reveal w.regs ((tag ++ early).take n))
    (hobf : ∀ n, Obfs4Untagged (w.marks ((tag ++ early).take n)) w.regs)
    (ts : List Tr) (hin : Tr.min ∈ ts) (count : Nat) (hc : 1 ≤ count)
    (cs : List Bytes) (hcs : cs.flatten = tag ++ early) (rest : List Ev) :
    ∃ pre n, handler (cls w) sched .ok count ts (cs.map Ev.data ++ rest) =
        pre ++ [.query .min n (.found r.rid 32), .clearDeadline, .markActive r.rid,
                .proxy r.rid (early ++ dataOf rest), .ret] ∧
      ∀ a ∈ pre, a.passive = true := by
  have g := min_genuine w tag early r htag hr
  have hgood : Good (cls w) ts .min (tag ++ early) := by
    refine ⟨hin, ?_⟩
    intro t _
    cases t
    · exact Or.inl rfl
    · exact Or.inr (prefix_quiet w hw.tableWf _ hpre)
    · exact Or.inr (obfs4_quiet w _ hobf)
  have := early_data_intact (cls w) sched hs .min r.rid tag early (by rw [htag]; exact g) ts
    (by exact hgood) (by omega) count hc cs hcs rest
  rw [htag] at this
  exact this

open CJ.WrapCls in
/-- **prefix, every shipped prefix id, any segmentation, any iteration order of the table.**  The
client sends the static bytes of prefix `e` (and `fill` up to the tag offset), a 64-byte tag that reveals
the identifier of its registration `r` — a prefix registration for this prefix id — and application
data; no other 64-byte window of the stream reveals a registered identifier, the first 32 bytes are no
registered min identifier, no registered obfs4 mark is located.  Then the station finds `r` and hands the
proxy exactly the application data. -/
theorem prefix_flight_recognised (w : Env) (hw : StationEnv w) (sched : Nat → List Tr → List Tr)
    (hs : SchedOk sched) (e : CJ.Wrap.PrefixEntry) (he : e ∈ CJ.Gen.prefixTable)
    (fill tag early : Bytes) (r : CJ.Wrap.RegView)
    (hoff : e.offset = e.static.length + fill.length) (htag : tag.length = 64)
    (hrev : w.reveal tag = some r.ident) (hreg : CJ.Wrap.findReg w.regs r.ident = some r)
    (htr : r.transport = 4) (hpp : r.prefixParam = some (some e.id))
    (hno : ∀ n, ∀ e' ∈ w.table ((prefixFlight e fill tag early).take n),
      CJ.Wrap.window ((prefixFlight e fill tag early).take n) e'.offset ≠ tag →
      ∀ r' ∈ w.regs, w.reveal (CJ.Wrap.window ((prefixFlight e fill tag early).take n) e'.offset) ≠ some r'.ident)
    (hmin : ∀ n, MinUntagged w.regs ((prefixFlight e fill tag early).take n))
    (hobf : ∀ n, Obfs4Untagged (w.marks ((prefixFlight e fill tag early).take n)) w.regs)
    (ts : List Tr) (hin : Tr.prefix ∈ ts) (count : Nat) (hc : 1 ≤ count)
    (cs : List Bytes) (hcs : cs.flatten = prefixFlight e fill tag early) (rest : List Ev) :
    ∃ pre n, handler (cls w) sched .ok count ts (cs.map Ev.data ++ rest) =
        pre ++ [.query .prefix n (.found r.rid (e.offset + 64)), .clearDeadline, .markActive r.rid,
                .proxy r.rid (early ++ dataOf rest), .ret] ∧
      ∀ a ∈ pre, a.passive = true := by
  have hex := thresholds_sound.1 e he
  have c : PrefixClient w e r fill tag early :=
    { exact := ⟨hex.1, hex.2.1⟩, off := hoff, tagLen := htag, reveals := hrev, registered := hreg,
      isPrefix := htr, sameId := hpp, inTable := fun d => (hw d e).mpr he,
      idsUnique := fun d e' he' hid => thresholds_sound.2.1 e he e' ((hw d e').mp he') hid,
      noAccident := hno }
  have g := prefix_genuine w hw.tableWf e r fill tag early c
  have hgood : Good (cls w) ts .prefix (prefixFlight e fill tag early) := by
    refine ⟨hin, ?_⟩
    intro t _
    cases t
    · exact Or.inr (min_quiet w _ hmin)
    · exact Or.inl rfl
    · exact Or.inr (obfs4_quiet w _ hobf)
  have hlen : e.offset + 64 ≤ (prefixFlight e fill tag early).length := by
    simp only [prefixFlight, List.length_append, hoff, htag]; omega
  obtain ⟨pre, n, h1, h2⟩ := segmentation_invariant (cls w) sched hs .prefix r.rid (e.offset + 64) _ g ts hgood
    (by omega) hlen count hc cs hcs rest
  refine ⟨pre, n, ?_, h2⟩
  rw [h1]
  have hd : (prefixFlight e fill tag early).drop (e.offset + 64) = early := by
    have : e.offset + 64 = (e.static ++ fill ++ tag).length := by
      simp only [List.length_append, hoff, htag]
    unfold prefixFlight
    rw [this, List.drop_left]
  rw [hd]

open CJ.WrapCls in
/-- **obfs4, any segmentation.**  The stream is the client handshake `S` (64 … 8192 bytes; the client
waits for the server before sending more).  The mark of the client's registration `r` is located when
the handshake is complete and not before; the first 32 bytes are no registered min identifier and no
window reveals a registered identifier to the prefix transport.  Then the station finds `r` and hands the
obfs4 library the whole handshake followed by everything the client sends later. -/
theorem obfs4_flight_recognised (w : Env) (hw : StationEnv w) (sched : Nat → List Tr → List Tr)
    (hs : SchedOk sched) (S : Bytes) (r : CJ.Wrap.RegView)
    (hlo : CJ.Gen.WrapConsts.obfs4ClientMinHandshake ≤ S.length)
    (hhi : S.length ≤ CJ.Gen.WrapConsts.obfs4MaxHandshake)
    (hr : r ∈ w.regs) (hid : r.ident.length = 2 * CJ.Gen.WrapConsts.obfs4IdentLen)
    (hmark : r.rid ∈ w.marks S) (honly : ∀ r' ∈ w.regs, r'.rid ∈ w.marks S → r'.rid = r.rid)
    (hbelow : ∀ n, n < S.length → Obfs4Untagged (w.marks (S.take n)) w.regs)
    (hmin : ∀ n, MinUntagged w.regs (S.take n))
    (hpre : ∀ n, PrefixUntagged (w.table (S.take n)) w.reveal w.regs (S.take n))
    (ts : List Tr) (hin : Tr.obfs4 ∈ ts) (count : Nat) (hc : 1 ≤ count)
    (cs : List Bytes) (hcs : cs.flatten = S) (rest : List Ev) :
    ∃ pre n, handler (cls w) sched .ok count ts (cs.map Ev.data ++ rest) =
        pre ++ [.query .obfs4 n (.found r.rid 0), .clearDeadline, .markActive r.rid,
                .proxy r.rid (S ++ dataOf rest), .ret] ∧
      S.length ≤ n ∧ ∀ a ∈ pre, a.passive = true := by
  have h64 : (64 : Nat) ≤ S.length := hlo
  have h8192 : S.length ≤ 8192 := hhi
  have g := obfs4_genuine w S r h64 h8192 hr (by rw [hid]; rfl) hmark honly hbelow
  have hgood : Good (cls w) ts .obfs4 S := by
    refine ⟨hin, ?_⟩
    intro t _
    cases t
    · exact Or.inr (min_quiet w _ hmin)
    · exact Or.inr (prefix_quiet w hw.tableWf _ hpre)
    · exact Or.inl rfl
  have := segmentation_invariant_at (cls w) sched hs .obfs4 r.rid S.length 0 S g ts hgood (by omega)
    (Nat.le_refl _) count hc cs hcs rest
  simpa using this

/-! ## The hypotheses are satisfiable: min-like, prefix-like and obfs4-like classifiers -/

/-- min / prefix shape: `off` bytes of static prefix, then a tag; threshold and consumption are
`off + tag.length`; finds `r` iff the tag bytes match -/
def tagAt (off : Nat) (tag : Bytes) (r : Nat) : Bytes → Verdict Nat := fun b =>
  if b.length < off + tag.length then .tryAgain
  else if (b.drop off).take tag.length = tag then .found r (off + tag.length) else .notT

/-- for **every** static prefix, tag and early data the tag-at-offset classifier is genuine on
`pre ++ tag ++ early` with `k = pre.length + tag.length` -/
theorem tagAt_genuine (pre tag early : Bytes) (r : Nat) (t0 : Nat) (cls : Nat → Bytes → Verdict Nat)
    (h0 : cls t0 = tagAt pre.length tag r) :
    Genuine cls t0 r (pre.length + tag.length) (pre ++ tag ++ early) := by
  constructor
  · intro n hn
    have hlt : ((pre ++ tag ++ early).take n).length < pre.length + tag.length := by
      rw [List.length_take]; omega
    rw [h0]
    simp only [tagAt, if_pos hlt]
  · intro n hk hn
    obtain ⟨m, rfl⟩ : ∃ m, n = pre.length + m := ⟨n - pre.length, by omega⟩
    have hm : tag.length ≤ m := by omega
    have hge : ¬ ((pre ++ tag ++ early).take (pre.length + m)).length < pre.length + tag.length := by
      rw [List.length_take]; omega
    have h2 : ((pre ++ tag ++ early).take (pre.length + m)).drop pre.length = (tag ++ early).take m := by
      rw [List.append_assoc, List.take_length_add_append, List.drop_left]
    have h3 : ((tag ++ early).take m).take tag.length = tag := by
      rw [List.take_take, Nat.min_eq_left hm, List.take_left']
      rfl
    rw [h0]
    simp only [tagAt, if_neg hge, h2, h3, if_true]

/-- obfs4 shape: the server searches the *tail* of the buffer: it finds `r` iff the buffer ends in
`mark ++ mac`-like trailer `tail`, and then consumes the whole buffer -/
def tailCls (minLen : Nat) (tail : Bytes) (r : Nat) : Bytes → Verdict Nat := fun b =>
  if b.length < minLen then .tryAgain
  else if b.drop (b.length - tail.length) = tail then .found r b.length else .tryAgain

/-- transport 0: min-like, tag `[1,2,3,4]` → registration 7; transport 1: prefix-like, static prefix
`[71,69]`, tag `[5,6]` → registration 8; transport 2: obfs4-like, trailer `[9,9]` → registration 9 -/
def exCls : Nat → Bytes → Verdict Nat
  | 0 => tagAt 0 [1, 2, 3, 4] 7
  | 1 => tagAt 2 [5, 6] 8
  | _ => tailCls 3 [9, 9] 9

example : Genuine exCls 0 7 4 ([1, 2, 3, 4] ++ [50, 51, 52]) := by
  have := tagAt_genuine [] [1, 2, 3, 4] [50, 51, 52] 7 0 exCls rfl
  simpa using this

example : Good exCls [0, 1, 2] 0 [1, 2, 3, 4, 50, 51, 52] := by
  refine ⟨by simp, ?_⟩
  intro t ht
  simp only [List.mem_cons, List.mem_nil_iff, or_false] at ht
  rcases ht with rfl | rfl | rfl
  · exact Or.inl rfl
  · refine Or.inr ?_
    intro n
    rcases n with _ | _ | _ | _ | _ | _ | _ | n <;> simp [exCls, tagAt]
  · refine Or.inr ?_
    intro n
    rcases n with _ | _ | _ | _ | _ | _ | _ | n <;> simp [exCls, tailCls]

/-- tag split over three reads, early data partly in the tag's segment, map order reversed on every
pass: the proxy gets exactly `[50,51,52]` and the later `[60]` -/
example : handler exCls (fun _ ts => ts.reverse) .ok 3 [0, 1, 2]
      [.data [1], .data [2, 3], .data [4, 50], .data [51, 52], .data [60], .eof] =
    [.setDeadline,
     .readData 1, .query 2 1 .tryAgain, .query 1 1 .tryAgain, .query 0 1 .tryAgain,
     .readData 2, .query 0 3 .tryAgain, .query 1 3 .tryAgain, .query 2 3 .tryAgain,
     .readData 2, .query 2 5 .tryAgain, .query 1 5 .notT, .query 0 5 (.found 7 4),
     .clearDeadline, .markActive 7, .proxy 7 [50, 51, 52, 60], .ret] := by decide

/-- the obfs4-like transport is genuine on its handshake (no early data can follow: the client waits
for the server's reply), here `[20,21,22,9,9]` -/
example : Genuine exCls 2 9 5 [20, 21, 22, 9, 9] := by
  constructor
  · intro n hn
    rcases n with _ | _ | _ | _ | _ | n <;> simp [exCls, tailCls] <;> omega
  · intro n hk hn
    have : n = 5 := by simp at hn; omega
    subst this
    simp [exCls, tailCls]

example : handler exCls (fun _ ts => ts) .ok 1 [0, 1, 2]
      [.data [20, 21, 22], .data [9], .data [9], .data [33, 34]] =
    [.setDeadline,
     .readData 3, .query 0 3 .tryAgain, .query 1 3 .tryAgain, .query 2 3 .tryAgain,
     .readData 1, .query 0 4 .notT, .query 1 4 .notT, .query 2 4 .tryAgain,
     .readData 1, .query 2 5 (.found 9 5),
     .clearDeadline, .markActive 9, .proxy 9 [33, 34], .ret] := by decide

/-! ### the real transports: the hypotheses are satisfiable -/

section RealExamples
open CJ.WrapCls

def rxTag : Bytes := List.replicate 64 9
def rxReg : CJ.Wrap.RegView := { ident := "aa", transport := 4, prefixParam := some (some 6), rid := 5 }
/-- a station that iterates the shipped table backwards; only `rxTag` reveals a registered identifier -/
def rxEnv : Env :=
  { regs := [rxReg], table := fun _ => CJ.Gen.prefixTable.reverse,
    reveal := fun w => if w = rxTag then some "aa" else none, marks := fun _ => [] }
/-- the TLS-alert prefix (id 6) of the shipped table -/
def rxE : CJ.Wrap.PrefixEntry := { id := 6, static := [21, 3, 1, 0, 2], offset := 5, minLen := 69, maxLen := 69 }
def rxFlight : Bytes := prefixFlight rxE [] rxTag [1, 2]

theorem rxStation : StationEnv rxEnv := fun _ e => by simp [rxEnv]

theorem rxMinUntagged : ∀ n, MinUntagged rxEnv.regs (rxFlight.take n) := by
  have key : ∀ m, m < 72 → rxReg.ident ≠ CJ.Wrap.toHex ((rxFlight.take m).take 32) := by decide
  intro n r hr
  simp only [rxEnv, List.mem_singleton] at hr
  subst hr
  by_cases h : n < 72
  · exact key n h
  · have : rxFlight.take n = rxFlight.take 71 := by
      rw [List.take_of_length_le (by decide : rxFlight.length ≤ 71), List.take_of_length_le]
      have : rxFlight.length = 71 := by decide
      omega
    rw [this]; exact key 71 (by omega)

/-- every hypothesis of `prefix_flight_recognised` discharged for a concrete station, client and
segmentation (tag split over two reads, early data partly in the tag's segment, more data later) -/
example : ∃ pre n, handler (cls rxEnv) (fun _ ts => ts.reverse) .ok 1 [.min, .prefix, .obfs4]
      ([[21, 3, 1, 0, 2] ++ rxTag.take 30, rxTag.drop 30 ++ [1, 2]].map Ev.data ++ [.data [3]]) =
        pre ++ [.query .prefix n (.found 5 69), .clearDeadline, .markActive 5, .proxy 5 [1, 2, 3], .ret] ∧
      ∀ a ∈ pre, a.passive = true := by
  have := prefix_flight_recognised rxEnv rxStation (fun _ ts => ts.reverse) (by intro i ts t; simp) rxE
    (by decide) [] rxTag [1, 2] rxReg rfl rfl (by decide) (by decide) rfl rfl
    (by intro n e' _ hne r' _; simp [rxEnv, hne]) rxMinUntagged (by intro n r _; simp [rxEnv])
    [.min, .prefix, .obfs4] (by simp) 1 (by omega)
    [[21, 3, 1, 0, 2] ++ rxTag.take 30, rxTag.drop 30 ++ [1, 2]] (by decide) [.data [3]]
  simpa [rxReg, rxE, dataOf] using this

/-- the same run computed by the model: the prefix transport answers try-again at 35 bytes, finds the
registration at 71, consumes 69; min has ruled itself out, obfs4 is never asked again -/
example : handler (cls rxEnv) (fun _ ts => ts.reverse) .ok 1 [.min, .prefix, .obfs4]
      [.data ([21, 3, 1, 0, 2] ++ rxTag.take 30), .data (rxTag.drop 30 ++ [1, 2]), .data [3]] =
    [.setDeadline,
     .readData 35, .query .obfs4 35 .tryAgain, .query .prefix 35 .tryAgain, .query .min 35 .notT,
     .readData 36, .query .prefix 71 (.found 5 69),
     .clearDeadline, .markActive 5, .proxy 5 [1, 2, 3], .ret] := by decide

/-- why `thresholds_sound` matters: the same entry with `maxLen` two bytes too large answers
not-transport at 69 and 70 buffered bytes, the station drops the transport and the flight is lost -/
example : cls { rxEnv with table := fun _ => [{ rxE with maxLen := 71 }] } .prefix (rxFlight.take 69) = .notT := by
  decide

end RealExamples

end CJ.Props.C04
