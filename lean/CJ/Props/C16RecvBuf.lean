import CJ.Model.RecvBuf
import CJ.Gen.C16RecvBuf
/-!
# C16 — receive side of `hbConn`: who owns the buffer between `recvLoop` and `Read`

Statements over `CJ.RecvBuf` (buffers as objects, the queue holds references) for **every** interleaving of stream
arrivals, hand-overs to the queue and reads, any queue depth, any message sizes, heartbeats anywhere; the
counter-model of a recycled ring (seed C16-11); and the source fact the first rests on.
-/
namespace CJ.Props.C16
open CJ.RecvBuf

/-- Fresh buffer per loop iteration: at every moment of every interleaving, what the reader has got so far, followed
    by what is queued and what the loop is still trying to hand over, is exactly the concatenation of the peer's
    non-heartbeat messages taken from the stream. -/
theorem fresh_buffer_read_is_concatenation (depth : Nat) (hb : List Nat) (evs : List Ev) :
    let s := run .fresh depth hb init evs
    s.out ++ (queued s ++ pend s) = s.taken :=
  (inv_run depth hb evs init inv_init).2.2

/-- … so the reader never sees a byte that is not the next byte of the peer's stream … -/
theorem fresh_buffer_read_is_prefix (depth : Nat) (hb : List Nat) (evs : List Ev) :
    (run .fresh depth hb init evs).out <+: (run .fresh depth hb init evs).taken :=
  ⟨_, fresh_buffer_read_is_concatenation depth hb evs⟩

/-- … and once it has caught up it has all of it. -/
theorem fresh_buffer_read_complete (depth : Nat) (hb : List Nat) (evs : List Ev)
    (hq : (run .fresh depth hb init evs).queue = []) (hp : (run .fresh depth hb init evs).pending = none) :
    (run .fresh depth hb init evs).out = (run .fresh depth hb init evs).taken := by
  have h := fresh_buffer_read_is_concatenation depth hb evs
  simp only [queued, pend, hq, hp] at h
  simpa using h

/-- the hypotheses of `fresh_buffer_read_complete` are satisfiable on a run that delivers something -/
example : let s := run .fresh 2 [9] init [.recv [1, 2], .recv [9], .send, .recv [9], .read]
    s.queue = [] ∧ s.pending = none ∧ s.out = [1, 2] := by decide

/-- the ghost `taken` is the concatenation of the non-heartbeat messages of the enabled `recv` events, whatever the policy -/
theorem taken_is_the_peers_data (pol : Policy) (depth : Nat) (hb : List Nat) (s : St) (e : Ev) :
    (step pol depth hb s e).taken =
      match e with
      | .recv m => if s.pending.isNone ∧ m ≠ hb then s.taken ++ m else s.taken
      | _ => s.taken :=
  taken_step pol depth hb s e

/-- Counter-model (seed C16-11 in small): a ring of 2 buffers behind a queue of depth 2.  Two messages are queued and
    unread, the third is read from the stream into the first buffer again, and the reader's first `Read` returns the
    third message's bytes: not a prefix of what the peer sent. -/
theorem ring_overwrites_unread_message :
    let s := run (.ring 2) 2 [9] init (lagScript 2)
    s.taken = [1, 2, 0] ∧ s.out = [0] ∧ ¬ (s.out <+: s.taken) := by decide

/-- the same script on fresh buffers delivers the first message -/
theorem fresh_buffers_survive_the_lag :
    (run .fresh 2 [9] init (lagScript 2)).out = [1] := by decide

set_option maxRecDepth 20000 in
/-- the ring at the size of the seed: 64 buffers, queue of 64 (the extracted capacity), reader lagging by 64 -/
theorem ring_of_queue_depth_overwrites :
    (run (.ring 64) 64 [200] init (lagScript 64)).out = [0] ∧
    (run .fresh 64 [200] init (lagScript 64)).out = [1] := by decide

/-- one buffer more than the queue is deep survives *this script* (the loop holds one message while the queue is full,
    so `depth + 1` messages are unread at once).  Not a safety claim for such a ring: the model's `read` takes the
    slice and copies it in one step, the real `Read` in two. -/
theorem ring_one_larger_survives_the_lag :
    (run (.ring 3) 2 [9] init (lagScript 2)).out = [1] := by decide

/-- Source fact: the buffer `recvLoop` hands to the queue is declared in the loop body, by a call of `make`, and is
    assigned nowhere else — the `Policy.fresh` of the model; and the queue is the depth-64 channel. -/
theorem receive_buffer_is_fresh_per_message :
    CJ.Gen.C16RecvBuf.buffer ≠ "" ∧ CJ.Gen.C16RecvBuf.declaredInLoopBody = true ∧
    CJ.Gen.C16RecvBuf.allocatedByMake = true ∧ CJ.Gen.C16RecvBuf.assignments = 1 ∧
    CJ.Gen.C16RecvBuf.sends.all (fun (p : String × String) => p.2 == CJ.Gen.C16RecvBuf.buffer) = true ∧
    CJ.Gen.C16RecvBuf.queueCaps.all (fun (c : Option Nat) => c == some 64) = true := by decide

end CJ.Props.C16
