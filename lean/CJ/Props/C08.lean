import CJ.Lemmas.Registry
/-!
# C08 — registrations expire on schedule: never early, never kept past their lifetime

Property theorems only.  `Reach c s` = `s` is the state after *any* sequence of registry operations
(track / register / duplicate / markActive / collect / remove / sweep / lookups) from the empty registry.
-/
open Std

namespace CJ.Props.C08
open CJ.Registry

/-- every state reachable by any history of operations -/
def Reach (c : Cfg) (s : St) : Prop := ∃ ops : List Op, s = run c ops

theorem reach_inv {c : Cfg} {s : St} (h : Reach c s) : Inv s := by
  obtain ⟨ops, rfl⟩ := h
  exact inv_run c ops init inv_init

/-- The age rule of the property: a record survives iff it is at most `unusedT` old, or used and at
most `activeT` old (the code expires on `age > limit`). -/
def alive (c : Cfg) (now : Nat) (t : TO) : Prop :=
  now - t.time ≤ c.activeT ∧ (t.used = true ∨ now - t.time ≤ c.unusedT)

theorem not_expired_iff_alive (c : Cfg) (now : Nat) (t : TO) :
    expired c now t = false ↔ alive c now t := by
  unfold expired alive
  cases hu : t.used <;> simp <;> omega

/-- **Exactness of the sweep**, for every history: after a clean-up sweep at `now` a registration is
still tracked iff it was tracked and its timeout record satisfies the age rule. -/
theorem sweep_exact (c : Cfg) (s : St) (hr : Reach c s) (now : Nat) (k : Key) :
    tracked (sweep c now s).1 k ↔ ∃ t, tracked s k ∧ s.timeouts[k]? = some t ∧ alive c now t := by
  have hi := reach_inv hr
  have h := sweep_get c now s hi k
  unfold tracked
  constructor
  · intro ht
    by_cases hx : ∃ t, s.timeouts[k]? = some t ∧ expired c now t = true
    · rw [if_pos hx] at h
      have := congrArg Prod.fst h
      simp only at this
      rw [HashMap.contains_eq_isSome_getElem?, this] at ht; cases ht
    · rw [if_neg hx] at h
      have hd := congrArg Prod.fst h
      simp only at hd
      have hk : s.decoys.contains k = true := by
        rw [HashMap.contains_eq_isSome_getElem?, ← hd, ← HashMap.contains_eq_isSome_getElem?]; exact ht
      have hk2 : s.timeouts.contains k = true := by rw [← hi k]; exact hk
      rw [HashMap.contains_eq_isSome_getElem?] at hk2
      cases ht' : s.timeouts[k]? with
      | none => rw [ht'] at hk2; cases hk2
      | some t =>
        refine ⟨t, hk, rfl, ?_⟩
        apply (not_expired_iff_alive c now t).mp
        cases he : expired c now t with
        | false => rfl
        | true => exact absurd ⟨t, ht', he⟩ hx
  · rintro ⟨t, hk, ht, ha⟩
    have hx : ¬ ∃ t, s.timeouts[k]? = some t ∧ expired c now t = true := by
      rintro ⟨t', ht', he⟩
      rw [ht] at ht'; cases ht'
      rw [(not_expired_iff_alive c now t).mpr ha] at he; cases he
    rw [if_neg hx] at h
    have hd := congrArg Prod.fst h
    simp only at hd
    rw [HashMap.contains_eq_isSome_getElem?, hd, ← HashMap.contains_eq_isSome_getElem?]; exact hk

/-- never early (unused): a tracked registration at most `unusedT` old survives the sweep -/
theorem never_early_unused (c : Cfg) (s : St) (hr : Reach c s) (now : Nat) (k : Key) (t : TO)
    (hk : tracked s k) (ht : s.timeouts[k]? = some t) (hle : c.unusedT ≤ c.activeT)
    (hage : now - t.time ≤ c.unusedT) : tracked (sweep c now s).1 k :=
  (sweep_exact c s hr now k).mpr ⟨t, hk, ht, by unfold alive; omega⟩

/-- never early (used): a tracked registration that carried a connection survives up to `activeT` -/
theorem never_early_used (c : Cfg) (s : St) (hr : Reach c s) (now : Nat) (k : Key) (t : TO)
    (hk : tracked s k) (ht : s.timeouts[k]? = some t) (hu : t.used = true)
    (hage : now - t.time ≤ c.activeT) : tracked (sweep c now s).1 k :=
  (sweep_exact c s hr now k).mpr ⟨t, hk, ht, by unfold alive; exact ⟨hage, Or.inl hu⟩⟩

/-- never kept: after a sweep every remaining record satisfies the age rule -/
theorem never_kept (c : Cfg) (s : St) (hr : Reach c s) (now : Nat) (k : Key) (t : TO)
    (ht : (sweep c now s).1.timeouts[k]? = some t) : alive c now t := by
  have hi := reach_inv hr
  have h := sweep_get c now s hi k
  by_cases hx : ∃ t, s.timeouts[k]? = some t ∧ expired c now t = true
  · rw [if_pos hx] at h
    have := congrArg Prod.snd h; simp only at this
    rw [this] at ht; cases ht
  · rw [if_neg hx] at h
    have := congrArg Prod.snd h; simp only at this
    rw [this] at ht
    apply (not_expired_iff_alive c now t).mp
    cases he : expired c now t with
    | false => rfl
    | true => exact absurd ⟨t, ht, he⟩ hx

/-- the two maps stay in step after any history and a sweep -/
theorem no_residue (c : Cfg) (s : St) (hr : Reach c s) (now : Nat) (k : Key) :
    (sweep c now s).1.decoys.contains k = (sweep c now s).1.timeouts.contains k :=
  inv_sweep c now s (reach_inv hr) k

/-- a registration returned by a lookup is tracked and valid -/
theorem lookup_sound (s : St) (p i : String) (h : i ∈ lookup s p) :
    ∃ r, s.decoys[(p, i)]? = some r ∧ r.valid = true := by
  unfold lookup at h
  simp only [List.mem_map, List.mem_filter] at h
  obtain ⟨⟨⟨p', i'⟩, r⟩, ⟨hm, hf⟩, rfl⟩ := h
  simp only [Bool.and_eq_true, beq_iff_eq] at hf
  obtain ⟨rfl, hv⟩ := hf
  exact ⟨r, HashMap.mem_toList_iff_getElem?_eq_some.mp hm, hv⟩

/-- forgotten entirely: a registration that is not tracked after the sweep has no residue in either
map, and no lookup returns it. -/
theorem forgotten_entirely (c : Cfg) (s : St) (hr : Reach c s) (now : Nat) (k : Key)
    (h : ¬ tracked (sweep c now s).1 k) :
    (sweep c now s).1.decoys[k]? = none ∧ (sweep c now s).1.timeouts[k]? = none ∧
      k.2 ∉ lookup (sweep c now s).1 k.1 := by
  unfold tracked at h
  have hd : (sweep c now s).1.decoys.contains k = false := by
    cases hc : (sweep c now s).1.decoys.contains k with
    | false => rfl
    | true => exact absurd hc h
  have ht : (sweep c now s).1.timeouts.contains k = false := by rw [← no_residue c s hr now k]; exact hd
  rw [HashMap.contains_eq_isSome_getElem?] at hd ht
  refine ⟨by simpa using hd, by simpa using ht, ?_⟩
  intro hl
  obtain ⟨r, hr1, _⟩ := lookup_sound _ k.1 k.2 hl
  have : (sweep c now s).1.decoys[k]? = some r := hr1
  rw [this] at hd; cases hd

/-- expired registrations stop matching: whatever a lookup returns after a sweep is tracked, valid,
and its timeout record satisfies the age rule. -/
theorem expired_not_matched (c : Cfg) (s : St) (hr : Reach c s) (now : Nat) (p i : String)
    (h : i ∈ lookup (sweep c now s).1 p) :
    ∃ r t, (sweep c now s).1.decoys[(p, i)]? = some r ∧ r.valid = true ∧
      (sweep c now s).1.timeouts[(p, i)]? = some t ∧ alive c now t := by
  obtain ⟨r, hr1, hv⟩ := lookup_sound _ p i h
  have hc := contains_of_getElem? _ _ _ hr1
  rw [no_residue c s hr now (p, i), HashMap.contains_eq_isSome_getElem?] at hc
  cases ht : (sweep c now s).1.timeouts[(p, i)]? with
  | none => rw [ht] at hc; cases hc
  | some t => exact ⟨r, t, hr1, hv, rfl, never_kept c s hr now (p, i) t ht⟩

/-- bounded by the registration rate: every record left after a sweep at `now` was created within
the last `activeT` time units. -/
theorem bounded_by_rate (c : Cfg) (s : St) (hr : Reach c s) (now : Nat) (k : Key) (t : TO)
    (ht : (sweep c now s).1.timeouts[k]? = some t) : now - t.time ≤ c.activeT :=
  (never_kept c s hr now k t ht).1

/-! ### non-vacuity: the hypotheses are met by a concrete reachable state -/

def cfg0 : Cfg := { unusedT := 600, activeT := 21600, enabled := [0, 1, 2] }
def hist0 : List Op := [.register ("10.0.0.1", "idMin") 0 0]

example : Reach cfg0 (run cfg0 hist0) := ⟨hist0, rfl⟩
example : tracked (run cfg0 hist0) ("10.0.0.1", "idMin") ∧
    (run cfg0 hist0).timeouts[("10.0.0.1", "idMin")]? = some ⟨0, false⟩ ∧ 300 - 0 ≤ cfg0.unusedT := by
  simp [run, hist0, step, register, cfg0, init, tracked]

/-! ### the timeout record in terms of the history: creation time is fixed at first tracking, the
used flag is raised only by a connection (`markActive`) — so "age" in `sweep_exact` is the time since
the registration was first tracked in its current lifetime, and duplicates do not refresh it. -/

/-- a registration that is not tracked gets its record stamped `now`, unused, when it is first
tracked (by `track` or by `register`) -/
theorem first_track_stamps (c : Cfg) (s : St) (k : Key) (tr now : Nat)
    (hen : c.enabled.contains tr = true) (hnew : s.decoys[k]? = none) :
    (track c s k tr now).1.timeouts[k]? = some ⟨now, false⟩ ∧
    (register c s k tr now).1.timeouts[k]? = some ⟨now, false⟩ := by
  have hen' : tr ∈ c.enabled := by simpa using hen
  constructor
  · rw [track_timeouts_get]; simp [hen', hnew]
  · rw [register_timeouts_get]; simp [hen', hnew]

/-- within a lifetime no operation — duplicates, validations, connections, lookups, sweeps that keep
it — changes the creation time, and the used flag only ever goes up -/
theorem record_stable (c : Cfg) (s : St) (op : Op) (k : Key) (t t' : TO) (hi : Inv s)
    (h : s.timeouts[k]? = some t) (h' : (step c s op).1.timeouts[k]? = some t') :
    t'.time = t.time ∧ (t.used = true → t'.used = true) := by
  have htr : s.decoys.contains k = true := by rw [hi k]; exact contains_of_getElem? _ _ _ h
  have hdk : s.decoys[k]? ≠ none := by
    rw [HashMap.contains_eq_isSome_getElem?] at htr
    intro e; rw [e] at htr; cases htr
  cases op with
  | track k0 tr now =>
    have : (track c s k0 tr now).1.timeouts[k]? = some t' := h'
    rw [track_timeouts_get] at this
    by_cases e : k0 = k ∧ c.enabled.contains tr = true ∧ s.decoys[k0]? = none
    · obtain ⟨rfl, _, hn⟩ := e; exact absurd hn hdk
    · simp only [e, if_false] at this; rw [h] at this; cases this; exact ⟨rfl, id⟩
  | register k0 tr now =>
    have : (register c s k0 tr now).1.timeouts[k]? = some t' := h'
    rw [register_timeouts_get] at this
    by_cases e : k0 = k ∧ c.enabled.contains tr = true ∧ s.decoys[k0]? = none
    · obtain ⟨rfl, _, hn⟩ := e; exact absurd hn hdk
    · simp only [e, if_false] at this; rw [h] at this; cases this; exact ⟨rfl, id⟩
  | markActive k0 tr =>
    have : (markActive c s k0 tr).1.timeouts[k]? = some t' := h'
    rw [markActive_timeouts_get] at this
    by_cases e : k0 = k ∧ c.enabled.contains tr = true
    · obtain ⟨rfl, _⟩ := e
      simp only [*, and_self, if_true, Option.map_some, Option.some.injEq] at this
      subst this; exact ⟨rfl, fun _ => rfl⟩
    · simp only [e, if_false] at this; rw [h] at this; cases this; exact ⟨rfl, id⟩
  | collect now => have : s.timeouts[k]? = some t' := h'; rw [h] at this; cases this; exact ⟨rfl, id⟩
  | remove k0 now =>
    have : (remove c now s k0).1.timeouts[k]? = some t' := h'
    rcases remove_timeouts_get c now s k0 k with e | e
    · rw [e, h] at this; cases this; exact ⟨rfl, id⟩
    · rw [e] at this; cases this
  | sweep now =>
    have : (sweep c now s).1.timeouts[k]? = some t' := h'
    rw [sweep_fst] at this
    rcases removeAllS_timeouts_get c now _ s k with e | e
    · rw [e, h] at this; cases this; exact ⟨rfl, id⟩
    · rw [e] at this; cases this
  | lookup p => have : s.timeouts[k]? = some t' := h'; rw [h] at this; cases this; exact ⟨rfl, id⟩
  | exists_ k0 tr => have : s.timeouts[k]? = some t' := h'; rw [h] at this; cases this; exact ⟨rfl, id⟩
  | count p => have : s.timeouts[k]? = some t' := h'; rw [h] at this; cases this; exact ⟨rfl, id⟩
  | total => have : s.timeouts[k]? = some t' := h'; rw [h] at this; cases this; exact ⟨rfl, id⟩

/-- the used flag is raised only by a connection on that very registration -/
theorem used_only_by_connection (c : Cfg) (s : St) (op : Op) (k : Key) (t t' : TO) (hi : Inv s)
    (h : s.timeouts[k]? = some t) (h' : (step c s op).1.timeouts[k]? = some t')
    (hu : t.used = false) (hu' : t'.used = true) : ∃ tr, op = .markActive k tr := by
  have htr : s.decoys.contains k = true := by rw [hi k]; exact contains_of_getElem? _ _ _ h
  have hdk : s.decoys[k]? ≠ none := by
    rw [HashMap.contains_eq_isSome_getElem?] at htr
    intro e; rw [e] at htr; cases htr
  have same : (step c s op).1.timeouts[k]? = s.timeouts[k]? → False := by
    intro e; rw [e, h] at h'; cases h'; rw [hu] at hu'; cases hu'
  cases op with
  | markActive k0 tr =>
    by_cases e : k0 = k
    · subst e; exact ⟨tr, rfl⟩
    · exfalso; apply same
      show (markActive c s k0 tr).1.timeouts[k]? = _
      rw [markActive_timeouts_get]; simp [e]
  | track k0 tr now =>
    exfalso; apply same
    show (track c s k0 tr now).1.timeouts[k]? = _
    rw [track_timeouts_get]
    by_cases e : k0 = k ∧ c.enabled.contains tr = true ∧ s.decoys[k0]? = none
    · obtain ⟨rfl, _, hn⟩ := e; exact absurd hn hdk
    · simp only [e, if_false]
  | register k0 tr now =>
    exfalso; apply same
    show (register c s k0 tr now).1.timeouts[k]? = _
    rw [register_timeouts_get]
    by_cases e : k0 = k ∧ c.enabled.contains tr = true ∧ s.decoys[k0]? = none
    · obtain ⟨rfl, _, hn⟩ := e; exact absurd hn hdk
    · simp only [e, if_false]
  | collect now => exact absurd rfl same
  | remove k0 now =>
    exfalso
    rcases remove_timeouts_get c now s k0 k with e | e
    · exact same e
    · have : (remove c now s k0).1.timeouts[k]? = some t' := h'
      rw [e] at this; cases this
  | sweep now =>
    exfalso
    have h2 : (sweep c now s).1.timeouts[k]? = some t' := h'
    rw [sweep_fst] at h2
    rcases removeAllS_timeouts_get c now _ s k with e | e
    · apply same; show (sweep c now s).1.timeouts[k]? = _; rw [sweep_fst]; exact e
    · rw [e] at h2; cases h2
  | lookup p => exact absurd rfl same
  | exists_ k0 tr => exact absurd rfl same
  | count p => exact absurd rfl same
  | total => exact absurd rfl same

end CJ.Props.C08
