import CJ.Lemmas.RegistrySpec
import CJ.Lemmas.RegistryBuckets
import CJ.Lemmas.RegistryX
import CJ.Gen.RegistryConsts
import CJ.Gen.SweepTicker
import CJ.Gen.ExpiryShape
import CJ.Gen.ConnActivation
/-!
# C08 — registrations expire on schedule: never early, never kept past their lifetime

Property theorems only.  `Reach c s` = `s` is the state after *any* sequence of registry operations
(track / register / duplicate / markActive / collect / remove / sweep / lookups) from the empty registry.
-/
open Std

namespace CJ.Props.C08
open CJ.Registry

/-- every state reachable by any history of operations -/
def Reach (c : Cfg) (s : St) : Prop := ∃ ops : List Op, s = run c ops

theorem reach_inv {c : Cfg} {s : St} (h : Reach c s) : Inv s := by
  obtain ⟨ops, rfl⟩ := h
  exact inv_run c ops init inv_init

/-- The age rule of the property: a record survives iff it is at most `unusedT` old, or used and at
most `activeT` old (the code expires on `age > limit`). -/
def alive (c : Cfg) (now : Nat) (t : TO) : Prop :=
  now - t.time ≤ c.activeT ∧ (t.used = true ∨ now - t.time ≤ c.unusedT)

theorem not_expired_iff_alive (c : Cfg) (now : Nat) (t : TO) :
    expired c now t = false ↔ alive c now t := by
  unfold expired alive
  cases hu : t.used <;> simp <;> omega

/-- **Exactness of the sweep**, for every history: after a clean-up sweep at `now` a registration is
still tracked iff it was tracked and its timeout record satisfies the age rule. -/
theorem sweep_exact (c : Cfg) (s : St) (hr : Reach c s) (now : Nat) (k : Key) :
    tracked (sweep c now s).1 k ↔ ∃ t, tracked s k ∧ s.timeouts[k]? = some t ∧ alive c now t := by
  have hi := reach_inv hr
  have h := sweep_get c now s hi k
  unfold tracked
  constructor
  · intro ht
    by_cases hx : ∃ t, s.timeouts[k]? = some t ∧ expired c now t = true
    · rw [if_pos hx] at h
      have := congrArg Prod.fst h
      simp only at this
      rw [HashMap.contains_eq_isSome_getElem?, this] at ht; cases ht
    · rw [if_neg hx] at h
      have hd := congrArg Prod.fst h
      simp only at hd
      have hk : s.decoys.contains k = true := by
        rw [HashMap.contains_eq_isSome_getElem?, ← hd, ← HashMap.contains_eq_isSome_getElem?]; exact ht
      have hk2 : s.timeouts.contains k = true := by rw [← hi k]; exact hk
      rw [HashMap.contains_eq_isSome_getElem?] at hk2
      cases ht' : s.timeouts[k]? with
      | none => rw [ht'] at hk2; cases hk2
      | some t =>
        refine ⟨t, hk, rfl, ?_⟩
        apply (not_expired_iff_alive c now t).mp
        cases he : expired c now t with
        | false => rfl
        | true => exact absurd ⟨t, ht', he⟩ hx
  · rintro ⟨t, hk, ht, ha⟩
    have hx : ¬ ∃ t, s.timeouts[k]? = some t ∧ expired c now t = true := by
      rintro ⟨t', ht', he⟩
      rw [ht] at ht'; cases ht'
      rw [(not_expired_iff_alive c now t).mpr ha] at he; cases he
    rw [if_neg hx] at h
    have hd := congrArg Prod.fst h
    simp only at hd
    rw [HashMap.contains_eq_isSome_getElem?, hd, ← HashMap.contains_eq_isSome_getElem?]; exact hk

/-- never early (unused): a tracked registration at most `unusedT` old survives the sweep -/
theorem never_early_unused (c : Cfg) (s : St) (hr : Reach c s) (now : Nat) (k : Key) (t : TO)
    (hk : tracked s k) (ht : s.timeouts[k]? = some t) (hle : c.unusedT ≤ c.activeT)
    (hage : now - t.time ≤ c.unusedT) : tracked (sweep c now s).1 k :=
  (sweep_exact c s hr now k).mpr ⟨t, hk, ht, by unfold alive; omega⟩

/-- never early (used): a tracked registration that carried a connection survives up to `activeT` -/
theorem never_early_used (c : Cfg) (s : St) (hr : Reach c s) (now : Nat) (k : Key) (t : TO)
    (hk : tracked s k) (ht : s.timeouts[k]? = some t) (hu : t.used = true)
    (hage : now - t.time ≤ c.activeT) : tracked (sweep c now s).1 k :=
  (sweep_exact c s hr now k).mpr ⟨t, hk, ht, by unfold alive; exact ⟨hage, Or.inl hu⟩⟩

/-- never kept: after a sweep every remaining record satisfies the age rule -/
theorem never_kept (c : Cfg) (s : St) (hr : Reach c s) (now : Nat) (k : Key) (t : TO)
    (ht : (sweep c now s).1.timeouts[k]? = some t) : alive c now t := by
  have hi := reach_inv hr
  have h := sweep_get c now s hi k
  by_cases hx : ∃ t, s.timeouts[k]? = some t ∧ expired c now t = true
  · rw [if_pos hx] at h
    have := congrArg Prod.snd h; simp only at this
    rw [this] at ht; cases ht
  · rw [if_neg hx] at h
    have := congrArg Prod.snd h; simp only at this
    rw [this] at ht
    apply (not_expired_iff_alive c now t).mp
    cases he : expired c now t with
    | false => rfl
    | true => exact absurd ⟨t, ht, he⟩ hx

/-- the two maps stay in step after any history and a sweep -/
theorem no_residue (c : Cfg) (s : St) (hr : Reach c s) (now : Nat) (k : Key) :
    (sweep c now s).1.decoys.contains k = (sweep c now s).1.timeouts.contains k :=
  inv_sweep c now s (reach_inv hr) k

/-- a registration returned by a lookup is tracked and valid -/
theorem lookup_sound (s : St) (p i : String) (h : i ∈ lookup s p) :
    ∃ r, s.decoys[(p, i)]? = some r ∧ r.valid = true := by
  unfold lookup at h
  simp only [List.mem_map, List.mem_filter] at h
  obtain ⟨⟨⟨p', i'⟩, r⟩, ⟨hm, hf⟩, rfl⟩ := h
  simp only [Bool.and_eq_true, beq_iff_eq] at hf
  obtain ⟨rfl, hv⟩ := hf
  exact ⟨r, HashMap.mem_toList_iff_getElem?_eq_some.mp hm, hv⟩

/-- forgotten entirely: a registration that is not tracked after the sweep has no residue in either
map, and no lookup returns it. -/
theorem forgotten_entirely (c : Cfg) (s : St) (hr : Reach c s) (now : Nat) (k : Key)
    (h : ¬ tracked (sweep c now s).1 k) :
    (sweep c now s).1.decoys[k]? = none ∧ (sweep c now s).1.timeouts[k]? = none ∧
      k.2 ∉ lookup (sweep c now s).1 k.1 := by
  unfold tracked at h
  have hd : (sweep c now s).1.decoys.contains k = false := by
    cases hc : (sweep c now s).1.decoys.contains k with
    | false => rfl
    | true => exact absurd hc h
  have ht : (sweep c now s).1.timeouts.contains k = false := by rw [← no_residue c s hr now k]; exact hd
  rw [HashMap.contains_eq_isSome_getElem?] at hd ht
  refine ⟨by simpa using hd, by simpa using ht, ?_⟩
  intro hl
  obtain ⟨r, hr1, _⟩ := lookup_sound _ k.1 k.2 hl
  have : (sweep c now s).1.decoys[k]? = some r := hr1
  rw [this] at hd; cases hd

/-- expired registrations stop matching: whatever a lookup returns after a sweep is tracked, valid,
and its timeout record satisfies the age rule. -/
theorem expired_not_matched (c : Cfg) (s : St) (hr : Reach c s) (now : Nat) (p i : String)
    (h : i ∈ lookup (sweep c now s).1 p) :
    ∃ r t, (sweep c now s).1.decoys[(p, i)]? = some r ∧ r.valid = true ∧
      (sweep c now s).1.timeouts[(p, i)]? = some t ∧ alive c now t := by
  obtain ⟨r, hr1, hv⟩ := lookup_sound _ p i h
  have hc := contains_of_getElem? _ _ _ hr1
  rw [no_residue c s hr now (p, i), HashMap.contains_eq_isSome_getElem?] at hc
  cases ht : (sweep c now s).1.timeouts[(p, i)]? with
  | none => rw [ht] at hc; cases hc
  | some t => exact ⟨r, t, hr1, hv, rfl, never_kept c s hr now (p, i) t ht⟩

/-- bounded by the registration rate: every record left after a sweep at `now` was created within
the last `activeT` time units. -/
theorem bounded_by_rate (c : Cfg) (s : St) (hr : Reach c s) (now : Nat) (k : Key) (t : TO)
    (ht : (sweep c now s).1.timeouts[k]? = some t) : now - t.time ≤ c.activeT :=
  (never_kept c s hr now k t ht).1

/-! ### non-vacuity: the hypotheses are met by a concrete reachable state -/

def cfg0 : Cfg := { unusedT := 600, activeT := 21600, enabled := [0, 1, 2] }
def hist0 : List Op := [.register ("10.0.0.1", "idMin") 0 0]

example : Reach cfg0 (run cfg0 hist0) := ⟨hist0, rfl⟩
example : tracked (run cfg0 hist0) ("10.0.0.1", "idMin") ∧
    (run cfg0 hist0).timeouts[("10.0.0.1", "idMin")]? = some ⟨0, false⟩ ∧ 300 - 0 ≤ cfg0.unusedT := by
  simp [run, hist0, step, register, cfg0, init, tracked]

/-! ### the timeout record in terms of the history: creation time is fixed at first tracking, the
used flag is raised only by a connection (`markActive`) — so "age" in `sweep_exact` is the time since
the registration was first tracked in its current lifetime, and duplicates do not refresh it. -/

/-- a registration that is not tracked gets its record stamped `now`, unused, when it is first
tracked (by `track` or by `register`) -/
theorem first_track_stamps (c : Cfg) (s : St) (k : Key) (tr now : Nat)
    (hen : c.enabled.contains tr = true) (hnew : s.decoys[k]? = none) :
    (track c s k tr now).1.timeouts[k]? = some ⟨now, false⟩ ∧
    (register c s k tr now).1.timeouts[k]? = some ⟨now, false⟩ := by
  have hen' : tr ∈ c.enabled := by simpa using hen
  constructor
  · rw [track_timeouts_get]; simp [hen', hnew]
  · rw [register_timeouts_get]; simp [hen', hnew]

/-- within a lifetime no operation — duplicates, validations, connections, lookups, sweeps that keep
it — changes the creation time, and the used flag only ever goes up -/
theorem record_stable (c : Cfg) (s : St) (op : Op) (k : Key) (t t' : TO) (hi : Inv s)
    (h : s.timeouts[k]? = some t) (h' : (step c s op).1.timeouts[k]? = some t') :
    t'.time = t.time ∧ (t.used = true → t'.used = true) := by
  have htr : s.decoys.contains k = true := by rw [hi k]; exact contains_of_getElem? _ _ _ h
  have hdk : s.decoys[k]? ≠ none := by
    rw [HashMap.contains_eq_isSome_getElem?] at htr
    intro e; rw [e] at htr; cases htr
  cases op with
  | track k0 tr now =>
    have : (track c s k0 tr now).1.timeouts[k]? = some t' := h'
    rw [track_timeouts_get] at this
    by_cases e : k0 = k ∧ c.enabled.contains tr = true ∧ s.decoys[k0]? = none
    · obtain ⟨rfl, _, hn⟩ := e; exact absurd hn hdk
    · simp only [e, if_false] at this; rw [h] at this; cases this; exact ⟨rfl, id⟩
  | register k0 tr now =>
    have : (register c s k0 tr now).1.timeouts[k]? = some t' := h'
    rw [register_timeouts_get] at this
    by_cases e : k0 = k ∧ c.enabled.contains tr = true ∧ s.decoys[k0]? = none
    · obtain ⟨rfl, _, hn⟩ := e; exact absurd hn hdk
    · simp only [e, if_false] at this; rw [h] at this; cases this; exact ⟨rfl, id⟩
  | markActive k0 tr =>
    have : (markActive c s k0 tr).1.timeouts[k]? = some t' := h'
    rw [markActive_timeouts_get] at this
    by_cases e : k0 = k ∧ c.enabled.contains tr = true
    · obtain ⟨rfl, _⟩ := e
      simp only [*, and_self, if_true, Option.map_some, Option.some.injEq] at this
      subst this; exact ⟨rfl, fun _ => rfl⟩
    · simp only [e, if_false] at this; rw [h] at this; cases this; exact ⟨rfl, id⟩
  | collect now => have : s.timeouts[k]? = some t' := h'; rw [h] at this; cases this; exact ⟨rfl, id⟩
  | remove k0 now =>
    have : (remove c now s k0).1.timeouts[k]? = some t' := h'
    rcases remove_timeouts_get c now s k0 k with e | e
    · rw [e, h] at this; cases this; exact ⟨rfl, id⟩
    · rw [e] at this; cases this
  | sweep now =>
    have : (sweep c now s).1.timeouts[k]? = some t' := h'
    rw [sweep_fst] at this
    rcases removeAllS_timeouts_get c now _ s k with e | e
    · rw [e, h] at this; cases this; exact ⟨rfl, id⟩
    · rw [e] at this; cases this
  | lookup p => have : s.timeouts[k]? = some t' := h'; rw [h] at this; cases this; exact ⟨rfl, id⟩
  | exists_ k0 tr => have : s.timeouts[k]? = some t' := h'; rw [h] at this; cases this; exact ⟨rfl, id⟩
  | count p => have : s.timeouts[k]? = some t' := h'; rw [h] at this; cases this; exact ⟨rfl, id⟩
  | total => have : s.timeouts[k]? = some t' := h'; rw [h] at this; cases this; exact ⟨rfl, id⟩

/-- the used flag is raised only by a connection on that very registration -/
theorem used_only_by_connection (c : Cfg) (s : St) (op : Op) (k : Key) (t t' : TO) (hi : Inv s)
    (h : s.timeouts[k]? = some t) (h' : (step c s op).1.timeouts[k]? = some t')
    (hu : t.used = false) (hu' : t'.used = true) : ∃ tr, op = .markActive k tr := by
  have htr : s.decoys.contains k = true := by rw [hi k]; exact contains_of_getElem? _ _ _ h
  have hdk : s.decoys[k]? ≠ none := by
    rw [HashMap.contains_eq_isSome_getElem?] at htr
    intro e; rw [e] at htr; cases htr
  have same : (step c s op).1.timeouts[k]? = s.timeouts[k]? → False := by
    intro e; rw [e, h] at h'; cases h'; rw [hu] at hu'; cases hu'
  cases op with
  | markActive k0 tr =>
    by_cases e : k0 = k
    · subst e; exact ⟨tr, rfl⟩
    · exfalso; apply same
      show (markActive c s k0 tr).1.timeouts[k]? = _
      rw [markActive_timeouts_get]; simp [e]
  | track k0 tr now =>
    exfalso; apply same
    show (track c s k0 tr now).1.timeouts[k]? = _
    rw [track_timeouts_get]
    by_cases e : k0 = k ∧ c.enabled.contains tr = true ∧ s.decoys[k0]? = none
    · obtain ⟨rfl, _, hn⟩ := e; exact absurd hn hdk
    · simp only [e, if_false]
  | register k0 tr now =>
    exfalso; apply same
    show (register c s k0 tr now).1.timeouts[k]? = _
    rw [register_timeouts_get]
    by_cases e : k0 = k ∧ c.enabled.contains tr = true ∧ s.decoys[k0]? = none
    · obtain ⟨rfl, _, hn⟩ := e; exact absurd hn hdk
    · simp only [e, if_false]
  | collect now => exact absurd rfl same
  | remove k0 now =>
    exfalso
    rcases remove_timeouts_get c now s k0 k with e | e
    · exact same e
    · have : (remove c now s k0).1.timeouts[k]? = some t' := h'
      rw [e] at this; cases this
  | sweep now =>
    exfalso
    have h2 : (sweep c now s).1.timeouts[k]? = some t' := h'
    rw [sweep_fst] at h2
    rcases removeAllS_timeouts_get c now _ s k with e | e
    · apply same; show (sweep c now s).1.timeouts[k]? = _; rw [sweep_fst]; exact e
    · rw [e] at h2; cases h2
  | lookup p => exact absurd rfl same
  | exists_ k0 tr => exact absurd rfl same
  | count p => exact absurd rfl same
  | total => exact absurd rfl same


/-! ### what a connection does (not only who may do it) -/

/-- a connection on a tracked registration of an enabled transport DOES raise the used flag and
leaves the creation time alone — if `markActive` were the identity this would fail -/
theorem markActive_sets_used (c : Cfg) (s : St) (k : Key) (tr : Nat) (t : TO)
    (hen : c.enabled.contains tr = true) (ht : s.timeouts[k]? = some t) :
    (markActive c s k tr).1.timeouts[k]? = some { t with used := true } ∧ (markActive c s k tr).2 = .upd := by
  have hen' : tr ∈ c.enabled := by simpa using hen
  constructor
  · rw [markActive_timeouts_get]; simp [hen', ht]
  · unfold markActive; simp [hen', ht]

/-- hence a used registration survives every sweep up to the active lifetime: register, connect, and
any sweep at an age of at most `activeT` keeps it (for every earlier history) -/
theorem connected_survives (c : Cfg) (s : St) (hr : Reach c s) (k : Key) (tr now : Nat) (t : TO)
    (hen : c.enabled.contains tr = true) (ht : s.timeouts[k]? = some t) (hage : now - t.time ≤ c.activeT) :
    tracked (sweep c now (markActive c s k tr).1).1 k := by
  obtain ⟨ops, rfl⟩ := hr
  have hr' : Reach c (markActive c (run c ops) k tr).1 :=
    ⟨ops ++ [.markActive k tr], by simp [run, List.foldl_append, step]⟩
  have hk : tracked (markActive c (run c ops) k tr).1 k := by
    unfold tracked
    rw [markActive_decoys, inv_run c ops init inv_init k]
    exact contains_of_getElem? _ _ _ ht
  exact never_early_used c _ hr' now k _ hk (markActive_sets_used c _ k tr t hen ht).1 rfl hage

/-! ### the lifetimes are the property's: 10 minutes and 6 hours (regenerated from the code) -/

/-- the lifetimes a fresh `RegisteredDecoys` uses, and the package defaults the detector is told, are
exactly 10 minutes and 6 hours -/
theorem limits_are_the_propertys :
    CJ.Gen.regUnusedNs = 10 * 60 * 1000000000 ∧ CJ.Gen.regActiveNs = 6 * 3600 * 1000000000 ∧
    CJ.Gen.regDefaultUnusedNs = CJ.Gen.regUnusedNs ∧ CJ.Gen.regDefaultActiveNs = CJ.Gen.regActiveNs := by
  decide

/-- the shipped configuration, in nanoseconds / in the harness's seconds -/
def shippedNs (enabled : List Nat) : Cfg := { unusedT := CJ.Gen.regUnusedNs, activeT := CJ.Gen.regActiveNs, enabled := enabled }
def shippedS (enabled : List Nat) : Cfg :=
  { unusedT := CJ.Gen.regUnusedNs / 1000000000, activeT := CJ.Gen.regActiveNs / 1000000000, enabled := enabled }

theorem shipped_limits_ordered (en : List Nat) :
    (shippedNs en).unusedT ≤ (shippedNs en).activeT ∧ (shippedS en).unusedT ≤ (shippedS en).activeT ∧
    (shippedS en).unusedT = 600 ∧ (shippedS en).activeT = 21600 := by
  refine ⟨?_, ?_, ?_, ?_⟩ <;> (simp only [shippedNs, shippedS]; decide)

/-- never early (unused) for the shipped lifetimes: no side condition left -/
theorem never_early_unused_shipped (en : List Nat) (s : St) (hr : Reach (shippedS en) s) (now : Nat) (k : Key)
    (t : TO) (hk : tracked s k) (ht : s.timeouts[k]? = some t) (hage : now - t.time ≤ 600) :
    tracked (sweep (shippedS en) now s).1 k :=
  never_early_unused (shippedS en) s hr now k t hk ht (shipped_limits_ordered en).2.1
    (by rw [(shipped_limits_ordered en).2.2.1]; exact hage)

/-- sweeps do happen: `main` runs a goroutine whose ticker loop calls `RemoveOldRegistrations()` each
time it fires, with a positive period (regenerated go/ast fact; the period itself — 3 minutes today —
is not part of the property and is not pinned) -/
theorem sweep_is_scheduled : ∃ p ∈ CJ.Gen.sweepTickerPeriodsNs, 0 < p := by
  decide

/-! ### refinement: the record the code keeps is the abstract record of the history -/

/-- **Refinement** (`abs (step s op) = specStep (abs s) op`, lifted to histories): after ANY history
from the empty registry the timeout record of `k` is `spec c ops k` — `none` if `k` is not in a
lifetime, else the time of the `track` / `register` that started the current lifetime (duplicates do
not refresh it) and whether a connection was seen since — and `k` is tracked iff that record exists. -/
theorem refines_spec (c : Cfg) (ops : List Op) (k : Key) :
    (run c ops).timeouts[k]? = spec c ops k ∧ (tracked (run c ops) k ↔ (spec c ops k).isSome = true) := by
  refine ⟨run_timeouts_eq_spec c ops k, ?_⟩
  unfold tracked
  rw [run_tracked_iff_spec]

/-- `sweep_exact` over histories: after any history and a sweep at `now`, `k` is tracked iff the
history put it into a lifetime whose abstract record satisfies the age rule. -/
theorem sweep_exact_spec (c : Cfg) (ops : List Op) (now : Nat) (k : Key) :
    tracked (sweep c now (run c ops)).1 k ↔ ∃ t, spec c ops k = some t ∧ alive c now t := by
  rw [sweep_exact c (run c ops) ⟨ops, rfl⟩ now k]
  constructor
  · rintro ⟨t, _, ht, ha⟩
    exact ⟨t, by rw [← run_timeouts_eq_spec]; exact ht, ha⟩
  · rintro ⟨t, ht, ha⟩
    refine ⟨t, ?_, by rw [run_timeouts_eq_spec]; exact ht, ha⟩
    rw [(refines_spec c ops k).2, ht]; rfl

/-- the age in the rule is the time since an operation of the history that tracked / registered this
very key with an enabled transport -/
theorem lifetime_starts_at_an_operation (c : Cfg) (ops : List Op) (k : Key) (t : TO)
    (h : spec c ops k = some t) : ∃ op ∈ ops, startsAt c k t.time op = true :=
  spec_created_by c k ops t h

/-! ### bounded by the registration rate, as a count -/

def opKey : Op → Key
  | .track k _ _ => k
  | .register k _ _ => k
  | _ => ("", "")

/-- operations that can have started a lifetime which a sweep at `now` keeps: `track` / `register`
of an enabled transport no more than `activeT` ago -/
def recentStart (c : Cfg) (now : Nat) : Op → Bool
  | .track _ tr t => c.enabled.contains tr && decide (now - t ≤ c.activeT)
  | .register _ tr t => c.enabled.contains tr && decide (now - t ≤ c.activeT)
  | _ => false

theorem startsAt_recent (c : Cfg) (k : Key) (t now : Nat) (op : Op) (h : startsAt c k t op = true)
    (hage : now - t ≤ c.activeT) : opKey op = k ∧ recentStart c now op = true := by
  cases op with
  | track k' tr t' =>
    simp only [startsAt, Bool.and_eq_true, decide_eq_true_eq] at h
    obtain ⟨⟨rfl, hen⟩, rfl⟩ := h
    exact ⟨rfl, by simp only [recentStart, hen, Bool.true_and, decide_eq_true_eq]; exact hage⟩
  | register k' tr t' =>
    simp only [startsAt, Bool.and_eq_true, decide_eq_true_eq] at h
    obtain ⟨⟨rfl, hen⟩, rfl⟩ := h
    exact ⟨rfl, by simp only [recentStart, hen, Bool.true_and, decide_eq_true_eq]; exact hage⟩
  | markActive _ _ => simp [startsAt] at h
  | collect _ => simp [startsAt] at h
  | remove _ _ => simp [startsAt] at h
  | sweep _ => simp [startsAt] at h
  | lookup _ => simp [startsAt] at h
  | exists_ _ _ => simp [startsAt] at h
  | count _ => simp [startsAt] at h
  | total => simp [startsAt] at h

/-- **Tracked state is bounded by the registration rate**: after any history and a sweep at `now`
the number of tracked registrations is at most the number of `track` / `register` operations of the
last `activeT` time units — whatever happened before, however many duplicates, connections, sweeps. -/
theorem bounded_by_rate_count (c : Cfg) (ops : List Op) (now : Nat) :
    (sweep c now (run c ops)).1.decoys.size ≤ (ops.filter (recentStart c now)).length := by
  rw [← HashMap.length_keys, ← List.length_map (f := opKey) (as := ops.filter (recentStart c now))]
  apply List.Nodup.length_le_of_subset HashMap.nodup_keys
  intro k hk
  have hc : (sweep c now (run c ops)).1.decoys.contains k = true :=
    HashMap.contains_iff_mem.mpr (HashMap.mem_keys.mp hk)
  obtain ⟨t, ht, ha⟩ := (sweep_exact_spec c ops now k).mp hc
  obtain ⟨op, hop, hs⟩ := spec_created_by c k ops t ht
  obtain ⟨hkey, hrec⟩ := startsAt_recent c k t.time now op hs ha.1
  exact List.mem_map.mpr ⟨op, List.mem_filter.mpr ⟨hop, hrec⟩, hkey⟩

/-- the two maps have the same number of entries in every reachable state (not only the same keys) -/
theorem sizes_equal (c : Cfg) (s : St) (hr : Reach c s) : s.decoys.size = s.timeouts.size := by
  have hi := reach_inv hr
  rw [← HashMap.length_keys, ← HashMap.length_keys]
  apply Nat.le_antisymm
  · apply List.Nodup.length_le_of_subset HashMap.nodup_keys
    intro k hk
    have := HashMap.contains_iff_mem.mpr (HashMap.mem_keys.mp hk)
    exact HashMap.mem_keys.mpr (HashMap.contains_iff_mem.mp (by rw [← hi k]; exact this))
  · apply List.Nodup.length_le_of_subset HashMap.nodup_keys
    intro k hk
    have := HashMap.contains_iff_mem.mpr (HashMap.mem_keys.mp hk)
    exact HashMap.mem_keys.mpr (HashMap.contains_iff_mem.mp (by rw [hi k]; exact this))

/-- … so the timeout records are bounded in the same way -/
theorem bounded_by_rate_count_timeouts (c : Cfg) (ops : List Op) (now : Nat) :
    (sweep c now (run c ops)).1.timeouts.size ≤ (ops.filter (recentStart c now)).length := by
  rw [← sizes_equal c _ ⟨ops ++ [.sweep now], by simp [run, List.foldl_append, step]⟩]
  exact bounded_by_rate_count c ops now

/-! ### forgotten entirely includes the per-phantom bucket of the nested Go map -/

/-- after any history the stored per-phantom buckets (outer level of `decoys[phantom][identifier]`,
created by `track`, deleted by `removeRegistration` when the inner map becomes empty) are exactly
the phantoms that have a tracked registration: no empty bucket is ever left behind, none is missing,
none is stored twice; and the registry part of the bucketed model is the registry model. -/
theorem buckets_exact (c : Cfg) (ops : List Op) :
    (brun c ops).st = run c ops ∧ (brun c ops).buckets.Nodup ∧
    ∀ p, p ∈ (brun c ops).buckets ↔ ∃ i, tracked (run c ops) (p, i) := by
  have hb := binv_brun c ops binit binv_init
  have hs : (brun c ops).st = run c ops := brun_st c ops binit
  refine ⟨hs, hb.1, ?_⟩
  intro p
  rw [hb.2 p, hs]
  rfl

/-- in particular, once a sweep has expired every registration of a phantom, nothing of that phantom
is left — not even the empty inner map -/
theorem no_empty_bucket_after_sweep (c : Cfg) (ops : List Op) (now : Nat) (p : String)
    (h : ∀ i, ¬ tracked (sweep c now (run c ops)).1 (p, i)) :
    p ∉ (brun c (ops ++ [.sweep now])).buckets := by
  intro hp
  obtain ⟨i, hi⟩ := ((buckets_exact c (ops ++ [.sweep now])).2.2 p).mp hp
  apply h i
  have : run c (ops ++ [.sweep now]) = (sweep c now (run c ops)).1 := by
    simp [run, List.foldl_append, step]
  rw [this] at hi
  exact hi

/-- and the number of buckets never exceeds the number of tracked registrations -/
theorem buckets_bounded (c : Cfg) (ops : List Op) :
    (brun c ops).buckets.length ≤ (run c ops).decoys.size := by
  obtain ⟨_, hn, hm⟩ := buckets_exact c ops
  rw [← HashMap.length_keys, ← List.length_map (f := Prod.fst) (as := (run c ops).decoys.keys)]
  apply List.Nodup.length_le_of_subset hn
  intro p hp
  obtain ⟨i, hi⟩ := (hm p).mp hp
  exact List.mem_map.mpr ⟨(p, i), HashMap.mem_keys.mpr (HashMap.contains_iff_mem.mp hi), rfl⟩

example : spec cfg0 [.register ("10.0.0.1", "idMin") 0 5, .track ("10.0.0.1", "idMin") 0 60,
    .markActive ("10.0.0.1", "idMin") 0, .sweep 700] ("10.0.0.1", "idMin") = some ⟨5, true⟩ := by decide
example : (brun cfg0 hist0).buckets = ["10.0.0.1"] := by
  simp [brun, hist0, bstep, register, cfg0, binit, creates, addBucket]

/-! ### a sweep that is interrupted between collection and removal

`removeOldRegistrations` collects the expired indices under the read lock and removes them afterwards,
one write-lock acquisition each; connection handlers and ingest workers run in between.  `s1` below is
the state the removal loop finds, `ks` the list collected earlier. -/

/-- **Exactness of the removal loop on the state it finds**: a registration is gone after the loop iff
it was in the collected list AND its record is expired in the state the loop runs on — the decision is
made again at removal time, not taken over from collection time. -/
theorem split_sweep_exact (c : Cfg) (s1 : St) (hi : Inv s1) (now : Nat) (ks : List Key) (k : Key) :
    tracked (removeAllS c now ks s1) k ↔
      tracked s1 k ∧ ¬ (k ∈ ks ∧ ∃ t, s1.timeouts[k]? = some t ∧ expired c now t = true) := by
  have h := removeAllS_get c now ks s1 hi k
  unfold tracked
  by_cases hx : k ∈ ks ∧ ∃ t, s1.timeouts[k]? = some t ∧ expired c now t = true
  · rw [if_pos hx] at h
    have hd : (removeAllS c now ks s1).decoys[k]? = none := congrArg Prod.fst h
    rw [not_contains_of_getElem? _ _ hd]
    constructor
    · intro e; cases e
    · rintro ⟨_, hn⟩; exact absurd hx hn
  · rw [if_neg hx] at h
    have hd : (removeAllS c now ks s1).decoys[k]? = s1.decoys[k]? := congrArg Prod.fst h
    rw [HashMap.contains_eq_isSome_getElem?, hd, ← HashMap.contains_eq_isSome_getElem?]
    exact ⟨fun e => ⟨e, hx⟩, fun e => e.1⟩

/-- never early under interruption: whatever happened since the collection and whatever was collected,
a registration whose record satisfies the age rule when the removal loop runs is kept -/
theorem split_sweep_never_early (c : Cfg) (s1 : St) (hi : Inv s1) (now : Nat) (ks : List Key) (k : Key) (t : TO)
    (hk : tracked s1 k) (ht : s1.timeouts[k]? = some t) (ha : alive c now t) :
    tracked (removeAllS c now ks s1) k := by
  refine (split_sweep_exact c s1 hi now ks k).mpr ⟨hk, ?_⟩
  rintro ⟨_, t', ht', he⟩
  rw [ht] at ht'; cases ht'
  rw [(not_expired_iff_alive c now t).mpr ha] at he; cases he

/-- in particular **a connection that is matched after the registration was collected as expired keeps
it** (any history before, any enabled transport, the registration younger than the active lifetime) -/
theorem interrupted_by_connection_survives (c : Cfg) (s0 : St) (hr : Reach c s0) (now : Nat) (k : Key)
    (tr : Nat) (t : TO) (hen : c.enabled.contains tr = true) (hk : tracked s0 k)
    (ht : s0.timeouts[k]? = some t) (hage : now - t.time ≤ c.activeT) :
    tracked (removeAllS c now (collect c now s0) (markActive c s0 k tr).1) k := by
  have hi : Inv (markActive c s0 k tr).1 := inv_markActive c s0 k tr (reach_inv hr)
  have hk' : tracked (markActive c s0 k tr).1 k := by
    unfold tracked at *; rw [markActive_decoys]; exact hk
  exact split_sweep_never_early c _ hi now _ k _ hk' (markActive_sets_used c s0 k tr t hen ht).1
    ⟨hage, Or.inl rfl⟩

/-- never kept under interruption: a registration that was expired when the sweep collected and is
still expired when the loop runs (nothing in between — any operations `mid` — made it alive) is forgotten -/
theorem split_sweep_never_kept (c : Cfg) (s0 : St) (hr : Reach c s0) (mid : List Op) (now : Nat) (k : Key)
    (t0 t1 : TO) (h0 : s0.timeouts[k]? = some t0) (he0 : expired c now t0 = true)
    (h1 : (run c mid s0).timeouts[k]? = some t1) (he1 : expired c now t1 = true) :
    ¬ tracked (removeAllS c now (collect c now s0) (run c mid s0)) k := by
  have hi : Inv (run c mid s0) := inv_run c mid s0 (reach_inv hr)
  intro h
  exact ((split_sweep_exact c _ hi now _ k).mp h).2
    ⟨(mem_collect c now s0 k).mpr ⟨t0, h0, he0⟩, t1, h1, he1⟩

/-! ### extended histories: objects delivered again, tunnels, bursts, interrupted sweeps -/

/-- whatever else happens around the registry — objects delivered with any prior `Valid` flag, tunnels
opened and closed, bursts of any size, sweeps interrupted between collection and removal — the registry
is in a state that a history of base operations reaches, so every theorem of this file applies to it -/
theorem x_reach (c : Cfg) (xops : List XOp) : Reach c (xrun c xops).b.st := by
  obtain ⟨ops, h⟩ := xrun_is_brun c xops xinit
  exact ⟨ops, by rw [h]; exact brun_st c ops binit⟩

/-- … for instance exactness of the next sweep -/
theorem x_sweep_exact (c : Cfg) (xops : List XOp) (now : Nat) (k : Key) :
    tracked (sweep c now (xrun c xops).b.st).1 k ↔
      ∃ t, tracked (xrun c xops).b.st k ∧ (xrun c xops).b.st.timeouts[k]? = some t ∧ alive c now t :=
  sweep_exact c _ (x_reach c xops) now k

/-- … and the buckets of the nested map -/
theorem x_buckets_exact (c : Cfg) (xops : List XOp) (p : String) :
    p ∈ (xrun c xops).b.buckets ↔ ∃ i, tracked (xrun c xops).b.st (p, i) := by
  obtain ⟨ops, h⟩ := xrun_is_brun c xops xinit
  rw [h]
  exact (binv_brun c ops binit binv_init).2 p

/-- **Tunnels have no say in expiry**: a history with its `tunnel` / `tunnelEnd` operations removed
leaves the same registry, the same buckets and the same sweep in progress — a registration that carries
(or carried) any number of tunnels expires exactly like one that does not. -/
theorem tunnels_have_no_say (c : Cfg) (xops : List XOp) :
    (xrun c (xops.filter fun o => !o.isTunnel)).b = (xrun c xops).b ∧
    (xrun c (xops.filter fun o => !o.isTunnel)).pending = (xrun c xops).pending := by
  have h := xrun_filter_tunnels c xops xinit xinit rfl
  exact ⟨congrArg Prod.fst h, congrArg Prod.snd h⟩

/-- **The `Valid` flag an object carries when it is delivered is ignored** -/
theorem prior_validity_ignored (c : Cfg) (xops : List XOp) :
    xrun c (xops.map XOp.erasePrior) = xrun c xops :=
  xrun_erasePrior c xops xinit

/-- an object that starts a lifetime — whatever its flag was, e.g. validated in an earlier lifetime —
is stored unvalidated, seen once, with a fresh unused record, and no lookup returns it -/
theorem retracked_starts_unvalidated (c : Cfg) (x : XSt) (k : Key) (tr now : Nat) (prior : Bool)
    (hen : c.enabled.contains tr = true) (hnew : x.b.st.decoys[k]? = none) :
    (xstep c x (.trackObj k tr now prior)).1.b.st.decoys[k]? = some ⟨tr, false, 1⟩ ∧
    (xstep c x (.trackObj k tr now prior)).1.b.st.timeouts[k]? = some ⟨now, false⟩ ∧
    k.2 ∉ lookup (xstep c x (.trackObj k tr now prior)).1.b.st k.1 := by
  have hs : (xstep c x (.trackObj k tr now prior)).1.b.st = (track c x.b.st k tr now).1 := rfl
  have hen' : tr ∈ c.enabled := by simpa using hen
  have hd : (track c x.b.st k tr now).1.decoys[k]? = some ⟨tr, false, 1⟩ := by
    unfold track; simp [hen', hnew]
  rw [hs]
  refine ⟨hd, (first_track_stamps c x.b.st k tr now hen hnew).1, ?_⟩
  intro hl
  obtain ⟨r, hr1, hv⟩ := lookup_sound _ k.1 k.2 hl
  have : (track c x.b.st k tr now).1.decoys[k]? = some r := hr1
  rw [hd] at this; cases this; cases hv

/-- the last piece of an interrupted sweep is the removal loop over the collected indices that have not
been handled yet, run on the state it finds -/
theorem sweepEnd_state (c : Cfg) (x : XSt) (p : Pending) (h : x.pending = some p) :
    (xstep c x .sweepEnd).1.b.st = removeAllS c p.now p.todo x.b.st := by
  have e : (xstep c x .sweepEnd).1.b = (bremoveAll c p.now p.todo x.b).1 := by
    simp only [xstep, h]
  rw [e]
  have h1 := (bremoveAll_fst c p.now p.todo x.b 0).1
  simp only [bremoveAll] at h1 ⊢
  rw [h1]
  exact removeAll_fst c p.now p.todo x.b.st 0

/-- a piece in the middle handles the named indices that are still to do, in the order given — which
order Go's map iteration produced does not matter for what is tracked afterwards (`split_sweep_exact`
speaks about membership only) -/
theorem sweepSome_state (c : Cfg) (x : XSt) (p : Pending) (ks : List Key) (h : x.pending = some p) :
    (xstep c x (.sweepSome ks)).1.b.st = removeAllS c p.now (ks.filter p.todo.contains) x.b.st := by
  have e : (xstep c x (.sweepSome ks)).1.b = (bremoveAll c p.now (ks.filter p.todo.contains) x.b).1 := by
    simp only [xstep, h]
  rw [e]
  have h1 := (bremoveAll_fst c p.now (ks.filter p.todo.contains) x.b 0).1
  simp only [bremoveAll] at h1 ⊢
  rw [h1]
  exact removeAll_fst c p.now _ x.b.st 0

/-- a burst is the list of its base operations -/
theorem bulk_is_history (c : Cfg) (x : XSt) (kind : Nat) (p pre : String) (start n tr now : Nat) :
    (xstep c x (.bulk kind p pre start n tr now)).1.b = brun c (bulkOps kind p pre start n tr now) x.b :=
  xstep_b c x _

/-! non-vacuity of the hypotheses above -/
example : (xstep cfg0 xinit (.trackObj ("10.0.0.1", "a") 0 5 true)).1.b.st.decoys[("10.0.0.1", "a")]? =
    some ⟨0, false, 1⟩ :=
  (retracked_starts_unvalidated cfg0 xinit _ 0 5 true (by decide) (by simp [xinit])).1
example : tracked (removeAllS cfg0 700 (collect cfg0 700 (run cfg0 hist0))
    (markActive cfg0 (run cfg0 hist0) ("10.0.0.1", "idMin") 0).1) ("10.0.0.1", "idMin") :=
  interrupted_by_connection_survives cfg0 _ ⟨hist0, rfl⟩ 700 _ 0 ⟨0, false⟩ (by decide)
    (by simp [run, hist0, step, register, cfg0, init, tracked])
    (by simp [run, hist0, step, register, cfg0, init]) (by decide)

/-! ### the shape of the sweep code (go/ast facts, regenerated from the tree under test on every run)

The model's `expired` looks at the used flag, the creation time and the two lifetimes; `collect` looks at
every record; `remove` re-evaluates `expired` before it deletes; `track` stamps the creation time once and
`markActive` alone raises the used flag.  The harness tests this on the histories it generates; the facts
below tie the same statements to the source text, so that a dependency on something the histories do not
vary (another field of the registration, a counter, a cap on the work of one sweep) is noticed. -/

/-- `isExpired` reads the record's status and creation time, the two lifetimes and the clock — nothing
else (no other field of the registration or of the registry) -/
theorem expiry_reads_only_record_and_limits :
    CJ.Gen.expiryDecisionReads =
      [".registrationTime", ".status", ".timeoutActive", ".timeoutUnused", "regStatusUnused", "time.Since"] := by
  decide +kernel

/-- neither the collection nor the removal loop of a sweep can stop early: every record is looked at,
every collected index is handed to `removeRegistration` -/
theorem sweep_never_leaves_early :
    CJ.Gen.skipGuards.lookup "getExpiredRegistrations" = some [] ∧
    CJ.Gen.skipGuards.lookup "removeOldRegistrations" = some [] := by
  decide +kernel

/-- `removeRegistration` can decline to delete for two reasons only — the record is gone or `isExpired`
(evaluated again, under the write lock, before the first delete) says no; the second guard (the
registration object is missing) reads nothing but a local -/
theorem removal_rechecks_expiry_under_the_lock :
    CJ.Gen.skipGuards.lookup "removeRegistration" = some [[".isExpired"], []] ∧
    CJ.Gen.removeRechecksBeforeDelete = true := by
  decide +kernel

/-- the creation time of a record is written once, in the record `track` creates; the used flag is
initialised there and raised by `markActive` only -/
theorem record_written_at_creation_and_connection_only :
    CJ.Gen.fieldWriters.filter (fun w => w.1 == "registrationTime" || w.1 == "status") =
      [("registrationTime", "track", "literal time.Now()"), ("status", "markActive", "assign = regStatusUsed"),
       ("status", "track", "literal regStatusUnused")] := by
  decide +kernel

/-- the two maps are written by `track` (three stores: bucket, registration, timeout record) and by
`removeRegistration` (three deletes: timeout record, registration, emptied bucket) only -/
theorem registry_maps_written_by_track_and_remove_only :
    CJ.Gen.registryMapWrites =
      [("decoys", "removeRegistration", "delete inner"), ("decoys", "removeRegistration", "delete"),
       ("decoys", "track", "assign"), ("decoys", "track", "assign"),
       ("decoysTimeouts", "removeRegistration", "delete"), ("decoysTimeouts", "track", "assign")] := by
  decide +kernel

/-- every acquisition of the registry lock waits (`Lock` / `RLock`): none is a `Try*` that could refuse and
let the caller go on without having done its work — in particular the sweep's collection takes the read
lock, its removal and a connection's `markActive` the write lock.  (The harness puts stand-ins inside the
lock while these arrive; the model's operations are atomic.) -/
theorem registry_lock_never_refuses :
    (CJ.Gen.registryLockAcquisitions.all fun a =>
      a.2 == "Lock" || a.2 == "RLock" || a.2 == "Unlock" || a.2 == "RUnlock") = true ∧
    CJ.Gen.registryLockAcquisitions.filter (fun a =>
      a.1 == "getExpiredRegistrations" || a.1 == "removeRegistration" || a.1 == "markActive") =
      [("getExpiredRegistrations", "RLock"), ("getExpiredRegistrations", "RUnlock"), ("markActive", "Lock"),
       ("markActive", "Unlock"), ("removeRegistration", "Lock"), ("removeRegistration", "Unlock")] := by
  decide +kernel

/-! ### when the station says "this registration has carried a connection" (go/ast facts over
`handleNewTCPConn`, regenerated on every run)

`Proxy` blocks for the whole session.  The histories of the harness contain `markActive` at the moment a
connection is matched; the facts below tie that to the handler: MarkActive is called as soon as a
transport has identified the registration, before the session — so a registration whose first session
is still open is a used one for every sweep in between. -/

def connKey (e : String) : Bool :=
  e.startsWith "WrapConnection" || e.startsWith "MarkActive" || e.startsWith "Proxy" || e.startsWith "break readLoop"

/-- in source order: the transport's WrapConnection, then MarkActive, then the one `break readLoop`, all
inside the two loops; then Proxy, outside them — each exactly once; and between MarkActive and Proxy
nothing returns, blocks or branches elsewhere -/
theorem connection_marked_before_the_session :
    CJ.Gen.connHandlerEvents.filter connKey = ["WrapConnection@2", "MarkActive@2", "break readLoop@2", "Proxy@0"] ∧
    (CJ.Gen.connHandlerEvents.dropWhile (· != "MarkActive@2")) = ["MarkActive@2", "break readLoop@2", "Proxy@0"] := by
  decide +kernel

/-- after the last early exit of the block that identifies the registration nothing blocks and nothing can
leave before MarkActive (clearing the deadline and two log lines), and the block ends by leaving the read
loop; the first statement after the loop is Proxy, and MarkActive is not called after it -/
theorem activation_is_unconditional_and_first :
    CJ.Gen.connActivationTail = ["=", "=clientConn.SetDeadline()", "if", "logger.SetPrefix()", "logger.Debugf()",
      "regManager.MarkActive()", "cm.checkToFound()", "break readLoop"] ∧
    CJ.Gen.connAfterLoop = ["cj.Proxy()", "cj.Stat().CloseConn()"] := by
  decide +kernel

end CJ.Props.C08
