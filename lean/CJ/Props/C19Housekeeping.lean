import CJ.Model.Housekeeping
import CJ.Gen.C19Housekeeping
/-! C19, "accepted configurations run housekeeping safely", made precise over what exists in the source:
which periodic jobs there are (`housekeeping_loops_known`: the 5 s printer, the 60 s verbose printer, the 3 min
expiry sweep — and nothing else: no caller of `ClearExpiredCache`, none of `Stop`), and that no interleaving of
their runs with the statements of reloads can make one of them panic (`housekeeping_under_reloads`): the fields
the printers / resets touch and the fields `OnReload` assigns are disjoint (`printer_fields_untouched_by_reload`,
go/ast), so whatever the printers need in order not to panic survives every reload statement. -/
namespace CJ.Props.C19
open CJ.Housekeeping CJ.Gen.C19Housekeeping

/-- the periodic jobs of the station: exactly three ticker loops, each with one known job -/
theorem housekeeping_loops_known :
    loops = [⟨5, .rangeC, [.printStats false]⟩, ⟨60, .rangeC, [.printStats true]⟩, ⟨180, .selectDone, [.removeOld]⟩] := by
  decide

/-- every tick job and every loop shape was understood by the extractor -/
theorem housekeeping_jobs_understood : ∀ l ∈ loops, l.kind ≠ .other ∧ l.periodSec ≠ 0 ∧ ∀ j ∈ l.jobs, j ≠ .other := by
  decide

/-- the liveness caches are never swept and the tester is never stopped: `ClearExpiredCache` and `Stop` have no
caller, so neither can panic (or block on the channel nobody receives from) in an accepted configuration -/
theorem no_cache_sweep_no_stop : cleanupCallers = 0 ∧ stopCallers = 0 := by decide

/-- no field a printer / reset touches is assigned by `OnReload` -/
theorem printer_fields_untouched_by_reload : ∀ i ∈ printerFields, i ∉ reloadWritten := by decide

/-- frame: a step that writes only fields outside `fp` leaves every memory in agreement on `fp` -/
theorem writesWithin_agree (fpP fpR : List Nat) (hdis : ∀ i ∈ fpP, i ∉ fpR) (r : Step) (hr : WritesWithin fpR r)
    (m m1 : Mem) (h : r m = some m1) : agree fpP m m1 :=
  fun i hi => (hr m m1 h i (hdis i hi)).symm

/-- **every interleaving**: let `Inv` be whatever the periodic jobs need in order not to panic (it speaks about the
printers' fields only) and keep; let the reload statements never panic and write only reload fields, disjoint from
the printers'.  Then every schedule of printer runs and reload statements, in any order and number, runs to the
end without panic, and `Inv` holds afterwards. -/
theorem schedule_no_panic (fpP fpR : List Nat) (hdis : ∀ i ∈ fpP, i ∉ fpR) (Inv : Mem → Prop)
    (hlocal : ∀ m m', agree fpP m m' → Inv m → Inv m') (printers reloads : List Step)
    (hP : ∀ p ∈ printers, ∀ m, Inv m → ∃ m1, p m = some m1 ∧ Inv m1)
    (hR : ∀ r ∈ reloads, WritesWithin fpR r ∧ ∀ m, ∃ m1, r m = some m1) :
    ∀ sched : List Step, (∀ s ∈ sched, s ∈ printers ∨ s ∈ reloads) → ∀ m, Inv m →
      ∃ m1, runAll sched m = some m1 ∧ Inv m1 := by
  intro sched
  induction sched with
  | nil => intro _ m hm; exact ⟨m, rfl, hm⟩
  | cons s ss ih =>
    intro hs m hm
    have ih' := ih (fun x hx => hs x (List.mem_cons_of_mem _ hx))
    rcases hs s (List.mem_cons_self ..) with hp | hr
    · obtain ⟨m1, h1, hi1⟩ := hP s hp m hm
      obtain ⟨m2, h2, hi2⟩ := ih' m1 hi1
      exact ⟨m2, by simp [runAll, h1, h2], hi2⟩
    · obtain ⟨hw, hn⟩ := hR s hr
      obtain ⟨m1, h1⟩ := hn m
      have hi1 : Inv m1 := hlocal m m1 (writesWithin_agree fpP fpR hdis s hw m m1 h1) hm
      obtain ⟨m2, h2, hi2⟩ := ih' m1 hi1
      exact ⟨m2, by simp [runAll, h1, h2], hi2⟩

/-- the same with the field sets read off the source -/
theorem housekeeping_under_reloads (Inv : Mem → Prop)
    (hlocal : ∀ m m', agree printerFields m m' → Inv m → Inv m') (printers reloads : List Step)
    (hP : ∀ p ∈ printers, ∀ m, Inv m → ∃ m1, p m = some m1 ∧ Inv m1)
    (hR : ∀ r ∈ reloads, WritesWithin reloadWritten r ∧ ∀ m, ∃ m1, r m = some m1) :
    ∀ sched : List Step, (∀ s ∈ sched, s ∈ printers ∨ s ∈ reloads) → ∀ m, Inv m →
      ∃ m1, runAll sched m = some m1 ∧ Inv m1 :=
  schedule_no_panic printerFields reloadWritten printer_fields_untouched_by_reload Inv hlocal printers reloads hP hR

/-- the hypotheses are satisfiable: a printer that needs field 9 (`activeConns`) to be non-zero… and keeps it, a
reload statement that assigns field 4 (`GeoIP`) -/
example : ∃ (Inv : Mem → Prop) (p r : Step), (∀ m m', agree printerFields m m' → Inv m → Inv m') ∧
    (∀ m, Inv m → ∃ m1, p m = some m1 ∧ Inv m1) ∧ (WritesWithin reloadWritten r ∧ ∀ m, ∃ m1, r m = some m1) ∧
    Inv (fun _ => 1) := by
  refine ⟨fun m => m 9 ≠ 0, fun m => if m 9 = 0 then none else some m, fun m => some (fun i => if i = 4 then 7 else m i),
    ?_, ?_, ⟨?_, fun m => ⟨_, rfl⟩⟩, by simp⟩
  · intro m m' h hm
    have : m 9 = m' 9 := h 9 (by decide)
    rw [← this]; exact hm
  · intro m hm; exact ⟨m, by simp [hm], hm⟩
  · intro m m1 h i hi
    simp at h; subst h
    have : i ≠ 4 := fun e => hi (by subst e; decide)
    simp [this]

/-- counter-model: were a printer's field assigned by a reload statement, an interleaving would panic — the
printer needs the field non-zero, the reload statement zeroes it for a moment -/
theorem shared_field_interleaving_panics :
    ∃ (p r : Step) (m : Mem), (∃ m1, p m = some m1) ∧ (∀ m, ∃ m1, r m = some m1) ∧ runAll [r, p] m = none :=
  ⟨fun m => if m 0 = 0 then none else some m, fun m => some (fun i => if i = 0 then 0 else m i), fun _ => 1,
    ⟨_, rfl⟩, fun _ => ⟨_, rfl⟩, rfl⟩

end CJ.Props.C19
